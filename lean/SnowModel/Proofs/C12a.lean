/-
C12 helper lemmas, part a: the linear-congruential "shuffled range" generator.
-/
import SnowModel.Core.RandRange
import Mathlib.Tactic.Ring
import Mathlib.Tactic.Linarith
import Mathlib.Algebra.Order.Ring.Nat
import Mathlib.Data.Nat.ModEq
import Mathlib.Data.Nat.Prime.Basic
import Mathlib.Data.List.Iterate
import Mathlib.Data.List.Perm.Basic
import Mathlib.Data.List.Perm.Subperm
import Mathlib.Data.List.Nodup
import Mathlib.Data.List.Range
import Mathlib.Logic.Function.Iterate

namespace SnowModel.Proofs.C12
open SnowModel.RandRange

/-! ### Number theory: 2-adic valuation of a geometric sum -/

/-- geometric sum 1 + a + ... + a^(n-1) -/
def geo (a : Nat) : Nat → Nat
  | 0 => 0
  | n+1 => geo a n + a ^ n

theorem geo_add (a m n : Nat) : geo a (m + n) = geo a m + a ^ m * geo a n := by
  induction n with
  | zero => simp [geo]
  | succ n ih =>
    rw [← Nat.add_assoc, geo, ih, geo]; ring

theorem geo_succ' (a n : Nat) : geo a (n + 1) = 1 + a * geo a n := by
  rw [Nat.add_comm n 1, geo_add]; simp [geo]

theorem geo_two_mul (a n : Nat) : geo a (2 * n) = geo a n * (1 + a ^ n) := by
  rw [two_mul, geo_add]; ring

theorem pow_mod4 (a n : Nat) (h : a % 4 = 1) : a ^ n % 4 = 1 := by
  induction n with
  | zero => simp
  | succ n ih => rw [pow_succ, Nat.mul_mod, ih, h]

theorem geo_mod2 (a n : Nat) (h : a % 4 = 1) : geo a n % 2 = n % 2 := by
  induction n with
  | zero => simp [geo]
  | succ n ih =>
    have := pow_mod4 a n h
    rw [geo]; omega

theorem two_pow_dvd_geo (a : Nat) (h : a % 4 = 1) :
    ∀ n k : Nat, 0 < n → (2 ^ k ∣ geo a n ↔ 2 ^ k ∣ n) := by
  intro n
  induction n using Nat.strong_induction_on with
  | _ n ih =>
    intro k hn
    rcases Nat.even_or_odd' n with ⟨m, rfl | rfl⟩
    · -- n = 2m
      have hm : 0 < m := by omega
      cases k with
      | zero => simp
      | succ k =>
        have h1 : (1 + a ^ m) % 4 = 2 := by have := pow_mod4 a m h; omega
        obtain ⟨q, hq⟩ : ∃ q, 1 + a ^ m = 2 * (2 * q + 1) := ⟨(1 + a^m) / 4, by omega⟩
        rw [geo_two_mul, hq, pow_succ]
        have e1 : geo a m * (2 * (2 * q + 1)) = (geo a m * (2 * q + 1)) * 2 := by ring
        have e2 : 2 * m = m * 2 := by ring
        rw [e1, e2, Nat.mul_dvd_mul_iff_right (by norm_num), Nat.mul_dvd_mul_iff_right (by norm_num)]
        rw [← ih m (by omega) k hm]
        have hc : Nat.Coprime (2 ^ k) (2 * q + 1) := by
          apply Nat.Coprime.pow_left
          exact Nat.coprime_two_left.mpr ⟨q, rfl⟩
        exact ⟨fun hd => hc.dvd_of_dvd_mul_right hd, fun hd => Dvd.dvd.mul_right hd _⟩
    · -- n odd
      have hg := geo_mod2 a (2 * m + 1) h
      cases k with
      | zero => simp
      | succ k =>
        constructor
        · intro hd
          have : 2 ∣ geo a (2 * m + 1) := Dvd.dvd.trans ⟨2 ^ k, by ring⟩ hd
          omega
        · intro hd
          have : 2 ∣ 2 * m + 1 := Dvd.dvd.trans ⟨2 ^ k, by ring⟩ hd
          omega

/-- `(b+1)^n = 1 + b * (1 + (b+1) + … + (b+1)^(n-1))` -/
theorem pow_eq_geo (b n : Nat) : (b + 1) ^ n = 1 + b * geo (b + 1) n := by
  induction n with
  | zero => simp [geo]
  | succ n ih => rw [geo, pow_succ, ih]; ring

/-! ### The abstract LCG `x ↦ (x * (4q+1) + (2e+1)) % 2^k` -/

/-- closed form of the iterates modulo `m` -/
theorem lcg_closed (a c m : Nat) (x : Nat) (n : Nat) :
    (fun v => (v * a + c) % m)^[n] x ≡ a ^ n * x + c * geo a n [MOD m] := by
  induction n with
  | zero => simp [geo]; exact Nat.ModEq.refl _
  | succ n ih =>
    rw [Function.iterate_succ_apply']
    have h1 : ((fun v => (v * a + c) % m)^[n] x * a + c) % m
        ≡ (fun v => (v * a + c) % m)^[n] x * a + c [MOD m] := Nat.mod_modEq _ _
    refine h1.trans ?_
    have h2 := (ih.mul_right a).add_right c
    refine h2.trans ?_
    rw [geo_succ', pow_succ]
    have : (a ^ n * x + c * geo a n) * a + c = a ^ n * a * x + c * (1 + a * geo a n) := by ring
    rw [this]

/-- A point that returns to itself after `d > 0` steps forces `2^k ∣ d`. -/
theorem lcg_period (q e k : Nat) (y d : Nat) (hd : 0 < d)
    (h : (fun v => (v * (4 * q + 1) + (2 * e + 1)) % 2 ^ k)^[d] y = y) : 2 ^ k ∣ d := by
  have hc := lcg_closed (4 * q + 1) (2 * e + 1) (2 ^ k) y d
  rw [h, pow_eq_geo (4 * q) d] at hc
  have e1 : (1 + 4 * q * geo (4 * q + 1) d) * y + (2 * e + 1) * geo (4 * q + 1) d
      = y + geo (4 * q + 1) d * (2 * (2 * q * y + e) + 1) := by ring
  rw [e1] at hc
  have hc' : 0 + y ≡ geo (4 * q + 1) d * (2 * (2 * q * y + e) + 1) + y [MOD 2 ^ k] := by
    rw [Nat.zero_add, Nat.add_comm _ y]; exact hc
  have hz := Nat.ModEq.add_right_cancel' y hc'
  have hdvd : 2 ^ k ∣ geo (4 * q + 1) d * (2 * (2 * q * y + e) + 1) :=
    (Nat.modEq_zero_iff_dvd).1 hz.symm
  have hcop : Nat.Coprime (2 ^ k) (2 * (2 * q * y + e) + 1) := by
    apply Nat.Coprime.pow_left
    exact Nat.coprime_two_left.mpr ⟨_, rfl⟩
  have := hcop.dvd_of_dvd_mul_right hdvd
  exact (two_pow_dvd_geo (4 * q + 1) (by omega) d k hd).1 this

theorem lcg_iter_lt (a c m x : Nat) (hx : x < m) (n : Nat) :
    (fun v => (v * a + c) % m)^[n] x < m := by
  cases n with
  | zero => simpa
  | succ n =>
    rw [Function.iterate_succ_apply']
    exact Nat.mod_lt _ (by omega)

/-- Full period (Hull–Dobell, power-of-two modulus): the first `2^k` iterates are distinct. -/
theorem lcg_orbit_nodup (q e k x : Nat) :
    (List.iterate (fun v => (v * (4 * q + 1) + (2 * e + 1)) % 2 ^ k) x (2 ^ k)).Nodup := by
  rw [List.nodup_iff_injective_get]
  intro ⟨i, hi⟩ ⟨j, hj⟩ hij
  simp only [List.get_eq_getElem, List.getElem_iterate] at hij
  simp only [List.length_iterate] at hi hj
  ext
  simp only
  -- wlog i ≤ j
  have key : ∀ i j : Nat, i ≤ j → j < 2 ^ k →
      (fun v => (v * (4 * q + 1) + (2 * e + 1)) % 2 ^ k)^[i] x
        = (fun v => (v * (4 * q + 1) + (2 * e + 1)) % 2 ^ k)^[j] x → i = j := by
    intro i j hle hj h
    by_contra hne
    have hd : 0 < j - i := by omega
    have hji : j = (j - i) + i := by omega
    rw [hji, Function.iterate_add_apply] at h
    have := lcg_period q e k _ (j - i) hd h.symm
    have := Nat.le_of_dvd hd this
    omega
  rcases Nat.le_total i j with hle | hle
  · exact key i j hle hj hij
  · exact (key j i hle hi hij.symm).symm

theorem lcg_orbit_perm (q e k x : Nat) (hx : x < 2 ^ k) :
    (List.iterate (fun v => (v * (4 * q + 1) + (2 * e + 1)) % 2 ^ k) x (2 ^ k)).Perm
      (List.range (2 ^ k)) := by
  apply List.Subperm.perm_of_length_le
  · apply List.subperm_of_subset (lcg_orbit_nodup q e k x)
    intro v hv
    rw [List.mem_iterate] at hv
    obtain ⟨n, _, rfl⟩ := hv
    rw [List.mem_range]
    exact lcg_iter_lt _ _ _ _ hx n
  · simp

/-! ### Facts about the concrete parameters -/

theorem le_modulus (M : Nat) (hM : 0 < M) : M ≤ modulus M := by
  unfold modulus bitLength
  split
  · omega
  · have := @Nat.lt_log2_self (M - 1)
    omega

theorem nextValue_eq (M d2 : Nat) :
    nextValue M d2 = fun v => (v * (4 * (M / 4) + 1) + (2 * d2 + 1)) % 2 ^ bitLength (M - 1) := by
  funext v
  simp [nextValue, multiplier, offset, modulus, Nat.mul_comm]

/-! ### The loop in closed form -/

theorem loop_eq (M d2 fuel found v : Nat) :
    loop M d2 fuel found v
      = ((List.iterate (nextValue M d2) v fuel).filter (· < M)).take (M - found) := by
  induction fuel generalizing found v with
  | zero => simp [loop]
  | succ fuel ih =>
    rw [loop, List.iterate]
    by_cases h1 : found < M
    · have e : M - found = (M - (found + 1)) + 1 := by omega
      by_cases h2 : v < M
      · simp only [h1, h2, if_true, List.filter_cons, decide_true]
        rw [e, List.take_succ_cons, ih]
      · simp only [h1, h2, if_true, if_false, List.filter_cons, decide_false]
        rw [ih]
        simp
    · have e : M - found = 0 := by omega
      simp [h1, e]

/-- The orbit of the generator started anywhere: after dropping at most one element, the
    values `< M` among the next `modulus M` orbit elements are a permutation of `range M`. -/
theorem filter_orbit_perm (M d2 x : Nat) (hM : 0 < M) (hx : x < modulus M) :
    ((List.iterate (nextValue M d2) x (modulus M)).filter (· < M)).Perm (List.range M) := by
  have hp : (List.iterate (nextValue M d2) x (modulus M)).Perm (List.range (modulus M)) := by
    rw [nextValue_eq]; exact lcg_orbit_perm _ _ _ _ hx
  rw [List.perm_ext_iff_of_nodup (hp.nodup_iff.2 List.nodup_range |>.filter _) List.nodup_range]
  intro v
  rw [List.mem_filter, hp.mem_iff, List.mem_range, List.mem_range]
  have := le_modulus M hM
  simp only [decide_eq_true_eq]
  omega

/-- The list the loop emits: the values `< M` of one full period, started at `d1` if that is
    already reduced, else at its successor. -/
def orbitHead (M d1 d2 : Nat) : List Nat :=
  (List.iterate (nextValue M d2) (if d1 < modulus M then d1 else nextValue M d2 d1)
    (modulus M)).filter (· < M)

theorem orbitHead_perm (M d1 d2 : Nat) (hM : 0 < M) : (orbitHead M d1 d2).Perm (List.range M) := by
  unfold orbitHead
  apply filter_orbit_perm M d2 _ hM
  split
  · assumption
  · unfold nextValue; exact Nat.mod_lt _ (by have := le_modulus M hM; omega)

/-- Whatever the start value, the filtered orbit of length `fuelFor M + extra` begins with
    `orbitHead`. -/
theorem filter_orbit_prefix (M d1 d2 extra : Nat) (hM : 0 < M) :
    ∃ B, (List.iterate (nextValue M d2) d1 (fuelFor M + extra)).filter (· < M)
      = orbitHead M d1 d2 ++ B := by
  have hle := le_modulus M hM
  unfold orbitHead
  by_cases hx : d1 < modulus M
  · have e : fuelFor M + extra = modulus M + (modulus M + 2 + extra) := by
      unfold fuelFor; omega
    rw [e, List.iterate_add, List.filter_append, if_pos hx]
    exact ⟨_, rfl⟩
  · have e : fuelFor M + extra = (modulus M + (modulus M + 1 + extra)) + 1 := by
      unfold fuelFor; omega
    rw [e, List.iterate, List.filter_cons]
    have : ¬ d1 < M := by omega
    simp only [this, decide_false]
    rw [List.iterate_add, List.filter_append, if_neg hx]
    exact ⟨_, rfl⟩

theorem loop_fuelFor (M d1 d2 extra : Nat) (hM : 0 < M) :
    loop M d2 (fuelFor M + extra) 0 d1 = orbitHead M d1 d2 := by
  obtain ⟨B, hAB⟩ := filter_orbit_prefix M d1 d2 extra hM
  rw [loop_eq, hAB]
  have : (orbitHead M d1 d2).length = M := by
    rw [(orbitHead_perm M d1 d2 hM).length_eq, List.length_range]
  rw [Nat.sub_zero, List.take_append_of_le_length (by omega), List.take_of_length_le (by omega)]

end SnowModel.Proofs.C12
