/-
"Hidden is a projection", part 6: the projection that undoes the un-hiding on the output, and the
steps of `execRow` that are not recursive: registering the row, storing a value, writing the row.
-/
import SnowModel.Proofs.L2Ren5

namespace SnowModel.L2
variable {α β γ δ : Type} {ρ σ : String → String}

/-! ### the projection -/

def backOVal (σ : String → String) : OVal → OVal
  | .ref t i => .ref (σ t) i
  | v => v

/-- rename the fields back and drop those whose original name is hidden -/
def backFields (σ : String → String) (fs : List (String × OVal)) : List (String × OVal) :=
  (fs.map (fun p => (σ p.1, backOVal σ p.2))).filter (fun p => !p.1.startsWith "__")

def backRow (σ : String → String) (r : OutRow) : OutRow :=
  { table := σ r.table, fields := backFields σ r.fields }

/-- rename the rows back and drop those whose original table is hidden -/
def project (σ : String → String) (out : List OutRow) : List OutRow :=
  (out.map (backRow σ)).filter (fun r => !r.table.startsWith "__")

theorem project_nil : project σ [] = [] := rfl

theorem project_append (a b : List OutRow) : project σ (a ++ b) = project σ a ++ project σ b := by
  simp [project]

theorem backOVal_ren (h : Ren ρ σ) (v : OVal) : backOVal σ (renOVal ρ v) = v := by
  cases v <;> simp [renOVal, backOVal, h.inv]

theorem backFields_cons_hidden (h : Ren ρ σ) {k : String} (hk : k.startsWith "__" = true) (v : OVal)
    (fs : List (String × OVal)) : backFields σ ((ρ k, v) :: fs) = backFields σ fs := by
  simp [backFields, h.inv, hk]

theorem backFields_cons_visible (h : Ren ρ σ) {k : String} (hk : ¬ k.startsWith "__" = true) (v : OVal)
    (fs : List (String × OVal)) :
    backFields σ ((ρ k, renOVal ρ v) :: fs) = (k, v) :: backFields σ fs := by
  simp [backFields, h.inv, hk, backOVal_ren h]

/-! ### writing -/

theorem canonFields_error (vs : List (String × Val)) : ∀ {s : St} {e : Err},
    canonFields vs s = .error e → ∃ m, e = .outside m := by
  induction vs with
  | nil => intro s e h; cases h
  | cons p vs ih =>
    intro s e h
    obtain ⟨k, v⟩ := p
    simp only [canonFields] at h
    split at h
    · exact ih h
    · split at h
      · next e' hc => cases h; exact canon_error hc
      · split at h
        · next e' hr => cases h; exact ih hr
        · cases h

/-- the twin writes a row the original keeps hidden: no side effect if all slots are allocated -/
theorem canonFields_noop_ren (h : Ren ρ σ) (o : List OutRow) (vs : List (String × Val)) (s : St)
    (ha : ∀ p ∈ vs, AllocV s p.2) :
    (∃ m, canonFields (renA ρ (renVal ρ) vs) (renSt ρ o s) = .error (.outside m)) ∨
    ∃ os', canonFields (renA ρ (renVal ρ) vs) (renSt ρ o s) = .ok (os', renSt ρ o s) := by
  induction vs with
  | nil => right; exact ⟨[], rfl⟩
  | cons p vs ih =>
    obtain ⟨k, v⟩ := p
    have ih' := ih (fun q hq => ha q (List.mem_cons_of_mem _ hq))
    simp only [renA_cons, canonFields]
    split
    · exact ih'
    · rw [canon_ren h]
      cases hc : canon s v with
      | error e =>
        obtain ⟨m, rfl⟩ := canon_error hc
        left; exact ⟨m, rfl⟩
      | ok q =>
        obtain ⟨ov, s'⟩ := q
        have := canon_noop (ha (k, v) List.mem_cons_self) hc
        subst this
        simp only [mapR_ok]
        rcases ih' with ⟨m, hm⟩ | ⟨os', hos⟩
        · left; rw [hm]; exact ⟨m, rfl⟩
        · right; rw [hos]; exact ⟨_, rfl⟩

/-- the twin writes the same row with the un-hidden fields in addition -/
theorem canonFields_ren (h : Ren ρ σ) (o : List OutRow) (vs : List (String × Val)) :
    ∀ (s : St), (∀ p ∈ vs, VisOK ρ p.1 ∧ (Hid ρ p.1 → AllocV s p.2)) →
    ∀ os s1, canonFields vs s = .ok (os, s1) →
    (∃ m, canonFields (renA ρ (renVal ρ) vs) (renSt ρ o s) = .error (.outside m)) ∨
    ∃ os', canonFields (renA ρ (renVal ρ) vs) (renSt ρ o s) = .ok (os', renSt ρ o s1) ∧
      backFields σ os' = os := by
  induction vs with
  | nil =>
    intro s _ os s1 hc
    simp only [canonFields, Except.ok.injEq, Prod.mk.injEq] at hc
    obtain ⟨rfl, rfl⟩ := hc
    right; exact ⟨[], rfl, rfl⟩
  | cons p vs ih =>
    intro s ha os s1 hc
    obtain ⟨k, v⟩ := p
    obtain ⟨hvis, hal⟩ := ha (k, v) List.mem_cons_self
    have ha' : ∀ q ∈ vs, VisOK ρ q.1 ∧ (Hid ρ q.1 → AllocV s q.2) :=
      fun q hq => ha q (List.mem_cons_of_mem _ hq)
    simp only [canonFields] at hc
    simp only [renA_cons, canonFields]
    by_cases hk : k.startsWith "__" = true
    · rw [if_pos hk] at hc
      by_cases hrk : (ρ k).startsWith "__" = true
      · rw [if_pos hrk]; exact ih s ha' os s1 hc
      · rw [if_neg hrk, canon_ren h]
        have hav : AllocV s v := hal ⟨hk, by simpa using hrk⟩
        cases hcv : canon s v with
        | error e =>
          obtain ⟨m, rfl⟩ := canon_error hcv
          left; exact ⟨m, rfl⟩
        | ok q =>
          obtain ⟨ov, s'⟩ := q
          have := canon_noop hav hcv
          subst this
          simp only [mapR_ok]
          rcases ih s' ha' os s1 hc with ⟨m, hm⟩ | ⟨os', hos, hb⟩
          · left; rw [hm]; exact ⟨m, rfl⟩
          · right; rw [hos]
            exact ⟨_, rfl, by rw [backFields_cons_hidden h hk]; exact hb⟩
    · rw [if_neg hk] at hc
      have hrk : ¬ (ρ k).startsWith "__" = true := fun hh => hk (hvis hh)
      rw [if_neg hrk, canon_ren h]
      split at hc
      · cases hc
      · next ov s2 hcv =>
        split at hc
        · cases hc
        · next os2 s3 hr =>
          simp only [Except.ok.injEq, Prod.mk.injEq] at hc
          obtain ⟨rfl, rfl⟩ := hc
          rw [hcv]
          simp only [mapR_ok]
          have hst := canon_step hcv
          have ha2 : ∀ q ∈ vs, VisOK ρ q.1 ∧ (Hid ρ q.1 → AllocV s2 q.2) :=
            fun q hq => ⟨(ha' q hq).1, fun hh => ((ha' q hq).2 hh).mono hst.mono⟩
          rcases ih s2 ha2 os2 s3 hr with ⟨m, hm⟩ | ⟨os', hos, hb⟩
          · left; rw [hm]; exact ⟨m, rfl⟩
          · right; rw [hos]
            exact ⟨_, rfl, by rw [backFields_cons_visible h hk, hb]⟩

/-! ### the relation between a run and its twin -/

/-- Either run leaves the modelled fragment, or both fail alike, or both succeed with renamed
    result, renamed state, and the twin's output projects onto the original's. -/
def RRm (ρ σ : String → String) (f : α → β) (x : R α) (y : R β) : Prop :=
  (∃ m, x = .error (.outside m)) ∨ (∃ m, y = .error (.outside m)) ∨
  (∃ e, x = .error e ∧ y = .error e) ∨
  (∃ a s1 o1, x = .ok (a, s1) ∧ y = .ok (f a, renSt ρ o1 s1) ∧ s1.out = project σ o1)

def bindR (x : R α) (k : α → St → R β) : R β :=
  match x with
  | .error e => .error e
  | .ok (a, s1) => k a s1

theorem RRm.ok {f : α → β} {a : α} {s : St} {o : List OutRow} (ho : s.out = project σ o) :
    RRm ρ σ f (.ok (a, s)) (.ok (f a, renSt ρ o s)) :=
  Or.inr (Or.inr (Or.inr ⟨a, s, o, rfl, rfl, ho⟩))

theorem RRm.bind {x : R α} {y : R β} {f : α → β} {g : γ → δ} {k : α → St → R γ} {k' : β → St → R δ}
    (hxy : RRm ρ σ f x y)
    (hk : ∀ a s1 o1, x = .ok (a, s1) → s1.out = project σ o1 →
      RRm ρ σ g (k a s1) (k' (f a) (renSt ρ o1 s1))) :
    RRm ρ σ g (bindR x k) (bindR y k') := by
  rcases hxy with ⟨m, rfl⟩ | ⟨m, rfl⟩ | ⟨e, rfl, rfl⟩ | ⟨a, s1, o1, rfl, rfl, ho⟩
  · exact Or.inl ⟨m, rfl⟩
  · exact Or.inr (Or.inl ⟨m, rfl⟩)
  · exact Or.inr (Or.inr (Or.inl ⟨e, rfl, rfl⟩))
  · exact hk a s1 o1 rfl ho

theorem RRm.of_RRs {f : α → β} {x : R α} {y : R β} {s : St} {o : List OutRow}
    (hs : RRs ρ o f x y) (hout : ∀ a s1, x = .ok (a, s1) → s1.out = s.out)
    (ho : s.out = project σ o) : RRm ρ σ f x y := by
  rcases hs with ⟨m, hm⟩ | hy
  · exact Or.inl ⟨m, hm⟩
  · cases x with
    | error e => exact Or.inr (Or.inr (Or.inl ⟨e, rfl, hy⟩))
    | ok q =>
      obtain ⟨a, s1⟩ := q
      exact Or.inr (Or.inr (Or.inr ⟨a, s1, o, rfl, hy, (hout a s1 rfl).trans ho⟩))

/-! ### registering, storing, writing -/

theorem renRow_update (r : RowData) (vs : List (String × Val)) :
    renRow ρ { r with values := vs } = { renRow ρ r with values := renA ρ (renVal ρ) vs } := rfl

theorem setRowValue_ren (h : Ren ρ σ) (o : List OutRow) (s : St) (hd : Nat) (k : String) (v : Val) :
    setRowValue (renSt ρ o s) hd (ρ k) (renVal ρ v) = renSt ρ o (setRowValue s hd k v) := by
  simp only [setRowValue, renSt]
  congr 1
  apply List.ext_getElem?
  intro i
  simp only [List.getElem?_mapIdx, List.getElem?_map]
  cases s.rows[i]? with
  | none => rfl
  | some r =>
    simp only [Option.map_some]
    split
    · simp only [renRow_update, renRow_values, aset_renA h]
    · rfl

theorem renT_table (t : Template) : (renT ρ t).table = ρ t.table := by cases t; simp [renT, Template.table]
theorem renT_nick (t : Template) : (renT ρ t).nick = t.nick.map ρ := by cases t; simp [renT, Template.nick]
theorem renT_justOnce (t : Template) : (renT ρ t).justOnce = t.justOnce := by
  cases t; simp [renT, Template.justOnce]
theorem renT_count (t : Template) : (renT ρ t).count = renOFd ρ t.count := by
  cases t; simp [renT, Template.count]
theorem renT_fields (t : Template) : (renT ρ t).fields = renFields ρ t.fields := by
  cases t; simp [renT, Template.fields]
theorem renT_friends (t : Template) : (renT ρ t).friends = renStmts ρ t.friends := by
  cases t; simp [renT, Template.friends]

theorem regState_ren (h : Ren ρ σ) (o : List OutRow) (s : St) (t : Template) (i : Nat) :
    regState (renSt ρ o s) (renT ρ t) i = renSt ρ o (regState s t i) := by
  unfold regState
  simp only [renT_table, renT_nick, renT_justOnce, generateId_ren h]
  generalize generateId s t.table t.nick = g
  obtain ⟨rid, s1⟩ := g
  have hrow : renRow ρ { table := t.table, idx := i, values := [("id", Val.int rid)] } =
      { table := ρ t.table, idx := i, values := [("id", Val.int rid)] } := by
    simp only [renRow, renA, List.map_cons, List.map_nil, h.fix_id, renVal]
  cases t.nick <;> cases t.justOnce <;>
    simp only [renSt, Option.map_none, Option.map_some, Bool.false_eq_true, if_false, if_true,
      aset_renA_id h, List.map_append, List.map_cons, List.map_nil, hrow, List.length_map]

theorem writeRow_ren (h : Ren ρ σ) (o : List OutRow) (t : Template) (ht : VisOK ρ t.table) (hd : Nat)
    (s6 : St)
    (hrows : ∀ p ∈ (rowData s6 hd).values, VisOK ρ p.1 ∧ (Hid ρ t.table ∨ Hid ρ p.1 → AllocV s6 p.2))
    (ho : s6.out = project σ o) :
    RRm ρ σ id (writeRow t hd s6) (writeRow (renT ρ t) hd (renSt ρ o s6)) := by
  unfold writeRow
  rw [renT_table, rowData_ren h, renRow_values]
  by_cases htb : t.table.startsWith "__" = true
  · rw [if_pos htb]
    by_cases hrt : (ρ t.table).startsWith "__" = true
    · rw [if_pos hrt]; exact RRm.ok ho
    · rw [if_neg hrt]
      have hH : Hid ρ t.table := ⟨htb, by simpa using hrt⟩
      rcases canonFields_noop_ren h o _ s6 (fun p hp => (hrows p hp).2 (Or.inl hH)) with
        ⟨m, hm⟩ | ⟨os', hos⟩
      · right; left; rw [hm]; exact ⟨m, rfl⟩
      · rw [hos]
        refine Or.inr (Or.inr (Or.inr ⟨(), s6, o ++ [{ table := ρ t.table, fields := os' }], rfl, rfl, ?_⟩))
        rw [project_append, ← ho]
        simp [project, backRow, h.inv, htb]
  · rw [if_neg htb]
    have hrt : ¬ (ρ t.table).startsWith "__" = true := fun hh => htb (ht hh)
    rw [if_neg hrt]
    cases hc : canonFields (rowData s6 hd).values s6 with
    | error e =>
      obtain ⟨m, rfl⟩ := canonFields_error _ hc
      left; exact ⟨m, rfl⟩
    | ok q =>
      obtain ⟨os, s7⟩ := q
      rcases canonFields_ren h o _ s6 (fun p hp => ⟨(hrows p hp).1, fun hh => (hrows p hp).2 (Or.inr hh)⟩)
        os s7 hc with ⟨m, hm⟩ | ⟨os', hos, hb⟩
      · right; left; rw [hm]; exact ⟨m, rfl⟩
      · rw [hos]
        refine Or.inr (Or.inr (Or.inr ⟨(), _, o ++ [{ table := ρ t.table, fields := os' }], rfl, rfl, ?_⟩))
        have hout : s7.out = s6.out := (canonFields_step _ hc).out
        rw [project_append]
        simp [project, backRow, h.inv, htb, hb, hout, ho]

end SnowModel.L2
