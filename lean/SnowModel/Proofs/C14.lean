/-
C14 — helper lemmas, part 1: Python-dict semantics on association lists (`dictSet`, `dictUpdate`,
`dedupe`): keys, lookup, no repeated key, extensionality, absorption laws; `mapE` / `foldE` algebra.
-/
import SnowModel.Core.ParseY

namespace SnowModel.ParseY

variable {α : Type}

/-- the key list -/
def keys (d : AList α) : List String := d.map (·.1)

/-- each key once, at the position of its first occurrence -/
def firstOcc : List String → List String
  | [] => []
  | k :: r => k :: (firstOcc r).filter (fun x => x != k)

/-- the value of the last pair with key `k` -/
def lastVal : AList α → String → Option α
  | [], _ => none
  | (k', v) :: r, k =>
    match lastVal r k with
    | some x => some x
    | none => if k' == k then some v else none

@[simp] theorem keys_nil : keys ([] : AList α) = [] := rfl
@[simp] theorem keys_cons (p : String × α) (d : AList α) : keys (p :: d) = p.1 :: keys d := rfl
@[simp] theorem keys_append (a b : AList α) : keys (a ++ b) = keys a ++ keys b := by
  simp [keys]

theorem hasKey_iff (d : AList α) (k : String) : hasKey d k = true ↔ k ∈ keys d := by
  induction d with
  | nil => simp [hasKey]
  | cons p d ih =>
    simp only [hasKey, List.any_cons, Bool.or_eq_true, beq_iff_eq, keys_cons, List.mem_cons] at ih ⊢
    constructor
    · rintro (h | h)
      · exact Or.inl h.symm
      · exact Or.inr (ih.mp h)
    · rintro (h | h)
      · exact Or.inl h.symm
      · exact Or.inr (ih.mpr h)

theorem hasKey_false_iff (d : AList α) (k : String) : hasKey d k = false ↔ k ∉ keys d := by
  rw [← hasKey_iff]; cases hasKey d k <;> simp

theorem lookup_eq_none_of_not_mem (d : AList α) (k : String) (h : k ∉ keys d) : d.lookup k = none := by
  induction d with
  | nil => rfl
  | cons p d ih =>
    obtain ⟨k', v⟩ := p
    simp only [keys_cons, List.mem_cons, not_or] at h
    have hb : (k == k') = false := by simpa using h.1
    simp [List.lookup_cons, hb, ih h.2]

theorem lookup_isSome_of_mem (d : AList α) (k : String) (h : k ∈ keys d) : (d.lookup k).isSome := by
  induction d with
  | nil => simp at h
  | cons p d ih =>
    obtain ⟨k', v⟩ := p
    simp only [keys_cons, List.mem_cons] at h
    by_cases hk : k = k'
    · subst hk; simp [List.lookup_cons]
    · have hb : (k == k') = false := by simpa using hk
      rcases h with h | h
      · exact absurd h hk
      · simp [List.lookup_cons, hb, ih h]

/-! ### `dictSet` -/

/-- the function mapped over the dict by an assignment to an existing key -/
def setAt (k : String) (v : α) (p : String × α) : String × α := if p.1 == k then (k, v) else p

theorem dictSet_eq (d : AList α) (k : String) (v : α) :
    dictSet d k v = if hasKey d k then d.map (setAt k v) else d ++ [(k, v)] := rfl

theorem setAt_fst (k : String) (v : α) (p : String × α) : (setAt k v p).1 = p.1 := by
  unfold setAt
  by_cases h : p.1 = k
  · simp [h]
  · have hb : (p.1 == k) = false := by simpa using h
    simp [hb]

theorem setAt_eq (k : String) (v v0 : α) : setAt k v (k, v0) = (k, v) := by
  simp [setAt]

theorem setAt_ne (k k0 : String) (v v0 : α) (h : k0 ≠ k) : setAt k v (k0, v0) = (k0, v0) := by
  have hb : (k0 == k) = false := by simpa using h
  simp [setAt, hb]

theorem keys_map_set (d : AList α) (k : String) (v : α) : keys (d.map (setAt k v)) = keys d := by
  induction d with
  | nil => rfl
  | cons p d ih => simp only [List.map_cons, keys_cons, ih, setAt_fst]

theorem keys_dictSet (d : AList α) (k : String) (v : α) :
    keys (dictSet d k v) = if k ∈ keys d then keys d else keys d ++ [k] := by
  rw [dictSet_eq]
  by_cases h : k ∈ keys d
  · rw [(hasKey_iff d k).mpr h, if_pos rfl, if_pos h, keys_map_set]
  · rw [(hasKey_false_iff d k).mpr h, if_neg (by simp), if_neg h]
    simp

theorem lookup_cons_self (k : String) (v : α) (d : AList α) : ((k, v) :: d).lookup k = some v := by
  simp [List.lookup_cons]

theorem lookup_cons_ne (k k0 : String) (v : α) (d : AList α) (h : k ≠ k0) :
    ((k0, v) :: d).lookup k = d.lookup k := by
  have hb : (k == k0) = false := by simpa using h
  simp only [List.lookup_cons, hb]

theorem lookup_map_set (d : AList α) (k : String) (v : α) (k' : String) :
    (d.map (setAt k v)).lookup k' =
      if k' = k then (if k ∈ keys d then some v else none) else d.lookup k' := by
  induction d with
  | nil => simp
  | cons p d ih =>
    obtain ⟨k0, v0⟩ := p
    simp only [List.map_cons, keys_cons, List.mem_cons]
    by_cases h0 : k0 = k
    · subst h0
      rw [setAt_eq]
      by_cases h1 : k' = k0
      · subst h1; simp [lookup_cons_self]
      · rw [lookup_cons_ne _ _ _ _ h1, lookup_cons_ne _ _ _ _ h1, ih, if_neg h1, if_neg h1]
    · rw [setAt_ne _ _ _ _ h0]
      by_cases h1 : k' = k
      · subst h1
        have hne : k' ≠ k0 := fun e => h0 e.symm
        rw [lookup_cons_ne _ _ _ _ hne, ih, if_pos rfl, if_pos rfl]
        simp [hne]
      · rw [if_neg h1]
        by_cases h2 : k' = k0
        · subst h2; rw [lookup_cons_self, lookup_cons_self]
        · rw [lookup_cons_ne _ _ _ _ h2, lookup_cons_ne _ _ _ _ h2, ih, if_neg h1]

theorem lookup_append_single (d : AList α) (k : String) (v : α) (k' : String) :
    (d ++ [(k, v)]).lookup k' =
      match d.lookup k' with
      | some x => some x
      | none => if k' = k then some v else none := by
  induction d with
  | nil =>
    by_cases h : k' = k
    · subst h; simp [List.lookup_cons]
    · have hb : (k' == k) = false := by simpa using h
      simp [List.lookup_cons, hb, h]
  | cons p d ih =>
    obtain ⟨k0, v0⟩ := p
    by_cases h : k' = k0
    · subst h; simp [List.lookup_cons]
    · have hb : (k' == k0) = false := by simpa using h
      simp [List.lookup_cons, hb, ih]

theorem lookup_dictSet (d : AList α) (k : String) (v : α) (k' : String) :
    (dictSet d k v).lookup k' = if k' = k then some v else d.lookup k' := by
  rw [dictSet_eq]
  by_cases h : k ∈ keys d
  · rw [(hasKey_iff d k).mpr h, if_pos rfl, lookup_map_set, if_pos h]
  · rw [(hasKey_false_iff d k).mpr h, if_neg (by simp), lookup_append_single]
    by_cases h1 : k' = k
    · subst h1; simp [lookup_eq_none_of_not_mem d k' h]
    · simp only [h1, if_false]
      cases d.lookup k' <;> rfl

theorem nodup_dictSet (d : AList α) (k : String) (v : α) (h : (keys d).Nodup) :
    (keys (dictSet d k v)).Nodup := by
  rw [keys_dictSet]
  by_cases hk : k ∈ keys d
  · simpa [hk] using h
  · simp only [hk, if_false]
    rw [List.nodup_append]
    refine ⟨h, by simp, ?_⟩
    intro a ha b hb
    simp only [List.mem_singleton] at hb
    subst hb
    exact fun e => hk (e ▸ ha)

/-! ### `firstOcc`, `lastVal` -/

theorem mem_firstOcc (l : List String) (k : String) : k ∈ firstOcc l ↔ k ∈ l := by
  induction l with
  | nil => simp [firstOcc]
  | cons x r ih =>
    simp only [firstOcc, List.mem_cons, List.mem_filter, ih, bne_iff_ne, ne_eq]
    constructor
    · rintro (h | ⟨h, _⟩)
      · exact Or.inl h
      · exact Or.inr h
    · rintro (h | h)
      · exact Or.inl h
      · by_cases e : k = x
        · exact Or.inl e
        · exact Or.inr ⟨h, e⟩

theorem nodup_firstOcc (l : List String) : (firstOcc l).Nodup := by
  induction l with
  | nil => simp [firstOcc]
  | cons x r ih =>
    simp only [firstOcc, List.nodup_cons, List.mem_filter, bne_self_eq_false, Bool.false_eq_true,
      and_false, not_false_eq_true, true_and]
    exact ih.filter _

theorem firstOcc_of_nodup (l : List String) (h : l.Nodup) : firstOcc l = l := by
  induction l with
  | nil => rfl
  | cons x r ih =>
    simp only [List.nodup_cons] at h
    simp only [firstOcc, ih h.2, List.cons.injEq, true_and, List.filter_eq_self, bne_iff_ne, ne_eq]
    intro a ha e
    exact h.1 (e ▸ ha)

theorem firstOcc_idem (l : List String) : firstOcc (firstOcc l) = firstOcc l :=
  firstOcc_of_nodup _ (nodup_firstOcc l)

theorem lastVal_of_nodup (l : AList α) (k : String) (h : (keys l).Nodup) :
    lastVal l k = l.lookup k := by
  induction l with
  | nil => rfl
  | cons p r ih =>
    obtain ⟨k0, v0⟩ := p
    simp only [keys_cons, List.nodup_cons] at h
    simp only [lastVal, ih h.2]
    by_cases e : k = k0
    · subst e
      simp [List.lookup_cons, lookup_eq_none_of_not_mem r k h.1]
    · have hb : (k == k0) = false := by simpa using e
      have hb' : (k0 == k) = false := by simpa using (fun x => e (Eq.symm x))
      simp only [List.lookup_cons, hb, hb']
      cases r.lookup k <;> simp

theorem lastVal_append (a b : AList α) (k : String) :
    lastVal (a ++ b) k = match lastVal b k with
      | some x => some x
      | none => lastVal a k := by
  induction a with
  | nil => simp only [List.nil_append, lastVal]; cases lastVal b k <;> rfl
  | cons p r ih =>
    obtain ⟨k0, v0⟩ := p
    simp only [List.cons_append, lastVal, ih]
    cases lastVal b k <;> simp

theorem lastVal_eq_none_iff (l : AList α) (k : String) : lastVal l k = none ↔ k ∉ keys l := by
  induction l with
  | nil => simp [lastVal]
  | cons p r ih =>
    obtain ⟨k0, v0⟩ := p
    simp only [lastVal, keys_cons, List.mem_cons, not_or]
    cases h : lastVal r k with
    | some x =>
      have : k ∈ keys r :=
        Classical.byContradiction (fun hc => by rw [ih.mpr hc] at h; cases h)
      simp [this]
    | none =>
      have hr := ih.mp h
      by_cases e : k0 = k
      · simp [e]
      · have : ¬ k = k0 := fun x => e x.symm
        simp [e, hr, this]

/-! ### `dictUpdate` -/

theorem dictUpdate_nil (d : AList α) : dictUpdate d [] = d := rfl

theorem dictUpdate_cons (d : AList α) (p : String × α) (l : AList α) :
    dictUpdate d (p :: l) = dictUpdate (dictSet d p.1 p.2) l := rfl

theorem dictUpdate_append (d a b : AList α) :
    dictUpdate d (a ++ b) = dictUpdate (dictUpdate d a) b := by
  simp [dictUpdate, List.foldl_append]

theorem keys_dictUpdate (d l : AList α) :
    keys (dictUpdate d l) = keys d ++ (firstOcc (keys l)).filter (fun x => !(keys d).contains x) := by
  induction l generalizing d with
  | nil => simp [dictUpdate_nil, firstOcc]
  | cons p r ih =>
    rw [dictUpdate_cons, ih, keys_dictSet]
    by_cases h : p.1 ∈ keys d
    · simp only [h, if_true, keys_cons, firstOcc, List.append_cancel_left_eq]
      have hc : (keys d).contains p.1 = true := by simpa using h
      simp only [List.filter_cons, hc, Bool.not_true, Bool.false_eq_true, if_false, List.filter_filter]
      apply List.filter_congr
      intro x _
      by_cases e : x = p.1
      · subst e; simp [h]
      · simp [e]
    · simp only [h, if_false, keys_cons, firstOcc, List.append_assoc, List.append_cancel_left_eq]
      have hc : (keys d).contains p.1 = false := by simpa using h
      simp only [List.filter_cons, hc, Bool.not_false, if_true, List.singleton_append, List.cons.injEq,
        true_and, List.filter_filter]
      apply List.filter_congr
      intro x _
      by_cases e : x = p.1
      · subst e; simp
      · simp [e, List.contains_append, Bool.or_comm]

theorem lookup_dictUpdate (d l : AList α) (k : String) :
    (dictUpdate d l).lookup k = match lastVal l k with
      | some v => some v
      | none => d.lookup k := by
  induction l generalizing d with
  | nil => simp [dictUpdate_nil, lastVal]
  | cons p r ih =>
    obtain ⟨k0, v0⟩ := p
    rw [dictUpdate_cons, ih, lookup_dictSet]
    simp only [lastVal]
    cases lastVal r k with
    | some x => rfl
    | none =>
      by_cases e : k = k0
      · subst e; simp
      · have : (k0 == k) = false := by simpa using (fun x => e (Eq.symm x))
        simp [e, this]

theorem nodup_dictUpdate (d l : AList α) (h : (keys d).Nodup) : (keys (dictUpdate d l)).Nodup := by
  induction l generalizing d with
  | nil => simpa [dictUpdate_nil] using h
  | cons p r ih =>
    rw [dictUpdate_cons]
    exact ih _ (nodup_dictSet d p.1 p.2 h)

/-- two dicts without repeated keys with the same key list and the same lookup function are equal -/
theorem alist_ext (a b : AList α) (ha : (keys a).Nodup) (hk : keys a = keys b)
    (hl : ∀ k, a.lookup k = b.lookup k) : a = b := by
  induction a generalizing b with
  | nil =>
    cases b with
    | nil => rfl
    | cons q b => simp at hk
  | cons p a ih =>
    cases b with
    | nil => simp at hk
    | cons q b =>
      obtain ⟨k0, v0⟩ := p
      obtain ⟨k1, v1⟩ := q
      simp only [keys_cons, List.cons.injEq] at hk
      obtain ⟨e, hk'⟩ := hk
      subst e
      simp only [keys_cons, List.nodup_cons] at ha
      have hv : v0 = v1 := by
        have := hl k0
        simpa [List.lookup_cons] using this
      subst hv
      have : a = b := by
        apply ih b ha.2 hk'
        intro k
        by_cases e : k = k0
        · subst e
          rw [lookup_eq_none_of_not_mem a k ha.1, lookup_eq_none_of_not_mem b k (hk' ▸ ha.1)]
        · have hb : (k == k0) = false := by simpa using e
          have := hl k
          simpa [List.lookup_cons, hb] using this
      rw [this]

/-! ### `dedupe` -/

theorem keys_dedupe (l : AList α) : keys (dedupe l) = firstOcc (keys l) := by
  simp [dedupe, keys_dictUpdate]

theorem nodup_dedupe (l : AList α) : (keys (dedupe l)).Nodup :=
  nodup_dictUpdate [] l (by simp)

theorem lookup_dedupe (l : AList α) (k : String) : (dedupe l).lookup k = lastVal l k := by
  simp only [dedupe, lookup_dictUpdate]
  cases lastVal l k <;> rfl

theorem lastVal_dedupe (l : AList α) (k : String) : lastVal (dedupe l) k = lastVal l k := by
  rw [lastVal_of_nodup _ _ (nodup_dedupe l), lookup_dedupe]

theorem dictUpdate_dedupe (d b : AList α) (hd : (keys d).Nodup) :
    dictUpdate d (dedupe b) = dictUpdate d b := by
  apply alist_ext _ _ (nodup_dictUpdate d _ hd)
  · rw [keys_dictUpdate, keys_dictUpdate, keys_dedupe, firstOcc_idem]
  · intro k
    rw [lookup_dictUpdate, lookup_dictUpdate, lastVal_dedupe]

theorem dedupe_append (a b : AList α) : dedupe (a ++ b) = dictUpdate (dedupe a) b := by
  simp [dedupe, dictUpdate_append]

/-- an intermediate de-duplication is invisible -/
theorem dedupe_absorb (a b c : AList α) : dedupe (a ++ dedupe b ++ c) = dedupe (a ++ b ++ c) := by
  rw [dedupe_append, dedupe_append, dedupe_append (a ++ b), dedupe_append a b,
    dictUpdate_dedupe _ _ (nodup_dedupe a)]

theorem dedupe_absorb_left (b c : AList α) : dedupe (dedupe b ++ c) = dedupe (b ++ c) := by
  simpa using dedupe_absorb [] b c

theorem dedupe_idem (l : AList α) : dedupe (dedupe l) = dedupe l := by
  simpa using dedupe_absorb [] l []

theorem dedupe_of_nodup (l : AList α) (h : (keys l).Nodup) : dedupe l = l := by
  apply alist_ext _ _ (nodup_dedupe l)
  · rw [keys_dedupe, firstOcc_of_nodup _ h]
  · intro k; rw [lookup_dedupe, lastVal_of_nodup _ _ h]

theorem dedupe_flatten_absorb (L : List (AList α)) (a c : AList α) :
    dedupe (a ++ (L.map dedupe).flatten ++ c) = dedupe (a ++ L.flatten ++ c) := by
  induction L generalizing a with
  | nil => simp
  | cons r L ih =>
    simp only [List.map_cons, List.flatten_cons]
    have h1 : a ++ (dedupe r ++ (L.map dedupe).flatten) ++ c = (a ++ dedupe r) ++ (L.map dedupe).flatten ++ c := by
      simp [List.append_assoc]
    rw [h1, ih (a ++ dedupe r)]
    have h2 : a ++ dedupe r ++ L.flatten ++ c = a ++ dedupe r ++ (L.flatten ++ c) := by
      simp [List.append_assoc]
    have h3 : a ++ (r ++ L.flatten) ++ c = a ++ r ++ (L.flatten ++ c) := by
      simp [List.append_assoc]
    rw [h2, h3, dedupe_absorb]

/-! ### `mapE`, `foldE` -/

section
variable {β γ ε σ : Type}

theorem mapE_append (f : β → Except ε γ) (a b : List β) :
    mapE f (a ++ b) = match mapE f a with
      | .error e => .error e
      | .ok xs => match mapE f b with
        | .error e => .error e
        | .ok ys => .ok (xs ++ ys) := by
  induction a with
  | nil => simp only [List.nil_append, mapE]; cases mapE f b <;> rfl
  | cons x r ih =>
    simp only [List.cons_append, mapE, ih]
    cases f x with
    | error e => rfl
    | ok y =>
      cases mapE f r with
      | error e => rfl
      | ok ys => cases mapE f b <;> rfl

theorem mapE_congr (f g : β → Except ε γ) (l : List β) (h : ∀ x ∈ l, f x = g x) :
    mapE f l = mapE g l := by
  induction l with
  | nil => rfl
  | cons x r ih =>
    simp only [mapE, h x (by simp), ih (fun y hy => h y (by simp [hy]))]

/-- monotonicity: if `g` agrees with `f` wherever `f` succeeds, a successful `mapE f` is a successful `mapE g` -/
theorem mapE_mono (f g : β → Except ε γ) (l : List β) (rs : List γ)
    (h : ∀ x ∈ l, ∀ r, f x = .ok r → g x = .ok r) (hf : mapE f l = .ok rs) : mapE g l = .ok rs := by
  induction l generalizing rs with
  | nil => simpa [mapE] using hf
  | cons x r ih =>
    simp only [mapE] at hf ⊢
    cases hx : f x with
    | error e => simp [hx] at hf
    | ok y =>
      rw [hx] at hf
      cases hr : mapE f r with
      | error e => simp [hr] at hf
      | ok ys =>
        rw [hr] at hf
        rw [h x (by simp) y hx, ih ys (fun z hz => h z (by simp [hz])) hr]
        exact hf

theorem mapE_ok_length (f : β → Except ε γ) (l : List β) (rs : List γ) (h : mapE f l = .ok rs) :
    rs.length = l.length := by
  induction l generalizing rs with
  | nil => simp [mapE] at h; simp [← h]
  | cons x r ih =>
    simp only [mapE] at h
    cases hx : f x with
    | error e => simp [hx] at h
    | ok y =>
      rw [hx] at h
      cases hr : mapE f r with
      | error e => simp [hr] at h
      | ok ys =>
        rw [hr] at h
        simp only [Except.ok.injEq] at h
        subst h
        simp [ih ys hr]

/-- if every element succeeds, `mapE` succeeds -/
theorem mapE_total (f : β → Except ε γ) (l : List β) (h : ∀ x ∈ l, ∃ r, f x = .ok r) :
    ∃ rs, mapE f l = .ok rs := by
  induction l with
  | nil => exact ⟨[], rfl⟩
  | cons x r ih =>
    obtain ⟨y, hy⟩ := h x (by simp)
    obtain ⟨ys, hys⟩ := ih (fun z hz => h z (by simp [hz]))
    exact ⟨y :: ys, by simp [mapE, hy, hys]⟩

theorem foldE_append (f : σ → β → Except ε σ) (s : σ) (a b : List β) :
    foldE f s (a ++ b) = match foldE f s a with
      | .error e => .error e
      | .ok s' => foldE f s' b := by
  induction a generalizing s with
  | nil => rfl
  | cons x r ih =>
    simp only [List.cons_append, foldE]
    cases f s x with
    | error e => rfl
    | ok s' => exact ih s'

end

end SnowModel.ParseY
