/-
C12 helper lemmas, part b: the `UpdatableRandomRange` state machine.
`rangeIntP`, `GoodMkP`, `ExtendOnlyP` are verbatim copies of the definitions in
`Props/C12.lean` (which imports this file), so they are definitionally equal to them.
-/
import SnowModel.Core.RandRange
import Mathlib.Data.List.Perm.Basic
import Mathlib.Data.List.Nodup
import Mathlib.Data.List.Range

namespace SnowModel.Proofs.C12
open SnowModel.RandRange

/-- The integers of `[a, b)` in increasing order (copy of `Props.C12.rangeInt`). -/
def rangeIntP (a b : Int) : List Int :=
  (List.range (b - a).toNat).map (fun (i : Nat) => (i : Int) + a)

theorem mem_rangeIntP {a b v : Int} : v ∈ rangeIntP a b ↔ a ≤ v ∧ v < b := by
  simp only [rangeIntP, List.mem_map, List.mem_range]
  constructor
  · rintro ⟨i, hi, rfl⟩; omega
  · rintro ⟨h1, h2⟩; exact ⟨(v - a).toNat, by omega, by omega⟩

theorem nodup_rangeIntP (a b : Int) : (rangeIntP a b).Nodup := by
  unfold rangeIntP
  apply List.Nodup.map _ List.nodup_range
  intro i j h
  simp only at h
  omega

theorem length_rangeIntP (a b : Int) : (rangeIntP a b).length = (b - a).toNat := by
  simp [rangeIntP]

theorem rangeIntP_append (a b c : Int) (h1 : a ≤ b) (h2 : b ≤ c) :
    (rangeIntP a b ++ rangeIntP b c).Perm (rangeIntP a c) := by
  rw [List.perm_ext_iff_of_nodup _ (nodup_rangeIntP a c)]
  · intro v; simp only [List.mem_append, mem_rangeIntP]; omega
  · rw [List.nodup_append]
    refine ⟨nodup_rangeIntP _ _, nodup_rangeIntP _ _, ?_⟩
    intro x hx y hy
    rw [mem_rangeIntP] at hx hy
    omega

/-- copy of `Props.C12.GoodMk` -/
def GoodMkP (mk : Mk) : Prop := ∀ n a b, a < b → (mk n a b).Perm (rangeIntP a b)

/-- copy of `Props.C12.ExtendOnly` -/
def ExtendOnlyP (lo : Int) : Int → List Op → Prop
  | _, [] => True
  | cur, Op.next :: ops => ExtendOnlyP lo cur ops
  | cur, Op.setRange x y :: ops => x = lo ∧ cur ≤ y ∧ ExtendOnlyP lo y ops

/-! ### `run` and `values` -/

theorem run_cons_fst (mk : Mk) (s : St) (op : Op) (ops : List Op) :
    (run mk s (op :: ops)).1 = (run mk (step mk s op).1 ops).1 := rfl

theorem run_cons_snd (mk : Mk) (s : St) (op : Op) (ops : List Op) :
    (run mk s (op :: ops)).2 = (step mk s op).2 :: (run mk (step mk s op).1 ops).2 := rfl

theorem values_cons (o : Out) (os : List Out) : values (o :: os) = values [o] ++ values os := by
  cases o <;> simp [values]

theorem values_append (l1 l2 : List Out) : values (l1 ++ l2) = values l1 ++ values l2 := by
  induction l1 with
  | nil => simp [values]
  | cons o os ih => rw [List.cons_append, values_cons, ih, values_cons o os, List.append_assoc]

/-! ### The general invariant -/

structure Inv1 (s : St) (seen : List Int) : Prop where
  lt : s.u.min < s.u.origMax
  le : s.u.origMax ≤ s.u.curMax
  nd : (seen ++ s.u.gen).Nodup
  seen_lt : ∀ v ∈ seen, v < s.u.origMax
  gen_mem : ∀ v ∈ s.u.gen, s.u.min ≤ v ∧ v < s.u.origMax

theorem nodup_append_fresh {seen l : List Int} {a b om : Int} (hnd : seen.Nodup)
    (hseen : ∀ v ∈ seen, v < om) (hl : l.Perm (rangeIntP a b)) (h : om ≤ a) :
    (seen ++ l).Nodup := by
  rw [List.nodup_append]
  refine ⟨hnd, hl.nodup_iff.2 (nodup_rangeIntP _ _), ?_⟩
  intro x hx y hy
  have := hseen x hx
  have := (mem_rangeIntP.1 (hl.mem_iff.1 hy)).1
  omega

theorem step_inv1 (mk : Mk) (hmk : GoodMkP mk) (s : St) (seen : List Int) (op : Op)
    (h : Inv1 s seen) : Inv1 (step mk s op).1 (seen ++ values [(step mk s op).2]) := by
  obtain ⟨⟨mn, om, cm, gen⟩, made⟩ := s
  obtain ⟨hlt, hle, hnd, hseen, hgen⟩ := h
  simp only at hlt hle hnd hseen hgen
  cases op with
  | setRange a b =>
    simp only [step]
    split_ifs with h1 h2 h3 h4
    · simp only [values, List.append_nil]
      exact ⟨hlt, by simp only; omega, hnd, hseen, hgen⟩
    · simp only [values, List.append_nil]
      exact ⟨hlt, hle, hnd, hseen, hgen⟩
    · simp only [values, List.append_nil]
      have hp := hmk made a b h4
      refine ⟨h4, Int.le_refl _, ?_, ?_, ?_⟩
      · exact nodup_append_fresh (List.Nodup.of_append_left hnd) hseen hp h3
      · intro v hv; have := hseen v hv; simp only; omega
      · intro v hv; exact mem_rangeIntP.1 (hp.mem_iff.1 hv)
    · simp only [values, List.append_nil]
      exact ⟨hlt, hle, hnd, hseen, hgen⟩
    · simp only [values, List.append_nil]
      exact ⟨hlt, hle, hnd, hseen, hgen⟩
  | next =>
    cases gen with
    | cons v rest =>
      simp only [step, values]
      refine ⟨hlt, hle, ?_, ?_, ?_⟩
      · simpa using hnd
      · intro x hx
        rcases List.mem_append.1 hx with hx | hx
        · exact hseen x hx
        · simp only [List.mem_singleton] at hx; subst hx
          exact (hgen x (by simp)).2
      · intro x hx; exact hgen x (by simp [hx])
    | nil =>
      simp only [step]
      split_ifs with h1
      · simp only [values, List.append_nil]
        exact ⟨hlt, hle, hnd, hseen, hgen⟩
      · have hp := hmk made om cm (by omega)
        have hnd' := nodup_append_fresh (List.Nodup.of_append_left hnd) hseen hp (Int.le_refl _)
        cases hm : mk made om cm with
        | nil =>
          simp only [values, List.append_nil]
          refine ⟨by simp only; omega, Int.le_refl _, by simpa using List.Nodup.of_append_left hnd,
            ?_, by simp⟩
          intro x hx; have := hseen x hx; simp only; omega
        | cons v rest =>
          simp only [values]
          rw [hm] at hp hnd'
          have hmem : ∀ x ∈ v :: rest, om ≤ x ∧ x < cm := fun x hx =>
            mem_rangeIntP.1 (hp.mem_iff.1 hx)
          refine ⟨by simp only; omega, Int.le_refl _, by simpa using hnd', ?_, ?_⟩
          · intro x hx
            rcases List.mem_append.1 hx with hx | hx
            · have := hseen x hx; simp only; omega
            · simp only [List.mem_singleton] at hx; subst hx
              exact (hmem x (by simp)).2
          · intro x hx
            have := hmem x (by simp [hx])
            simp only; omega

theorem run_inv1 (mk : Mk) (hmk : GoodMkP mk) (ops : List Op) :
    ∀ (s : St) (seen : List Int), Inv1 s seen →
      Inv1 (run mk s ops).1 (seen ++ values (run mk s ops).2) := by
  induction ops with
  | nil => intro s seen h; simpa [run, values] using h
  | cons op ops ih =>
    intro s seen h
    rw [run_cons_fst, run_cons_snd, values_cons, ← List.append_assoc]
    exact ih _ _ (step_inv1 mk hmk s seen op h)

theorem create_inv1 (mk : Mk) (hmk : GoodMkP mk) (a b : Int) (s : St)
    (hs : create mk a b = some s) : Inv1 s [] := by
  unfold create at hs
  split_ifs at hs with hab
  simp only [Option.some.injEq] at hs
  subst hs
  have hp := hmk 0 a b hab
  refine ⟨hab, Int.le_refl _, ?_, by simp, ?_⟩
  · simpa using hp.nodup_iff.2 (nodup_rangeIntP _ _)
  · intro v hv; exact mem_rangeIntP.1 (hp.mem_iff.1 hv)

theorem next_value_in_range (mk : Mk) (hmk : GoodMkP mk) (s : St) (seen : List Int)
    (hi : Inv1 s seen) (s' : St) (v : Int) (h : step mk s Op.next = (s', Out.value v)) :
    s'.u.min ≤ v ∧ v < s'.u.curMax := by
  obtain ⟨⟨mn, om, cm, gen⟩, made⟩ := s
  obtain ⟨hlt, hle, hnd, hseen, hgen⟩ := hi
  simp only at hlt hle hnd hseen hgen
  cases gen with
  | cons w rest =>
    simp only [step, Prod.mk.injEq, Out.value.injEq] at h
    obtain ⟨rfl, rfl⟩ := h
    have := hgen w (by simp)
    simp only; omega
  | nil =>
    simp only [step] at h
    split_ifs at h with h1
    · simp at h
    · have hp := hmk made om cm (by omega)
      cases hm : mk made om cm with
      | nil => rw [hm] at h; simp at h
      | cons w rest =>
        rw [hm] at h hp
        simp only [Prod.mk.injEq, Out.value.injEq] at h
        obtain ⟨rfl, rfl⟩ := h
        have := mem_rangeIntP.1 (hp.mem_iff.1 (List.mem_cons_self))
        simp only; omega

/-! ### Structural facts about `step` -/

theorem move_sets_range (mk : Mk) (s s' : St) (a b : Int)
    (h : step mk s (Op.setRange a b) = (s', Out.ok)) (hne : a ≠ s.u.min) :
    s.u.origMax ≤ a ∧ s'.u.min = a ∧ s'.u.curMax = b ∧ s'.u.gen = mk s.made a b := by
  simp only [step] at h
  split_ifs at h with h1 h2 h3 h4
  · exact absurd h1 hne
  · exact absurd h1 hne
  · simp only [Prod.mk.injEq, and_true] at h
    subst h
    exact ⟨h3, rfl, rfl, rfl⟩
  all_goals simp at h

theorem min_changes_only_by_move (mk : Mk) (s s' : St) (op : Op) (o : Out)
    (h : step mk s op = (s', o)) (hne : s'.u.min ≠ s.u.min) :
    ∃ a b, op = Op.setRange a b ∧ o = Out.ok ∧ s.u.origMax ≤ a ∧ s'.u.min = a := by
  obtain ⟨⟨mn, om, cm, gen⟩, made⟩ := s
  cases op with
  | setRange a b =>
    simp only [step] at h
    split_ifs at h with h1 h2 h3 h4 <;> simp only [Prod.mk.injEq] at h <;> obtain ⟨rfl, rfl⟩ := h
    · exact absurd rfl hne
    · exact absurd rfl hne
    · exact ⟨a, b, rfl, rfl, h3, rfl⟩
    · exact absurd rfl hne
    · exact absurd rfl hne
  | next =>
    exfalso
    cases gen with
    | cons w rest =>
      simp only [step, Prod.mk.injEq] at h
      obtain ⟨rfl, rfl⟩ := h
      exact hne rfl
    | nil =>
      simp only [step] at h
      split_ifs at h with h1
      · simp only [Prod.mk.injEq] at h
        obtain ⟨rfl, rfl⟩ := h
        exact hne rfl
      · cases hm : mk made om cm with
        | nil =>
          rw [hm] at h
          simp only [Prod.mk.injEq] at h
          obtain ⟨rfl, rfl⟩ := h
          exact hne rfl
        | cons w rest =>
          rw [hm] at h
          simp only [Prod.mk.injEq] at h
          obtain ⟨rfl, rfl⟩ := h
          exact hne rfl

/-! ### Extension-only histories -/

structure Inv2 (a : Int) (s : St) (seen : List Int) : Prop where
  min_eq : s.u.min = a
  lt : a < s.u.origMax
  le : s.u.origMax ≤ s.u.curMax
  perm : (seen ++ s.u.gen).Perm (rangeIntP a s.u.origMax)

theorem step_inv2 (mk : Mk) (hmk : GoodMkP mk) (a : Int) (s : St) (seen : List Int) (op : Op)
    (ops : List Op) (h : Inv2 a s seen) (hext : ExtendOnlyP a s.u.curMax (op :: ops)) :
    Inv2 a (step mk s op).1 (seen ++ values [(step mk s op).2])
      ∧ ExtendOnlyP a (step mk s op).1.u.curMax ops
      ∧ (step mk s op).2 ≠ Out.assertion := by
  obtain ⟨⟨mn, om, cm, gen⟩, made⟩ := s
  obtain ⟨hmin, hlt, hle, hperm⟩ := h
  simp only at hmin hlt hle hperm
  subst hmin
  cases op with
  | setRange x y =>
    simp only [ExtendOnlyP] at hext
    obtain ⟨rfl, hcy, hext⟩ := hext
    simp only [step, if_true, ge_iff_le, hcy, values, List.append_nil]
    exact ⟨⟨rfl, hlt, by simp only; omega, hperm⟩, hext, by simp⟩
  | next =>
    simp only [ExtendOnlyP] at hext
    cases gen with
    | cons v rest =>
      simp only [step, values]
      refine ⟨⟨rfl, hlt, hle, ?_⟩, hext, by simp⟩
      simpa using hperm
    | nil =>
      simp only [step]
      split_ifs with h1
      · simp only [values, List.append_nil]
        exact ⟨⟨rfl, hlt, hle, hperm⟩, hext, by simp⟩
      · have hp := hmk made om cm (by omega)
        have hperm' : (seen ++ mk made om cm).Perm (rangeIntP mn cm) := by
          rw [List.append_nil] at hperm
          exact (List.Perm.append hperm hp).trans (rangeIntP_append _ _ _ (by omega) (by omega))
        cases hm : mk made om cm with
        | nil =>
          exfalso
          rw [hm] at hp
          have := hp.length_eq
          rw [length_rangeIntP] at this
          simp at this
          omega
        | cons v rest =>
          simp only [values]
          rw [hm] at hperm'
          refine ⟨⟨rfl, by simp only; omega, Int.le_refl _, ?_⟩, hext, by simp⟩
          simpa using hperm'

theorem run_inv2 (mk : Mk) (hmk : GoodMkP mk) (a : Int) (ops : List Op) :
    ∀ (s : St) (seen : List Int), Inv2 a s seen → ExtendOnlyP a s.u.curMax ops →
      Inv2 a (run mk s ops).1 (seen ++ values (run mk s ops).2)
        ∧ Out.assertion ∉ (run mk s ops).2 := by
  induction ops with
  | nil => intro s seen h _; simpa [run, values] using h
  | cons op ops ih =>
    intro s seen h hext
    obtain ⟨h1, h2, h3⟩ := step_inv2 mk hmk a s seen op ops h hext
    obtain ⟨h4, h5⟩ := ih _ _ h1 h2
    rw [run_cons_fst, run_cons_snd, values_cons, ← List.append_assoc]
    refine ⟨h4, ?_⟩
    rw [List.mem_cons, not_or]
    exact ⟨fun e => h3 e.symm, h5⟩

theorem create_inv2 (mk : Mk) (hmk : GoodMkP mk) (a b : Int) (s : St)
    (hs : create mk a b = some s) : Inv2 a s [] ∧ s.u.curMax = b := by
  unfold create at hs
  split_ifs at hs with hab
  simp only [Option.some.injEq] at hs
  subst hs
  exact ⟨⟨rfl, hab, Int.le_refl _, by simpa using hmk 0 a b hab⟩, rfl⟩

theorem extendOnlyP_replicate (a cur : Int) (n : Nat) :
    ExtendOnlyP a cur (List.replicate n Op.next) := by
  induction n with
  | zero => simp [ExtendOnlyP]
  | succ n ih => simpa [List.replicate_succ, ExtendOnlyP] using ih

/-- Draining: after at least `gen.length + (curMax - origMax)` requests nothing is left. -/
theorem drain (mk : Mk) (hmk : GoodMkP mk) (n : Nat) :
    ∀ s : St, s.u.gen.length + (s.u.curMax - s.u.origMax).toNat ≤ n →
      (run mk s (List.replicate n Op.next)).1.u.gen = []
      ∧ (run mk s (List.replicate n Op.next)).1.u.curMax
          ≤ (run mk s (List.replicate n Op.next)).1.u.origMax
      ∧ (run mk s (List.replicate n Op.next)).1.u.curMax = s.u.curMax := by
  induction n with
  | zero =>
    intro s h
    simp only [List.replicate_zero, run]
    refine ⟨?_, by omega, trivial⟩
    exact List.length_eq_zero_iff.1 (by omega)
  | succ n ih =>
    intro s h
    rw [List.replicate_succ, run_cons_fst]
    suffices hs : (step mk s Op.next).1.u.gen.length
        + ((step mk s Op.next).1.u.curMax - (step mk s Op.next).1.u.origMax).toNat ≤ n
        ∧ (step mk s Op.next).1.u.curMax = s.u.curMax by
      obtain ⟨h1, h2, h3⟩ := ih _ hs.1
      exact ⟨h1, h2, h3.trans hs.2⟩
    obtain ⟨⟨mn, om, cm, gen⟩, made⟩ := s
    simp only at h
    cases gen with
    | cons v rest =>
      simp only [step]
      simp only [List.length_cons] at h
      exact ⟨by omega, trivial⟩
    | nil =>
      simp only [step]
      split_ifs with h1
      · simp only [List.length_nil]
        exact ⟨by omega, trivial⟩
      · have hp := hmk made om cm (by omega)
        have hl := hp.length_eq
        rw [length_rangeIntP] at hl
        cases hm : mk made om cm with
        | nil => simp only [List.length_nil]; exact ⟨by omega, trivial⟩
        | cons v rest =>
          rw [hm] at hl
          simp only [List.length_cons, List.length_nil] at hl h ⊢
          exact ⟨by omega, trivial⟩

theorem exhaustive (mk : Mk) (hmk : GoodMkP mk) (a b : Int) (s : St)
    (hs : create mk a b = some s) (ops : List Op) (hext : ExtendOnlyP a b ops) :
    (values ((run mk s ops).2 ++ (run mk (run mk s ops).1
        (List.replicate ((run mk s ops).1.u.curMax - a).toNat Op.next)).2)).Perm
      (rangeIntP a (run mk s ops).1.u.curMax)
    ∧ (step mk (run mk (run mk s ops).1
        (List.replicate ((run mk s ops).1.u.curMax - a).toNat Op.next)).1 Op.next).2 = Out.stop := by
  obtain ⟨hi0, hb⟩ := create_inv2 mk hmk a b s hs
  rw [← hb] at hext
  obtain ⟨hi1, -⟩ := run_inv2 mk hmk a ops s [] hi0 hext
  rw [List.nil_append] at hi1
  generalize (run mk s ops).1 = s' at hi1 ⊢
  generalize (run mk s ops).2 = out1 at hi1 ⊢
  obtain ⟨hi2, -⟩ := run_inv2 mk hmk a _ s' _ hi1
    (extendOnlyP_replicate a s'.u.curMax (s'.u.curMax - a).toNat)
  have hlen : s'.u.gen.length + (s'.u.curMax - s'.u.origMax).toNat ≤ (s'.u.curMax - a).toNat := by
    have h1 := hi1.perm.length_eq
    rw [length_rangeIntP, List.length_append] at h1
    have := hi1.lt
    have := hi1.le
    omega
  obtain ⟨hg, hc, hcm⟩ := drain mk hmk _ s' hlen
  generalize (run mk s' (List.replicate (s'.u.curMax - a).toNat Op.next)).1 = s'' at hi2 hg hc hcm ⊢
  generalize (run mk s' (List.replicate (s'.u.curMax - a).toNat Op.next)).2 = out2 at hi2 ⊢
  constructor
  · have hp := hi2.perm
    have hom : s''.u.origMax = s'.u.curMax := by have := hi2.le; omega
    rw [hg, List.append_nil, hom] at hp
    rw [values_append]
    exact hp
  · obtain ⟨⟨mn, om, cm, gen⟩, made⟩ := s''
    simp only at hg hc
    subst hg
    simp [step, hc]

end SnowModel.Proofs.C12
