/-
Helper lemmas for C01L2, part 1: association lists with unique keys, the id view of a state
(`idNat`, `rIdsOf`, `aIdsOf`, `lastOfL`, `GoodF`, `Good`) and how the primitive id operations
(`freshId`, `slotId`, `consume`, `generateId`, `regState`, `setRowValue`) act on it.
-/
import SnowModel.Proofs.L2Out
import Mathlib.Data.List.Perm.Basic
import Mathlib.Data.List.Nodup

namespace SnowModel.L2

/-! ### association lists -/
section AList
variable {α : Type}

theorem aget_nil (k : String) : aget ([] : AList α) k = none := rfl

theorem aget_cons (k a : String) (b : α) (l : AList α) :
    aget ((a, b) :: l) k = if k = a then some b else aget l k := by
  unfold aget
  rw [List.lookup_cons]
  by_cases h : k = a
  · subst h; simp
  · have hb : (k == a) = false := beq_eq_false_iff_ne.2 h
    simp [hb, h]

theorem aget_mem_keys {l : AList α} {k : String} {v : α} (h : aget l k = some v) :
    k ∈ l.map Prod.fst := by
  induction l with
  | nil => simp [aget] at h
  | cons p l ih =>
    obtain ⟨a, b⟩ := p
    rw [aget_cons] at h
    by_cases hk : k = a
    · simp [hk]
    · rw [if_neg hk] at h; simp [ih h]

theorem aget_of_mem_keys {l : AList α} {k : String} (h : k ∈ l.map Prod.fst) :
    ∃ v, aget l k = some v := by
  induction l with
  | nil => simp at h
  | cons p l ih =>
    obtain ⟨a, b⟩ := p
    rw [aget_cons]
    by_cases hk : k = a
    · exact ⟨b, by simp [hk]⟩
    · simp only [List.map_cons, List.mem_cons] at h
      rcases h with h | h
      · exact absurd h hk
      · rw [if_neg hk]; exact ih h

theorem aget_none_of_not_mem {l : AList α} {k : String} (h : k ∉ l.map Prod.fst) :
    aget l k = none := by
  cases hv : aget l k with
  | none => rfl
  | some v => exact absurd (aget_mem_keys hv) h

theorem any_key_iff (l : AList α) (k : String) :
    l.any (fun p => p.1 == k) = true ↔ k ∈ l.map Prod.fst := by
  simp only [List.any_eq_true, beq_iff_eq, List.mem_map]

/-- what `aset` does to one entry when the key is present -/
def repl (k : String) (v : α) (p : String × α) : String × α := if p.1 == k then (k, v) else p

theorem repl_fst (k : String) (v : α) (p : String × α) : (repl k v p).1 = p.1 := by
  unfold repl
  split
  · next h => simp only [beq_iff_eq] at h; simp [h]
  · rfl

theorem repl_self (k : String) (v b : α) : repl k v (k, b) = (k, v) := by simp [repl]

theorem repl_ne {k a : String} (h : a ≠ k) (v b : α) : repl k v (a, b) = (a, b) := by simp [repl, h]

theorem aset_of_mem {l : AList α} {k : String} (h : k ∈ l.map Prod.fst) (v : α) :
    aset l k v = l.map (repl k v) := by
  unfold aset
  rw [if_pos ((any_key_iff l k).2 h)]
  rfl

theorem aset_of_not_mem {l : AList α} {k : String} (h : k ∉ l.map Prod.fst) (v : α) :
    aset l k v = l ++ [(k, v)] := by
  unfold aset
  rw [if_neg (fun hh => h ((any_key_iff l k).1 hh))]

theorem map_repl_keys (l : AList α) (k : String) (v : α) :
    (l.map (repl k v)).map Prod.fst = l.map Prod.fst := by
  rw [List.map_map]
  apply List.map_congr_left
  intro p _
  exact repl_fst k v p

theorem aset_keys_of_mem {l : AList α} {k : String} (h : k ∈ l.map Prod.fst) (v : α) :
    (aset l k v).map Prod.fst = l.map Prod.fst := by
  rw [aset_of_mem h, map_repl_keys]

theorem aset_keys_of_not_mem {l : AList α} {k : String} (h : k ∉ l.map Prod.fst) (v : α) :
    (aset l k v).map Prod.fst = l.map Prod.fst ++ [k] := by
  rw [aset_of_not_mem h]; simp

theorem aset_keys_nodup {l : AList α} (hnd : (l.map Prod.fst).Nodup) (k : String) (v : α) :
    ((aset l k v).map Prod.fst).Nodup := by
  by_cases h : k ∈ l.map Prod.fst
  · rw [aset_keys_of_mem h]; exact hnd
  · rw [aset_keys_of_not_mem h]
    rw [List.nodup_append]
    refine ⟨hnd, List.nodup_singleton k, ?_⟩
    intro a ha b hb
    simp only [List.mem_singleton] at hb
    subst hb
    intro hab; subst hab; exact h ha

theorem aget_map_repl_ne {k k' : String} (h : k' ≠ k) (v : α) (l : AList α) :
    aget (l.map (repl k v)) k' = aget l k' := by
  induction l with
  | nil => rfl
  | cons p l ih =>
    obtain ⟨a, b⟩ := p
    rw [List.map_cons]
    by_cases ha : a = k
    · subst ha
      rw [repl_self, aget_cons, aget_cons, if_neg h, if_neg h, ih]
    · rw [repl_ne ha, aget_cons, aget_cons, ih]

theorem aget_map_repl_self {k : String} (v : α) {l : AList α} (hm : k ∈ l.map Prod.fst) :
    aget (l.map (repl k v)) k = some v := by
  induction l with
  | nil => simp at hm
  | cons p l ih =>
    obtain ⟨a, b⟩ := p
    rw [List.map_cons]
    by_cases ha : a = k
    · subst ha
      rw [repl_self, aget_cons, if_pos rfl]
    · rw [repl_ne ha, aget_cons, if_neg (Ne.symm ha)]
      simp only [List.map_cons, List.mem_cons] at hm
      rcases hm with hm | hm
      · exact absurd hm.symm ha
      · exact ih hm

theorem aget_append_single (l : AList α) (k k' : String) (v : α) :
    aget (l ++ [(k, v)]) k' = (aget l k').or (if k' = k then some v else none) := by
  unfold aget
  rw [List.lookup_append]
  congr 1
  have := aget_cons k' k v ([] : AList α)
  unfold aget at this
  rw [this]; rfl

theorem aget_aset_ne (l : AList α) {k k' : String} (h : k' ≠ k) (v : α) :
    aget (aset l k v) k' = aget l k' := by
  by_cases hm : k ∈ l.map Prod.fst
  · rw [aset_of_mem hm, aget_map_repl_ne h]
  · rw [aset_of_not_mem hm, aget_append_single, if_neg h]; simp

theorem aget_aset_self (l : AList α) (k : String) (v : α) :
    aget (aset l k v) k = some v := by
  by_cases hm : k ∈ l.map Prod.fst
  · rw [aset_of_mem hm, aget_map_repl_self v hm]
  · rw [aset_of_not_mem hm, aget_append_single, if_pos rfl, aget_none_of_not_mem hm]; rfl

theorem map_repl_of_not_mem {l : AList α} {k : String} (h : k ∉ l.map Prod.fst) (v : α) :
    l.map (repl k v) = l := by
  induction l with
  | nil => rfl
  | cons p l ih =>
    obtain ⟨a, b⟩ := p
    simp only [List.map_cons, List.mem_cons, not_or] at h
    rw [List.map_cons, repl_ne (Ne.symm h.1), ih h.2]

theorem map_repl_split {l : AList α} {k : String} {v : α} (hnd : (l.map Prod.fst).Nodup)
    (h : aget l k = some v) (v' : α) :
    ∃ l1 l2, l = l1 ++ (k, v) :: l2 ∧ l.map (repl k v') = l1 ++ (k, v') :: l2 := by
  induction l with
  | nil => simp [aget] at h
  | cons p l ih =>
    obtain ⟨a, b⟩ := p
    simp only [List.map_cons, List.nodup_cons] at hnd
    rw [aget_cons] at h
    by_cases hk : k = a
    · subst hk
      rw [if_pos rfl] at h
      simp only [Option.some.injEq] at h
      subst h
      refine ⟨[], l, rfl, ?_⟩
      rw [List.map_cons, repl_self, map_repl_of_not_mem hnd.1]
      rfl
    · rw [if_neg hk] at h
      obtain ⟨l1, l2, e1, e2⟩ := ih hnd.2 h
      refine ⟨(a, b) :: l1, l2, by rw [e1]; rfl, ?_⟩
      rw [List.map_cons, repl_ne (Ne.symm hk), e2]
      rfl

/-- updating a present key of a list with unique keys changes exactly that entry -/
theorem aset_split {l : AList α} {k : String} {v : α} (hnd : (l.map Prod.fst).Nodup)
    (h : aget l k = some v) (v' : α) :
    ∃ l1 l2, l = l1 ++ (k, v) :: l2 ∧ aset l k v' = l1 ++ (k, v') :: l2 := by
  rw [aset_of_mem (aget_mem_keys h)]
  exact map_repl_split hnd h v'

end AList

/-! ### the id view of a state -/

/-- id of a stored row, if it is a natural number -/
def idNat (r : RowData) : Option Nat :=
  match r.values.lookup "id" with
  | some (.int i) => if 0 ≤ i then some i.toNat else none
  | _ => none

def rIdsOf (rows : List RowData) (T : String) : List Nat :=
  (rows.filter (fun r => r.table = T)).filterMap idNat

def aIdsOf (names : AList String) (slots : AList SlotSt) (T : String) : List Nat :=
  slots.filterMap (fun p =>
    match p.2 with
    | .alloc i => if aget names p.1 = some T then some i else none
    | _ => none)

def lastOfL (lu : AList Nat) (T : String) : Nat := (aget lu T).getD 0

def GoodF (names : AList String) (slots : AList SlotSt) (lu : AList Nat) (rows : List RowData) : Prop :=
  (names.map Prod.fst).Nodup ∧ slots.map Prod.fst = names.map Prod.fst ∧
  (∀ r ∈ rows, (idNat r).isSome) ∧
  ∀ T, (rIdsOf rows T ++ aIdsOf names slots T).Perm (List.range' 1 (lastOfL lu T))

def Good (s : St) : Prop := GoodF s.names s.slots s.lastUsed s.rows

/-- table and id of a row: all that the invariant sees of it -/
def sig (r : RowData) : String × Option Nat := (r.table, idNat r)

def sigs (s : St) : List (String × Option Nat) := s.rows.map sig

def sigIds (l : List (String × Option Nat)) (T : String) : List Nat :=
  (l.filter (fun p => p.1 = T)).filterMap (·.2)

theorem sigIds_append (a b : List (String × Option Nat)) (T : String) :
    sigIds (a ++ b) T = sigIds a T ++ sigIds b T := by
  simp [sigIds]

theorem sigIds_nil (T : String) : sigIds [] T = [] := rfl

theorem sigIds_single (t : String) (i : Nat) (T : String) :
    sigIds [(t, some i)] T = if t = T then [i] else [] := by
  by_cases h : t = T <;> simp [sigIds, h]

theorem rIdsOf_eq_sigIds (rows : List RowData) (T : String) :
    rIdsOf rows T = sigIds (rows.map sig) T := by
  unfold rIdsOf sigIds
  rw [List.filter_map, List.filterMap_map]
  rfl

theorem rIdsOf_append (a b : List RowData) (T : String) :
    rIdsOf (a ++ b) T = rIdsOf a T ++ rIdsOf b T := by
  simp [rIdsOf]

theorem rIdsOf_single {rd : RowData} {t : String} {i : Nat} (ht : rd.table = t) (hi : idNat rd = some i)
    (T : String) : rIdsOf [rd] T = if t = T then [i] else [] := by
  subst ht
  by_cases h : rd.table = T <;> simp [rIdsOf, h, hi]

theorem allSome_iff_sigs (rows : List RowData) :
    (∀ r ∈ rows, (idNat r).isSome) ↔ ∀ p ∈ rows.map sig, p.2.isSome := by
  simp [sig]

/-- the invariant depends on the rows only through their tables and ids -/
theorem GoodF_rows {names : AList String} {slots : AList SlotSt} {lu : AList Nat} {rows rows' : List RowData}
    (hr : rows'.map sig = rows.map sig) (hg : GoodF names slots lu rows) : GoodF names slots lu rows' := by
  obtain ⟨h1, h2, h3, h4⟩ := hg
  refine ⟨h1, h2, ?_, ?_⟩
  · rw [allSome_iff_sigs, hr, ← allSome_iff_sigs]; exact h3
  · intro T
    rw [rIdsOf_eq_sigIds, hr, ← rIdsOf_eq_sigIds]; exact h4 T

theorem idNat_new (t : String) (idx : Nat) (n : Nat) :
    idNat { table := t, idx := idx, values := [("id", Val.int n)] } = some n := by
  simp [idNat]

/-! ### list arithmetic -/

theorem perm_reserve {R A1 A2 : List Nat} {n : Nat} (h : (R ++ (A1 ++ A2)).Perm (List.range' 1 n)) :
    (R ++ (A1 ++ (n + 1) :: A2)).Perm (List.range' 1 (n + 1)) := by
  rw [List.range'_concat]
  rw [List.perm_iff_count] at h ⊢
  intro a
  have := h a
  simp only [List.count_append, List.count_cons, List.count_nil] at this ⊢
  have e : (1 + 1 * n == a) = (n + 1 == a) := by congr 1; omega
  rw [e]
  omega

theorem perm_consume {R A1 A2 : List Nat} {i n : Nat} (h : (R ++ (A1 ++ i :: A2)).Perm (List.range' 1 n)) :
    ((R ++ [i]) ++ (A1 ++ A2)).Perm (List.range' 1 n) := by
  rw [List.perm_iff_count] at h ⊢
  intro a
  have := h a
  simp only [List.count_append, List.count_cons, List.count_nil] at this ⊢
  omega

theorem perm_fresh {R A : List Nat} {n : Nat} (h : (R ++ A).Perm (List.range' 1 n)) :
    ((R ++ [n + 1]) ++ A).Perm (List.range' 1 (n + 1)) := by
  rw [List.range'_concat]
  rw [List.perm_iff_count] at h ⊢
  intro a
  have := h a
  simp only [List.count_append, List.count_cons, List.count_nil] at this ⊢
  have e : (1 + 1 * n == a) = (n + 1 == a) := by congr 1; omega
  rw [e]
  omega

/-! ### slots -/

theorem aIdsOf_append (names : AList String) (l1 l2 : AList SlotSt) (T : String) :
    aIdsOf names (l1 ++ l2) T = aIdsOf names l1 T ++ aIdsOf names l2 T := by
  simp [aIdsOf]

theorem aIdsOf_cons_alloc (names : AList String) (n : String) (i : Nat) (l : AList SlotSt) (T : String) :
    aIdsOf names ((n, .alloc i) :: l) T =
      (if aget names n = some T then [i] else []) ++ aIdsOf names l T := by
  by_cases h : aget names n = some T <;> simp [aIdsOf, h]

theorem aIdsOf_cons_unused (names : AList String) (n : String) (l : AList SlotSt) (T : String) :
    aIdsOf names ((n, .unused) :: l) T = aIdsOf names l T := by
  simp [aIdsOf]

theorem aIdsOf_cons_consumed (names : AList String) (n : String) (i : Nat) (l : AList SlotSt) (T : String) :
    aIdsOf names ((n, .consumed i) :: l) T = aIdsOf names l T := by
  simp [aIdsOf]

theorem aIdsOf_unused (names names' : AList String) (T : String) :
    aIdsOf names (names'.map (fun p => (p.1, SlotSt.unused))) T = [] := by
  simp [aIdsOf]

theorem lastOfL_aset_self (lu : AList Nat) (t : String) (n : Nat) : lastOfL (aset lu t n) t = n := by
  simp [lastOfL, aget_aset_self]

theorem lastOfL_aset_ne (lu : AList Nat) {t T : String} (h : T ≠ t) (n : Nat) :
    lastOfL (aset lu t n) T = lastOfL lu T := by
  simp [lastOfL, aget_aset_ne lu h]

/-- (F1) reserving an id in an unused slot -/
theorem GoodF_reserve {names : AList String} {slots : AList SlotSt} {lu : AList Nat} {rows : List RowData}
    {n t : String} (hg : GoodF names slots lu rows) (hn : aget names n = some t)
    (hs : aget slots n = some .unused) :
    GoodF names (aset slots n (.alloc (lastOfL lu t + 1))) (aset lu t (lastOfL lu t + 1)) rows := by
  obtain ⟨h1, h2, h3, h4⟩ := hg
  obtain ⟨l1, l2, e1, e2⟩ := aset_split (h2 ▸ h1) hs (SlotSt.alloc (lastOfL lu t + 1))
  refine ⟨h1, ?_, h3, ?_⟩
  · rw [aset_keys_of_mem (aget_mem_keys hs)]; exact h2
  · intro T
    have h4T := h4 T
    rw [e1, aIdsOf_append, aIdsOf_cons_unused] at h4T
    rw [e2, aIdsOf_append, aIdsOf_cons_alloc, hn]
    by_cases hT : t = T
    · subst hT
      rw [if_pos rfl, lastOfL_aset_self]
      exact perm_reserve h4T
    · rw [if_neg (fun hh => hT (Option.some.inj hh)), lastOfL_aset_ne lu (Ne.symm hT)]
      simpa using h4T

/-- (F2) consuming a reserved id for a new row -/
theorem GoodF_consume {names : AList String} {slots : AList SlotSt} {lu : AList Nat} {rows : List RowData}
    {n t : String} {i : Nat} {rd : RowData} (hg : GoodF names slots lu rows) (hn : aget names n = some t)
    (hs : aget slots n = some (.alloc i)) (ht : rd.table = t) (hi : idNat rd = some i) :
    GoodF names (aset slots n (.consumed i)) lu (rows ++ [rd]) := by
  obtain ⟨h1, h2, h3, h4⟩ := hg
  obtain ⟨l1, l2, e1, e2⟩ := aset_split (h2 ▸ h1) hs (SlotSt.consumed i)
  refine ⟨h1, ?_, ?_, ?_⟩
  · rw [aset_keys_of_mem (aget_mem_keys hs)]; exact h2
  · intro r hr
    rcases List.mem_append.1 hr with hr | hr
    · exact h3 r hr
    · simp only [List.mem_singleton] at hr
      subst hr; rw [hi]; rfl
  · intro T
    have h4T := h4 T
    rw [e1, aIdsOf_append, aIdsOf_cons_alloc, hn] at h4T
    rw [e2, aIdsOf_append, aIdsOf_cons_consumed, rIdsOf_append, rIdsOf_single ht hi]
    by_cases hT : t = T
    · subst hT
      rw [if_pos rfl] at h4T ⊢
      exact perm_consume h4T
    · rw [if_neg (fun hh => hT (Option.some.inj hh))] at h4T
      rw [if_neg hT]
      simpa using h4T

/-- (F3) a fresh id for a new row -/
theorem GoodF_fresh {names : AList String} {slots : AList SlotSt} {lu : AList Nat} {rows : List RowData}
    {t : String} {rd : RowData} (hg : GoodF names slots lu rows) (ht : rd.table = t)
    (hi : idNat rd = some (lastOfL lu t + 1)) :
    GoodF names slots (aset lu t (lastOfL lu t + 1)) (rows ++ [rd]) := by
  obtain ⟨h1, h2, h3, h4⟩ := hg
  refine ⟨h1, h2, ?_, ?_⟩
  · intro r hr
    rcases List.mem_append.1 hr with hr | hr
    · exact h3 r hr
    · simp only [List.mem_singleton] at hr
      subst hr; rw [hi]; rfl
  · intro T
    have h4T := h4 T
    rw [rIdsOf_append, rIdsOf_single ht hi]
    by_cases hT : t = T
    · subst hT
      rw [if_pos rfl, lastOfL_aset_self]
      exact perm_fresh h4T
    · rw [if_neg hT, lastOfL_aset_ne lu (Ne.symm hT)]
      simpa using h4T

/-- (F5) when nothing is reserved, all slots can be reset -/
theorem GoodF_reset {names : AList String} {slots : AList SlotSt} {lu : AList Nat} {rows : List RowData}
    (hg : GoodF names slots lu rows) (hz : ∀ T, aIdsOf names slots T = []) :
    GoodF names (names.map (fun p => (p.1, SlotSt.unused))) lu rows := by
  obtain ⟨h1, h2, h3, h4⟩ := hg
  refine ⟨h1, ?_, h3, ?_⟩
  · rw [List.map_map]; rfl
  · intro T
    have := h4 T
    rw [hz T] at this
    rw [aIdsOf_unused]; exact this

end SnowModel.L2
