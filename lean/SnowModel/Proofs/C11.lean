/-
Helper lemmas for C11 (bounded random functions).
-/
import SnowModel.Core.Bounded
import Mathlib.Tactic.Ring
import Mathlib.Tactic.Linarith

namespace SnowModel.Proofs.C11
open SnowModel.Bounded

/-! ### randrange -/

/-- positive step: `k < ⌈w / s⌉ ↔ s·k < w` -/
theorem lt_ceil_iff (w s k : Int) (hs : 0 < s) : k < (w + s - 1) / s ↔ s * k < w := by
  constructor
  · intro h
    have h1 : k + 1 ≤ (w + s - 1) / s := by omega
    have h2 := (Int.le_ediv_iff_mul_le hs).1 h1
    nlinarith
  · intro h
    have h3 : (k + 1) * s ≤ w + s - 1 := by nlinarith
    have h2 := (Int.le_ediv_iff_mul_le hs).2 h3
    omega

theorem rrCount_pos_iff (start stop step k : Int) (hs : 0 < step) :
    k < rrCount start stop step ↔ start + step * k < stop := by
  unfold rrCount
  by_cases h1 : step = 1
  · subst h1; simp; omega
  · rw [if_neg h1, if_pos hs, Int.fdiv_eq_ediv_of_nonneg _ (by omega), lt_ceil_iff _ _ _ hs]
    omega

theorem rrCount_neg_iff (start stop step k : Int) (hs : step < 0) :
    k < rrCount start stop step ↔ stop < start + step * k := by
  unfold rrCount
  have h1 : step ≠ 1 := by omega
  have h2 : ¬ step > 0 := by omega
  rw [if_neg h1, if_neg h2, if_pos hs]
  have e : (stop - start + step + 1).fdiv step = ((start - stop) + (-step) - 1) / (-step) := by
    rw [← Int.neg_fdiv_neg, Int.fdiv_eq_ediv_of_nonneg _ (by omega)]
    congr 1; omega
  rw [e, lt_ceil_iff _ _ _ (by omega)]
  constructor <;> intro h <;> nlinarith

theorem rnCount_eq (min max step : Int) (hs : 1 ≤ step) (hmm : min ≤ max) :
    rnCount min max step = (max - min) / step + 1 := by
  -- both sides are characterised by `k < n ↔ min + step·k ≤ max`
  have hq : 0 ≤ (max - min) / step := Int.ediv_nonneg (by omega) (by omega)
  have key : ∀ k : Int, k < rnCount min max step ↔ k < (max - min) / step + 1 := by
    intro k
    unfold rnCount
    rw [rrCount_pos_iff _ _ _ _ (by simp [rnStep]; omega)]
    simp only [rnStart, rnStop, rnStep]
    have : k < (max - min) / step + 1 ↔ k ≤ (max - min) / step := by omega
    rw [this, Int.le_ediv_iff_mul_le (by omega)]
    constructor <;> intro h <;> nlinarith
  have h1 := key (rnCount min max step)
  have h2 := key ((max - min) / step + 1)
  omega

theorem randrange_value (start stop step : Int) (k : Nat) (x : Int)
    (h : randrange start stop step k = .value x) :
    step ≠ 0 ∧ (k : Int) < rrCount start stop step ∧ x = start + step * k := by
  unfold randrange at h
  by_cases h0 : step = 0
  · rw [if_pos h0] at h; cases h
  · rw [if_neg h0] at h
    by_cases h1 : rrCount start stop step ≤ 0
    · rw [if_pos h1] at h; cases h
    · rw [if_neg h1] at h
      by_cases h2 : (k : Int) < rrCount start stop step
      · rw [if_pos h2] at h
        injection h with h
        exact ⟨h0, h2, h.symm⟩
      · rw [if_neg h2] at h; cases h

/-! ### weighted choice -/

theorem prefixSum_zero (w : List Nat) : prefixSum w 0 = 0 := by
  cases w <;> rfl

theorem prefixSum_succ (w : List Nat) (j : Nat) :
    prefixSum w (j + 1) = prefixSum w j + w.getD j 0 := by
  induction w generalizing j with
  | nil => simp [prefixSum]
  | cons a w ih =>
    cases j with
    | zero => simp [prefixSum, prefixSum_zero]
    | succ j => simp only [prefixSum, List.getD_cons_succ]; rw [ih j]; omega

theorem prefixSum_mono (w : List Nat) {i j : Nat} (h : i ≤ j) : prefixSum w i ≤ prefixSum w j := by
  induction h with
  | refl => exact Nat.le_refl _
  | step _ ih => rw [prefixSum_succ]; omega

theorem prefixSum_of_length_le (w : List Nat) {j : Nat} (h : w.length ≤ j) :
    prefixSum w j = sumW w := by
  induction w generalizing j with
  | nil => simp [prefixSum, sumW]
  | cons a w ih =>
    cases j with
    | zero => simp at h
    | succ j => simp only [prefixSum, sumW]; rw [ih (by simpa using h)]

theorem prefixSum_le_sum (w : List Nat) (j : Nat) : prefixSum w j ≤ sumW w := by
  rw [← prefixSum_of_length_le w (Nat.le_max_left w.length j)]
  exact prefixSum_mono w (Nat.le_max_right _ _)

/-- The scan returns the unique index whose weight interval contains the draw. -/
theorem scan_spec (x : Nat) (w : List Nat) (acc i0 : Nat) (hne : w ≠ [])
    (hlo : acc ≤ x) (hhi : x < acc + sumW w) :
    ∃ j, bisectScan x (cumFrom acc w) i0 = i0 + j ∧ j < w.length ∧
      acc + prefixSum w j ≤ x ∧ x < acc + prefixSum w (j + 1) := by
  induction w generalizing acc i0 with
  | nil => exact absurd rfl hne
  | cons a w ih =>
    cases w with
    | nil =>
      refine ⟨0, ?_, by simp, ?_, ?_⟩
      · simp [cumFrom, bisectScan]
      · simp [prefixSum]; exact hlo
      · simpa [prefixSum, sumW] using hhi
    | cons b w =>
      by_cases hc : acc + a > x
      · refine ⟨0, ?_, by simp, ?_, ?_⟩
        · simp [cumFrom, bisectScan, hc]
        · simp [prefixSum]; exact hlo
        · simp [prefixSum]; omega
      · have hstep : bisectScan x (cumFrom acc (a :: b :: w)) i0
            = bisectScan x (cumFrom (acc + a) (b :: w)) (i0 + 1) := by
          simp [cumFrom, bisectScan, hc]
        obtain ⟨j, hj, hjl, h1, h2⟩ := ih (acc + a) (i0 + 1) (by simp) (by omega)
          (by simp only [sumW] at hhi ⊢; omega)
        refine ⟨j + 1, ?_, by simpa using hjl, ?_, ?_⟩
        · rw [hstep, hj]; omega
        · simp only [prefixSum]; omega
        · simp only [prefixSum] at h2 ⊢; omega

theorem allSome_length : ∀ (ws : List (Option Nat)) (w : List Nat), allSome ws = some w →
    w.length = ws.length
  | [], w, h => by simp [allSome] at h; subst h; rfl
  | none :: _, _, h => by simp [allSome] at h
  | some a :: ws, w, h => by
    simp only [allSome, Option.map_eq_some_iff] at h
    obtain ⟨w', hw', rfl⟩ := h
    simp [allSome_length ws w' hw']

theorem allSome_get : ∀ (ws : List (Option Nat)) (w : List Nat), allSome ws = some w →
    ∀ i, i < ws.length → ws[i]? = some (some (w.getD i 0))
  | [], _, _, i, hi => by simp at hi
  | none :: _, _, h, _, _ => by simp [allSome] at h
  | some a :: ws, w, h, i, hi => by
    simp only [allSome, Option.map_eq_some_iff] at h
    obtain ⟨w', hw', rfl⟩ := h
    cases i with
    | zero => simp
    | succ i =>
      simp only [List.getElem?_cons_succ, List.getD_cons_succ]
      exact allSome_get ws w' hw' i (by simpa using hi)

theorem allSome_none_iff : ∀ (ws : List (Option Nat)), allSome ws = none ↔ none ∈ ws
  | [] => by simp [allSome]
  | none :: ws => by simp [allSome]
  | some a :: ws => by
    simp only [allSome, Option.map_eq_none_iff, allSome_none_iff ws]
    simp

/-- Complete description of the weighted pick. -/
theorem weightedIndex_picked_iff (ws : List (Option Nat)) (w : List Nat) (x i : Nat)
    (hw : allSome ws = some w) (hx : x < sumW w) :
    weightedIndex ws x = .picked i ↔ (prefixSum w i ≤ x ∧ x < prefixSum w (i + 1)) := by
  have hlen := allSome_length ws w hw
  have hne : w ≠ [] := by
    intro h; subst h; simp [sumW] at hx
  have hwsne : ws ≠ [] := by
    intro h; subst h; simp at hlen; exact hne hlen
  have hpos : ¬ sumW w = 0 := by omega
  obtain ⟨j, hj, hjl, h1, h2⟩ := scan_spec x w 0 0 hne (Nat.zero_le _) (by omega)
  have hval : weightedIndex ws x = .picked j := by
    unfold weightedIndex
    cases ws with
    | nil => exact absurd rfl hwsne
    | cons a ws =>
      simp only [hw, if_neg hpos, if_pos hx]
      rw [hj]; simp
  rw [hval]
  constructor
  · intro h; injection h with h; subst h; omega
  · intro ⟨h3, h4⟩
    congr 1
    rcases Nat.lt_trichotomy i j with hlt | heq | hgt
    · have := prefixSum_mono w (show i + 1 ≤ j by omega); omega
    · exact heq.symm
    · have := prefixSum_mono w (show j + 1 ≤ i by omega); omega

/-- What a successful pick tells about the inputs. -/
theorem weightedIndex_picked_inv (ws : List (Option Nat)) (x i : Nat)
    (h : weightedIndex ws x = .picked i) :
    ∃ w, allSome ws = some w ∧ x < sumW w := by
  unfold weightedIndex at h
  cases ws with
  | nil => simp at h
  | cons a ws =>
    simp only at h
    cases hw : allSome (a :: ws) with
    | none => rw [hw] at h; simp at h
    | some w =>
      rw [hw] at h
      simp only at h
      by_cases h0 : sumW w = 0
      · rw [if_pos h0] at h; cases h
      · rw [if_neg h0] at h
        by_cases hx : x < sumW w
        · exact ⟨w, rfl, hx⟩
        · rw [if_neg hx] at h; cases h

theorem getD_pos_lt (w : List Nat) (i : Nat) (h : 0 < w.getD i 0) : i < w.length := by
  rcases Nat.lt_or_ge i w.length with hlt | hge
  · exact hlt
  · simp [List.getD, List.getElem?_eq_none hge] at h

end SnowModel.Proofs.C11
