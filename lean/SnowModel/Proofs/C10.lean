import SnowModel.Proofs.C10a
import SnowModel.Proofs.C10b
import SnowModel.Proofs.C10c
