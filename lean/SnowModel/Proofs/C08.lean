/-
C08 — helper lemmas for the DB buffer machine (conservation invariant), schema inference and
multiplexing.  Core Lean only.
-/
import SnowModel.Core.Output

namespace SnowModel.Proofs.C08
open SnowModel.Output

/-! ### rowsOf -/

theorem rowsOf_nil {ρ : Type} (T : String) : rowsOf T ([] : List (String × ρ)) = [] := rfl

theorem rowsOf_append {ρ : Type} (T : String) (a b : List (String × ρ)) :
    rowsOf T (a ++ b) = rowsOf T a ++ rowsOf T b := by
  simp [rowsOf, List.filter_append]

theorem rowsOf_single {ρ : Type} (T t : String) (r : ρ) :
    rowsOf T [(t, r)] = if t = T then [r] else [] := by
  by_cases h : t = T
  · simp [rowsOf, List.filter, h]
  · have hb : (t == T) = false := by simpa using h
    simp [rowsOf, List.filter, h, hb]

theorem mem_rowsOf {ρ : Type} {T : String} {ws : List (String × ρ)} {r : ρ} (h : r ∈ rowsOf T ws) :
    ∃ w ∈ ws, w.2 = r := by
  simp only [rowsOf, List.mem_map, List.mem_filter] at h
  obtain ⟨w, ⟨hw, _⟩, rfl⟩ := h
  exact ⟨w, hw, rfl⟩

/-! ### keys -/

theorem mem_addKey {ks : List String} {t x : String} : x ∈ addKey ks t ↔ x ∈ ks ∨ x = t := by
  unfold addKey
  by_cases h : ks.contains t = true
  · simp only [h, if_true]
    constructor
    · exact Or.inl
    · rintro (h' | rfl)
      · exact h'
      · exact List.contains_iff_mem.1 h
  · simp only [h]
    simp [List.mem_append]

theorem mem_foldl_addKey {l ks : List String} {x : String} :
    x ∈ l.foldl addKey ks ↔ x ∈ ks ∨ x ∈ l := by
  induction l generalizing ks with
  | nil => simp
  | cons a l ih =>
    simp only [List.foldl_cons, ih, mem_addKey, List.mem_cons]
    constructor
    · rintro ((h | h) | h)
      · exact Or.inl h
      · exact Or.inr (Or.inl h)
      · exact Or.inr (Or.inr h)
    · rintro (h | h | h)
      · exact Or.inl (Or.inl h)
      · exact Or.inl (Or.inr h)
      · exact Or.inr h

/-! ### conservation invariant -/

/-- After the rows `ws` were written to `s` (started from `Db.init`): nothing is lost or
    duplicated between the database and the buffer; tables outside `table_info` only accumulate in
    the buffer; every written table is a key of the buffer dict. -/
structure Conserve {ρ : Type} (s : Db ρ) (known : List String) (ws : List (String × ρ)) : Prop where
  known_eq : s.known = known
  kn : ∀ T, known.contains T = true → s.committed T ++ s.buffered T = rowsOf T ws
  unk : ∀ T, known.contains T = false → s.committed T = [] ∧ s.buffered T = rowsOf T ws
  keys : ∀ w ∈ ws, w.1 ∈ s.keys

theorem conserve_init {ρ : Type} (c0 : Nat) (known : List String) :
    Conserve (Db.init c0 known : Db ρ) known [] :=
  ⟨rfl, fun _ _ => rfl, fun _ _ => ⟨rfl, rfl⟩, fun _ h => by cases h⟩

theorem conserve_writeSingle {ρ : Type} {s : Db ρ} {known : List String} {ws : List (String × ρ)}
    (h : Conserve s known ws) (t : String) (r : ρ) :
    Conserve (s.writeSingle t r) known (ws ++ [(t, r)]) := by
  refine ⟨h.known_eq, ?_, ?_, ?_⟩
  · intro T hT
    simp only [Db.writeSingle, rowsOf_append, rowsOf_single]
    by_cases e : T = t
    · subst e; simp only [if_true]; rw [← List.append_assoc, h.kn T hT]
    · have e' : ¬ t = T := fun x => e x.symm
      simp only [e, e', if_false, List.append_nil]; exact h.kn T hT
  · intro T hT
    simp only [Db.writeSingle, rowsOf_append, rowsOf_single]
    refine ⟨(h.unk T hT).1, ?_⟩
    by_cases e : T = t
    · subst e; simp only [if_true]; rw [(h.unk T hT).2]
    · have e' : ¬ t = T := fun x => e x.symm
      simp only [e, e', if_false, List.append_nil]; exact (h.unk T hT).2
  · intro w hw
    simp only [Db.writeSingle, mem_addKey]
    rcases List.mem_append.1 hw with hw | hw
    · exact Or.inl (h.keys w hw)
    · simp only [List.mem_singleton] at hw; subst hw; exact Or.inr rfl

theorem conserve_flush {ρ : Type} {bad : ρ → Bool} {s s' : Db ρ} {known : List String}
    {ws : List (String × ρ)} (h : Conserve s known ws) (hf : s.flush bad = some s') :
    Conserve s' known ws ∧ (∀ T, known.contains T = true → s'.buffered T = []) ∧ s'.count = s.count := by
  unfold Db.flush at hf
  split at hf
  · cases hf
  · cases hf
    have hk := h.known_eq
    refine ⟨⟨hk, ?_, ?_, ?_⟩, ?_, rfl⟩
    · intro T hT
      have hT' : s.known.contains T = true := by rw [hk]; exact hT
      simp only [hT', if_true, List.append_nil]; exact h.kn T hT
    · intro T hT
      have hT' : s.known.contains T = false := by rw [hk]; exact hT
      simp only [hT']; exact h.unk T hT
    · intro w hw
      simp only [mem_foldl_addKey]; exact Or.inl (h.keys w hw)
    · intro T hT
      have hT' : s.known.contains T = true := by rw [hk]; exact hT
      simp only [hT', if_true]

theorem conserve_commit {ρ : Type} {bad : ρ → Bool} {s s' : Db ρ} {known : List String}
    {ws : List (String × ρ)} (h : Conserve s known ws) (hf : s.commit bad = some s') :
    Conserve s' known ws ∧ s'.count = s.count := by
  unfold Db.commit at hf
  split at hf
  · exact ⟨(conserve_flush h hf).1, (conserve_flush h hf).2.2⟩
  · cases hf; exact ⟨h, rfl⟩

theorem conserve_writeRow {ρ : Type} {fl cl : Nat} {bad : ρ → Bool} {s s' : Db ρ} {known : List String}
    {ws : List (String × ρ)} (h : Conserve s known ws) (t : String) (r : ρ)
    (hw : s.writeRow fl cl bad t r = some s') :
    Conserve s' known (ws ++ [(t, r)]) ∧ s'.count = s.count + 1 := by
  have h1 := conserve_writeSingle h t r
  have c1 : (s.writeSingle t r).count = s.count := rfl
  unfold Db.writeRow at hw
  simp only at hw
  split at hw
  · cases hw
  · rename_i s2 e2
    have h2 : Conserve s2 known (ws ++ [(t, r)]) ∧ s2.count = s.count := by
      split at e2
      · exact ⟨(conserve_flush h1 e2).1, by rw [(conserve_flush h1 e2).2.2, c1]⟩
      · cases e2; exact ⟨h1, c1⟩
    split at hw
    · cases hw
    · rename_i s3 e3
      have h3 : Conserve s3 known (ws ++ [(t, r)]) ∧ s3.count = s.count := by
        split at e3
        · exact ⟨(conserve_commit h2.1 e3).1, by rw [(conserve_commit h2.1 e3).2, h2.2]⟩
        · cases e3; exact h2
      cases hw
      exact ⟨⟨h3.1.known_eq, h3.1.kn, h3.1.unk, h3.1.keys⟩, by simp [h3.2]⟩

theorem conserve_writeAll {ρ : Type} {fl cl : Nat} {bad : ρ → Bool} {known : List String}
    (ws : List (String × ρ)) (s s' : Db ρ) (pre : List (String × ρ)) (h : Conserve s known pre)
    (hw : Db.writeAll fl cl bad s ws = some s') :
    Conserve s' known (pre ++ ws) ∧ s'.count = s.count + ws.length := by
  induction ws generalizing s pre with
  | nil => simp only [Db.writeAll] at hw; cases hw; simpa using h
  | cons w ws ih =>
    obtain ⟨t, r⟩ := w
    simp only [Db.writeAll] at hw
    split at hw
    · cases hw
    · rename_i s1 e1
      have h1 := conserve_writeRow h t r e1
      have := ih s1 (pre ++ [(t, r)]) h1.1 hw
      simp only [List.append_assoc, List.singleton_append] at this
      refine ⟨this.1, ?_⟩
      rw [this.2, h1.2]; simp only [List.length_cons]; omega

/-! ### flushes of good rows never fail -/

/-- every buffered row is one of the written rows -/
theorem buffered_sub {ρ : Type} {s : Db ρ} {known : List String} {ws : List (String × ρ)}
    (h : Conserve s known ws) (T : String) (r : ρ) (hr : r ∈ s.buffered T) : ∃ w ∈ ws, w.2 = r := by
  by_cases hT : known.contains T = true
  · have := h.kn T hT
    exact mem_rowsOf (T := T) (by rw [← this]; exact List.mem_append_right _ hr)
  · have hT' : known.contains T = false := by simpa using hT
    exact mem_rowsOf (T := T) (by rw [← (h.unk T hT').2]; exact hr)

theorem flush_ok_of_good {ρ : Type} {bad : ρ → Bool} {s : Db ρ} {known : List String}
    {ws : List (String × ρ)} (h : Conserve s known ws) (hg : ∀ w ∈ ws, bad w.2 = false) :
    ∃ s', s.flush bad = some s' := by
  unfold Db.flush
  have : s.known.any (fun t => (s.buffered t).any bad) = false := by
    rw [List.any_eq_false]
    intro t _
    simp only [Bool.not_eq_true]
    rw [List.any_eq_false]
    intro r hr
    obtain ⟨w, hw, rfl⟩ := buffered_sub h t r hr
    simp [hg w hw]
  simp only [this]
  exact ⟨_, rfl⟩

theorem commit_ok_of_good {ρ : Type} {bad : ρ → Bool} {s : Db ρ} {known : List String}
    {ws : List (String × ρ)} (h : Conserve s known ws) (hg : ∀ w ∈ ws, bad w.2 = false) :
    ∃ s', s.commit bad = some s' := by
  unfold Db.commit
  split
  · exact flush_ok_of_good h hg
  · exact ⟨_, rfl⟩

theorem writeRow_ok_of_good {ρ : Type} {fl cl : Nat} {bad : ρ → Bool} {s : Db ρ} {known : List String}
    {ws : List (String × ρ)} (h : Conserve s known ws) (t : String) (r : ρ)
    (hg : ∀ w ∈ ws ++ [(t, r)], bad w.2 = false) :
    ∃ s', s.writeRow fl cl bad t r = some s' := by
  have h1 := conserve_writeSingle h t r
  unfold Db.writeRow
  simp only
  have e2 : ∃ s2, (if (s.writeSingle t r).count % fl = 0 then (s.writeSingle t r).flush bad
      else some (s.writeSingle t r)) = some s2 ∧ Conserve s2 known (ws ++ [(t, r)]) := by
    split
    · obtain ⟨s2, hs2⟩ := flush_ok_of_good h1 hg
      exact ⟨s2, hs2, (conserve_flush h1 hs2).1⟩
    · exact ⟨_, rfl, h1⟩
  obtain ⟨s2, hs2, c2⟩ := e2
  rw [hs2]
  simp only
  have e3 : ∃ s3, (if s2.count % cl = 0 then s2.commit bad else some s2) = some s3 := by
    split
    · exact commit_ok_of_good c2 hg
    · exact ⟨_, rfl⟩
  obtain ⟨s3, hs3⟩ := e3
  rw [hs3]
  exact ⟨_, rfl⟩

theorem writeAll_ok_of_good {ρ : Type} {fl cl : Nat} {bad : ρ → Bool} {known : List String}
    (ws : List (String × ρ)) (s : Db ρ) (pre : List (String × ρ)) (h : Conserve s known pre)
    (hg : ∀ w ∈ pre ++ ws, bad w.2 = false) :
    ∃ s', Db.writeAll fl cl bad s ws = some s' := by
  induction ws generalizing s pre with
  | nil => exact ⟨s, rfl⟩
  | cons w ws ih =>
    obtain ⟨t, r⟩ := w
    have hg1 : ∀ w ∈ pre ++ [(t, r)], bad w.2 = false := by
      intro w hw
      apply hg w
      rcases List.mem_append.1 hw with hw | hw
      · exact List.mem_append_left _ hw
      · exact List.mem_append_right _ (by simp only [List.mem_singleton] at hw; subst hw; exact List.mem_cons_self)
    obtain ⟨s1, e1⟩ := writeRow_ok_of_good (fl := fl) (cl := cl) h t r hg1
    simp only [Db.writeAll, e1]
    have h1 := (conserve_writeRow h t r e1).1
    exact ih s1 (pre ++ [(t, r)]) h1 (by simpa [List.append_assoc] using hg)

/-! ### close -/

/-- when at least one row with a non-empty table name was written, `commit` does flush -/
theorem commit_eq_flush {ρ : Type} {bad : ρ → Bool} {s : Db ρ} {known : List String}
    {ws : List (String × ρ)} (h : Conserve s known ws) (hne : ws ≠ []) (hn : ∀ w ∈ ws, w.1 ≠ "") :
    s.commit bad = s.flush bad := by
  unfold Db.commit
  have : s.keys.any (fun k => k != "") = true := by
    rw [List.any_eq_true]
    cases ws with
    | nil => exact absurd rfl hne
    | cons w ws =>
      refine ⟨w.1, h.keys w List.mem_cons_self, ?_⟩
      simpa using hn w List.mem_cons_self
  simp only [this, if_true]

/-! ### a flush empties the buffer of every schema table -/

theorem flush_clears {ρ : Type} {bad : ρ → Bool} {s s' : Db ρ} (hf : s.flush bad = some s') :
    s'.known = s.known ∧ s'.count = s.count ∧ ∀ T, s.known.contains T = true → s'.buffered T = [] := by
  unfold Db.flush at hf
  split at hf
  · cases hf
  · cases hf
    refine ⟨rfl, rfl, ?_⟩
    intro T hT
    simp only [hT, if_true]

theorem commit_keeps_clear {ρ : Type} {bad : ρ → Bool} {s s' : Db ρ} (hf : s.commit bad = some s')
    (T : String) (hT : s.known.contains T = true) (h0 : s.buffered T = []) :
    s'.known = s.known ∧ s'.count = s.count ∧ s'.buffered T = [] := by
  unfold Db.commit at hf
  split at hf
  · obtain ⟨h1, h2, h3⟩ := flush_clears hf
    exact ⟨h1, h2, h3 T hT⟩
  · cases hf; exact ⟨rfl, rfl, h0⟩

theorem writeRow_at_threshold {ρ : Type} {fl cl : Nat} {bad : ρ → Bool} {s s' : Db ρ} (t : String) (r : ρ)
    (hw : s.writeRow fl cl bad t r = some s') (hc : s.count % fl = 0) :
    ∀ T, s.known.contains T = true → s'.buffered T = [] := by
  intro T hT
  unfold Db.writeRow at hw
  simp only at hw
  have c1 : (s.writeSingle t r).count = s.count := rfl
  have k1 : (s.writeSingle t r).known = s.known := rfl
  rw [c1, if_pos hc] at hw
  split at hw
  · cases hw
  · rename_i s2 e2
    obtain ⟨hk2, _, hb2⟩ := flush_clears e2
    have hT2 : s2.known.contains T = true := by rw [hk2, k1]; exact hT
    have hb2' : s2.buffered T = [] := hb2 T (by rw [k1]; exact hT)
    split at hw
    · cases hw
    · rename_i s3 e3
      have hb3 : s3.buffered T = [] := by
        split at e3
        · exact (commit_keeps_clear e3 T hT2 hb2').2.2
        · cases e3; exact hb2'
      cases hw
      exact hb3

/-! ### the commit `generate` issues before the run can report success (fix 043066e) -/

theorem conserve_preCommit {ρ : Type} {pre : Bool} {bad : ρ → Bool} {s s' : Db ρ} {known : List String}
    {ws : List (String × ρ)} (h : Conserve s known ws) (hf : s.preCommit pre bad = some s') :
    Conserve s' known ws ∧ s'.count = s.count := by
  unfold Db.preCommit at hf
  split at hf
  · exact conserve_commit h hf
  · cases hf; exact ⟨h, rfl⟩

theorem preCommit_ok_of_good {ρ : Type} {pre : Bool} {bad : ρ → Bool} {s : Db ρ} {known : List String}
    {ws : List (String × ρ)} (h : Conserve s known ws) (hg : ∀ w ∈ ws, bad w.2 = false) :
    ∃ s', s.preCommit pre bad = some s' := by
  unfold Db.preCommit
  split
  · exact commit_ok_of_good h hg
  · exact ⟨_, rfl⟩

/-- a flush of empty schema buffers cannot fail -/
theorem flush_ok_of_clear {ρ : Type} {bad : ρ → Bool} {s : Db ρ}
    (h : ∀ T, s.known.contains T = true → s.buffered T = []) : ∃ s', s.flush bad = some s' := by
  unfold Db.flush
  have : s.known.any (fun t => (s.buffered t).any bad) = false := by
    rw [List.any_eq_false]
    intro t ht
    rw [h t (List.contains_iff_mem.2 ht)]
    simp
  simp only [this]
  exact ⟨_, rfl⟩

/-- **a commit that follows a successful commit cannot fail**: either the first one flushed (the
    schema buffers are empty) or it had nothing to do (and neither has the second). -/
theorem commit_after_commit {ρ : Type} {bad : ρ → Bool} {s s1 : Db ρ} (hf : s.commit bad = some s1) :
    ∃ s2, s1.commit bad = some s2 := by
  unfold Db.commit at hf
  split at hf
  · obtain ⟨hk, _, hb⟩ := flush_clears hf
    unfold Db.commit
    split
    · exact flush_ok_of_clear (fun T hT => hb T (by rw [← hk]; exact hT))
    · exact ⟨_, rfl⟩
  · rename_i hany
    cases hf
    unfold Db.commit
    simp only [hany]
    exact ⟨_, rfl⟩

/-! ### schema -/

theorem mem_addField {fs : List String} {f x : String} : x ∈ addField fs f ↔ x ∈ fs ∨ x = f :=
  mem_addKey

theorem mem_foldl_addField {l fs : List String} {x : String} :
    x ∈ l.foldl addField fs ↔ x ∈ fs ∨ x ∈ l :=
  mem_foldl_addKey

theorem register_fields_mono (ti : TableInfo) (tpl : Template) {x : String} (h : x ∈ ti.fields) :
    x ∈ (ti.register tpl).fields := by
  simp only [TableInfo.register, mem_foldl_addField]; exact Or.inl h

theorem foldl_register_mono (l : List Template) (ti : TableInfo) {x : String} (h : x ∈ ti.fields) :
    x ∈ (l.foldl TableInfo.register ti).fields := by
  induction l generalizing ti with
  | nil => exact h
  | cons a l ih => exact ih _ (register_fields_mono ti a h)

theorem foldl_register_uk_mono (l : List Template) (ti : TableInfo) (h : ti.hasUpdateKeys = true) :
    (l.foldl TableInfo.register ti).hasUpdateKeys = true := by
  induction l generalizing ti with
  | nil => exact h
  | cons a l ih => exact ih _ (by simp [TableInfo.register, h])

theorem foldl_register_covers (l : List Template) (ti : TableInfo) (tpl : Template) (hm : tpl ∈ l) :
    (∀ f ∈ tpl.fields, isHidden f = false → f ∈ (l.foldl TableInfo.register ti).fields) ∧
    (tpl.updateKey = true → (l.foldl TableInfo.register ti).hasUpdateKeys = true) := by
  induction l generalizing ti with
  | nil => cases hm
  | cons a l ih =>
    rcases List.mem_cons.1 hm with rfl | hm
    · simp only [List.foldl_cons]
      constructor
      · intro f hf hh
        apply foldl_register_mono
        simp only [TableInfo.register, mem_foldl_addField, List.mem_filter]
        exact Or.inr ⟨hf, by simp [hh]⟩
      · intro hu
        apply foldl_register_uk_mono
        simp [TableInfo.register, hu]
    · exact ih _ hm

/-! ### encoders: integers in the sqlite-backed classes -/

def isSql : Cls → Bool
  | .sqlDb => true | .sqlText => true | _ => false

theorem encodeCell_int_sql (c : Cls) (hc : isSql c = true) (isId : Bool) (i : Int) :
    encodeCell c isId (.int i) = sink c isId (.int i) := by
  cases c <;> first | rfl | cases hc

theorem encodeCell_ref_sql (c : Cls) (hc : isSql c = true) (isId : Bool) (t : String) (i : Int) :
    encodeCell c isId (.ref t i) = sink c isId (.int i) := by
  cases c <;> first | rfl | cases hc

theorem sink_int_sql (c : Cls) (hc : isSql c = true) (isId : Bool) (i : Int) :
    sink c isId (.int i) =
      if int64 i then .ok (if isId then .int i else .text (toString i)) else .error .overflow := by
  cases c <;> first | rfl | cases hc

/-! ### the SQL script's `str` encoder `_reject_nul` (fix e8cf4d3) -/

theorem cleanup_sqlText_str (s : String) :
    cleanup .sqlText (.str s) = if hasNul s then .error .encoderRaises else .ok (.str s) := by
  show (match (if hasNul s then Option.none else some (Val.str s)) with
        | some x => Except.ok x | Option.none => Except.error EncErr.encoderRaises) = _
  cases hasNul s <;> rfl

theorem not_mem_of_hasNul_false {s : String} (h : hasNul s = false) : Char.ofNat 0 ∉ s.toList := by
  intro hm
  have : hasNul s = true := List.contains_iff_mem.2 hm
  rw [h] at this; cases this

/-- strings without a NUL character are untouched by the dump (`quote()`) -/
theorem truncNul_of_no_nul (s : String) (h : Char.ofNat 0 ∉ s.toList) : truncNul s = s := by
  unfold truncNul
  have key : ∀ l : List Char, Char.ofNat 0 ∉ l → l.takeWhile (fun c => c != Char.ofNat 0) = l := by
    intro l
    induction l with
    | nil => intro _; rfl
    | cons a l ih =>
      intro hl
      have ha : (a != Char.ofNat 0) = true := by
        simp only [bne_iff_ne, ne_eq]
        intro e
        exact hl (e ▸ List.mem_cons_self)
      rw [List.takeWhile_cons, ha]
      simp only [if_true]
      rw [ih (fun hm => hl (List.mem_cons_of_mem _ hm))]
  rw [key _ h, String.ofList_toList]

/-! ### multiplexing -/

theorem runMux_nil {σ α ε : Type} (w : α → σ → Except ε σ) (as : List α) :
    runMux w [] as = .ok [] := by
  induction as with
  | nil => rfl
  | cons a as ih => simp only [runMux, muxStep]; exact ih

theorem runMux_cons {σ α ε : Type} (w : α → σ → Except ε σ) (as : List α) (s : σ) (ss r : List σ) :
    runMux w (s :: ss) as = .ok r ↔
      ∃ s' ss', r = s' :: ss' ∧ runOne w s as = .ok s' ∧ runMux w ss as = .ok ss' := by
  induction as generalizing s ss with
  | nil =>
    simp only [runMux, runOne]
    constructor
    · intro h; cases h; exact ⟨s, ss, rfl, rfl, rfl⟩
    · rintro ⟨s', ss', rfl, h1, h2⟩; cases h1; cases h2; rfl
  | cons a as ih =>
    simp only [runMux, muxStep, runOne]
    cases hws : w a s with
    | error e => simp
    | ok s1 =>
      simp only
      cases hm : muxStep w a ss with
      | error e => simp
      | ok ss1 => simp only; exact ih s1 ss1

end SnowModel.Proofs.C08
