/-
C10 helper lemmas, part b: `unique: true` — `uniqueDraw` / `uniqueRun` on top of the C12
invariants of `UpdatableRandomRange` (`Proofs.C12.Inv1`, `Inv2`).
-/
import SnowModel.Core.History
import SnowModel.Proofs.C12
import Mathlib.Tactic.SplitIfs

namespace SnowModel.Proofs.C10
open SnowModel.History SnowModel.RandRange SnowModel.Proofs.C12

/-- `set_new_range` never yields a value. -/
theorem values_setRange (mk : Mk) (s : RandRange.St) (a b : Int) :
    values [(RandRange.step mk s (.setRange a b)).2] = [] := by
  simp only [RandRange.step]
  split_ifs <;> rfl

theorem setRange_ok_sets (mk : Mk) (s : RandRange.St) (a b : Int)
    (h : (RandRange.step mk s (.setRange a b)).2 = .ok) :
    (RandRange.step mk s (.setRange a b)).1.u.min = a ∧ (RandRange.step mk s (.setRange a b)).1.u.curMax = b := by
  simp only [RandRange.step] at h ⊢
  split_ifs at h ⊢ with h1 h2 h3 h4 <;> first | exact ⟨h1.symm, rfl⟩ | exact ⟨rfl, rfl⟩ | cases h

theorem next_keeps_bounds (mk : Mk) (s : RandRange.St) :
    (RandRange.step mk s .next).1.u.min = s.u.min ∧ (RandRange.step mk s .next).1.u.curMax = s.u.curMax := by
  obtain ⟨⟨mn, om, cm, gen⟩, made⟩ := s
  cases gen with
  | cons v rest => exact ⟨rfl, rfl⟩
  | nil =>
    simp only [RandRange.step]
    split_ifs
    · exact ⟨rfl, rfl⟩
    · cases mk made om cm <;> exact ⟨rfl, rfl⟩

/-- Invariant of a unique context: nothing produced before the range object exists. -/
def UInv1 (u : Option RandRange.St) (seen : List Int) : Prop :=
  match u with
  | none => seen = []
  | some s => Inv1 s seen

theorem uniqueDraw_inv1 (mk : Mk) (hmk : GoodMkP mk) (u : Option RandRange.St) (seen : List Int)
    (a b : Int) (h : UInv1 u seen) :
    UInv1 (uniqueDraw mk u a b).1 (seen ++ values [(uniqueDraw mk u a b).2]) := by
  cases u with
  | none =>
    simp only [UInv1] at h
    subst h
    simp only [uniqueDraw]
    cases hc : create mk a (b + 1) with
    | none => simp [UInv1, values]
    | some s =>
      simp only [UInv1]
      exact step_inv1 mk hmk s [] .next (create_inv1 mk hmk a (b + 1) s hc)
  | some s =>
    simp only [UInv1] at h
    have h1 := step_inv1 mk hmk s seen (.setRange a (b + 1)) h
    rw [values_setRange, List.append_nil] at h1
    simp only [uniqueDraw]
    split_ifs with hok
    · simp only [UInv1]
      exact step_inv1 mk hmk _ seen .next h1
    · simpa [UInv1, values] using h1

theorem uniqueRun_inv1 (mk : Mk) (hmk : GoodMkP mk) (reqs : List (Int × Int)) :
    ∀ (u : Option RandRange.St) (seen : List Int), UInv1 u seen →
      UInv1 (uniqueRun mk u reqs).1 (seen ++ values (uniqueRun mk u reqs).2) := by
  induction reqs with
  | nil => intro u seen h; simpa [uniqueRun, values] using h
  | cons r reqs ih =>
    intro u seen h
    obtain ⟨a, b⟩ := r
    simp only [uniqueRun]
    rw [values_cons, ← List.append_assoc]
    exact ih _ _ (uniqueDraw_inv1 mk hmk u seen a b h)

theorem uinv1_nodup {u : Option RandRange.St} {seen : List Int} (h : UInv1 u seen) : seen.Nodup := by
  cases u with
  | none => simp only [UInv1] at h; subst h; exact List.nodup_nil
  | some s => exact List.Nodup.of_append_left h.nd

theorem uniqueDraw_value_in_range (mk : Mk) (hmk : GoodMkP mk) (u : Option RandRange.St)
    (seen : List Int) (a b : Int) (h : UInv1 u seen) (v : Int)
    (hv : (uniqueDraw mk u a b).2 = .value v) : a ≤ v ∧ v ≤ b := by
  cases u with
  | none =>
    simp only [uniqueDraw] at hv
    cases hc : create mk a (b + 1) with
    | none => rw [hc] at hv; cases hv
    | some s =>
      rw [hc] at hv
      simp only at hv
      have hi := create_inv1 mk hmk a (b + 1) s hc
      have hb := next_value_in_range mk hmk s [] hi _ v (Prod.ext rfl hv)
      have hk := next_keeps_bounds mk s
      unfold create at hc
      split_ifs at hc
      simp only [Option.some.injEq] at hc
      subst hc
      rw [hk.1, hk.2] at hb
      simp only at hb
      omega
  | some s =>
    simp only [UInv1] at h
    have h1 := step_inv1 mk hmk s seen (.setRange a (b + 1)) h
    rw [values_setRange, List.append_nil] at h1
    simp only [uniqueDraw] at hv
    split_ifs at hv with hok
    · simp only at hv
      have hb := next_value_in_range mk hmk _ seen h1 _ v (Prod.ext rfl hv)
      have hk := next_keeps_bounds mk (RandRange.step mk s (.setRange a (b + 1))).1
      have hs := setRange_ok_sets mk s a (b + 1) hok
      rw [hk.1, hk.2, hs.1, hs.2] at hb
      omega

/-! ### extension-only request histories -/

/-- Requests that keep the minimum and never lower the top (copy of `Props.C10.ExtReqs`). -/
def ExtReqsP (a : Int) : Int → List (Int × Int) → Prop
  | _, [] => True
  | cur, (x, y) :: rest => x = a ∧ cur ≤ y ∧ ExtReqsP a y rest

/-- The top of the last request (or `cur`). -/
def lastTop : Int → List (Int × Int) → Int
  | cur, [] => cur
  | _, (_, y) :: rest => lastTop y rest

/-- One `next` under the extension invariant: a value iff fewer values than the size of the
    current range have been produced, otherwise `stop`. -/
theorem next_ext (mk : Mk) (hmk : GoodMkP mk) (a : Int) (s : RandRange.St) (seen : List Int)
    (h : Inv2 a s seen) :
    (RandRange.step mk s .next).1.u.curMax = s.u.curMax ∧
    ((seen.length < (s.u.curMax - a).toNat ∧
        ∃ v, (RandRange.step mk s .next).2 = .value v ∧ Inv2 a (RandRange.step mk s .next).1 (seen ++ [v])) ∨
     ((s.u.curMax - a).toNat ≤ seen.length ∧ (RandRange.step mk s .next).2 = .stop ∧
        Inv2 a (RandRange.step mk s .next).1 seen)) := by
  have hinv := step_inv2 mk hmk a s seen .next [] h (by simp [ExtendOnlyP])
  refine ⟨(next_keeps_bounds mk s).2, ?_⟩
  obtain ⟨⟨mn, om, cm, gen⟩, made⟩ := s
  obtain ⟨hmin, hlt, hle, hperm⟩ := h
  simp only at hmin hlt hle hperm
  subst hmin
  have hlen := hperm.length_eq
  rw [length_rangeIntP, List.length_append] at hlen
  cases gen with
  | cons v rest =>
    left
    simp only [List.length_cons] at hlen
    refine ⟨by simp only; omega, v, rfl, ?_⟩
    have := hinv.1
    simpa [RandRange.step, values] using this
  | nil =>
    simp only [List.length_nil] at hlen
    by_cases h1 : cm ≤ om
    · right
      refine ⟨by simp only; omega, by simp [RandRange.step, h1], ?_⟩
      have := hinv.1
      simpa [RandRange.step, h1, values] using this
    · left
      have hp := hmk made om cm (by omega)
      cases hm : mk made om cm with
      | nil =>
        exfalso
        rw [hm] at hp
        have := hp.length_eq
        rw [length_rangeIntP] at this
        simp at this
        omega
      | cons v rest =>
        refine ⟨by simp only; omega, v, by simp [RandRange.step, h1, hm], ?_⟩
        have := hinv.1
        simpa [RandRange.step, h1, hm, values] using this

/-- One extension request `(a, b)` with `b + 1 ≥` the current top. -/
theorem uniqueDraw_ext (mk : Mk) (hmk : GoodMkP mk) (a b : Int) (s : RandRange.St) (seen : List Int)
    (h : Inv2 a s seen) (hb : s.u.curMax ≤ b + 1) :
    ∃ s', (uniqueDraw mk (some s) a b).1 = some s' ∧ s'.u.curMax = b + 1 ∧
      ((seen.length < (b + 1 - a).toNat ∧
          ∃ v, (uniqueDraw mk (some s) a b).2 = .value v ∧ Inv2 a s' (seen ++ [v])) ∨
       ((b + 1 - a).toNat ≤ seen.length ∧ (uniqueDraw mk (some s) a b).2 = .stop ∧ Inv2 a s' seen)) := by
  have hset : RandRange.step mk s (.setRange a (b + 1))
      = ({ s with u := { s.u with curMax := b + 1 } }, .ok) := by
    simp [RandRange.step, h.min_eq, hb]
  have h2 : Inv2 a ({ s with u := { s.u with curMax := b + 1 } } : RandRange.St) seen :=
    ⟨h.min_eq, h.lt, by have := h.le; simp only; omega, h.perm⟩
  obtain ⟨hc, hcase⟩ := next_ext mk hmk a _ seen h2
  simp only [uniqueDraw, hset, if_true]
  exact ⟨_, rfl, hc, hcase⟩

theorem uniqueDraw_first (mk : Mk) (hmk : GoodMkP mk) (a b : Int) (hab : a ≤ b) :
    ∃ s' v, uniqueDraw mk none a b = (some s', .value v) ∧ Inv2 a s' [v] ∧ s'.u.curMax = b + 1 := by
  have hc : ∃ s, create mk a (b + 1) = some s := by
    unfold create
    rw [if_pos (by omega)]
    exact ⟨_, rfl⟩
  obtain ⟨s, hs⟩ := hc
  obtain ⟨hi, hcm⟩ := create_inv2 mk hmk a (b + 1) s hs
  obtain ⟨hc, hcase⟩ := next_ext mk hmk a s [] hi
  simp only [uniqueDraw, hs]
  rcases hcase with ⟨-, v, hv, hinv⟩ | ⟨hlen, -, -⟩
  · exact ⟨_, v, Prod.ext rfl hv, by simpa using hinv, by rw [hc, hcm]⟩
  · rw [hcm] at hlen
    simp at hlen
    omega

theorem uniqueRun_ext (mk : Mk) (hmk : GoodMkP mk) (a : Int) (reqs : List (Int × Int)) :
    ∀ (s : RandRange.St) (seen : List Int) (cur : Int), Inv2 a s seen → s.u.curMax = cur + 1 →
      ExtReqsP a cur reqs →
      ∃ s', (uniqueRun mk (some s) reqs).1 = some s' ∧
        Inv2 a s' (seen ++ values (uniqueRun mk (some s) reqs).2) ∧
        Out.assertion ∉ (uniqueRun mk (some s) reqs).2 ∧
        s'.u.curMax = lastTop cur reqs + 1 := by
  induction reqs with
  | nil =>
    intro s seen cur h hc _
    exact ⟨s, rfl, by simpa [uniqueRun, values] using h, by simp [uniqueRun], by simpa [lastTop] using hc⟩
  | cons r reqs ih =>
    intro s seen cur h hc hext
    obtain ⟨x, y⟩ := r
    simp only [ExtReqsP] at hext
    obtain ⟨rfl, hcy, hext⟩ := hext
    obtain ⟨s1, h1, hc1, hcase⟩ := uniqueDraw_ext mk hmk x y s seen h (by omega)
    simp only [uniqueRun, h1, lastTop]
    rw [values_cons, ← List.append_assoc]
    rcases hcase with ⟨-, v, hv, hinv⟩ | ⟨-, hst, hinv⟩
    · obtain ⟨s', e1, e2, e3, e4⟩ := ih s1 (seen ++ [v]) y hinv hc1 hext
      refine ⟨s', e1, by rw [hv]; simpa [values] using e2, ?_, e4⟩
      rw [List.mem_cons, not_or]
      exact ⟨by rw [hv]; simp, e3⟩
    · obtain ⟨s', e1, e2, e3, e4⟩ := ih s1 seen y hinv hc1 hext
      refine ⟨s', e1, by rw [hst]; simpa [values] using e2, ?_, e4⟩
      rw [List.mem_cons, not_or]
      exact ⟨by rw [hst]; simp, e3⟩

/-- When as many values as the range has members were produced, they are exactly the range. -/
theorem inv2_full (a : Int) (s : RandRange.St) (seen : List Int) (h : Inv2 a s seen)
    (hlen : (s.u.curMax - a).toNat ≤ seen.length) : seen.Perm (rangeIntP a s.u.curMax) := by
  have hl := h.perm.length_eq
  rw [length_rangeIntP, List.length_append] at hl
  have h1 := h.lt
  have h2 := h.le
  have hg : s.u.gen = [] := List.length_eq_zero_iff.1 (by omega)
  have ho : s.u.origMax = s.u.curMax := by omega
  have hp := h.perm
  rwa [hg, List.append_nil, ho] at hp

/-! ### compatible request histories: growth, or a move above everything handed out so far -/

/-- Each request either keeps the minimum and does not lower the top, or starts above the previous
    top (what monotone counters guarantee, see `Props.C10.ranges_compatible`). -/
def CompatReqsP : Int → Int → List (Int × Int) → Prop
  | _, _, [] => True
  | a0, cur, (x, y) :: rest => ((x = a0 ∧ cur ≤ y) ∨ (cur + 1 ≤ x ∧ x ≤ y)) ∧ CompatReqsP x y rest

theorem next_not_assertion (mk : Mk) (s : RandRange.St) : (RandRange.step mk s .next).2 ≠ .assertion := by
  obtain ⟨⟨mn, om, cm, gen⟩, made⟩ := s
  cases gen with
  | cons v rest => simp [RandRange.step]
  | nil =>
    simp only [RandRange.step]
    split_ifs
    · simp
    · cases mk made om cm <;> simp

theorem uniqueDraw_compat (mk : Mk) (hmk : GoodMkP mk) (s : RandRange.St) (seen : List Int)
    (a0 cur x y : Int) (hi : Inv1 s seen) (hmin : s.u.min = a0) (hcm : s.u.curMax = cur + 1)
    (hreq : (x = a0 ∧ cur ≤ y) ∨ (cur + 1 ≤ x ∧ x ≤ y)) :
    ∃ s', (uniqueDraw mk (some s) x y).1 = some s' ∧ (uniqueDraw mk (some s) x y).2 ≠ .assertion ∧
      Inv1 s' (seen ++ values [(uniqueDraw mk (some s) x y).2]) ∧ s'.u.min = x ∧ s'.u.curMax = y + 1 := by
  have hok : (RandRange.step mk s (.setRange x (y + 1))).2 = .ok := by
    have h1 := hi.lt
    have h2 := hi.le
    simp only [RandRange.step]
    rcases hreq with ⟨rfl, hcy⟩ | ⟨hx, hxy⟩
    · rw [if_pos hmin.symm, if_pos (by omega)]
    · rw [if_neg (by omega), if_pos (by omega), if_pos (by omega)]
  have hinv := step_inv1 mk hmk s seen (.setRange x (y + 1)) hi
  rw [values_setRange, List.append_nil] at hinv
  have hs := setRange_ok_sets mk s x (y + 1) hok
  have hk := next_keeps_bounds mk (RandRange.step mk s (.setRange x (y + 1))).1
  simp only [uniqueDraw, hok, if_true]
  exact ⟨_, rfl, next_not_assertion mk _, step_inv1 mk hmk _ seen .next hinv,
    by rw [hk.1, hs.1], by rw [hk.2, hs.2]⟩

theorem uniqueRun_compat (mk : Mk) (hmk : GoodMkP mk) (reqs : List (Int × Int)) :
    ∀ (s : RandRange.St) (seen : List Int) (a0 cur : Int), Inv1 s seen → s.u.min = a0 →
      s.u.curMax = cur + 1 → CompatReqsP a0 cur reqs →
      Out.assertion ∉ (uniqueRun mk (some s) reqs).2 := by
  induction reqs with
  | nil => intro s seen a0 cur _ _ _ _; simp [uniqueRun]
  | cons r reqs ih =>
    intro s seen a0 cur hi hmin hcm hc
    obtain ⟨x, y⟩ := r
    simp only [CompatReqsP] at hc
    obtain ⟨s', e1, e2, e3, e4, e5⟩ := uniqueDraw_compat mk hmk s seen a0 cur x y hi hmin hcm hc.1
    simp only [uniqueRun, e1]
    rw [List.mem_cons, not_or]
    exact ⟨fun e => e2 e.symm, ih s' _ x y e3 e4 e5 hc.2⟩

theorem uniqueRun_compat_first (mk : Mk) (hmk : GoodMkP mk) (a b : Int) (hab : a ≤ b)
    (reqs : List (Int × Int)) (hc : CompatReqsP a b reqs) :
    Out.assertion ∉ (uniqueRun mk none ((a, b) :: reqs)).2 := by
  have hcr : ∃ s, create mk a (b + 1) = some s := by
    unfold create
    rw [if_pos (by omega)]
    exact ⟨_, rfl⟩
  obtain ⟨s, hs⟩ := hcr
  have hi := create_inv1 mk hmk a (b + 1) s hs
  have hb : s.u.min = a ∧ s.u.curMax = b + 1 := by
    unfold create at hs
    split_ifs at hs
    simp only [Option.some.injEq] at hs
    subst hs
    exact ⟨rfl, rfl⟩
  have hk := next_keeps_bounds mk s
  simp only [uniqueRun, uniqueDraw, hs]
  rw [List.mem_cons, not_or]
  refine ⟨fun e => next_not_assertion mk s e.symm, ?_⟩
  exact uniqueRun_compat mk hmk reqs _ _ a b (step_inv1 mk hmk s [] .next hi)
    (by rw [hk.1, hb.1]) (by rw [hk.2, hb.2]) hc

end SnowModel.Proofs.C10
