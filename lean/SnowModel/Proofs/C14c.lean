/-
C14 — helper lemmas, part 3: termination of the macro inclusion chain (cycle check), file flattening
(`parseFile` against its depth-first specification, independence of the position of the
`include_file` lines, termination under a rank), `mapE` / `foldE` error lemmas.
-/
import SnowModel.Proofs.C14b
import Mathlib.Data.List.Perm.Subperm

namespace SnowModel.ParseY

section
variable {β γ ε σ : Type}

theorem mapE_error (g : β → Except ε γ) (l : List β) (e : ε) (h : mapE g l = .error e) :
    ∃ x ∈ l, g x = .error e := by
  induction l with
  | nil => simp [mapE] at h
  | cons x r ih =>
    simp only [mapE] at h
    cases hx : g x with
    | error e' =>
      rw [hx] at h
      simp only [Except.error.injEq] at h
      subst h
      exact ⟨x, by simp, hx⟩
    | ok y =>
      rw [hx] at h
      cases hr : mapE g r with
      | error e' =>
        rw [hr] at h
        simp only [Except.error.injEq] at h
        subst h
        obtain ⟨z, hz, hg⟩ := ih hr
        exact ⟨z, by simp [hz], hg⟩
      | ok ys => rw [hr] at h; cases h

theorem foldE_error (g : σ → β → Except ε σ) (s : σ) (l : List β) (e : ε) (h : foldE g s l = .error e) :
    ∃ s' x, x ∈ l ∧ g s' x = .error e := by
  induction l generalizing s with
  | nil => simp [foldE] at h
  | cons x r ih =>
    simp only [foldE] at h
    cases hx : g s x with
    | error e' =>
      rw [hx] at h
      simp only [Except.error.injEq] at h
      subst h
      exact ⟨s, x, by simp, hx⟩
    | ok s1 =>
      rw [hx] at h
      obtain ⟨s', z, hz, hg⟩ := ih s1 h
      exact ⟨s', z, by simp [hz], hg⟩
end

theorem mem_keys_of_lookup {α : Type} (d : AList α) (k : String) (v : α) (h : d.lookup k = some v) :
    k ∈ keys d := by
  apply Classical.byContradiction
  intro hc
  rw [lookup_eq_none_of_not_mem d k hc] at h
  cases h

/-! ### macro expansion terminates for every macro table (both cycle checks) -/

theorem mem_of_lookup {α : Type} (d : AList α) (k : String) (v : α) (h : d.lookup k = some v) : (k, v) ∈ d := by
  induction d with
  | nil => simp at h
  | cons p r ih =>
    obtain ⟨k0, v0⟩ := p
    by_cases e : k = k0
    · subst e
      rw [lookup_cons_self] at h
      simp only [Option.some.injEq] at h
      subst h
      simp
    · rw [lookup_cons_ne _ _ _ _ e] at h
      exact List.mem_cons_of_mem _ (ih h)

theorem mapE_ne_fuel {β γ : Type} (g : β → Except Err γ) (l : List β)
    (h : ∀ x ∈ l, g x ≠ .error .fuel) : mapE g l ≠ .error .fuel := by
  intro he
  obtain ⟨x, hx, hg⟩ := mapE_error g l _ he
  exact h x hx hg

/-- a duplicate-free stack of known names is no longer than the table -/
theorem stack_length_le {α : Type} (d : AList α) (st : List String) (hnd : st.Nodup)
    (hsub : ∀ p ∈ st, p ∈ keys d) : st.length ≤ (keys d).length :=
  (List.subperm_of_subset hnd (fun x hx => hsub x hx)).length_le

theorem stack_push_inv {α : Type} (d : AList α) (st : List String) (n : String) (hnd : st.Nodup)
    (hsub : ∀ p ∈ st, p ∈ keys d) (hn : n ∉ st) (hmem : n ∈ keys d) :
    (st ++ [n]).Nodup ∧ (∀ p ∈ st ++ [n], p ∈ keys d) := by
  refine ⟨?_, ?_⟩
  · rw [List.nodup_append]
    refine ⟨hnd, by simp, ?_⟩
    intro a ha b hb
    simp only [List.mem_singleton] at hb
    subst hb
    exact fun e => hn (e ▸ ha)
  · intro p hp
    rcases List.mem_append.mp hp with hp | hp
    · exact hsub p hp
    · simp only [List.mem_singleton] at hp; subst hp; exact hmem

/-! syntactic nesting depth of the raw syntax -/
mutual
  def dDef : RDef → Nat
    | .val _ => 0
    | .nested t => dTemplate t + 1
  def dTemplate : RTemplate → Nat
    | .mk _ _ _ fields friends => max (dFields fields) (dStmts friends) + 1
  def dFields : List (String × RDef) → Nat
    | [] => 0
    | p :: r => max (dPair p) (dFields r)
  def dPair : String × RDef → Nat
    | (_, d) => dDef d
  def dStmt : RStmt → Nat
    | .var _ d => dDef d + 1
    | .obj t => dTemplate t + 1
  def dStmts : List RStmt → Nat
    | [] => 0
    | s :: r => max (dStmt s) (dStmts r)
end

theorem dDef_le_dFields (fs : List (String × RDef)) (p : String × RDef) (h : p ∈ fs) : dDef p.2 ≤ dFields fs := by
  induction fs with
  | nil => simp at h
  | cons q r ih =>
    simp only [dFields]
    rcases List.mem_cons.mp h with h | h
    · subst h
      obtain ⟨n, d⟩ := p
      simp only [dPair]
      omega
    · have := ih h
      omega

theorem dStmt_le_dStmts (ss : List RStmt) (s : RStmt) (h : s ∈ ss) : dStmt s ≤ dStmts ss := by
  induction ss with
  | nil => simp at h
  | cons q r ih =>
    simp only [dStmts]
    rcases List.mem_cons.mp h with h | h
    · subst h; omega
    · have := ih h
      omega

theorem dTemplate_fields (t : RTemplate) : dFields t.fields + 1 ≤ dTemplate t ∧ dStmts t.friends + 1 ≤ dTemplate t := by
  cases t with
  | mk a b c fields friends =>
    simp only [dTemplate, RTemplate.fields, RTemplate.friends]
    omega

/-- the deepest macro body -/
def maxBody : AList RMacro → Nat
  | [] => 0
  | p :: r => max (max (dFields p.2.fields) (dStmts p.2.friends)) (maxBody r)

theorem body_le_maxBody (ms : AList RMacro) (n : String) (m : RMacro) (h : (n, m) ∈ ms) :
    dFields m.fields ≤ maxBody ms ∧ dStmts m.friends ≤ maxBody ms := by
  induction ms with
  | nil => simp at h
  | cons q r ih =>
    simp only [maxBody]
    rcases List.mem_cons.mp h with h | h
    · subst h
      simp only
      omega
    · have := ih h
      omega

theorem cycleErr_some_of_mem (exp ps : List String) (n : String) (h : n ∈ exp) : cycleErr exp ps n ≠ none := by
  unfold cycleErr
  have he : exp.contains n = true := by simpa using h
  rw [he]
  cases ps.contains n <;> simp

theorem cycleErr_ne_fuel (exp ps : List String) (n : String) (e : Err) (h : cycleErr exp ps n = some e) :
    e ≠ .fuel := by
  unfold cycleErr at h
  cases hp : ps.contains n <;> cases he : exp.contains n <;> rw [hp, he] at h <;> simp at h <;> subst h <;> simp

/-- **both cycle checks bound the expansion**: with `c = maxBody ms + 2` and a duplicate-free expansion
    stack of known macros, fuel `#macros·c + depth + 2` (minus what the stack already accounts for)
    always suffices -/
theorem expansion_no_fuel (ms : AList RMacro) (f : Nat) :
    ∀ exp : List String, exp.Nodup → (∀ p ∈ exp, p ∈ keys ms) →
      (∀ d, (keys ms).length * (maxBody ms + 2) + dDef d + 2 ≤ f + exp.length * (maxBody ms + 2) →
        pDef f ms exp d ≠ .error .fuel) ∧
      (∀ s, (keys ms).length * (maxBody ms + 2) + dStmt s + 2 ≤ f + exp.length * (maxBody ms + 2) →
        pStmt f ms exp s ≠ .error .fuel) ∧
      (∀ t, (keys ms).length * (maxBody ms + 2) + dTemplate t + 2 ≤ f + exp.length * (maxBody ms + 2) →
        pTemplate f ms exp t ≠ .error .fuel) ∧
      (∀ ps n, (keys ms).length * (maxBody ms + 2) + 1 ≤ f + exp.length * (maxBody ms + 2) →
        includeMacro f ms exp ps n ≠ .error .fuel) := by
  induction f with
  | zero =>
    intro exp hnd hsub
    have hle := Nat.mul_le_mul_right (maxBody ms + 2) (stack_length_le ms exp hnd hsub)
    refine ⟨?_, ?_, ?_, ?_⟩ <;> intros <;> omega
  | succ f ih =>
    intro exp hnd hsub
    have hle := Nat.mul_le_mul_right (maxBody ms + 2) (stack_length_le ms exp hnd hsub)
    obtain ⟨ihD, ihS, ihT, ihM⟩ := ih exp hnd hsub
    have hD : ∀ d, (keys ms).length * (maxBody ms + 2) + dDef d + 2 ≤ f + 1 + exp.length * (maxBody ms + 2) →
        pDef (f + 1) ms exp d ≠ .error .fuel := by
      intro d hf
      cases d with
      | val p => rw [pDef_val]; simp
      | nested t =>
        rw [pDef_nested]
        simp only [dDef] at hf
        have := ihT t (by omega)
        cases h : pTemplate f ms exp t with
        | error e => intro he; simp only [Except.error.injEq] at he; subst he; exact this h
        | ok r => simp
    have hS : ∀ s, (keys ms).length * (maxBody ms + 2) + dStmt s + 2 ≤ f + 1 + exp.length * (maxBody ms + 2) →
        pStmt (f + 1) ms exp s ≠ .error .fuel := by
      intro s hf
      cases s with
      | var n d =>
        rw [pStmt_var]
        simp only [dStmt] at hf
        have := ihD d (by omega)
        cases h : pDef f ms exp d with
        | error e => intro he; simp only [Except.error.injEq] at he; subst he; exact this h
        | ok r => simp
      | obj t =>
        rw [pStmt_obj]
        simp only [dStmt] at hf
        have := ihT t (by omega)
        cases h : pTemplate f ms exp t with
        | error e => intro he; simp only [Except.error.injEq] at he; subst he; exact this h
        | ok r => simp
    have hFieldOf : ∀ (e : List String) (d0 : Nat),
        (∀ d, dDef d ≤ d0 → pDef f ms e d ≠ .error .fuel) →
        ∀ fs : List (String × RDef), dFields fs ≤ d0 → mapE (pField f ms e) fs ≠ .error .fuel := by
      intro e d0 hd fs hfs
      apply mapE_ne_fuel
      intro p hp
      unfold pField
      have := hd p.2 (Nat.le_trans (dDef_le_dFields fs p hp) hfs)
      cases h : pDef f ms e p.2 with
      | error x => intro he; simp only [Except.error.injEq] at he; subst he; exact this h
      | ok r => simp
    refine ⟨hD, hS, ?_, ?_⟩
    · intro t hf
      rw [pTemplate_succ]
      obtain ⟨b1, b2⟩ := dTemplate_fields t
      have h1 : mapE (fun n => includeMacro f ms exp [] n) t.incl ≠ .error .fuel :=
        mapE_ne_fuel _ _ (fun x _ => ihM [] x (by omega))
      have h2 : mapE (pField f ms exp) t.fields ≠ .error .fuel :=
        hFieldOf exp (dFields t.fields) (fun d hd => ihD d (by omega)) t.fields (Nat.le_refl _)
      have h3 : mapE (fun s => pStmt f ms exp s) t.friends ≠ .error .fuel :=
        mapE_ne_fuel _ _ (fun s hs => ihS s (by have := dStmt_le_dStmts t.friends s hs; omega))
      cases k1 : mapE (fun n => includeMacro f ms exp [] n) t.incl with
      | error e => intro he; simp only [Except.error.injEq] at he; subst he; exact h1 k1
      | ok incs =>
        simp only
        cases k2 : mapE (pField f ms exp) t.fields with
        | error e => intro he; simp only [Except.error.injEq] at he; subst he; exact h2 k2
        | ok own =>
          simp only
          cases k3 : mapE (fun s => pStmt f ms exp s) t.friends with
          | error e => intro he; simp only [Except.error.injEq] at he; subst he; exact h3 k3
          | ok ofr => simp
    · intro ps n hf
      rw [includeMacro_succ]
      cases hl : ms.lookup n with
      | none => simp
      | some m =>
        simp only
        cases hc : cycleErr exp ps n with
        | some e =>
          simp only
          intro he
          simp only [Except.error.injEq] at he
          exact cycleErr_ne_fuel exp ps n e hc he
        | none =>
          simp only
          have hn : n ∉ exp := fun hx => cycleErr_some_of_mem exp ps n hx hc
          have hmem := mem_keys_of_lookup ms n m hl
          obtain ⟨hnd', hsub'⟩ := stack_push_inv ms exp n hnd hsub hn hmem
          have hlen : (exp ++ [n]).length * (maxBody ms + 2) = exp.length * (maxBody ms + 2) + (maxBody ms + 2) := by
            simp [List.length_append, Nat.add_mul]
          obtain ⟨jD, jS, _, jM⟩ := ih (exp ++ [n]) hnd' hsub'
          obtain ⟨w1, w2⟩ := body_le_maxBody ms n m (mem_of_lookup ms n m hl)
          have h1 : mapE (fun x => includeMacro f ms (exp ++ [n]) (ps ++ [n]) x) m.incl ≠ .error .fuel :=
            mapE_ne_fuel _ _ (fun x _ => jM (ps ++ [n]) x (by omega))
          have h2 : mapE (pField f ms (exp ++ [n])) m.fields ≠ .error .fuel :=
            hFieldOf (exp ++ [n]) (maxBody ms) (fun d hd => jD d (by omega)) m.fields w1
          have h3 : mapE (fun s => pStmt f ms (exp ++ [n]) s) m.friends ≠ .error .fuel :=
            mapE_ne_fuel _ _ (fun s hs => jS s (by have := dStmt_le_dStmts m.friends s hs; omega))
          cases k1 : mapE (fun x => includeMacro f ms (exp ++ [n]) (ps ++ [n]) x) m.incl with
          | error e => intro he; simp only [Except.error.injEq] at he; subst he; exact h1 k1
          | ok incs =>
            simp only
            cases k2 : mapE (pField f ms (exp ++ [n])) m.fields with
            | error e => intro he; simp only [Except.error.injEq] at he; subst he; exact h2 k2
            | ok own =>
              simp only
              cases k3 : mapE (fun s => pStmt f ms (exp ++ [n]) s) m.friends with
              | error e => intro he; simp only [Except.error.injEq] at he; subst he; exact h3 k3
              | ok ofr => simp

/-! ### file flattening -/

/-- depth-first specification of what `include_file` collects for one category of declarations:
    everything from the included files (recursively, in the order of the include lines), then the
    file's own declarations of that category -/
def flatOf {β : Type} (sel : List Item → List β) : Nat → AList (List Item) → String → List β
  | 0, _, _ => []
  | f + 1, files, name =>
    match files.lookup name with
    | none => []
    | some items => (includesOf items).flatMap (fun n => flatOf sel f files n) ++ sel items

/-- the step function of the fold in `parseFile` (= `parse_included_file`): cycle check on the stack
    of open files, push, read -/
def incStep (f : Nat) (files : AList (List Item)) (stack : List String) (acc : List RStmt × PCtx) (n : String) :
    Except Err (List RStmt × PCtx) :=
  if stack.contains n then .error (.includeCycle n) else
  match parseFile f files (stack ++ [n]) acc.2 n with
  | .error e => .error e
  | .ok r => .ok (acc.1 ++ r.1, r.2)

theorem parseFile_zero (files : AList (List Item)) (stack : List String) (ctx : PCtx) (n : String) :
    parseFile 0 files stack ctx n = .error .fuel := rfl

theorem parseFile_succ (f : Nat) (files : AList (List Item)) (stack : List String) (ctx : PCtx) (name : String) :
    parseFile (f + 1) files stack ctx name =
      match files.lookup name with
      | none => .error (.noFile name)
      | some items =>
        match foldE (incStep f files stack) ([], ctx) (includesOf items) with
        | .error e => .error e
        | .ok (incStmts, c1) =>
          match parseVersion (versionsOf items) with
          | .error e => .error e
          | .ok own =>
            match mergeVersion c1.version own with
            | .error e => .error e
            | .ok v =>
              .ok (incStmts ++ stmtsOf items,
                   { macros := dictUpdate c1.macros (macrosOf items),
                     options := c1.options ++ optionsOf items,
                     version := v }) := by
  rw [parseFile]; rfl

/-! #### the version rule -/

/-- `res` is what the version becomes when the declarations `vs` are met starting from `inh`: every
    declared version is the result, an inherited version is kept, nothing declared ⇒ unchanged -/
def VersionOK (inh : Option Int) (vs : List Int) (res : Option Int) : Prop :=
  (∀ v ∈ vs, res = some v) ∧ (∀ w, inh = some w → res = some w) ∧ (vs = [] → res = inh)

theorem VersionOK.nil (a : Option Int) : VersionOK a [] a :=
  ⟨by simp, fun _ h => h, fun _ => rfl⟩

theorem VersionOK.trans {a b c : Option Int} {v1 v2 : List Int} (h1 : VersionOK a v1 b) (h2 : VersionOK b v2 c) :
    VersionOK a (v1 ++ v2) c := by
  refine ⟨?_, ?_, ?_⟩
  · intro v hv
    rcases List.mem_append.mp hv with hv | hv
    · exact h2.2.1 v (h1.1 v hv)
    · exact h2.1 v hv
  · intro w hw
    exact h2.2.1 w (h1.2.1 w hw)
  · intro he
    have e1 : v1 = [] := (List.append_eq_nil_iff.mp he).1
    have e2 : v2 = [] := (List.append_eq_nil_iff.mp he).2
    rw [h2.2.2 e2, h1.2.2 e1]

theorem parseVersion_ok (vs : List Int) (own : Option Int) (h : parseVersion vs = .ok own) :
    (own = none → vs = []) ∧ (∀ b, own = some b → ∀ v ∈ vs, v = b) := by
  unfold parseVersion at h
  cases vs with
  | nil =>
    simp only [Except.ok.injEq] at h
    subst h
    simp
  | cons b r =>
    simp only at h
    split at h
    · cases h
    · split at h
      · cases h
      · rename_i hany _
        simp only [Except.ok.injEq] at h
        subst h
        refine ⟨by simp, ?_⟩
        intro b' hb v hv
        simp only [Option.some.injEq] at hb
        subst hb
        have hall : ∀ x ∈ b :: r, ¬ (x != b) = true := by
          intro x hx hne
          exact hany (List.any_eq_true.mpr ⟨x, hx, hne⟩)
        have := hall v hv
        simpa using this

theorem own_version_ok (inh : Option Int) (vs : List Int) (own v : Option Int)
    (h1 : parseVersion vs = .ok own) (h2 : mergeVersion inh own = .ok v) : VersionOK inh vs v := by
  obtain ⟨p1, p2⟩ := parseVersion_ok vs own h1
  unfold mergeVersion at h2
  cases own with
  | none =>
    simp only [Except.ok.injEq] at h2
    subst h2
    rw [p1 rfl]
    exact VersionOK.nil inh
  | some b =>
    simp only at h2
    cases inh with
    | none =>
      simp only [Except.ok.injEq] at h2
      subst h2
      refine ⟨fun v hv => (by rw [p2 b rfl v hv]), fun w hw => (by cases hw), ?_⟩
      intro he
      rw [he] at h1
      first | done | simp [parseVersion] at h1
    | some w =>
      simp only at h2
      by_cases e : w = b
      · subst e
        simp only [beq_self_eq_true, if_true, Except.ok.injEq] at h2
        subst h2
        refine ⟨fun v hv => (by rw [p2 w rfl v hv]), fun w' hw => hw, ?_⟩
        intro he
        rw [he] at h1
        first | done | simp [parseVersion] at h1
      · have hb : (w == b) = false := by simpa using e
        simp [hb] at h2

/-- the fold over the include lines, given the specification of each included file -/
theorem foldE_incStep_spec (f : Nat) (files : AList (List Item)) (stack : List String)
    (ih : ∀ stack ctx n r, parseFile f files stack ctx n = .ok r →
      r.1 = flatOf stmtsOf f files n ∧
      r.2.macros = dictUpdate ctx.macros (flatOf macrosOf f files n) ∧
      r.2.options = ctx.options ++ flatOf optionsOf f files n ∧
      VersionOK ctx.version (flatOf versionsOf f files n) r.2.version)
    (incs : List String) (acc r : List RStmt × PCtx) (h : foldE (incStep f files stack) acc incs = .ok r) :
    r.1 = acc.1 ++ incs.flatMap (fun n => flatOf stmtsOf f files n) ∧
    r.2.macros = dictUpdate acc.2.macros (incs.flatMap (fun n => flatOf macrosOf f files n)) ∧
    r.2.options = acc.2.options ++ incs.flatMap (fun n => flatOf optionsOf f files n) ∧
    VersionOK acc.2.version (incs.flatMap (fun n => flatOf versionsOf f files n)) r.2.version := by
  induction incs generalizing acc with
  | nil =>
    simp only [foldE, Except.ok.injEq] at h
    subst h
    exact ⟨by simp, by simp [dictUpdate_nil], by simp, VersionOK.nil _⟩
  | cons n rest ihl =>
    simp only [foldE] at h
    cases hs : incStep f files stack acc n with
    | error e => rw [hs] at h; cases h
    | ok acc1 =>
      rw [hs] at h
      obtain ⟨h1, h2, h3, h4⟩ := ihl acc1 h
      unfold incStep at hs
      by_cases hc : stack.contains n = true
      · rw [if_pos hc] at hs; cases hs
      · rw [if_neg hc] at hs
        cases hp : parseFile f files (stack ++ [n]) acc.2 n with
        | error e => rw [hp] at hs; cases hs
        | ok r1 =>
          rw [hp] at hs
          simp only [Except.ok.injEq] at hs
          subst hs
          obtain ⟨g1, g2, g3, g4⟩ := ih _ acc.2 n r1 hp
          refine ⟨?_, ?_, ?_, ?_⟩
          · rw [h1]; simp [g1, List.append_assoc]
          · rw [h2]; simp only [g2, List.flatMap_cons, dictUpdate_append]
          · rw [h3]; simp [g3, List.append_assoc]
          · simp only [List.flatMap_cons]
            exact VersionOK.trans g4 h4

theorem parseFile_spec (f : Nat) (files : AList (List Item)) :
    ∀ stack ctx n r, parseFile f files stack ctx n = .ok r →
      r.1 = flatOf stmtsOf f files n ∧
      r.2.macros = dictUpdate ctx.macros (flatOf macrosOf f files n) ∧
      r.2.options = ctx.options ++ flatOf optionsOf f files n ∧
      VersionOK ctx.version (flatOf versionsOf f files n) r.2.version := by
  induction f with
  | zero => intro stack ctx n r h; rw [parseFile_zero] at h; cases h
  | succ f ih =>
    intro stack ctx n r h
    rw [parseFile_succ] at h
    simp only [flatOf]
    cases hl : files.lookup n with
    | none => rw [hl] at h; cases h
    | some items =>
      rw [hl] at h
      simp only at h ⊢
      cases hf : foldE (incStep f files stack) ([], ctx) (includesOf items) with
      | error e => rw [hf] at h; cases h
      | ok r1 =>
        rw [hf] at h
        obtain ⟨s1, c1⟩ := r1
        obtain ⟨g1, g2, g3, g4⟩ := foldE_incStep_spec f files stack ih (includesOf items) ([], ctx) (s1, c1) hf
        simp only at h g1 g2 g3 g4
        cases hv : parseVersion (versionsOf items) with
        | error e => rw [hv] at h; cases h
        | ok own =>
          rw [hv] at h
          simp only at h
          cases hm : mergeVersion c1.version own with
          | error e => rw [hm] at h; cases h
          | ok v =>
            rw [hm] at h
            simp only [Except.ok.injEq] at h
            subst h
            refine ⟨?_, ?_, ?_, ?_⟩
            · simp [g1]
            · simp only [g2, dictUpdate_append]
            · simp [g3, List.append_assoc]
            · exact VersionOK.trans g4 (own_version_ok c1.version _ own v hv hm)

/-! ### where the declarations stand in a file does not matter -/

/-- two item lists with the same declarations per category, in the same order within each category -/
def SameCats (a b : List Item) : Prop :=
  includesOf a = includesOf b ∧ macrosOf a = macrosOf b ∧ optionsOf a = optionsOf b ∧
  versionsOf a = versionsOf b ∧ stmtsOf a = stmtsOf b

theorem includesOf_append (a b : List Item) : includesOf (a ++ b) = includesOf a ++ includesOf b := by
  induction a with
  | nil => rfl
  | cons x r ih => cases x <;> simp [includesOf, ih]
theorem macrosOf_append (a b : List Item) : macrosOf (a ++ b) = macrosOf a ++ macrosOf b := by
  induction a with
  | nil => rfl
  | cons x r ih => cases x <;> simp [macrosOf, ih]
theorem optionsOf_append (a b : List Item) : optionsOf (a ++ b) = optionsOf a ++ optionsOf b := by
  induction a with
  | nil => rfl
  | cons x r ih => cases x <;> simp [optionsOf, ih]
theorem versionsOf_append (a b : List Item) : versionsOf (a ++ b) = versionsOf a ++ versionsOf b := by
  induction a with
  | nil => rfl
  | cons x r ih => cases x <;> simp [versionsOf, ih]
theorem stmtsOf_append (a b : List Item) : stmtsOf (a ++ b) = stmtsOf a ++ stmtsOf b := by
  induction a with
  | nil => rfl
  | cons x r ih => cases x <;> simp [stmtsOf, ih]

/-- files that agree category by category -/
def SameFiles (fs gs : AList (List Item)) : Prop :=
  ∀ n, match fs.lookup n, gs.lookup n with
    | none, none => True
    | some a, some b => SameCats a b
    | _, _ => False

theorem parseFile_sameFiles (fs gs : AList (List Item)) (h : SameFiles fs gs) (f : Nat) :
    ∀ stack ctx n, parseFile f fs stack ctx n = parseFile f gs stack ctx n := by
  induction f with
  | zero => intro stack ctx n; rfl
  | succ f ih =>
    intro stack ctx n
    rw [parseFile_succ, parseFile_succ]
    have hn := h n
    cases h1 : fs.lookup n with
    | none =>
      cases h2 : gs.lookup n with
      | none => rfl
      | some b => rw [h1, h2] at hn; exact absurd hn (by simp)
    | some a =>
      cases h2 : gs.lookup n with
      | none => rw [h1, h2] at hn; exact absurd hn (by simp)
      | some b =>
        rw [h1, h2] at hn
        obtain ⟨e1, e2, e3, e4, e5⟩ := hn
        have hstep : incStep f fs stack = incStep f gs stack := by
          funext acc x
          unfold incStep
          rw [ih]
        simp only [e1, e2, e3, e4, e5, hstep]

/-! ### the flattening terminates for every file map (cycle check on the stack of open files) -/

theorem parseVersion_ne_fuel (vs : List Int) (e : Err) (h : parseVersion vs = .error e) : e ≠ .fuel := by
  unfold parseVersion at h
  split at h
  · cases h
  · split at h
    · cases h; simp
    · split at h <;> cases h
      simp

theorem mergeVersion_ne_fuel (a b : Option Int) (e : Err) (h : mergeVersion a b = .error e) : e ≠ .fuel := by
  unfold mergeVersion at h
  cases b with
  | none => cases h
  | some v =>
    cases a with
    | none => cases h
    | some w =>
      simp only at h
      split at h
      · cases h
      · cases h; simp

theorem parseFile_no_fuel (files : AList (List Item)) (f : Nat) :
    ∀ stack ctx name, stack.Nodup → (∀ p ∈ stack, p ∈ keys files) →
      (keys files).length + 2 ≤ f + stack.length → parseFile f files stack ctx name ≠ .error .fuel := by
  induction f with
  | zero =>
    intro stack ctx name hnd hsub hf
    have := stack_length_le files stack hnd hsub
    omega
  | succ f ih =>
    intro stack ctx name hnd hsub hf
    have hle := stack_length_le files stack hnd hsub
    rw [parseFile_succ]
    cases hl : files.lookup name with
    | none => simp
    | some items =>
      simp only
      cases hfo : foldE (incStep f files stack) ([], ctx) (includesOf items) with
      | error e =>
        obtain ⟨s', x, _, hg⟩ := foldE_error _ _ _ _ hfo
        simp only
        intro he
        simp only [Except.error.injEq] at he
        subst he
        unfold incStep at hg
        by_cases hc : stack.contains x = true
        · rw [if_pos hc] at hg; cases hg
        · rw [if_neg hc] at hg
          have hx : x ∉ stack := by simpa using hc
          cases hp : parseFile f files (stack ++ [x]) s'.2 x with
          | ok r => rw [hp] at hg; cases hg
          | error e' =>
            rw [hp] at hg
            simp only [Except.error.injEq] at hg
            subst hg
            by_cases hk : x ∈ keys files
            · obtain ⟨hnd', hsub'⟩ := stack_push_inv files stack x hnd hsub hx hk
              exact ih (stack ++ [x]) s'.2 x hnd' hsub' (by simp [List.length_append]; omega) hp
            · obtain ⟨f', rfl⟩ : ∃ f', f = f' + 1 := ⟨f - 1, by omega⟩
              rw [parseFile_succ, lookup_eq_none_of_not_mem files x hk] at hp
              cases hp
      | ok r1 =>
        obtain ⟨s1, c1⟩ := r1
        simp only
        cases hv : parseVersion (versionsOf items) with
        | error e =>
          simp only
          intro he
          simp only [Except.error.injEq] at he
          exact parseVersion_ne_fuel _ e hv he
        | ok own =>
          simp only
          cases hm : mergeVersion c1.version own with
          | error e =>
            simp only
            intro he
            simp only [Except.error.injEq] at he
            exact mergeVersion_ne_fuel _ _ e hm he
          | ok v => simp

end SnowModel.ParseY
