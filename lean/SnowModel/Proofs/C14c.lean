/-
C14 — helper lemmas, part 3: termination of the macro inclusion chain (cycle check), file flattening
(`parseFile` against its depth-first specification, independence of the position of the
`include_file` lines, termination under a rank), `mapE` / `foldE` error lemmas.
-/
import SnowModel.Proofs.C14b
import Mathlib.Data.List.Perm.Subperm

namespace SnowModel.ParseY

section
variable {β γ ε σ : Type}

theorem mapE_error (g : β → Except ε γ) (l : List β) (e : ε) (h : mapE g l = .error e) :
    ∃ x ∈ l, g x = .error e := by
  induction l with
  | nil => simp [mapE] at h
  | cons x r ih =>
    simp only [mapE] at h
    cases hx : g x with
    | error e' =>
      rw [hx] at h
      simp only [Except.error.injEq] at h
      subst h
      exact ⟨x, by simp, hx⟩
    | ok y =>
      rw [hx] at h
      cases hr : mapE g r with
      | error e' =>
        rw [hr] at h
        simp only [Except.error.injEq] at h
        subst h
        obtain ⟨z, hz, hg⟩ := ih hr
        exact ⟨z, by simp [hz], hg⟩
      | ok ys => rw [hr] at h; cases h

theorem foldE_error (g : σ → β → Except ε σ) (s : σ) (l : List β) (e : ε) (h : foldE g s l = .error e) :
    ∃ s' x, x ∈ l ∧ g s' x = .error e := by
  induction l generalizing s with
  | nil => simp [foldE] at h
  | cons x r ih =>
    simp only [foldE] at h
    cases hx : g s x with
    | error e' =>
      rw [hx] at h
      simp only [Except.error.injEq] at h
      subst h
      exact ⟨s, x, by simp, hx⟩
    | ok s1 =>
      rw [hx] at h
      obtain ⟨s', z, hz, hg⟩ := ih s1 h
      exact ⟨s', z, by simp [hz], hg⟩
end

theorem mem_keys_of_lookup {α : Type} (d : AList α) (k : String) (v : α) (h : d.lookup k = some v) :
    k ∈ keys d := by
  apply Classical.byContradiction
  intro hc
  rw [lookup_eq_none_of_not_mem d k hc] at h
  cases h

/-! ### the inclusion chain terminates: the cycle check bounds its depth by the number of macros -/

theorem includeMacro_chain_no_fuel (ms : AList RMacro) (D : Nat)
    (hbody : ∀ name m, ms.lookup name = some m →
      (∃ own, mapE (pField D ms) m.fields = .ok own) ∧ (∃ ofr, mapE (fun s => pStmt D ms s) m.friends = .ok ofr)) :
    ∀ (k : Nat) (ps : List String) (n : String) (f : Nat), ps.Nodup → (∀ p ∈ ps, p ∈ keys ms) →
      (keys ms).length ≤ ps.length + k → D + k + 1 ≤ f → includeMacro f ms ps n ≠ .error .fuel := by
  intro k
  induction k with
  | zero =>
    intro ps n f hnd hsub hlen hf
    obtain ⟨f', rfl⟩ : ∃ f', f = f' + 1 := ⟨f - 1, by omega⟩
    rw [includeMacro_succ]
    cases hl : ms.lookup n with
    | none => simp
    | some m =>
      simp only
      by_cases hc : ps.contains n = true
      · rw [if_pos hc]; simp
      · exfalso
        have hn : n ∉ ps := by simpa using hc
        have hmem := mem_keys_of_lookup ms n m hl
        have hnd' : (n :: ps).Nodup := List.nodup_cons.mpr ⟨hn, hnd⟩
        have hsub' : (n :: ps) ⊆ keys ms := by
          intro x hx
          rcases List.mem_cons.mp hx with rfl | hx
          · exact hmem
          · exact hsub x hx
        have := (List.subperm_of_subset hnd' hsub').length_le
        simp at this
        omega
  | succ k ih =>
    intro ps n f hnd hsub hlen hf
    obtain ⟨f', rfl⟩ : ∃ f', f = f' + 1 := ⟨f - 1, by omega⟩
    rw [includeMacro_succ]
    cases hl : ms.lookup n with
    | none => simp
    | some m =>
      simp only
      by_cases hc : ps.contains n = true
      · rw [if_pos hc]; simp
      · rw [if_neg hc]
        have hn : n ∉ ps := by simpa using hc
        have hmem := mem_keys_of_lookup ms n m hl
        have hnd' : (ps ++ [n]).Nodup := by
          rw [List.nodup_append]
          refine ⟨hnd, by simp, ?_⟩
          intro a ha b hb
          simp only [List.mem_singleton] at hb
          subst hb
          exact fun e => hn (e ▸ ha)
        have hsub' : ∀ p ∈ ps ++ [n], p ∈ keys ms := by
          intro p hp
          rcases List.mem_append.mp hp with hp | hp
          · exact hsub p hp
          · simp only [List.mem_singleton] at hp; subst hp; exact hmem
        have hrec : ∀ x, includeMacro f' ms (ps ++ [n]) x ≠ .error .fuel :=
          fun x => ih (ps ++ [n]) x f' hnd' hsub' (by simp; omega) (by omega)
        obtain ⟨⟨own, hown⟩, ⟨ofr, hofr⟩⟩ := hbody n m hl
        have hown' : mapE (pField f' ms) m.fields = .ok own :=
          mapE_mono _ _ _ own (fun x _ r hx => pField_mono ms D f' (by omega) x r hx) hown
        have hofr' : mapE (fun s => pStmt f' ms s) m.friends = .ok ofr :=
          mapE_mono _ _ _ ofr (fun x _ r hx => pStmt_mono ms D f' (by omega) x r hx) hofr
        cases h1 : mapE (fun x => includeMacro f' ms (ps ++ [n]) x) m.incl with
        | error e =>
          obtain ⟨x, _, hx⟩ := mapE_error _ _ _ h1
          simp only
          intro he
          simp only [Except.error.injEq] at he
          subst he
          exact hrec x hx
        | ok incs => simp [hown', hofr']

/-! ### file flattening -/

/-- depth-first specification of what `include_file` collects for one category of declarations:
    everything from the included files (recursively, in the order of the include lines), then the
    file's own declarations of that category -/
def flatOf {β : Type} (sel : List Item → List β) : Nat → AList (List Item) → String → List β
  | 0, _, _ => []
  | f + 1, files, name =>
    match files.lookup name with
    | none => []
    | some items => (includesOf items).flatMap (fun n => flatOf sel f files n) ++ sel items

/-- the step function of the fold in `parseFile` -/
def incStep (f : Nat) (files : AList (List Item)) (acc : List RStmt × PCtx) (n : String) :
    Except Err (List RStmt × PCtx) :=
  match parseFile f files acc.2 n with
  | .error e => .error e
  | .ok r => .ok (acc.1 ++ r.1, r.2)

theorem parseFile_zero (files : AList (List Item)) (ctx : PCtx) (n : String) :
    parseFile 0 files ctx n = .error .fuel := rfl

theorem parseFile_succ (f : Nat) (files : AList (List Item)) (ctx : PCtx) (name : String) :
    parseFile (f + 1) files ctx name =
      match files.lookup name with
      | none => .error (.noFile name)
      | some items =>
        match foldE (incStep f files) ([], ctx) (includesOf items) with
        | .error e => .error e
        | .ok (incStmts, c1) =>
          match parseVersion (versionsOf items) with
          | .error e => .error e
          | .ok v =>
            .ok (incStmts ++ stmtsOf items,
                 { macros := dictUpdate c1.macros (macrosOf items),
                   options := c1.options ++ optionsOf items,
                   version := v }) := by
  rw [parseFile]; rfl

/-- the fold over the include lines, given the specification of each included file -/
theorem foldE_incStep_spec (f : Nat) (files : AList (List Item))
    (ih : ∀ ctx n r, parseFile f files ctx n = .ok r →
      r.1 = flatOf stmtsOf f files n ∧
      r.2.macros = dictUpdate ctx.macros (flatOf macrosOf f files n) ∧
      r.2.options = ctx.options ++ flatOf optionsOf f files n)
    (incs : List String) (acc r : List RStmt × PCtx) (h : foldE (incStep f files) acc incs = .ok r) :
    r.1 = acc.1 ++ incs.flatMap (fun n => flatOf stmtsOf f files n) ∧
    r.2.macros = dictUpdate acc.2.macros (incs.flatMap (fun n => flatOf macrosOf f files n)) ∧
    r.2.options = acc.2.options ++ incs.flatMap (fun n => flatOf optionsOf f files n) := by
  induction incs generalizing acc with
  | nil =>
    simp only [foldE, Except.ok.injEq] at h
    subst h
    simp [dictUpdate_nil]
  | cons n rest ihl =>
    simp only [foldE] at h
    cases hs : incStep f files acc n with
    | error e => rw [hs] at h; cases h
    | ok acc1 =>
      rw [hs] at h
      obtain ⟨h1, h2, h3⟩ := ihl acc1 h
      unfold incStep at hs
      cases hp : parseFile f files acc.2 n with
      | error e => rw [hp] at hs; cases hs
      | ok r1 =>
        rw [hp] at hs
        simp only [Except.ok.injEq] at hs
        subst hs
        obtain ⟨g1, g2, g3⟩ := ih acc.2 n r1 hp
        refine ⟨?_, ?_, ?_⟩
        · rw [h1]; simp [g1, List.append_assoc]
        · rw [h2]; simp only [g2, List.flatMap_cons, dictUpdate_append]
        · rw [h3]; simp [g3, List.append_assoc]

theorem parseFile_spec (f : Nat) (files : AList (List Item)) :
    ∀ ctx n r, parseFile f files ctx n = .ok r →
      r.1 = flatOf stmtsOf f files n ∧
      r.2.macros = dictUpdate ctx.macros (flatOf macrosOf f files n) ∧
      r.2.options = ctx.options ++ flatOf optionsOf f files n := by
  induction f with
  | zero => intro ctx n r h; rw [parseFile_zero] at h; cases h
  | succ f ih =>
    intro ctx n r h
    rw [parseFile_succ] at h
    simp only [flatOf]
    cases hl : files.lookup n with
    | none => rw [hl] at h; cases h
    | some items =>
      rw [hl] at h
      simp only at h ⊢
      cases hf : foldE (incStep f files) ([], ctx) (includesOf items) with
      | error e => rw [hf] at h; cases h
      | ok r1 =>
        rw [hf] at h
        obtain ⟨s1, c1⟩ := r1
        obtain ⟨g1, g2, g3⟩ := foldE_incStep_spec f files ih (includesOf items) ([], ctx) (s1, c1) hf
        simp only at h g1 g2 g3
        cases hv : parseVersion (versionsOf items) with
        | error e => rw [hv] at h; cases h
        | ok v =>
          rw [hv] at h
          simp only [Except.ok.injEq] at h
          subst h
          refine ⟨?_, ?_, ?_⟩
          · simp [g1]
          · simp only [g2, dictUpdate_append]
          · simp [g3, List.append_assoc]

/-! ### where the declarations stand in a file does not matter -/

/-- two item lists with the same declarations per category, in the same order within each category -/
def SameCats (a b : List Item) : Prop :=
  includesOf a = includesOf b ∧ macrosOf a = macrosOf b ∧ optionsOf a = optionsOf b ∧
  versionsOf a = versionsOf b ∧ stmtsOf a = stmtsOf b

theorem includesOf_append (a b : List Item) : includesOf (a ++ b) = includesOf a ++ includesOf b := by
  induction a with
  | nil => rfl
  | cons x r ih => cases x <;> simp [includesOf, ih]
theorem macrosOf_append (a b : List Item) : macrosOf (a ++ b) = macrosOf a ++ macrosOf b := by
  induction a with
  | nil => rfl
  | cons x r ih => cases x <;> simp [macrosOf, ih]
theorem optionsOf_append (a b : List Item) : optionsOf (a ++ b) = optionsOf a ++ optionsOf b := by
  induction a with
  | nil => rfl
  | cons x r ih => cases x <;> simp [optionsOf, ih]
theorem versionsOf_append (a b : List Item) : versionsOf (a ++ b) = versionsOf a ++ versionsOf b := by
  induction a with
  | nil => rfl
  | cons x r ih => cases x <;> simp [versionsOf, ih]
theorem stmtsOf_append (a b : List Item) : stmtsOf (a ++ b) = stmtsOf a ++ stmtsOf b := by
  induction a with
  | nil => rfl
  | cons x r ih => cases x <;> simp [stmtsOf, ih]

/-- files that agree category by category -/
def SameFiles (fs gs : AList (List Item)) : Prop :=
  ∀ n, match fs.lookup n, gs.lookup n with
    | none, none => True
    | some a, some b => SameCats a b
    | _, _ => False

theorem parseFile_sameFiles (fs gs : AList (List Item)) (h : SameFiles fs gs) (f : Nat) :
    ∀ ctx n, parseFile f fs ctx n = parseFile f gs ctx n := by
  induction f with
  | zero => intro ctx n; rfl
  | succ f ih =>
    intro ctx n
    rw [parseFile_succ, parseFile_succ]
    have hn := h n
    cases h1 : fs.lookup n with
    | none =>
      cases h2 : gs.lookup n with
      | none => rfl
      | some b => rw [h1, h2] at hn; exact absurd hn (by simp)
    | some a =>
      cases h2 : gs.lookup n with
      | none => rw [h1, h2] at hn; exact absurd hn (by simp)
      | some b =>
        rw [h1, h2] at hn
        obtain ⟨e1, e2, e3, e4, e5⟩ := hn
        have hstep : incStep f fs = incStep f gs := by
          funext acc x
          unfold incStep
          rw [ih]
        simp only [e1, e2, e3, e4, e5, hstep]

/-! ### termination of the flattening for acyclic inclusion -/

theorem parseFile_no_fuel (files : AList (List Item)) (rk : String → Nat)
    (hrk : ∀ name items, files.lookup name = some items → ∀ i ∈ includesOf items, rk i < rk name) :
    ∀ f ctx name, rk name < f → parseFile f files ctx name ≠ .error .fuel := by
  intro f
  induction f with
  | zero => intro ctx name h; omega
  | succ f ih =>
    intro ctx name h
    rw [parseFile_succ]
    cases hl : files.lookup name with
    | none => simp
    | some items =>
      simp only
      cases hf : foldE (incStep f files) ([], ctx) (includesOf items) with
      | error e =>
        obtain ⟨s', x, hx, hg⟩ := foldE_error _ _ _ _ hf
        simp only
        intro he
        simp only [Except.error.injEq] at he
        subst he
        unfold incStep at hg
        cases hp : parseFile f files s'.2 x with
        | error e' =>
          rw [hp] at hg
          simp only [Except.error.injEq] at hg
          subst hg
          exact ih s'.2 x (by have := hrk name items hl x hx; omega) hp
        | ok r => rw [hp] at hg; cases hg
      | ok r1 =>
        obtain ⟨s1, c1⟩ := r1
        simp only
        cases hv : parseVersion (versionsOf items) with
        | error e =>
          simp only
          intro he
          simp only [Except.error.injEq] at he
          subst he
          unfold parseVersion at hv
          split at hv
          · cases hv
          · split at hv
            · cases hv
            · split at hv <;> cases hv
        | ok v => simp

end SnowModel.ParseY
