/-
C20 — helper lemmas, part 4: what an accepted recipe looks like (`WF`).
-/
import SnowModel.Proofs.C20

namespace SnowModel.ParseCheck

/-- postcondition on the value of a successful step -/
structure Post {α : Type} (P : α → Prop) (r : Res α) : Prop where
  out : ∀ a refs, r = .ok a refs → P a

section post
variable {α β : Type}

theorem post_ok {P : α → Prop} {a : α} {refs : List Ref} (h : P a) : Post P (.ok a refs) :=
  ⟨by intro a' _ h'; cases h'; exact h⟩

theorem post_err {P : α → Prop} (e : Err) : Post P (.recipeError e) := ⟨by intro _ _ h; cases h⟩
theorem post_stuck {P : α → Prop} (s : Site) : Post P (.stuck s) := ⟨by intro _ _ h; cases h⟩
theorem post_fuel {P : α → Prop} : Post P (.fuel : Res α) := ⟨by intro _ _ h; cases h⟩

theorem post_bind_eq {P : β → Prop} {r : Res α} {f : α → Res β}
    (hf : ∀ a refs, r = .ok a refs → Post P (f a)) : Post P (r.bind f) := by
  constructor
  intro b refs h
  obtain ⟨a, r1, r2, h1, h2, _⟩ := bind_ok_inv h
  exact (hf a r1 h1).out b r2 h2

theorem post_bind {P' : α → Prop} {P : β → Prop} {r : Res α} {f : α → Res β}
    (hr : Post P' r) (hf : ∀ a, P' a → Post P (f a)) : Post P (r.bind f) :=
  post_bind_eq (fun a refs h => hf a (hr.out a refs h))

theorem post_mono {P P' : α → Prop} {r : Res α} (h : Post P r) (hi : ∀ a, P a → P' a) : Post P' r :=
  ⟨fun a refs hr => hi a (h.out a refs hr)⟩

theorem post_mapR {P : β → Prop} {f : α → Res β} {l : List α} (h : ∀ x ∈ l, Post P (f x)) :
    Post (fun bs => ∀ b ∈ bs, P b) (mapR f l) := by
  constructor
  intro bs refs hm b hb
  obtain ⟨a, ha, r, hf⟩ := mapR_ok_mem hm b hb
  exact (h a ha).out b r hf

theorem post_onMap {P : α → Prop} {v : Option Y} {f : KVs → Res α} {d : α} (hd : P d)
    (h : ∀ kvs, v = some (.map kvs) → Post P (f kvs)) : Post P (onMap v f d) := by
  unfold onMap
  split
  · exact h _ rfl
  · exact post_ok hd

theorem post_onList {P : α → Prop} {v : Option Y} {f : List Y → Res α} {d : α} (hd : P d)
    (h : ∀ xs, v = some (.list xs) → Post P (f xs)) : Post P (onList v f d) := by
  unfold onList
  split
  · exact h _ rfl
  · exact post_ok hd

theorem post_optR {P : α → Prop} {v : Option Y} {f : Y → Res α}
    (h : ∀ c, v = some c → Post P (f c)) : Post (fun o => ∀ x, o = some x → P x) (optR v f) := by
  unfold optR
  split
  · simp only [bind_eq, pure_eq]
    apply post_bind (h _ rfl)
    intro a ha
    apply post_ok
    intro x hx; cases hx; exact ha
  · apply post_ok; intro x hx; cases hx

theorem post_optMapR {P : α → Prop} {v : Option Y} {f : KVs → Res α}
    (h : ∀ kvs, v = some (.map kvs) → Post P (f kvs)) :
    Post (fun o => ∀ x, o = some x → P x) (optMapR v f) := by
  unfold optMapR
  split
  · simp only [bind_eq, pure_eq]
    apply post_bind (h _ rfl)
    intro a ha
    apply post_ok
    intro x hx; cases hx; exact ha
  · apply post_ok; intro x hx; cases hx

end post

/-! ### the bundle -/

def FieldsWF (l : List (String × Ast)) : Prop := ∀ q ∈ l, q.1 ≠ "" ∧ WF false q.2
def StmtsWF (top : Bool) (l : List Ast) : Prop := ∀ a ∈ l, WF top a ∧ isStatement a = true

structure AllWF (fuel : Nat) : Prop where
  fv : ∀ m ex v, Post (WF false) (parseFieldValue fuel m ex v)
  st : ∀ m ex kvs, Post (WF false) (parseStructured fuel m ex kvs)
  args : ∀ m ex a, Post (fun pa => (∀ x ∈ pa.1, WF false x) ∧ ∀ p ∈ pa.2, WF false p.2) (parseArgs fuel m ex a)
  fields : ∀ m ex kvs, Post FieldsWF (parseFields fuel m ex kvs)
  stmts : ∀ m ex top xs, Post (StmtsWF top) (parseStmts fuel m ex top xs)
  var : ∀ m ex kvs, getTruthy kvs "var" = true →
    Post (fun a => ∀ top, WF top a ∧ isStatement a = true) (parseVar fuel m ex kvs)
  fe : ∀ m ex kvs, Post (fun p => WF false p.2) (parseForEach fuel m ex kvs)
  incs : ∀ m ex names parents,
    Post (fun r => FieldsWF r.1 ∧ StmtsWF false r.2) (parseInclusions fuel m ex names parents)
  mac : ∀ m ex name parents,
    Post (fun r => FieldsWF r.1 ∧ StmtsWF false r.2) (includeMacro fuel m ex name parents)
  tmpl : ∀ m ex top kvs, getTruthy kvs "object" = true →
    Post (fun a => WF top a ∧ isStatement a = true) (parseTemplate fuel m ex top kvs)

theorem allWF_zero : AllWF 0 := by
  constructor
  all_goals
    intros
    simp only [parseFieldValue, parseStructured, parseArgs, parseFields,
      parseStmts, parseVar, parseForEach, parseInclusions, includeMacro, parseTemplate]
    exact post_fuel

theorem optStrOf_ne (kvs : KVs) (k : String) : optStrOf kvs k ≠ some "" := by
  unfold optStrOf
  split
  · split
    · simp
    · rename_i n _ hn
      intro h
      simp only [Option.some.injEq] at h
      rw [h] at hn; simp at hn
  · simp

section step
variable {fuel : Nat} (ih : AllWF fuel)
include ih

theorem wf_fv_step (m : Macros) (ex : List String) (v : Y) :
    Post (WF false) (parseFieldValue (fuel + 1) m ex v) := by
  simp only [parseFieldValue]
  split
  · exact ih.fv m ex _
  · exact post_err _
  · split
    · rename_i hobj
      exact post_mono (ih.tmpl m ex false _ hobj) (fun a h => h.1)
    · exact ih.st m ex _
  · exact post_ok (WF.simple _ _)

theorem wf_st_step (m : Macros) (ex : List String) (kvs : KVs) :
    Post (WF false) (parseStructured (fuel + 1) m ex kvs) := by
  simp only [parseStructured]
  split
  · exact post_err _
  · split
    · rename_i fn
      split
      · exact post_err _
      · rename_i hd
        simp only [bind_eq, pure_eq]
        apply post_bind (ih.args m ex _)
        intro pa hpa
        have hwf : WF false (Ast.struct fn pa.1 pa.2) :=
          WF.struct _ fn pa.1 pa.2 (by omega) hpa.1 hpa.2
        split
        · exact post_ok hwf
        · exact post_ok hwf
    · exact post_err _

theorem wf_args_step (m : Macros) (ex : List String) (a : Y) :
    Post (fun pa => (∀ x ∈ pa.1, WF false x) ∧ ∀ p ∈ pa.2, WF false p.2) (parseArgs (fuel + 1) m ex a) := by
  have hscalar : ∀ s : Y,
      Post (fun pa => (∀ x ∈ pa.1, WF false x) ∧ ∀ p ∈ pa.2, WF false p.2)
        ((parseFieldValue fuel m ex s).bind fun x => (Res.ok ([x], []) [] : Res Ref)) := by
    intro s
    apply post_bind (ih.fv m ex s)
    intro x hx
    apply post_ok
    constructor
    · intro y hy; simp only [List.mem_singleton] at hy; rw [hy]; exact hx
    · intro p hp; cases hp
  cases a with
  | map kvs =>
    simp only [parseArgs, bind_eq, pure_eq]
    apply post_bind (P' := fun kw : List (String × Ast) => ∀ q ∈ kw, WF false q.2)
    · apply post_mapR
      intro p _
      apply post_bind_eq
      intro k _ _
      apply post_bind (ih.fv m ex p.2)
      intro x hx
      exact post_ok hx
    · intro kw hkw
      apply post_ok
      constructor
      · intro x hx; cases hx
      · intro q hq
        obtain ⟨p, hp, he⟩ := (dedupe_mem hq).2
        rw [← he]; exact hkw p hp
  | list xs =>
    simp only [parseArgs, bind_eq, pure_eq]
    apply post_bind (P' := fun pos : List Ast => ∀ x ∈ pos, WF false x)
    · apply post_mapR
      intro x _
      exact ih.fv m ex x
    · intro pos hpos
      apply post_ok
      exact ⟨hpos, fun p hp => by cases hp⟩
  | null => simp only [parseArgs, bind_eq, pure_eq]; exact hscalar _
  | bool _ => simp only [parseArgs, bind_eq, pure_eq]; exact hscalar _
  | int _ => simp only [parseArgs, bind_eq, pure_eq]; exact hscalar _
  | float _ => simp only [parseArgs, bind_eq, pure_eq]; exact hscalar _
  | str _ => simp only [parseArgs, bind_eq, pure_eq]; exact hscalar _
  | date _ => simp only [parseArgs, bind_eq, pure_eq]; exact hscalar _

theorem wf_fields_step (m : Macros) (ex : List String) (kvs : KVs) :
    Post FieldsWF (parseFields (fuel + 1) m ex kvs) := by
  simp only [parseFields]
  apply post_mapR
  intro p _
  split
  · rename_i name _
    split
    · exact post_err _
    · rename_i hne
      simp only [bind_eq, pure_eq]
      apply post_bind (ih.fv m ex p.2)
      intro x hx
      apply post_ok
      exact ⟨by simpa using hne, hx⟩
  · exact post_err _

theorem wf_stmts_step (m : Macros) (ex : List String) (top : Bool) (xs : List Y) :
    Post (StmtsWF top) (parseStmts (fuel + 1) m ex top xs) := by
  simp only [parseStmts]
  apply post_mapR
  intro x _
  split
  · split
    · rename_i hobj; exact ih.tmpl m ex top _ hobj
    · split
      · rename_i hvar
        exact post_mono (ih.var m ex _ hvar) (fun a h => h top)
      · exact post_err _
  · exact post_err _

theorem wf_var_step (m : Macros) (ex : List String) (kvs : KVs) (hv : getTruthy kvs "var" = true) :
    Post (fun a => ∀ top, WF top a ∧ isStatement a = true) (parseVar (fuel + 1) m ex kvs) := by
  simp only [parseVar, bind_eq, pure_eq]
  apply post_bind_eq
  intro _ _ _
  split
  · rename_i name value h1 h2
    apply post_bind (ih.fv m ex value)
    intro x hx
    apply post_ok
    intro top
    refine ⟨WF.var _ name x ?_ hx, rfl⟩
    unfold getTruthy at hv
    rw [h1] at hv
    simpa [Y.truthy] using hv
  · exact post_stuck _

theorem wf_fe_step (m : Macros) (ex : List String) (kvs : KVs) :
    Post (fun p => WF false p.2) (parseForEach (fuel + 1) m ex kvs) := by
  simp only [parseForEach, bind_eq, pure_eq]
  apply post_bind_eq
  intro _ _ _
  split
  · rename_i name value h1 h2
    apply post_bind (ih.fv m ex value)
    intro x hx
    exact post_ok hx
  · exact post_stuck _

theorem wf_incs_step (m : Macros) (ex names parents : List String) :
    Post (fun r => FieldsWF r.1 ∧ StmtsWF false r.2) (parseInclusions (fuel + 1) m ex names parents) := by
  simp only [parseInclusions, bind_eq, pure_eq]
  apply post_bind (P' := fun rs : List (List (String × Ast) × List Ast) => ∀ r ∈ rs, FieldsWF r.1 ∧ StmtsWF false r.2)
  · apply post_mapR
    intro n _
    exact ih.mac m ex n parents
  · intro rs hrs
    apply post_ok
    constructor
    · intro q hq
      simp only [List.mem_flatMap] at hq
      obtain ⟨r, hr, hqr⟩ := hq
      exact (hrs r hr).1 q hqr
    · intro a ha
      simp only [List.mem_flatMap] at ha
      obtain ⟨r, hr, har⟩ := ha
      exact (hrs r hr).2 a har

theorem wf_mac_step (m : Macros) (ex : List String) (name : String) (parents : List String) :
    Post (fun r => FieldsWF r.1 ∧ StmtsWF false r.2) (includeMacro (fuel + 1) m ex name parents) := by
  simp only [includeMacro]
  split
  · exact post_err _
  · simp only [bind_eq, pure_eq]
    apply post_bind_eq
    intro _ _ _
    split
    · exact post_err _
    · apply post_bind (ih.incs m _ _ _)
      intro inc hinc
      apply post_bind (P' := FieldsWF)
        (post_onMap (fun q hq => by cases hq) (fun f _ => ih.fields m _ f))
      intro fields hfields
      apply post_bind (P' := StmtsWF false)
        (post_onList (fun q hq => by cases hq) (fun f _ => ih.stmts m _ false f))
      intro friends hfriends
      apply post_ok
      constructor
      · intro q hq
        rcases List.mem_append.mp hq with hq | hq
        · exact hinc.1 q hq
        · exact hfields q hq
      · intro a ha
        rcases List.mem_append.mp ha with ha | ha
        · exact hinc.2 a ha
        · exact hfriends a ha

theorem wf_tmpl_step (m : Macros) (ex : List String) (top : Bool) (kvs : KVs)
    (hobj : getTruthy kvs "object" = true) :
    Post (fun a => WF top a ∧ isStatement a = true) (parseTemplate (fuel + 1) m ex top kvs) := by
  simp only [parseTemplate, bind_eq, pure_eq]
  apply post_bind_eq
  intro _ _ _
  split
  · exact post_err _
  · rename_i hjo
    split
    · rename_i table htable
      apply post_bind (ih.incs m ex _ _)
      intro inc hinc
      apply post_bind (P' := FieldsWF)
        (post_onMap (fun q hq => by cases hq) (fun f _ => ih.fields m ex f))
      intro fields hfields
      apply post_bind (P' := StmtsWF false)
        (post_onList (fun q hq => by cases hq) (fun f _ => ih.stmts m ex false f))
      intro friends hfriends
      apply post_bind (post_optR (P := WF false) (fun c _ => ih.fv m ex c))
      intro count hcount
      apply post_bind (post_optMapR (P := fun p : String × Ast => WF false p.2) (fun fe _ => ih.fe m ex fe))
      intro forEach hfe
      split
      · exact post_err _
      · rename_i hboth
        apply post_ok
        refine ⟨?_, rfl⟩
        have hallF : FieldsWF (inc.1 ++ fields) := by
          intro q hq
          rcases List.mem_append.mp hq with hq | hq
          · exact hinc.1 q hq
          · exact hfields q hq
        apply WF.tmpl
        · -- table ≠ ""
          unfold getTruthy at hobj
          rw [htable] at hobj
          simpa [Y.truthy] using hobj
        · exact optStrOf_ne _ _
        · intro hj
          cases top with
          | true => rfl
          | false => simp [hj] at hjo
        · intro p hp
          obtain ⟨q, hq, he⟩ := (dedupe_mem hp).1
          rw [← he]
          exact (hallF q hq).1
        · intro p hp
          obtain ⟨q, hq, he⟩ := (dedupe_mem hp).2
          rw [← he]
          exact (hallF q hq).2
        · intro a ha
          rcases List.mem_append.mp ha with ha | ha
          · exact (hinc.2 a ha).1
          · exact (hfriends a ha).1
        · exact hcount
        · exact hfe
        · simpa using hboth
    · exact post_stuck _

end step

theorem allWF : ∀ fuel, AllWF fuel
  | 0 => allWF_zero
  | n + 1 =>
    have ih := allWF n
    { fv := wf_fv_step ih, st := wf_st_step ih, args := wf_args_step ih, fields := wf_fields_step ih,
      stmts := wf_stmts_step ih, var := wf_var_step ih, fe := wf_fe_step ih, incs := wf_incs_step ih,
      mac := wf_mac_step ih, tmpl := wf_tmpl_step ih }

/-! ### version, `parse_recipe`, `check` -/

def VersionOk (v : Option Nat) : Prop := v = none ∨ v = some 2 ∨ v = some 3

theorem versionNum_ok {y : Y} {n : Nat} (h : versionNum y = some n) : n = 2 ∨ n = 3 := by
  unfold versionNum at h
  split at h <;> simp at h <;> omega

theorem parseVersion_post (l : List Y) : Post VersionOk (parseVersion l) := by
  unfold parseVersion
  split
  · exact post_ok (Or.inl rfl)
  · split
    · split
      · rename_i v hv
        split
        · apply post_ok
          rcases versionNum_ok hv with h | h
          · exact Or.inr (Or.inl (by rw [h]))
          · exact Or.inr (Or.inr (by rw [h]))
        · exact post_err _
      · exact post_err _
    · exact post_err _

theorem mergeVersion_post {cur own : Option Nat} (hc : VersionOk cur) (ho : VersionOk own) :
    Post VersionOk (mergeVersion cur own) := by
  unfold mergeVersion
  split
  · exact post_ok hc
  · split
    · exact post_ok ho
    · split
      · exact post_ok ho
      · exact post_err _

theorem loadFile_version : ∀ (fuel : Nat) (env : Env) (stack : List String) (acc : Top) (doc : Y),
    VersionOk acc.version → Post (fun r => VersionOk r.1.version) (loadFile fuel env stack acc doc) := by
  intro fuel
  induction fuel with
  | zero => intro env stack acc doc _; simp only [loadFile]; exact post_fuel
  | succ n ih =>
    intro env stack acc doc hacc
    cases doc <;> simp only [loadFile] <;> try exact post_err _
    rename_i data
    simp only [bind_eq, pure_eq]
    apply post_bind_eq; intro _ _ _
    -- the fold over the include files keeps the invariant
    have hfold : ∀ (l : List Y) (init : Top × List Y), VersionOk init.1.version →
        Post (fun r : Top × List Y => VersionOk r.1.version)
          (l.foldlM (fun (st : Top × List Y) (inc : Y) =>
            (parseElement (kvsOf inc) "include_file" [] []).bind fun _ =>
              match lookup (kvsOf inc) "include_file" with
              | some (Y.str rel) =>
                if startsWithSlash rel = true then Res.recipeError Err.syntax
                else
                  match List.lookup rel env.files with
                  | none => Res.recipeError Err.generic
                  | some c =>
                    if stack.contains rel = true then Res.recipeError Err.generic
                    else
                      match c with
                      | FileContent.yamlError => Res.recipeError Err.syntax
                      | FileContent.doc d =>
                        (loadFile n env (stack ++ [rel]) st.fst d).bind fun sub => Res.ok (sub.fst, st.snd ++ sub.snd) []
              | x => Res.recipeError Err.syntax) init) := by
      intro l
      induction l with
      | nil => intro init hinit; simp only [List.foldlM_nil, pure_eq]; exact post_ok hinit
      | cons x xs ihl =>
        intro init hinit
        simp only [List.foldlM_cons, bind_eq]
        apply post_bind (P' := fun r : Top × List Y => VersionOk r.1.version)
        · apply post_bind_eq; intro _ _ _
          split
          · split
            · exact post_err _
            · split
              · exact post_err _
              · split
                · exact post_err _
                · split
                  · exact post_err _
                  · apply post_bind (ih env _ init.1 _ hinit)
                    intro sub hsub
                    exact post_ok hsub
          · exact post_err _
        · intro r hr; exact ihl r hr
    apply post_bind (hfold _ (acc, []) hacc)
    intro r hr
    apply post_bind_eq; intro _ _ _
    apply post_bind_eq; intro _ _ _
    apply post_bind_eq; intro _ _ _
    apply post_bind_eq; intro _ _ _
    apply post_bind_eq; intro _ _ _
    apply post_bind (parseVersion_post _)
    intro own hown
    apply post_bind (mergeVersion_post hr hown)
    intro v hv
    exact post_ok hv

theorem parseRecipe_post (fuel : Nat) (env : Env) (doc : Y) :
    Post (fun p => StmtsWF true p.statements ∧ VersionOk p.version) (parseRecipe fuel env doc) := by
  simp only [parseRecipe, bind_eq, pure_eq]
  apply post_bind (loadFile_version fuel env [] {} doc (Or.inl rfl))
  intro r hr
  apply post_bind ((allWF fuel).stmts r.1.macros [] true r.2)
  intro stmts hs
  exact post_ok ⟨hs, hr⟩

theorem check_ok_inv {fuel : Nat} {env : Env} {doc : Y} {p : Parsed} {refs : List Ref}
    (h : check fuel env doc = .ok p refs) :
    parseRecipe fuel env doc = .ok p refs
    ∧ (∃ r, forR checkOption p.options = .ok () r) ∧ (∃ r, forR checkRef refs = .ok () r) := by
  unfold check at h
  cases hp : parseRecipe fuel env doc with
  | ok p' refs' =>
    rw [hp] at h
    simp only at h
    cases ho : forR checkOption p'.options with
    | ok u r1 =>
      rw [ho] at h
      simp only at h
      cases hr : forR checkRef refs' with
      | ok u2 r2 =>
        rw [hr] at h
        simp only [Res.ok.injEq] at h
        obtain ⟨rfl, rfl⟩ := h
        exact ⟨rfl, ⟨r1, ho⟩, ⟨r2, hr⟩⟩
      | recipeError _ => rw [hr] at h; cases h
      | stuck _ => rw [hr] at h; cases h
      | fuel => rw [hr] at h; cases h
    | recipeError _ => rw [ho] at h; cases h
    | stuck _ => rw [ho] at h; cases h
    | fuel => rw [ho] at h; cases h
  | recipeError _ => rw [hp] at h; cases h
  | stuck _ => rw [hp] at h; cases h
  | fuel => rw [hp] at h; cases h

end SnowModel.ParseCheck
