/-
C20 — helper lemmas, part 1: the `Res` writer monad, `mapR` / `forR` / `foldlM`, `parse_element`,
`dedupe`.
-/
import SnowModel.Proofs.C20Defs

namespace SnowModel.ParseCheck

/-! ### `Res` -/

@[simp] theorem pure_eq {α : Type} (a : α) : (pure a : Res α) = .ok a [] := rfl
@[simp] theorem bind_eq {α β : Type} (r : Res α) (f : α → Res β) : (r >>= f) = r.bind f := rfl

theorem bind_ok_inv {α β : Type} {r : Res α} {f : α → Res β} {b : β} {refs : List Ref}
    (h : r.bind f = .ok b refs) :
    ∃ a r1 r2, r = .ok a r1 ∧ f a = .ok b r2 ∧ refs = r1 ++ r2 := by
  cases r with
  | ok a r1 =>
    simp only [Res.bind] at h
    cases hf : f a with
    | ok b' r2 =>
      rw [hf] at h
      simp only [Res.ok.injEq] at h
      exact ⟨a, r1, r2, rfl, by rw [hf, h.1], h.2.symm⟩
    | recipeError e => rw [hf] at h; cases h
    | stuck s => rw [hf] at h; cases h
    | fuel => rw [hf] at h; cases h
  | recipeError e => cases h
  | stuck s => cases h
  | fuel => cases h

theorem bind_stuck_inv {α β : Type} {r : Res α} {f : α → Res β} {s : Site}
    (h : r.bind f = .stuck s) :
    r = .stuck s ∨ ∃ a r1, r = .ok a r1 ∧ f a = .stuck s := by
  cases r with
  | ok a r1 =>
    simp only [Res.bind] at h
    cases hf : f a with
    | ok b' r2 => rw [hf] at h; cases h
    | recipeError e => rw [hf] at h; cases h
    | stuck s' =>
      rw [hf] at h
      simp only [Res.stuck.injEq] at h
      subst h
      exact Or.inr ⟨a, r1, rfl, hf⟩
    | fuel => rw [hf] at h; cases h
  | recipeError e => cases h
  | stuck s' =>
    simp only [Res.bind, Res.stuck.injEq] at h
    subst h
    exact Or.inl rfl
  | fuel => cases h

/-- `r` gets stuck only at sites satisfying `Q`; every `random_reference` it records satisfies `G` -/
def Safe (Q : Site → Prop) (G : Ref → Prop) {α : Type} (r : Res α) : Prop :=
  (∀ s, r = .stuck s → Q s) ∧ (∀ a refs, r = .ok a refs → ∀ x ∈ refs, G x)

section safe
variable {Q : Site → Prop} {G : Ref → Prop} {α β : Type}

theorem safe_ok_nil (a : α) : Safe Q G (.ok a [] : Res α) := by
  constructor
  · intro _ h; cases h
  · intro _ _ h x hx; cases h; cases hx

theorem safe_ok_one (a : α) (r : Ref) (h : G r) : Safe Q G (.ok a [r] : Res α) := by
  constructor
  · intro _ h'; cases h'
  · intro _ _ h' x hx
    cases h'
    simp only [List.mem_singleton] at hx
    rw [hx]; exact h

theorem safe_err (e : Err) : Safe Q G (.recipeError e : Res α) := by
  constructor
  · intro _ h; cases h
  · intro _ _ h; cases h

theorem safe_fuel : Safe Q G (.fuel : Res α) := by
  constructor
  · intro _ h; cases h
  · intro _ _ h; cases h

theorem safe_stuck {s : Site} (h : Q s) : Safe Q G (.stuck s : Res α) := by
  constructor
  · intro _ h'; cases h'; exact h
  · intro _ _ h'; cases h'

theorem safe_bind {r : Res α} {f : α → Res β} (hr : Safe Q G r)
    (hf : ∀ a refs, r = .ok a refs → Safe Q G (f a)) : Safe Q G (r.bind f) := by
  constructor
  · intro s h
    rcases bind_stuck_inv h with h1 | ⟨a, r1, h1, h2⟩
    · exact hr.1 s h1
    · exact (hf a r1 h1).1 s h2
  · intro b refs h x hx
    obtain ⟨a, r1, r2, h1, h2, h3⟩ := bind_ok_inv h
    rw [h3] at hx
    rcases List.mem_append.mp hx with hx | hx
    · exact hr.2 a r1 h1 x hx
    · exact (hf a r1 h1).2 b r2 h2 x hx

theorem safe_mapR {f : α → Res β} {l : List α} (h : ∀ x ∈ l, Safe Q G (f x)) :
    Safe Q G (mapR f l) := by
  induction l with
  | nil => exact safe_ok_nil _
  | cons x xs ih =>
    simp only [mapR, bind_eq, pure_eq]
    apply safe_bind (h x (List.mem_cons_self ..))
    intro b _ _
    apply safe_bind (ih (fun y hy => h y (List.mem_cons_of_mem _ hy)))
    intro bs _ _
    exact safe_ok_nil _

theorem safe_forR {f : α → Res Unit} {l : List α} (h : ∀ x ∈ l, Safe Q G (f x)) :
    Safe Q G (forR f l) := by
  induction l with
  | nil => exact safe_ok_nil _
  | cons x xs ih =>
    simp only [forR, bind_eq]
    apply safe_bind (h x (List.mem_cons_self ..))
    intro _ _ _
    exact ih (fun y hy => h y (List.mem_cons_of_mem _ hy))

theorem safe_onMap {v : Option Y} {f : KVs → Res α} {d : α}
    (h : ∀ kvs, v = some (.map kvs) → Safe Q G (f kvs)) : Safe Q G (onMap v f d) := by
  unfold onMap
  split
  · exact h _ rfl
  · exact safe_ok_nil _

theorem safe_onList {v : Option Y} {f : List Y → Res α} {d : α}
    (h : ∀ xs, v = some (.list xs) → Safe Q G (f xs)) : Safe Q G (onList v f d) := by
  unfold onList
  split
  · exact h _ rfl
  · exact safe_ok_nil _

theorem safe_optR {v : Option Y} {f : Y → Res α}
    (h : ∀ c, v = some c → Safe Q G (f c)) : Safe Q G (optR v f) := by
  unfold optR
  split
  · simp only [bind_eq, pure_eq]
    apply safe_bind (h _ rfl)
    intro _ _ _; exact safe_ok_nil _
  · exact safe_ok_nil _

theorem safe_optMapR {v : Option Y} {f : KVs → Res α}
    (h : ∀ kvs, v = some (.map kvs) → Safe Q G (f kvs)) : Safe Q G (optMapR v f) := by
  unfold optMapR
  split
  · simp only [bind_eq, pure_eq]
    apply safe_bind (h _ rfl)
    intro _ _ _; exact safe_ok_nil _
  · exact safe_ok_nil _

end safe

theorem mapR_cons_ok {α β : Type} {f : α → Res β} {x : α} {xs : List α} {bs : List β} {refs : List Ref}
    (h : mapR f (x :: xs) = .ok bs refs) :
    ∃ b bs' r1 r2, bs = b :: bs' ∧ f x = .ok b r1 ∧ mapR f xs = .ok bs' r2 := by
  simp only [mapR, bind_eq, pure_eq] at h
  obtain ⟨b, r1, r2, h1, h2, _⟩ := bind_ok_inv h
  obtain ⟨bs', r3, r4, h3, h4, _⟩ := bind_ok_inv h2
  simp only [Res.ok.injEq] at h4
  exact ⟨b, bs', r1, r3, h4.1.symm, h1, h3⟩

/-- every result of `mapR` is the result of some element -/
theorem mapR_ok_mem {α β : Type} {f : α → Res β} {l : List α} {bs : List β} {refs : List Ref}
    (h : mapR f l = .ok bs refs) :
    ∀ b ∈ bs, ∃ a ∈ l, ∃ r, f a = .ok b r := by
  induction l generalizing bs refs with
  | nil =>
    simp only [mapR, pure_eq, Res.ok.injEq] at h
    intro b hb; rw [← h.1] at hb; cases hb
  | cons x xs ih =>
    obtain ⟨b', bs', r1, r2, h1, h2, h3⟩ := mapR_cons_ok h
    intro b hb
    rw [h1] at hb
    rcases List.mem_cons.mp hb with hb | hb
    · subst hb; exact ⟨x, List.mem_cons_self .., r1, h2⟩
    · obtain ⟨a, ha, r⟩ := ih h3 b hb
      exact ⟨a, List.mem_cons_of_mem _ ha, r⟩

/-- every element has a result in the output of `mapR` -/
theorem mapR_ok_mem' {α β : Type} {f : α → Res β} {l : List α} {bs : List β} {refs : List Ref}
    (h : mapR f l = .ok bs refs) :
    ∀ a ∈ l, ∃ b ∈ bs, ∃ r, f a = .ok b r := by
  induction l generalizing bs refs with
  | nil => intro a ha; cases ha
  | cons x xs ih =>
    obtain ⟨b', bs', r1, r2, h1, h2, h3⟩ := mapR_cons_ok h
    intro a ha
    rw [h1]
    rcases List.mem_cons.mp ha with ha | ha
    · subst ha; exact ⟨b', List.mem_cons_self .., r1, h2⟩
    · obtain ⟨b, hb, r⟩ := ih h3 a ha
      exact ⟨b, List.mem_cons_of_mem _ hb, r⟩

theorem forR_ok_mem {α : Type} {f : α → Res Unit} {l : List α} {u : Unit} {refs : List Ref}
    (h : forR f l = .ok u refs) : ∀ x ∈ l, ∃ r, f x = .ok () r := by
  induction l generalizing refs with
  | nil => intro x hx; cases hx
  | cons y ys ih =>
    simp only [forR, bind_eq] at h
    obtain ⟨_, r1, r2, h1, h2, _⟩ := bind_ok_inv h
    intro x hx
    rcases List.mem_cons.mp hx with hx | hx
    · subst hx; exact ⟨r1, h1⟩
    · exact ih h2 x hx

theorem forR_not_stuck {α : Type} {f : α → Res Unit} {l : List α}
    (h : ∀ x ∈ l, (f x).isStuck = false) : (forR f l).isStuck = false := by
  induction l with
  | nil => rfl
  | cons y ys ih =>
    simp only [forR, bind_eq]
    have h1 := h y (List.mem_cons_self ..)
    have h2 := ih (fun x hx => h x (List.mem_cons_of_mem _ hx))
    cases hy : f y with
    | ok a r =>
      simp only [Res.bind]
      cases hz : forR f ys with
      | ok b r' => rfl
      | recipeError e => rfl
      | stuck s => rw [hz] at h2; cases h2
      | fuel => rfl
    | recipeError e => rfl
    | stuck s => rw [hy] at h1; cases h1
    | fuel => rfl

/-! ### `lookup`, `parse_element` -/

theorem lookup_mem {kvs : KVs} {k : String} {v : Y} (h : lookup kvs k = some v) :
    (Y.str k, v) ∈ kvs := by
  induction kvs with
  | nil => simp [lookup] at h
  | cons p rest ih =>
    obtain ⟨a, b⟩ := p
    cases a with
    | str s =>
      simp only [lookup] at h
      split at h
      · rename_i heq
        have : s = k := by simpa using heq
        cases h; subst this; exact List.mem_cons_self ..
      · exact List.mem_cons_of_mem _ (ih h)
    | null => simp only [lookup] at h; exact List.mem_cons_of_mem _ (ih h)
    | bool _ => simp only [lookup] at h; exact List.mem_cons_of_mem _ (ih h)
    | int _ => simp only [lookup] at h; exact List.mem_cons_of_mem _ (ih h)
    | float _ => simp only [lookup] at h; exact List.mem_cons_of_mem _ (ih h)
    | date _ => simp only [lookup] at h; exact List.mem_cons_of_mem _ (ih h)
    | list _ => simp only [lookup] at h; exact List.mem_cons_of_mem _ (ih h)
    | map _ => simp only [lookup] at h; exact List.mem_cons_of_mem _ (ih h)

theorem checkKeys_safe {Q : Site → Prop} {G : Ref → Prop} (et : String) (m o : KeyTable) (kvs : KVs) :
    Safe Q G (checkKeys et m o kvs) := by
  induction kvs with
  | nil => exact safe_ok_nil _
  | cons p rest ih =>
    obtain ⟨k, v⟩ := p
    cases k <;> simp only [checkKeys] <;> try exact safe_err _
    split
    · exact safe_err _
    · split
      · exact ih
      · exact safe_err _

theorem parseElement_safe {Q : Site → Prop} {G : Ref → Prop} (kvs : KVs) (et : String) (m o : KeyTable) :
    Safe Q G (parseElement kvs et m o) := by
  simp only [parseElement, bind_eq, pure_eq]
  apply safe_bind (checkKeys_safe ..)
  intro _ _ _
  split
  · exact safe_ok_nil _
  · exact safe_err _

/-- what a successful key loop guarantees about every entry -/
theorem checkKeys_ok {et : String} {m o : KeyTable} {kvs : KVs} {u : Unit} {refs : List Ref}
    (h : checkKeys et m o kvs = .ok u refs) :
    ∀ p ∈ kvs, ∃ s tys, p.1 = .str s ∧ expectedTy et m o s = some tys ∧ tys.any (hasTy p.2) = true := by
  induction kvs with
  | nil => intro p hp; cases hp
  | cons q rest ih =>
    obtain ⟨k, v⟩ := q
    cases k <;> simp only [checkKeys] at h <;> try (cases h; done)
    rename_i s
    split at h
    · cases h
    · rename_i tys htys
      split at h
      · rename_i hany
        intro p hp
        rcases List.mem_cons.mp hp with hp | hp
        · subst hp; exact ⟨s, tys, rfl, htys, hany⟩
        · exact ih h p hp
      · cases h

theorem parseElement_ok {kvs : KVs} {et : String} {m o : KeyTable} {u : Unit} {refs : List Ref}
    (h : parseElement kvs et m o = .ok u refs) :
    (∀ p ∈ kvs, ∃ s tys, p.1 = .str s ∧ expectedTy et m o s = some tys ∧ tys.any (hasTy p.2) = true)
    ∧ m.all (fun p => (lookup kvs p.1).isSome) = true := by
  simp only [parseElement, bind_eq, pure_eq] at h
  obtain ⟨_, r1, r2, h1, h2, _⟩ := bind_ok_inv h
  refine ⟨checkKeys_ok h1, ?_⟩
  split at h2
  · assumption
  · cases h2

/-- the type of a present key after a successful `parse_element` -/
theorem parseElement_ok_lookup {kvs : KVs} {et : String} {m o : KeyTable} {u : Unit} {refs : List Ref}
    (h : parseElement kvs et m o = .ok u refs) {k : String} {v : Y} (hl : lookup kvs k = some v) :
    ∃ tys, expectedTy et m o k = some tys ∧ tys.any (hasTy v) = true := by
  obtain ⟨s, tys, h1, h2, h3⟩ := (parseElement_ok h).1 _ (lookup_mem hl)
  simp only [Y.str.injEq] at h1
  subst h1
  exact ⟨tys, h2, h3⟩

/-! ### `dedupe` -/

theorem lastValue_prop {α : Type} {P : α → Prop} (k : String) (v : α) (rest : List (String × α))
    (hv : P v) (hr : ∀ p ∈ rest, p.1 = k → P p.2) : P (lastValue k v rest) := by
  unfold lastValue
  split
  · rename_i p hp
    have hm := List.mem_of_getLast? hp
    have := List.mem_filter.mp hm
    exact hr p this.1 (by simpa using this.2)
  · exact hv

theorem dedupeAux_lookup {α : Type} {P : α → Prop} (k : String) :
    ∀ (l : List (String × α)) (seen : List String), seen.contains k = false →
      (∃ p ∈ l, p.1 = k) → (∀ p ∈ l, p.1 = k → P p.2) →
      ∃ x, (dedupeAux seen l).lookup k = some x ∧ P x := by
  intro l
  induction l with
  | nil => intro seen _ h; obtain ⟨p, hp, _⟩ := h; cases hp
  | cons q rest ih =>
    obtain ⟨k', v⟩ := q
    intro seen hs hex hall
    simp only [dedupeAux]
    by_cases hkk : k' = k
    · subst hkk
      simp only [hs, Bool.false_eq_true, ↓reduceIte, List.lookup_cons_self]
      refine ⟨_, rfl, ?_⟩
      apply lastValue_prop
      · exact hall _ (List.mem_cons_self ..) rfl
      · intro p hp hk; exact hall p (List.mem_cons_of_mem _ hp) hk
    · have hex' : ∃ p ∈ rest, p.1 = k := by
        obtain ⟨p, hp, hk⟩ := hex
        rcases List.mem_cons.mp hp with hp | hp
        · subst hp; exact absurd hk hkk
        · exact ⟨p, hp, hk⟩
      have hall' : ∀ p ∈ rest, p.1 = k → P p.2 := fun p hp => hall p (List.mem_cons_of_mem _ hp)
      split
      · exact ih seen hs hex' hall'
      · have hne : (k == k') = false := by
          simp only [beq_eq_false_iff_ne, ne_eq]; exact fun h => hkk h.symm
        rw [List.lookup_cons, hne]
        apply ih (k' :: seen) _ hex' hall'
        simp only [List.contains_cons, hne, hs, Bool.or_self]

theorem dedupe_lookup {α : Type} {P : α → Prop} (k : String) (l : List (String × α))
    (hex : ∃ p ∈ l, p.1 = k) (hall : ∀ p ∈ l, p.1 = k → P p.2) :
    ∃ x, (dedupe l).lookup k = some x ∧ P x :=
  dedupeAux_lookup k l [] rfl hex hall

theorem dedupeAux_mem {α : Type} (l : List (String × α)) :
    ∀ (seen : List String) (q : String × α), q ∈ dedupeAux seen l → ∃ p ∈ l, p.1 = q.1 ∧
      (q.2 = p.2 ∨ ∃ p' ∈ l, p'.1 = q.1 ∧ q.2 = p'.2) := by
  induction l with
  | nil => intro seen q hq; cases hq
  | cons p rest ih =>
    obtain ⟨k, v⟩ := p
    intro seen q hq
    simp only [dedupeAux] at hq
    split at hq
    · obtain ⟨p, hp, h1, h2⟩ := ih seen q hq
      refine ⟨p, List.mem_cons_of_mem _ hp, h1, ?_⟩
      rcases h2 with h2 | ⟨p', hp', h3, h4⟩
      · exact Or.inl h2
      · exact Or.inr ⟨p', List.mem_cons_of_mem _ hp', h3, h4⟩
    · rcases List.mem_cons.mp hq with hq | hq
      · subst hq
        refine ⟨(k, v), List.mem_cons_self .., rfl, ?_⟩
        simp only
        unfold lastValue
        split
        · rename_i p' hp'
          have hm := List.mem_of_getLast? hp'
          have := List.mem_filter.mp hm
          exact Or.inr ⟨p', List.mem_cons_of_mem _ this.1, by simpa using this.2, rfl⟩
        · exact Or.inl rfl
      · obtain ⟨p, hp, h1, h2⟩ := ih (k :: seen) q hq
        refine ⟨p, List.mem_cons_of_mem _ hp, h1, ?_⟩
        rcases h2 with h2 | ⟨p', hp', h3, h4⟩
        · exact Or.inl h2
        · exact Or.inr ⟨p', List.mem_cons_of_mem _ hp', h3, h4⟩

/-- every entry of the de-duplicated list carries a name and a value that occur in the input -/
theorem dedupe_mem {α : Type} {l : List (String × α)} {q : String × α} (h : q ∈ dedupe l) :
    (∃ p ∈ l, p.1 = q.1) ∧ (∃ p ∈ l, p.2 = q.2) := by
  obtain ⟨p, hp, h1, h2⟩ := dedupeAux_mem l [] q h
  refine ⟨⟨p, hp, h1⟩, ?_⟩
  rcases h2 with h2 | ⟨p', hp', _, h4⟩
  · exact ⟨p, hp, h2.symm⟩
  · exact ⟨p', hp', h4.symm⟩

end SnowModel.ParseCheck
