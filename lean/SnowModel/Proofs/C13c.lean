/-
C13 — helper lemmas, part 4: generator templates (which tuple a draw encodes) and the
composition tuple → integer → scramble → code.
-/
import SnowModel.Proofs.C13b

namespace SnowModel.Proofs.C13
open SnowModel.Uid

/-- `resolve` over an arbitrary suffix of the template -/
def resolveL (c : NumCfg) (i : Nat) (ps : List Part) : List Nat := ps.flatMap (resolvePart c i)

theorem resolve_eq (c : NumCfg) (i : Nat) : resolve c i = resolveL c i c.parts := rfl

theorem resolveL_cons (c : NumCfg) (i : Nat) (p : Part) (ps : List Part) :
    resolveL c i (p :: ps) = resolvePart c i p ++ resolveL c i ps := by
  simp [resolveL]

theorem resolvePart_length (c c' : NumCfg) (i j : Nat) (p : Part)
    (hpid : c.pidParts.length = c'.pidParts.length) :
    (resolvePart c i p).length = (resolvePart c' j p).length := by
  cases p <;> simp [resolvePart, hpid]

theorem resolveL_index_inj (c : NumCfg) (i j : Nat) (ps : List Part) (hmem : Part.index ∈ ps)
    (h : resolveL c i ps = resolveL c j ps) : i = j := by
  induction ps with
  | nil => simp at hmem
  | cons p ps ih =>
    rw [resolveL_cons, resolveL_cons] at h
    have := List.append_inj h (resolvePart_length c c i j p rfl)
    rcases List.mem_cons.mp hmem with e | e
    · subst e
      simpa [resolvePart] using this.1
    · exact ih e this.2

theorem resolveL_ctx_ne (c c' : NumCfg) (i j : Nat) (ps : List Part) (hmem : Part.context ∈ ps)
    (hpid : c.pidParts.length = c'.pidParts.length) (hctx : c.ctx ≠ c'.ctx) :
    resolveL c i ps ≠ resolveL c' j ps := by
  induction ps with
  | nil => simp at hmem
  | cons p ps ih =>
    intro h
    rw [resolveL_cons, resolveL_cons] at h
    have := List.append_inj h (resolvePart_length c c' i j p hpid)
    rcases List.mem_cons.mp hmem with e | e
    · subst e
      apply hctx
      simpa [resolvePart] using this.1
    · exact ih e this.2

theorem resolveL_no_index (c : NumCfg) (i j : Nat) (ps : List Part) (h : Part.index ∉ ps) :
    resolveL c i ps = resolveL c j ps := by
  induction ps with
  | nil => rfl
  | cons p ps ih =>
    rw [resolveL_cons, resolveL_cons, ih (fun m => h (List.mem_cons_of_mem _ m))]
    cases p <;> simp_all [resolvePart]

theorem resolveL_no_context (c c' : NumCfg) (i : Nat) (ps : List Part) (h : Part.context ∉ ps)
    (hpid : c.pidParts = c'.pidParts) : resolveL c i ps = resolveL c' i ps := by
  induction ps with
  | nil => rfl
  | cons p ps ih =>
    rw [resolveL_cons, resolveL_cons, ih (fun m => h (List.mem_cons_of_mem _ m))]
    cases p <;> simp_all [resolvePart]

theorem resolvePart_ne_nil (c : NumCfg) (i : Nat) (p : Part) (hpid : c.pidParts ≠ []) :
    resolvePart c i p ≠ [] := by
  cases p <;> simp [resolvePart, hpid]

theorem resolve_ne_nil (c : NumCfg) (i : Nat) (hp : c.parts ≠ []) (hpid : c.pidParts ≠ []) :
    resolve c i ≠ [] := by
  rw [resolve_eq]
  cases hps : c.parts with
  | nil => exact absurd hps hp
  | cons p ps =>
    rw [resolveL_cons]
    intro h
    exact resolvePart_ne_nil c i p hpid (List.append_eq_nil_iff.mp h).1

/-- well-formed configuration: what the constructor guarantees (`"".split(",")` is `[""]`, the pid
    string always has at least one component) -/
def WF (c : NumCfg) : Prop := c.parts ≠ [] ∧ c.pidParts ≠ []

theorem rawId_inj (c c' : NumCfg) (i j : Nat) (hc : WF c) (hc' : WF c') (h : rawId c i = rawId c' j) :
    resolve c i = resolve c' j :=
  encodeTuple_injective _ _ (resolve_ne_nil c i hc.1 hc.2) (resolve_ne_nil c' j hc'.1 hc'.2) h

/-- equal numeric ids (same randomisation flag) come from equal tuples -/
theorem numValue_eq_tuple (lg : Nat → Nat) (mask : Nat → Nat → Nat) (r : Bool) (c c' : NumCfg) (i j v : Nat)
    (hc : WF c) (hc' : WF c')
    (h : numValue lg mask r c i = .ok v) (h' : numValue lg mask r c' j = .ok v) :
    resolve c i = resolve c' j := by
  apply rawId_inj c c' i j hc hc'
  unfold numValue at h h'
  cases r with
  | true =>
    simp only [if_true] at h h'
    exact scramble_injective lg mask _ _ _ _ v h h'
  | false =>
    simp only [Bool.false_eq_true, if_false, Except.ok.injEq] at h h'
    rw [h, h']

theorem alphaValue_ok (lg : Nat → Nat) (mask : Nat → Nat → Nat) (a : AlphaCfg) (i : Nat) (s : List Char)
    (h : alphaValue lg mask a i = .ok s) :
    ∃ x, alphaNumber lg mask a i = .ok x ∧ s = alphaCode a.alphabet (effMinChars a) x := by
  unfold alphaValue at h
  split at h
  · cases h
  · rename_i x hx
    simp only [Except.ok.injEq] at h
    exact ⟨x, hx, h.symm⟩

/-- equal codes of two generators over the same alphabet (any two minimum lengths) come from
    equal tuples -/
theorem alphaValue_eq_tuple (lg : Nat → Nat) (mask : Nat → Nat → Nat) (a a' : AlphaCfg) (i j : Nat)
    (s : List Char) (hc : WF a.num) (hc' : WF a'.num)
    (hal : a.alphabet = a'.alphabet) (hr : a.randomize = a'.randomize)
    (hnd : a.alphabet.Nodup) (h2 : 2 ≤ a.alphabet.length)
    (h : alphaValue lg mask a i = .ok s) (h' : alphaValue lg mask a' j = .ok s) :
    resolve a.num i = resolve a'.num j := by
  obtain ⟨x, hx, e⟩ := alphaValue_ok lg mask a i s h
  obtain ⟨y, hy, e'⟩ := alphaValue_ok lg mask a' j s h'
  have exy : x = y := by
    have d1 := alphaDecode_alphaCode a.alphabet hnd h2 (effMinChars a) x
    have d2 := alphaDecode_alphaCode a.alphabet hnd h2 (effMinChars a') y
    rw [← e] at d1
    rw [hal, ← e', ← hal] at d2
    rw [← d1, ← d2]
  subst exy
  apply rawId_inj _ _ i j hc hc'
  unfold alphaNumber at hx hy
  rw [← hr] at hy
  cases hrr : a.randomize with
  | true =>
    rw [hrr] at hx hy
    simp only [if_true] at hx hy
    exact scramble_injective lg mask _ _ _ _ x hx hy
  | false =>
    rw [hrr] at hx hy
    simp only [Bool.false_eq_true, if_false, Except.ok.injEq] at hx hy
    rw [hx, hy]

end SnowModel.Proofs.C13
