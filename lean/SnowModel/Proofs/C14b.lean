/-
C14 — helper lemmas, part 2: macro expansion (unfolding equations, the de-dup free specification
`flatMacro`, fuel monotonicity) and file flattening.
-/
import SnowModel.Proofs.C14

namespace SnowModel.ParseY

/-! ### unfolding equations -/

theorem pDef_zero (ms : AList RMacro) (d : RDef) : pDef 0 ms d = .error .fuel := by
  cases d <;> rfl
theorem pStmt_zero (ms : AList RMacro) (s : RStmt) : pStmt 0 ms s = .error .fuel := by
  cases s <;> rfl
theorem pTemplate_zero (ms : AList RMacro) (t : RTemplate) : pTemplate 0 ms t = .error .fuel := rfl
theorem includeMacro_zero (ms : AList RMacro) (ps : List String) (n : String) :
    includeMacro 0 ms ps n = .error .fuel := rfl

theorem pDef_val (f : Nat) (ms : AList RMacro) (p : String) : pDef (f + 1) ms (.val p) = .ok (.val p) := rfl
theorem pDef_nested (f : Nat) (ms : AList RMacro) (t : RTemplate) :
    pDef (f + 1) ms (.nested t) = match pTemplate f ms t with
      | .error e => .error e
      | .ok r => .ok (.nested r) := by
  rw [pDef]; rfl
theorem pStmt_var (f : Nat) (ms : AList RMacro) (n : String) (d : RDef) :
    pStmt (f + 1) ms (.var n d) = match pDef f ms d with
      | .error e => .error e
      | .ok r => .ok (.var n r) := by
  rw [pStmt]; rfl
theorem pStmt_obj (f : Nat) (ms : AList RMacro) (t : RTemplate) :
    pStmt (f + 1) ms (.obj t) = match pTemplate f ms t with
      | .error e => .error e
      | .ok r => .ok (.obj r) := by
  rw [pStmt]; rfl

theorem pTemplate_succ (f : Nat) (ms : AList RMacro) (t : RTemplate) :
    pTemplate (f + 1) ms t =
      match mapE (fun n => includeMacro f ms [] n) t.incl with
      | .error e => .error e
      | .ok incs =>
        match mapE (pField f ms) t.fields with
        | .error e => .error e
        | .ok own =>
          match mapE (fun s => pStmt f ms s) t.friends with
          | .error e => .error e
          | .ok ofr =>
            .ok (.mk t.table t.attrs (dedupe ((concatIncl incs).1 ++ own)) ((concatIncl incs).2 ++ ofr)) := by
  rw [pTemplate]; rfl

theorem includeMacro_succ (f : Nat) (ms : AList RMacro) (parents : List String) (name : String) :
    includeMacro (f + 1) ms parents name =
      match ms.lookup name with
      | none => .error (.noMacro name)
      | some m =>
        if parents.contains name then .error (.macroCycle parents name) else
        match mapE (fun n => includeMacro f ms (parents ++ [name]) n) m.incl with
        | .error e => .error e
        | .ok incs =>
          match mapE (pField f ms) m.fields with
          | .error e => .error e
          | .ok own =>
            match mapE (fun s => pStmt f ms s) m.friends with
            | .error e => .error e
            | .ok ofr => .ok (dedupe ((concatIncl incs).1 ++ own), (concatIncl incs).2 ++ ofr) := by
  rw [includeMacro]; rfl

/-! ### `include_macro` without its intermediate de-duplication -/

/-- the fields of a macro as the *concatenation* fields(inclusion₁) ++ … ++ own fields, the friends
    likewise; same lookups, same cycle check, same parsing of the definitions -/
def flatMacro : Nat → AList RMacro → List String → String → Except Err Incl
  | 0, _, _, _ => .error .fuel
  | f + 1, ms, parents, name =>
    match ms.lookup name with
    | none => .error (.noMacro name)
    | some m =>
      if parents.contains name then .error (.macroCycle parents name) else
      match mapE (fun n => flatMacro f ms (parents ++ [name]) n) m.incl with
      | .error e => .error e
      | .ok incs =>
        match mapE (pField f ms) m.fields with
        | .error e => .error e
        | .ok own =>
          match mapE (fun s => pStmt f ms s) m.friends with
          | .error e => .error e
          | .ok ofr => .ok ((concatIncl incs).1 ++ own, (concatIncl incs).2 ++ ofr)

/-- de-duplicate the field part of an inclusion -/
def dedupeIncl (r : Incl) : Incl := (dedupe r.1, r.2)

section
variable {β γ δ ε : Type}
theorem mapE_map_ok (g : β → Except ε γ) (h : γ → δ) (l : List β) :
    mapE (fun x => (g x).map h) l = (mapE g l).map (List.map h) := by
  induction l with
  | nil => rfl
  | cons x r ih =>
    simp only [mapE, ih]
    cases g x with
    | error e => rfl
    | ok y => cases mapE g r <;> rfl
end

theorem concatIncl_dedupe_snd (rs : List Incl) : (concatIncl (rs.map dedupeIncl)).2 = (concatIncl rs).2 := by
  simp [concatIncl, dedupeIncl, List.flatMap_def, List.map_map, Function.comp_def]

theorem concatIncl_dedupe_fst (rs : List Incl) (own : AList PDef) :
    dedupe ((concatIncl (rs.map dedupeIncl)).1 ++ own) = dedupe ((concatIncl rs).1 ++ own) := by
  have h := dedupe_flatten_absorb (rs.map (·.1)) [] own
  simpa [concatIncl, dedupeIncl, List.flatMap_def, List.map_map, Function.comp_def] using h

/-- **the intermediate de-duplications are invisible**: `include_macro` = de-dup of the concatenation -/
theorem includeMacro_eq_flat (f : Nat) (ms : AList RMacro) (ps : List String) (n : String) :
    includeMacro f ms ps n = (flatMacro f ms ps n).map dedupeIncl := by
  induction f generalizing ps n with
  | zero => rfl
  | succ f ih =>
    rw [includeMacro_succ, flatMacro]
    cases ms.lookup n with
    | none => rfl
    | some m =>
      simp only
      by_cases hc : ps.contains n = true
      · rw [if_pos hc, if_pos hc]; rfl
      · rw [if_neg hc, if_neg hc]
        have e1 : (fun x => includeMacro f ms (ps ++ [n]) x) =
            (fun x => (flatMacro f ms (ps ++ [n]) x).map dedupeIncl) := funext (fun x => ih (ps ++ [n]) x)
        rw [e1, mapE_map_ok]
        cases mapE (fun x => flatMacro f ms (ps ++ [n]) x) m.incl with
        | error e => rfl
        | ok incs =>
          simp only [Except.map]
          cases mapE (pField f ms) m.fields with
          | error e => rfl
          | ok own =>
            simp only
            cases mapE (fun s => pStmt f ms s) m.friends with
            | error e => rfl
            | ok ofr =>
              rw [concatIncl_dedupe_snd, concatIncl_dedupe_fst]; rfl

/-! ### fuel monotonicity -/

theorem fuel_mono_step (ms : AList RMacro) (f : Nat) :
    (∀ d r, pDef f ms d = .ok r → pDef (f + 1) ms d = .ok r) ∧
    (∀ s r, pStmt f ms s = .ok r → pStmt (f + 1) ms s = .ok r) ∧
    (∀ t r, pTemplate f ms t = .ok r → pTemplate (f + 1) ms t = .ok r) ∧
    (∀ ps n r, includeMacro f ms ps n = .ok r → includeMacro (f + 1) ms ps n = .ok r) := by
  induction f with
  | zero =>
    refine ⟨?_, ?_, ?_, ?_⟩
    · intro d r h; rw [pDef_zero] at h; cases h
    · intro s r h; rw [pStmt_zero] at h; cases h
    · intro t r h; rw [pTemplate_zero] at h; cases h
    · intro ps n r h; rw [includeMacro_zero] at h; cases h
  | succ f ih =>
    obtain ⟨ihD, ihS, ihT, ihM⟩ := ih
    have hField : ∀ p r, pField f ms p = .ok r → pField (f + 1) ms p = .ok r := by
      intro p r h
      unfold pField at h ⊢
      cases hd : pDef f ms p.2 with
      | error e => rw [hd] at h; cases h
      | ok d => rw [hd] at h; rw [ihD _ _ hd]; exact h
    have hD : ∀ d r, pDef (f + 1) ms d = .ok r → pDef (f + 2) ms d = .ok r := by
      intro d r h
      cases d with
      | val p => rw [pDef_val] at h ⊢; exact h
      | nested t =>
        rw [pDef_nested] at h ⊢
        cases ht : pTemplate f ms t with
        | error e => rw [ht] at h; cases h
        | ok x => rw [ht] at h; rw [ihT _ _ ht]; exact h
    have hS : ∀ s r, pStmt (f + 1) ms s = .ok r → pStmt (f + 2) ms s = .ok r := by
      intro s r h
      cases s with
      | var n d =>
        rw [pStmt_var] at h ⊢
        cases hd : pDef f ms d with
        | error e => rw [hd] at h; cases h
        | ok x => rw [hd] at h; rw [ihD _ _ hd]; exact h
      | obj t =>
        rw [pStmt_obj] at h ⊢
        cases ht : pTemplate f ms t with
        | error e => rw [ht] at h; cases h
        | ok x => rw [ht] at h; rw [ihT _ _ ht]; exact h
    refine ⟨hD, hS, ?_, ?_⟩
    · intro t r h
      rw [pTemplate_succ] at h ⊢
      cases h1 : mapE (fun n => includeMacro f ms [] n) t.incl with
      | error e => rw [h1] at h; cases h
      | ok incs =>
        rw [h1] at h
        rw [mapE_mono _ (fun n => includeMacro (f + 1) ms [] n) _ incs (fun x _ r hx => ihM [] x r hx) h1]
        cases h2 : mapE (pField f ms) t.fields with
        | error e => rw [h2] at h; cases h
        | ok own =>
          rw [h2] at h
          rw [mapE_mono _ (pField (f + 1) ms) _ own (fun x _ r hx => hField x r hx) h2]
          cases h3 : mapE (fun s => pStmt f ms s) t.friends with
          | error e => rw [h3] at h; cases h
          | ok ofr =>
            rw [h3] at h
            rw [mapE_mono _ (fun s => pStmt (f + 1) ms s) _ ofr (fun x _ r hx => ihS x r hx) h3]
            exact h
    · intro ps n r h
      rw [includeMacro_succ] at h ⊢
      cases hl : ms.lookup n with
      | none => rw [hl] at h; cases h
      | some m =>
        rw [hl] at h
        simp only at h ⊢
        by_cases hc : ps.contains n = true
        · rw [if_pos hc] at h; cases h
        · rw [if_neg hc] at h ⊢
          cases h1 : mapE (fun x => includeMacro f ms (ps ++ [n]) x) m.incl with
          | error e => rw [h1] at h; cases h
          | ok incs =>
            rw [h1] at h
            rw [mapE_mono _ (fun x => includeMacro (f + 1) ms (ps ++ [n]) x) _ incs
              (fun x _ r hx => ihM (ps ++ [n]) x r hx) h1]
            cases h2 : mapE (pField f ms) m.fields with
            | error e => rw [h2] at h; cases h
            | ok own =>
              rw [h2] at h
              rw [mapE_mono _ (pField (f + 1) ms) _ own (fun x _ r hx => hField x r hx) h2]
              cases h3 : mapE (fun s => pStmt f ms s) m.friends with
              | error e => rw [h3] at h; cases h
              | ok ofr =>
                rw [h3] at h
                rw [mapE_mono _ (fun s => pStmt (f + 1) ms s) _ ofr (fun x _ r hx => ihS x r hx) h3]
                exact h

theorem pTemplate_mono (ms : AList RMacro) (f g : Nat) (hfg : f ≤ g) (t : RTemplate) (r : PTemplate)
    (h : pTemplate f ms t = .ok r) : pTemplate g ms t = .ok r := by
  induction hfg with
  | refl => exact h
  | step _ ih => exact (fuel_mono_step ms _).2.2.1 t r ih

theorem pStmt_mono (ms : AList RMacro) (f g : Nat) (hfg : f ≤ g) (s : RStmt) (r : PStmt)
    (h : pStmt f ms s = .ok r) : pStmt g ms s = .ok r := by
  induction hfg with
  | refl => exact h
  | step _ ih => exact (fuel_mono_step ms _).2.1 s r ih

theorem pDef_mono (ms : AList RMacro) (f g : Nat) (hfg : f ≤ g) (d : RDef) (r : PDef)
    (h : pDef f ms d = .ok r) : pDef g ms d = .ok r := by
  induction hfg with
  | refl => exact h
  | step _ ih => exact (fuel_mono_step ms _).1 d r ih

theorem pField_mono (ms : AList RMacro) (f g : Nat) (hfg : f ≤ g) (p : String × RDef) (r : String × PDef)
    (h : pField f ms p = .ok r) : pField g ms p = .ok r := by
  unfold pField at h ⊢
  cases hd : pDef f ms p.2 with
  | error e => rw [hd] at h; cases h
  | ok d => rw [hd] at h; rw [pDef_mono ms f g hfg _ _ hd]; exact h

theorem includeMacro_mono (ms : AList RMacro) (f g : Nat) (hfg : f ≤ g) (ps : List String) (n : String)
    (r : Incl) (h : includeMacro f ms ps n = .ok r) : includeMacro g ms ps n = .ok r := by
  induction hfg with
  | refl => exact h
  | step _ ih => exact (fuel_mono_step ms _).2.2.2 ps n r ih

end SnowModel.ParseY
