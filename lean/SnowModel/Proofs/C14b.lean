/-
C14 — helper lemmas, part 2: macro expansion (unfolding equations, the de-dup free specification
`flatMacro`, fuel monotonicity) and file flattening.
-/
import SnowModel.Proofs.C14

namespace SnowModel.ParseY

/-! ### unfolding equations -/

theorem pDef_zero (ms : AList RMacro) (exp : List String) (d : RDef) : pDef 0 ms exp d = .error .fuel := by
  cases d <;> rfl
theorem pStmt_zero (ms : AList RMacro) (exp : List String) (s : RStmt) : pStmt 0 ms exp s = .error .fuel := by
  cases s <;> rfl
theorem pTemplate_zero (ms : AList RMacro) (exp : List String) (t : RTemplate) :
    pTemplate 0 ms exp t = .error .fuel := rfl
theorem includeMacro_zero (ms : AList RMacro) (exp ps : List String) (n : String) :
    includeMacro 0 ms exp ps n = .error .fuel := rfl

theorem pDef_val (f : Nat) (ms : AList RMacro) (exp : List String) (p : String) :
    pDef (f + 1) ms exp (.val p) = .ok (.val p) := rfl
theorem pDef_nested (f : Nat) (ms : AList RMacro) (exp : List String) (t : RTemplate) :
    pDef (f + 1) ms exp (.nested t) = match pTemplate f ms exp t with
      | .error e => .error e
      | .ok r => .ok (.nested r) := by
  rw [pDef]; rfl
theorem pStmt_var (f : Nat) (ms : AList RMacro) (exp : List String) (n : String) (d : RDef) :
    pStmt (f + 1) ms exp (.var n d) = match pDef f ms exp d with
      | .error e => .error e
      | .ok r => .ok (.var n r) := by
  rw [pStmt]; rfl
theorem pStmt_obj (f : Nat) (ms : AList RMacro) (exp : List String) (t : RTemplate) :
    pStmt (f + 1) ms exp (.obj t) = match pTemplate f ms exp t with
      | .error e => .error e
      | .ok r => .ok (.obj r) := by
  rw [pStmt]; rfl

theorem pTemplate_succ (f : Nat) (ms : AList RMacro) (exp : List String) (t : RTemplate) :
    pTemplate (f + 1) ms exp t =
      match mapE (fun n => includeMacro f ms exp [] n) t.incl with
      | .error e => .error e
      | .ok incs =>
        match mapE (pField f ms exp) t.fields with
        | .error e => .error e
        | .ok own =>
          match mapE (fun s => pStmt f ms exp s) t.friends with
          | .error e => .error e
          | .ok ofr =>
            .ok (.mk t.table t.attrs (dedupe ((concatIncl incs).1 ++ own)) ((concatIncl incs).2 ++ ofr)) := by
  rw [pTemplate]; rfl

/-- the two cycle checks of `include_macro`, as one function: `none` = go on -/
def cycleErr (exp parents : List String) (name : String) : Option Err :=
  if !parents.contains name && exp.contains name then some (.macroNested name)
  else if parents.contains name then some (.macroCycle parents name) else none

theorem includeMacro_succ (f : Nat) (ms : AList RMacro) (exp parents : List String) (name : String) :
    includeMacro (f + 1) ms exp parents name =
      match ms.lookup name with
      | none => .error (.noMacro name)
      | some m =>
        match cycleErr exp parents name with
        | some e => .error e
        | none =>
        match mapE (fun n => includeMacro f ms (exp ++ [name]) (parents ++ [name]) n) m.incl with
        | .error e => .error e
        | .ok incs =>
          match mapE (pField f ms (exp ++ [name])) m.fields with
          | .error e => .error e
          | .ok own =>
            match mapE (fun s => pStmt f ms (exp ++ [name]) s) m.friends with
            | .error e => .error e
            | .ok ofr => .ok (dedupe ((concatIncl incs).1 ++ own), (concatIncl incs).2 ++ ofr) := by
  rw [includeMacro]
  cases ms.lookup name with
  | none => rfl
  | some m =>
    simp only [cycleErr]
    cases parents.contains name <;> cases exp.contains name <;> rfl

/-! ### `include_macro` without its intermediate de-duplication -/

/-- the fields of a macro as the *concatenation* fields(inclusion₁) ++ … ++ own fields, the friends
    likewise; same lookups, same cycle checks, same parsing of the definitions -/
def flatMacro : Nat → AList RMacro → List String → List String → String → Except Err Incl
  | 0, _, _, _, _ => .error .fuel
  | f + 1, ms, exp, parents, name =>
    match ms.lookup name with
    | none => .error (.noMacro name)
    | some m =>
      match cycleErr exp parents name with
      | some e => .error e
      | none =>
      match mapE (fun n => flatMacro f ms (exp ++ [name]) (parents ++ [name]) n) m.incl with
      | .error e => .error e
      | .ok incs =>
        match mapE (pField f ms (exp ++ [name])) m.fields with
        | .error e => .error e
        | .ok own =>
          match mapE (fun s => pStmt f ms (exp ++ [name]) s) m.friends with
          | .error e => .error e
          | .ok ofr => .ok ((concatIncl incs).1 ++ own, (concatIncl incs).2 ++ ofr)

/-- de-duplicate the field part of an inclusion -/
def dedupeIncl (r : Incl) : Incl := (dedupe r.1, r.2)

section
variable {β γ δ ε : Type}
theorem mapE_map_ok (g : β → Except ε γ) (h : γ → δ) (l : List β) :
    mapE (fun x => (g x).map h) l = (mapE g l).map (List.map h) := by
  induction l with
  | nil => rfl
  | cons x r ih =>
    simp only [mapE, ih]
    cases g x with
    | error e => rfl
    | ok y => cases mapE g r <;> rfl
end

theorem concatIncl_dedupe_snd (rs : List Incl) : (concatIncl (rs.map dedupeIncl)).2 = (concatIncl rs).2 := by
  simp [concatIncl, dedupeIncl, List.flatMap_def, List.map_map, Function.comp_def]

theorem concatIncl_dedupe_fst (rs : List Incl) (own : AList PDef) :
    dedupe ((concatIncl (rs.map dedupeIncl)).1 ++ own) = dedupe ((concatIncl rs).1 ++ own) := by
  have h := dedupe_flatten_absorb (rs.map (·.1)) [] own
  simpa [concatIncl, dedupeIncl, List.flatMap_def, List.map_map, Function.comp_def] using h

/-- **the intermediate de-duplications are invisible**: `include_macro` = de-dup of the concatenation -/
theorem includeMacro_eq_flat (f : Nat) (ms : AList RMacro) (exp ps : List String) (n : String) :
    includeMacro f ms exp ps n = (flatMacro f ms exp ps n).map dedupeIncl := by
  induction f generalizing exp ps n with
  | zero => rfl
  | succ f ih =>
    rw [includeMacro_succ, flatMacro]
    cases ms.lookup n with
    | none => rfl
    | some m =>
      simp only
      cases cycleErr exp ps n with
      | some e => rfl
      | none =>
        simp only
        have e1 : (fun x => includeMacro f ms (exp ++ [n]) (ps ++ [n]) x) =
            (fun x => (flatMacro f ms (exp ++ [n]) (ps ++ [n]) x).map dedupeIncl) :=
          funext (fun x => ih (exp ++ [n]) (ps ++ [n]) x)
        rw [e1, mapE_map_ok]
        cases mapE (fun x => flatMacro f ms (exp ++ [n]) (ps ++ [n]) x) m.incl with
        | error e => rfl
        | ok incs =>
          simp only [Except.map]
          cases mapE (pField f ms (exp ++ [n])) m.fields with
          | error e => rfl
          | ok own =>
            simp only
            cases mapE (fun s => pStmt f ms (exp ++ [n]) s) m.friends with
            | error e => rfl
            | ok ofr =>
              rw [concatIncl_dedupe_snd, concatIncl_dedupe_fst]; rfl

/-! ### monotonicity: more fuel, a smaller expansion stack -/

/-- `exp'` has no more elements than `exp` -/
def SubStack (exp' exp : List String) : Prop := ∀ x, x ∈ exp' → x ∈ exp

theorem SubStack.refl (e : List String) : SubStack e e := fun _ h => h
theorem SubStack.push {e' e : List String} (h : SubStack e' e) (n : String) : SubStack (e' ++ [n]) (e ++ [n]) := by
  intro x hx
  rcases List.mem_append.mp hx with hx | hx
  · exact List.mem_append.mpr (Or.inl (h x hx))
  · exact List.mem_append.mpr (Or.inr hx)

theorem cycleErr_none_of_sub {e' e ps : List String} {n : String} (h : SubStack e' e)
    (hc : cycleErr e ps n = none) : cycleErr e' ps n = none := by
  unfold cycleErr at hc ⊢
  cases h2 : ps.contains n
  · rw [h2] at hc
    cases h3 : e.contains n
    · have : e'.contains n = false := by
        have h3' : n ∉ e := by simpa using h3
        have : n ∉ e' := fun hx => h3' (h n hx)
        simpa using this
      rw [this]
      rfl
    · rw [h3] at hc
      exact absurd hc (by simp)
  · rw [h2] at hc
    exact absurd hc (by simp)

theorem mono_step (ms : AList RMacro) (f : Nat) :
    (∀ e e' d r, SubStack e' e → pDef f ms e d = .ok r → pDef (f + 1) ms e' d = .ok r) ∧
    (∀ e e' s r, SubStack e' e → pStmt f ms e s = .ok r → pStmt (f + 1) ms e' s = .ok r) ∧
    (∀ e e' t r, SubStack e' e → pTemplate f ms e t = .ok r → pTemplate (f + 1) ms e' t = .ok r) ∧
    (∀ e e' ps n r, SubStack e' e → includeMacro f ms e ps n = .ok r → includeMacro (f + 1) ms e' ps n = .ok r) := by
  induction f with
  | zero =>
    refine ⟨?_, ?_, ?_, ?_⟩
    · intro e e' d r _ h; rw [pDef_zero] at h; cases h
    · intro e e' s r _ h; rw [pStmt_zero] at h; cases h
    · intro e e' t r _ h; rw [pTemplate_zero] at h; cases h
    · intro e e' ps n r _ h; rw [includeMacro_zero] at h; cases h
  | succ f ih =>
    obtain ⟨ihD, ihS, ihT, ihM⟩ := ih
    have hField : ∀ e e' p r, SubStack e' e → pField f ms e p = .ok r → pField (f + 1) ms e' p = .ok r := by
      intro e e' p r hs h
      unfold pField at h ⊢
      cases hd : pDef f ms e p.2 with
      | error x => rw [hd] at h; cases h
      | ok d => rw [hd] at h; rw [ihD _ _ _ _ hs hd]; exact h
    have hD : ∀ e e' d r, SubStack e' e → pDef (f + 1) ms e d = .ok r → pDef (f + 2) ms e' d = .ok r := by
      intro e e' d r hs h
      cases d with
      | val p => rw [pDef_val] at h ⊢; exact h
      | nested t =>
        rw [pDef_nested] at h ⊢
        cases ht : pTemplate f ms e t with
        | error x => rw [ht] at h; cases h
        | ok x => rw [ht] at h; rw [ihT _ _ _ _ hs ht]; exact h
    have hS : ∀ e e' s r, SubStack e' e → pStmt (f + 1) ms e s = .ok r → pStmt (f + 2) ms e' s = .ok r := by
      intro e e' s r hs h
      cases s with
      | var n d =>
        rw [pStmt_var] at h ⊢
        cases hd : pDef f ms e d with
        | error x => rw [hd] at h; cases h
        | ok x => rw [hd] at h; rw [ihD _ _ _ _ hs hd]; exact h
      | obj t =>
        rw [pStmt_obj] at h ⊢
        cases ht : pTemplate f ms e t with
        | error x => rw [ht] at h; cases h
        | ok x => rw [ht] at h; rw [ihT _ _ _ _ hs ht]; exact h
    refine ⟨hD, hS, ?_, ?_⟩
    · intro e e' t r hs h
      rw [pTemplate_succ] at h ⊢
      cases h1 : mapE (fun n => includeMacro f ms e [] n) t.incl with
      | error x => rw [h1] at h; cases h
      | ok incs =>
        rw [h1] at h
        rw [mapE_mono _ (fun n => includeMacro (f + 1) ms e' [] n) _ incs (fun x _ r hx => ihM e e' [] x r hs hx) h1]
        cases h2 : mapE (pField f ms e) t.fields with
        | error x => rw [h2] at h; cases h
        | ok own =>
          rw [h2] at h
          rw [mapE_mono _ (pField (f + 1) ms e') _ own (fun x _ r hx => hField e e' x r hs hx) h2]
          cases h3 : mapE (fun s => pStmt f ms e s) t.friends with
          | error x => rw [h3] at h; cases h
          | ok ofr =>
            rw [h3] at h
            rw [mapE_mono _ (fun s => pStmt (f + 1) ms e' s) _ ofr (fun x _ r hx => ihS e e' x r hs hx) h3]
            exact h
    · intro e e' ps n r hs h
      rw [includeMacro_succ] at h ⊢
      cases hl : ms.lookup n with
      | none => rw [hl] at h; cases h
      | some m =>
        rw [hl] at h
        simp only at h ⊢
        cases hc : cycleErr e ps n with
        | some x => rw [hc] at h; cases h
        | none =>
          rw [hc] at h
          rw [cycleErr_none_of_sub hs hc]
          simp only at h ⊢
          have hs' := hs.push n
          cases h1 : mapE (fun x => includeMacro f ms (e ++ [n]) (ps ++ [n]) x) m.incl with
          | error x => rw [h1] at h; cases h
          | ok incs =>
            rw [h1] at h
            rw [mapE_mono _ (fun x => includeMacro (f + 1) ms (e' ++ [n]) (ps ++ [n]) x) _ incs
              (fun x _ r hx => ihM _ _ (ps ++ [n]) x r hs' hx) h1]
            cases h2 : mapE (pField f ms (e ++ [n])) m.fields with
            | error x => rw [h2] at h; cases h
            | ok own =>
              rw [h2] at h
              rw [mapE_mono _ (pField (f + 1) ms (e' ++ [n])) _ own (fun x _ r hx => hField _ _ x r hs' hx) h2]
              cases h3 : mapE (fun s => pStmt f ms (e ++ [n]) s) m.friends with
              | error x => rw [h3] at h; cases h
              | ok ofr =>
                rw [h3] at h
                rw [mapE_mono _ (fun s => pStmt (f + 1) ms (e' ++ [n]) s) _ ofr (fun x _ r hx => ihS _ _ x r hs' hx) h3]
                exact h

theorem pTemplate_mono (ms : AList RMacro) (f g : Nat) (hfg : f ≤ g) (e : List String) (t : RTemplate)
    (r : PTemplate) (h : pTemplate f ms e t = .ok r) : pTemplate g ms e t = .ok r := by
  induction hfg with
  | refl => exact h
  | step _ ih => exact (mono_step ms _).2.2.1 e e t r (SubStack.refl e) ih

theorem pStmt_mono (ms : AList RMacro) (f g : Nat) (hfg : f ≤ g) (e : List String) (s : RStmt) (r : PStmt)
    (h : pStmt f ms e s = .ok r) : pStmt g ms e s = .ok r := by
  induction hfg with
  | refl => exact h
  | step _ ih => exact (mono_step ms _).2.1 e e s r (SubStack.refl e) ih

theorem pDef_mono (ms : AList RMacro) (f g : Nat) (hfg : f ≤ g) (e : List String) (d : RDef) (r : PDef)
    (h : pDef f ms e d = .ok r) : pDef g ms e d = .ok r := by
  induction hfg with
  | refl => exact h
  | step _ ih => exact (mono_step ms _).1 e e d r (SubStack.refl e) ih

theorem pField_mono (ms : AList RMacro) (f g : Nat) (hfg : f ≤ g) (e : List String) (p : String × RDef)
    (r : String × PDef) (h : pField f ms e p = .ok r) : pField g ms e p = .ok r := by
  unfold pField at h ⊢
  cases hd : pDef f ms e p.2 with
  | error x => rw [hd] at h; cases h
  | ok d => rw [hd] at h; rw [pDef_mono ms f g hfg e _ _ hd]; exact h

theorem includeMacro_mono (ms : AList RMacro) (f g : Nat) (hfg : f ≤ g) (e ps : List String) (n : String)
    (r : Incl) (h : includeMacro f ms e ps n = .ok r) : includeMacro g ms e ps n = .ok r := by
  induction hfg with
  | refl => exact h
  | step _ ih => exact (mono_step ms _).2.2.2 e e ps n r (SubStack.refl e) ih

/-- one more unit of fuel, a smaller stack: fields -/
theorem pField_step (ms : AList RMacro) (f : Nat) (e e' : List String) (hs : SubStack e' e)
    (p : String × RDef) (r : String × PDef) (h : pField f ms e p = .ok r) : pField (f + 1) ms e' p = .ok r := by
  unfold pField at h ⊢
  cases hd : pDef f ms e p.2 with
  | error x => rw [hd] at h; cases h
  | ok d => rw [hd] at h; rw [(mono_step ms f).1 e e' _ _ hs hd]; exact h

theorem pStmt_step (ms : AList RMacro) (f : Nat) (e e' : List String) (hs : SubStack e' e)
    (s : RStmt) (r : PStmt) (h : pStmt f ms e s = .ok r) : pStmt (f + 1) ms e' s = .ok r :=
  (mono_step ms f).2.1 e e' s r hs h

end SnowModel.ParseY
