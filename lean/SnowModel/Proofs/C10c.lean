/-
C10 helper lemmas, part c: which rows `resave_objects_from_continuation` re-saves
(`History.resaveRows`, fix 5da9efa) and that re-saving them cannot fail.
-/
import SnowModel.Proofs.C10a
import Mathlib.Data.List.Nodup

namespace SnowModel.Proofs.C10
open SnowModel.History

/-- `(table, id)` of a re-saved row. -/
def pairOf (x : Name × Option Name × Nat) : Name × Nat := (x.1, x.2.2)

theorem mem_resaveRows {pn : List (Name × Name × Nat)} {pt : List (Name × Nat)} {hist : List Name}
    {x : Name × Option Name × Nat} :
    x ∈ resaveRows pn pt hist ↔
      x.1 ∈ hist ∧ ((∃ n, x.2.1 = some n ∧ (n, x.1, x.2.2) ∈ pn) ∨
        (x.2.1 = none ∧ (x.1, x.2.2) ∈ pt ∧ ∀ n, (n, x.1, x.2.2) ∉ pn)) := by
  obtain ⟨t, nk, i⟩ := x
  simp only [resaveRows, List.mem_filter, List.mem_append, List.mem_map, decide_eq_true_eq,
    Prod.mk.injEq, Prod.exists]
  constructor
  · rintro ⟨h | h, hh⟩
    · obtain ⟨n, t', i', hm, rfl, rfl, rfl⟩ := h
      exact ⟨hh, Or.inl ⟨n, rfl, hm⟩⟩
    · obtain ⟨t', i', ⟨hm, hna⟩, rfl, rfl, rfl⟩ := h
      refine ⟨hh, Or.inr ⟨rfl, hm, fun n hn => hna ⟨n, t', i', hn, rfl, rfl⟩⟩⟩
  · rintro ⟨hh, ⟨n, rfl, hm⟩ | ⟨rfl, hm, hna⟩⟩
    · exact ⟨Or.inl ⟨n, t, i, hm, rfl, rfl, rfl⟩, hh⟩
    · refine ⟨Or.inr ⟨t, i, ⟨hm, ?_⟩, rfl, rfl, rfl⟩, hh⟩
      rintro ⟨n, t', i', hn, rfl, rfl⟩
      exact hna n hn

theorem resaveRows_pairs_nodup (pn : List (Name × Name × Nat)) (pt : List (Name × Nat)) (hist : List Name)
    (hpn : (pn.map (fun x => (x.2.1, x.2.2))).Nodup) (hpt : pt.Nodup) :
    ((resaveRows pn pt hist).map pairOf).Nodup := by
  unfold resaveRows
  refine List.Nodup.sublist (List.Sublist.map _ List.filter_sublist) ?_
  rw [List.map_append, List.nodup_append]
  refine ⟨?_, ?_, ?_⟩
  · simpa [pairOf, List.map_map, Function.comp_def] using hpn
  · have : ((pt.filter (fun x => decide (x ∉ pn.map (fun x => (x.2.1, x.2.2))))).map
        (fun x => ((x.1, (none : Option Name), x.2) : Name × Option Name × Nat))).map pairOf
        = pt.filter (fun x => decide (x ∉ pn.map (fun x => (x.2.1, x.2.2)))) := by
      simp [pairOf, List.map_map, Function.comp_def]
    rw [this]
    exact hpt.filter _
  · intro a ha b hb
    simp only [List.mem_map, List.mem_filter, decide_eq_true_eq, pairOf] at ha hb
    obtain ⟨x, ⟨y, hy, rfl⟩, rfl⟩ := ha
    obtain ⟨x', ⟨y', ⟨-, hy'⟩, rfl⟩, rfl⟩ := hb
    intro e
    apply hy'
    simp only at e
    exact ⟨y, hy, e⟩

theorem save_succeeds (s : St) (t : Name) (nk : Option Name) (i : Nat) (rs : Bool)
    (ht : t ∈ s.tables) (hne : ∀ r ∈ s.rows, ¬ (r.table = t ∧ r.id = i)) :
    ∃ s', save s t nk i rs = .ok s' := by
  unfold save
  rw [if_neg (by simpa using ht)]
  have : ¬ (s.rows.any (fun r => decide (r.table = t ∧ r.id = i)) = true) := by
    rw [List.any_eq_true]
    rintro ⟨r, hr, hc⟩
    exact hne r hr (by simpa using hc)
  rw [if_neg this]
  cases nk <;> exact ⟨_, rfl⟩

theorem saveAll_succeeds (rows : List (Name × Option Name × Nat)) : ∀ (s : St),
    (∀ x ∈ rows, x.1 ∈ s.tables) → (rows.map pairOf).Nodup →
    (∀ r ∈ s.rows, (r.table, r.id) ∉ rows.map pairOf) → ∃ s', saveAll s rows = .ok s' := by
  induction rows with
  | nil => intro s _ _ _; exact ⟨s, rfl⟩
  | cons x rest ih =>
    intro s ht hnd hfresh
    obtain ⟨t, nk, i⟩ := x
    simp only [List.map_cons, List.nodup_cons, pairOf] at hnd
    obtain ⟨s1, hs1⟩ := save_succeeds s t nk i true (ht (t, nk, i) (by simp)) (by
      intro r hr hc
      apply hfresh r hr
      simp [pairOf, hc.1, hc.2])
    obtain ⟨-, -, hs1e⟩ := save_ok hs1
    simp only [saveAll, hs1]
    refine ih s1 ?_ hnd.2 ?_
    · intro y hy
      rw [(save_frame hs1).2.1]
      exact ht y (by simp [hy])
    · intro r hr
      rw [hs1e] at hr
      simp only [List.mem_append, List.mem_singleton] at hr
      rcases hr with hr | rfl
      · intro hm
        exact hfresh r hr (by simp only [List.map_cons, List.mem_cons]; exact Or.inr hm)
      · exact hnd.1

end SnowModel.Proofs.C10
