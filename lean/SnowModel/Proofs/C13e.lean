/-
C13 — helper lemmas, part 6: composition over a whole process.
-/
import SnowModel.Proofs.C13d

namespace SnowModel.Proofs.C13
open SnowModel.Uid

theorem genValue_numeric (lg : Nat → Nat) (mask : Nat → Nat → Nat) (g : Gen) (r : Bool) (v : Nat)
    (hk : g.kind = .numeric r) (h : genValue lg mask g = .ok (.num v)) :
    numValue lg mask r g.cfg g.counter = .ok v := by
  unfold genValue at h
  rw [hk] at h
  simp only at h
  cases hn : numValue lg mask r g.cfg g.counter with
  | error e => rw [hn] at h; simp [Except.map] at h
  | ok x =>
    rw [hn] at h
    simp only [Except.map, Except.ok.injEq, Val.num.injEq] at h
    rw [h]

theorem genValue_alpha (lg : Nat → Nat) (mask : Nat → Nat → Nat) (g : Gen) (al : List Char) (mc : Nat) (r : Bool)
    (s : List Char) (hk : g.kind = .alpha al mc r) (h : genValue lg mask g = .ok (.code s)) :
    alphaValue lg mask { num := g.cfg, alphabet := al, minChars := mc, randomize := r } g.counter = .ok s := by
  unfold genValue at h
  rw [hk] at h
  simp only at h
  cases hn : alphaValue lg mask { num := g.cfg, alphabet := al, minChars := mc, randomize := r } g.counter with
  | error e => rw [hn] at h; simp [Except.map] at h
  | ok x =>
    rw [hn] at h
    simp only [Except.map, Except.ok.injEq, Val.code.injEq] at h
    rw [h]

/-- the relation proved pairwise on the outputs: two numeric ids drawn from generators that share
    a template containing `index` and `context` differ -/
def NumOK (lg : Nat → Nat) (mask : Nat → Nat → Nat) (pf : Proc) (o1 o2 : Out) : Prop :=
  ∀ (g1 i1 v1 g2 i2 v2 : Nat) (a b : Gen) (r : Bool),
    o1 = .value g1 i1 (.num v1) → o2 = .value g2 i2 (.num v2) →
    pf.gens[g1]? = some a → pf.gens[g2]? = some b →
    a.kind = .numeric r → b.kind = .numeric r → WF a.cfg → WF b.cfg →
    a.cfg.parts = b.cfg.parts → Part.index ∈ a.cfg.parts → Part.context ∈ a.cfg.parts →
    a.cfg.pidParts.length = b.cfg.pidParts.length → v1 ≠ v2

/-- the same for alphabetic codes over one alphabet of ≥ 2 distinct characters -/
def AlphaOK (lg : Nat → Nat) (mask : Nat → Nat → Nat) (pf : Proc) (o1 o2 : Out) : Prop :=
  ∀ (g1 i1 : Nat) (s1 : List Char) (g2 i2 : Nat) (s2 : List Char) (a b : Gen) (al : List Char) (mc mc' : Nat) (r : Bool),
    o1 = .value g1 i1 (.code s1) → o2 = .value g2 i2 (.code s2) →
    pf.gens[g1]? = some a → pf.gens[g2]? = some b →
    a.kind = .alpha al mc r → b.kind = .alpha al mc' r → al.Nodup → 2 ≤ al.length → WF a.cfg → WF b.cfg →
    a.cfg.parts = b.cfg.parts → Part.index ∈ a.cfg.parts → Part.context ∈ a.cfg.parts →
    a.cfg.pidParts.length = b.cfg.pidParts.length → s1 ≠ s2

/-- facts about a head output and a later output, shared by the two composition proofs -/
theorem head_tail_facts (lg : Nat → Nat) (mask : Nat → Nat → Nat) (p : Proc) (op : Op) (ops : List Op)
    (g1 i1 : Nat) (v1 : Val) (g2 i2 : Nat) (v2 : Val) (a b : Gen)
    (h1 : (step lg mask p op).2 = .value g1 i1 v1)
    (h2 : Out.value g2 i2 v2 ∈ (run lg mask (step lg mask p op).1 ops).2)
    (ha : (run lg mask (step lg mask p op).1 ops).1.gens[g1]? = some a)
    (hb : (run lg mask (step lg mask p op).1 ops).1.gens[g2]? = some b) :
    genValue lg mask { a with counter := i1 } = .ok v1 ∧
    genValue lg mask { b with counter := i2 } = .ok v2 ∧
    (g1 = g2 → i1 < i2) := by
  obtain ⟨gen0, h0, hc, hv, gen1, e1, c1⟩ := step_value lg mask p op g1 i1 v1 h1
  obtain ⟨gen0', e0', k0, cf0, st0, _⟩ := step_ext lg mask p op g1 gen0 h0
  obtain ⟨a', ea, ka, ca, sa, _⟩ := run_ext lg mask ops _ g1 gen0' e0'
  rw [ha] at ea
  cases ea
  obtain ⟨b', eb, hvb⟩ := run_value_sound lg mask ops _ g2 i2 v2 h2
  rw [hb] at eb
  cases eb
  refine ⟨?_, hvb, ?_⟩
  · have e : ({ a with counter := i1 } : Gen) = gen0 := by
      cases gen0; cases a; simp_all
    rw [e]; exact hv
  · intro e
    subst e
    have := run_value_ge lg mask ops _ g1 i2 v2 h2 gen1 e1
    omega

theorem run_numOK (lg : Nat → Nat) (mask : Nat → Nat → Nat) (ops : List Op) (p : Proc) (hp : GoodCtx p) :
    (run lg mask p ops).2.Pairwise (NumOK lg mask (run lg mask p ops).1) := by
  induction ops generalizing p with
  | nil => simp [run]
  | cons op ops ih =>
    simp only [run, List.pairwise_cons]
    refine ⟨?_, ih _ (step_goodCtx lg mask p op hp)⟩
    intro o' ho' g1 i1 v1 g2 i2 v2 a b r e1 e2 ha hb ka kb wa wb hparts hidx hctx hpid hv
    subst e2
    subst hv
    obtain ⟨fa, fb, flt⟩ := head_tail_facts lg mask p op ops g1 i1 _ g2 i2 _ a b e1 ho' ha hb
    have na := genValue_numeric lg mask { a with counter := i1 } r v1 ka fa
    have nb := genValue_numeric lg mask { b with counter := i2 } r v1 kb fb
    simp only at na nb
    by_cases e : g1 = g2
    · subst e
      rw [ha] at hb
      cases hb
      have := resolveL_index_inj a.cfg i1 i2 a.cfg.parts hidx
        (numValue_eq_tuple lg mask r a.cfg a.cfg i1 i2 v1 wa wa na nb)
      have := flt rfl
      omega
    · have hgood := run_goodCtx lg mask ops _ (step_goodCtx lg mask p op hp)
      have hne := goodCtx_ne _ hgood g1 g2 a b e ha hb
      have ht := numValue_eq_tuple lg mask r a.cfg b.cfg i1 i2 v1 wa wb na nb
      rw [resolve_eq, resolve_eq, ← hparts] at ht
      exact resolveL_ctx_ne a.cfg b.cfg i1 i2 a.cfg.parts hctx hpid hne ht

theorem run_alphaOK (lg : Nat → Nat) (mask : Nat → Nat → Nat) (ops : List Op) (p : Proc) (hp : GoodCtx p) :
    (run lg mask p ops).2.Pairwise (AlphaOK lg mask (run lg mask p ops).1) := by
  induction ops generalizing p with
  | nil => simp [run]
  | cons op ops ih =>
    simp only [run, List.pairwise_cons]
    refine ⟨?_, ih _ (step_goodCtx lg mask p op hp)⟩
    intro o' ho' g1 i1 s1 g2 i2 s2 a b al mc mc' r e1 e2 ha hb ka kb hnd hlen wa wb hparts hidx hctx hpid hv
    subst e2
    subst hv
    obtain ⟨fa, fb, flt⟩ := head_tail_facts lg mask p op ops g1 i1 _ g2 i2 _ a b e1 ho' ha hb
    have na := genValue_alpha lg mask { a with counter := i1 } al mc r s1 ka fa
    have nb := genValue_alpha lg mask { b with counter := i2 } al mc' r s1 kb fb
    simp only at na nb
    have ht := alphaValue_eq_tuple lg mask { num := a.cfg, alphabet := al, minChars := mc, randomize := r }
      { num := b.cfg, alphabet := al, minChars := mc', randomize := r } i1 i2 s1 wa wb rfl rfl hnd hlen na nb
    simp only at ht
    by_cases e : g1 = g2
    · subst e
      rw [ha] at hb
      cases hb
      have := resolveL_index_inj a.cfg i1 i2 a.cfg.parts hidx ht
      have := flt rfl
      omega
    · have hgood := run_goodCtx lg mask ops _ (step_goodCtx lg mask p op hp)
      have hne := goodCtx_ne _ hgood g1 g2 a b e ha hb
      rw [resolve_eq, resolve_eq, ← hparts] at ht
      exact resolveL_ctx_ne a.cfg b.cfg i1 i2 a.cfg.parts hctx hpid hne ht

end SnowModel.Proofs.C13
