/-
Helper lemmas for C15: the occurrence enumeration of `SnowModel.Rrule` and the rruleset algebra.
-/
import SnowModel.Core.Rrule
import SnowModel.Proofs.C15Civil

namespace SnowModel.Proofs.C15
open SnowModel.Rrule SnowModel.Civil List

/-! ### `expand` -/

theorem expand_sorted (W : Nat) (blocks offs : List Nat)
    (hb : blocks.Pairwise (fun a b => a + W ≤ b)) (ho : offs.Pairwise (· < ·))
    (hw : ∀ o ∈ offs, o < W) : (expand blocks offs).Pairwise (· < ·) := by
  unfold expand
  rw [pairwise_flatMap]
  refine ⟨fun a _ => ?_, ?_⟩
  · rw [pairwise_map]
    exact ho.imp (fun h => by omega)
  · refine hb.imp ?_
    intro a b hab x hx y hy
    simp only [mem_map] at hx hy
    obtain ⟨o1, ho1, rfl⟩ := hx
    obtain ⟨o2, _, rfl⟩ := hy
    have := hw o1 ho1
    omega

theorem mem_expand {blocks offs : List Nat} {L : Nat} :
    L ∈ expand blocks offs ↔ ∃ a ∈ blocks, ∃ o ∈ offs, L = a + o := by
  simp only [expand, mem_flatMap, mem_map]
  constructor
  · rintro ⟨a, ha, o, ho, rfl⟩; exact ⟨a, ha, o, ho, rfl⟩
  · rintro ⟨a, ha, o, ho, rfl⟩; exact ⟨a, ha, o, ho, rfl⟩

/-! ### blocks and offsets -/

theorem range_shift_sorted (n s : Nat) : ((range n).map (· + s)).Pairwise (· < ·) := by
  rw [pairwise_map]
  exact pairwise_lt_range.imp (fun h => by omega)

theorem dayBlocks_spaced (r : Rule) (lim : Nat) :
    (dayBlocks r lim).Pairwise (fun a b => a + 86400 ≤ b) := by
  unfold dayBlocks
  rw [pairwise_map]
  exact ((range_shift_sorted _ _).filter _).imp (fun h => by omega)

theorem mem_dayBlocks {r : Rule} {lim a : Nat} :
    a ∈ dayBlocks r lim ↔ ∃ d, r.sOrd ≤ d ∧ d ≤ lim / 86400 ∧ occursDay r d = true ∧ a = d * 86400 := by
  simp only [dayBlocks, mem_map, mem_filter, mem_range]
  constructor
  · rintro ⟨d, ⟨⟨k, hk, rfl⟩, ho⟩, rfl⟩
    exact ⟨k + r.sOrd, by omega, by omega, ho, rfl⟩
  · rintro ⟨d, h1, h2, ho, rfl⟩
    exact ⟨d, ⟨⟨d - r.sOrd, by omega, by omega⟩, ho⟩, rfl⟩

theorem timeset_sorted (r : Rule) : (timeset r).Pairwise (· < ·) :=
  pairwise_lt_range.filter _

theorem mem_timeset {r : Rule} {t : Nat} : t ∈ timeset r ↔ t < 86400 ∧ timeOk r t = true := by
  simp [timeset, mem_filter, mem_range]

theorem unitOf_pos (f : Freq) : 0 < unitOf f := by cases f <;> simp [unitOf]

theorem slotBlocks_spaced (r : Rule) (lim : Nat) (hi : 0 < r.interval) :
    (slotBlocks r lim).Pairwise (fun a b => a + unitOf r.freq ≤ b) := by
  unfold slotBlocks
  simp only []
  refine Pairwise.filter _ ?_
  rw [pairwise_map]
  refine pairwise_lt_range.imp ?_
  intro a b hab
  have h1 : (a + 1) * (unitOf r.freq * r.interval) ≤ b * (unitOf r.freq * r.interval) :=
    Nat.mul_le_mul_right _ hab
  have h2 : unitOf r.freq * 1 ≤ unitOf r.freq * r.interval := Nat.mul_le_mul_left _ hi
  rw [Nat.add_mul] at h1
  omega

theorem subOffsets_sorted (r : Rule) : (subOffsets r).Pairwise (· < ·) := by
  unfold subOffsets
  split
  · exact pairwise_lt_range.filter _
  · exact pairwise_lt_range.filter _
  · simp

theorem subOffsets_lt (r : Rule) (hs : r.freq.isSub = true) : ∀ o ∈ subOffsets r, o < unitOf r.freq := by
  intro o ho
  unfold subOffsets at ho
  cases hf : r.freq <;> simp [hf, Freq.isSub] at hs <;> simp [hf, unitOf, mem_filter, mem_range] at ho ⊢ <;> omega

theorem candidates_sorted (r : Rule) (lim : Nat) (hi : 0 < r.interval) :
    (candidates r lim).Pairwise (· < ·) := by
  unfold candidates
  by_cases hs : r.freq.isSub = true
  · rw [if_pos hs]
    exact expand_sorted (unitOf r.freq) _ _ (slotBlocks_spaced r lim hi) (subOffsets_sorted r)
      (subOffsets_lt r hs)
  · rw [if_neg hs]
    exact expand_sorted 86400 _ _ (dayBlocks_spaced r lim) (timeset_sorted r)
      (fun o ho => (mem_timeset.1 ho).1)

theorem takeCount_sublist (c : Option Nat) (l : List Nat) : (takeCount c l).Sublist l := by
  cases c with
  | none => exact Sublist.refl _
  | some n => exact take_sublist n l

/-- membership among the candidates of a YEARLY … DAILY rule -/
theorem mem_candidates_day (r : Rule) (lim L : Nat) (hs : r.freq.isSub = false) :
    L ∈ candidates r lim ↔
      r.sOrd ≤ L / 86400 ∧ L / 86400 ≤ lim / 86400 ∧ occursDay r (L / 86400) = true ∧
        timeOk r (L % 86400) = true := by
  unfold candidates
  rw [if_neg (by simp [hs])]
  rw [mem_expand]
  constructor
  · rintro ⟨a, ha, o, ho, rfl⟩
    obtain ⟨d, h1, h2, h3, rfl⟩ := mem_dayBlocks.1 ha
    obtain ⟨h4, h5⟩ := mem_timeset.1 ho
    have e1 : (d * 86400 + o) / 86400 = d := by omega
    have e2 : (d * 86400 + o) % 86400 = o := by omega
    rw [e1, e2]
    exact ⟨h1, h2, h3, h5⟩
  · rintro ⟨h1, h2, h3, h4⟩
    have hb : L / 86400 * 86400 ∈ dayBlocks r lim := mem_dayBlocks.2 ⟨_, h1, h2, h3, rfl⟩
    have hlt : L % 86400 < 86400 := Nat.mod_lt _ (by omega)
    have ht : L % 86400 ∈ timeset r := mem_timeset.2 ⟨hlt, h4⟩
    have he : L = L / 86400 * 86400 + L % 86400 := by omega
    exact ⟨_, hb, _, ht, he⟩

theorem mem_occAll_day (r : Rule) (lim L : Nat) (hs : r.freq.isSub = false) :
    L ∈ occAll r lim ↔
      r.startL ≤ L ∧ L ≤ lim ∧ occursDay r (L / 86400) = true ∧ timeOk r (L % 86400) = true := by
  unfold occAll
  rw [mem_filter, mem_candidates_day r lim L hs]
  simp only [Bool.and_eq_true, decide_eq_true_eq]
  constructor
  · rintro ⟨⟨_, _, h3, h4⟩, h5, h6⟩
    exact ⟨h5, h6, h3, h4⟩
  · rintro ⟨h5, h6, h3, h4⟩
    have hs0 : r.startL = r.sOrd * 86400 + r.sSod := rfl
    have a1 : r.sOrd ≤ L / 86400 := by omega
    have a2 : L / 86400 ≤ lim / 86400 := Nat.div_le_div_right h6
    exact ⟨⟨a1, a2, h3, h4⟩, h5, h6⟩

/-- first slot of a sub-daily rule: dtstart truncated to the frequency's unit -/
def slotBase (r : Rule) : Nat := r.startL - r.startL % unitOf r.freq
/-- distance between slots -/
def slotStep (r : Rule) : Nat := unitOf r.freq * r.interval

theorem mem_slotBlocks {r : Rule} {lim a : Nat} :
    a ∈ slotBlocks r lim ↔
      ∃ k, k ≤ (lim - slotBase r) / slotStep r ∧ a = slotBase r + k * slotStep r ∧ slotOk r a = true := by
  simp only [slotBlocks, mem_filter, mem_map, mem_range, slotBase, slotStep]
  constructor
  · rintro ⟨⟨k, hk, rfl⟩, ho⟩
    exact ⟨k, by omega, rfl, ho⟩
  · rintro ⟨k, hk, rfl, ho⟩
    exact ⟨⟨k, by omega, rfl⟩, ho⟩

/-- membership among the occurrences of an HOURLY / MINUTELY / SECONDLY rule -/
theorem mem_occAll_sub (r : Rule) (lim L : Nat) (hs : r.freq.isSub = true) :
    L ∈ occAll r lim ↔
      r.startL ≤ L ∧ L ≤ lim ∧
        ∃ k o, k ≤ (lim - slotBase r) / slotStep r ∧ slotOk r (slotBase r + k * slotStep r) = true ∧
          o ∈ subOffsets r ∧ L = slotBase r + k * slotStep r + o := by
  unfold occAll candidates
  rw [if_pos hs, mem_filter, mem_expand]
  simp only [Bool.and_eq_true, decide_eq_true_eq]
  constructor
  · rintro ⟨⟨a, ha, o, ho, rfl⟩, h5, h6⟩
    obtain ⟨k, hk, rfl, hok⟩ := mem_slotBlocks.1 ha
    exact ⟨h5, h6, k, o, hk, hok, ho, rfl⟩
  · rintro ⟨h5, h6, k, o, hk, hok, ho, rfl⟩
    exact ⟨⟨_, mem_slotBlocks.2 ⟨k, hk, rfl, hok⟩, o, ho, rfl⟩, h5, h6⟩

/-! ### rruleset -/

theorem dedupAdj_sublist : ∀ l : List Inst, (dedupAdj l).Sublist l
  | [] => by simp [dedupAdj]
  | [a] => by simp [dedupAdj]
  | a :: b :: t => by
    rw [dedupAdj]
    split
    · exact (dedupAdj_sublist (a :: t)).trans ((Sublist.refl t).cons b |>.cons₂ a)
    · exact (dedupAdj_sublist (b :: t)).cons₂ a
termination_by l => l.length

theorem dedupAdj_head (a : Inst) (t : List Inst) : ∃ t', dedupAdj (a :: t) = a :: t' := by
  induction t with
  | nil => exact ⟨[], by simp [dedupAdj]⟩
  | cons b t ih =>
    rw [dedupAdj]
    split
    · exact ih
    · exact ⟨_, rfl⟩

theorem dedupAdj_strict : ∀ l : List Inst, l.Pairwise (fun a b => a.key ≤ b.key) →
    (dedupAdj l).Pairwise (fun a b => a.key < b.key)
  | [], _ => by simp [dedupAdj]
  | [a], _ => by simp [dedupAdj]
  | a :: b :: t, h => by
    rw [dedupAdj]
    have hbt : (b :: t).Pairwise (fun a b => a.key ≤ b.key) := (pairwise_cons.1 h).2
    have hat : (a :: t).Pairwise (fun a b => a.key ≤ b.key) :=
      h.sublist ((Sublist.refl t).cons b |>.cons₂ a)
    split
    · exact dedupAdj_strict (a :: t) hat
    · rename_i hne
      rw [pairwise_cons]
      refine ⟨?_, dedupAdj_strict (b :: t) hbt⟩
      intro x hx
      have hx' : x ∈ b :: t := (dedupAdj_sublist (b :: t)).subset hx
      have hab : a.key ≤ b.key := (pairwise_cons.1 h).1 b (by simp)
      have hbx : b.key ≤ x.key := by
        rcases mem_cons.1 hx' with rfl | hxt
        · exact Int.le_refl _
        · exact (pairwise_cons.1 hbt).1 x hxt
      omega
termination_by l => l.length

theorem dedupAdj_key : ∀ (l : List Inst) (v : Int), v ∈ (dedupAdj l).map (·.key) ↔ v ∈ l.map (·.key)
  | [], v => by simp [dedupAdj]
  | [a], v => by simp [dedupAdj]
  | a :: b :: t, v => by
    rw [dedupAdj]
    split
    · rename_i he
      rw [dedupAdj_key (a :: t) v]
      simp only [map_cons, mem_cons]
      constructor
      · rintro (h | h)
        · exact Or.inl h
        · exact Or.inr (Or.inr h)
      · rintro (h | h | h)
        · exact Or.inl h
        · exact Or.inl (by omega)
        · exact Or.inr h
    · simp only [map_cons, mem_cons]
      have := dedupAdj_key (b :: t) v
      simp only [map_cons, mem_cons] at this
      rw [this]
termination_by l => l.length

end SnowModel.Proofs.C15
