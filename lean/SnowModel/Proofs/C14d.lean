/-
C14 — helper lemmas, part 4: membership in a de-duplicated list, `merge_options` closed form,
syntactic inlining of macros (`rawMacro`, `inlineTemplate`).
-/
import SnowModel.Proofs.C14c

namespace SnowModel.ParseY

/-! ### membership -/

theorem mem_iff_lookup_of_nodup {α : Type} (d : AList α) (h : (keys d).Nodup) (k : String) (v : α) :
    (k, v) ∈ d ↔ d.lookup k = some v := by
  induction d with
  | nil => simp
  | cons p r ih =>
    obtain ⟨k0, v0⟩ := p
    simp only [keys_cons, List.nodup_cons] at h
    by_cases e : k = k0
    · subst e
      rw [lookup_cons_self]
      constructor
      · intro hm
        rcases List.mem_cons.mp hm with hm | hm
        · simp only [Prod.mk.injEq, true_and] at hm; rw [hm]
        · exact absurd (List.mem_map_of_mem (f := fun p => p.1) hm) h.1
      · intro hs
        simp only [Option.some.injEq] at hs
        subst hs
        simp
    · rw [lookup_cons_ne _ _ _ _ e, ← ih h.2]
      constructor
      · intro hm
        rcases List.mem_cons.mp hm with hm | hm
        · simp only [Prod.mk.injEq] at hm; exact absurd hm.1 e
        · exact hm
      · intro hm; exact List.mem_cons_of_mem _ hm

/-! ### `merge_options` -/

/-- the decision table of the property: supplied ⇒ the supplied value; else the declared default;
    else an error -/
def optionSpec (name : String) (user dflt : Option OVal) : Except Err OVal :=
  match user, dflt with
  | some u, _ => .ok u
  | none, some d => .ok d
  | none, none => .error (.noOption name)

/-- the last declaration of an option name -/
def lastDecl : List OptDecl → String → Option OptDecl
  | [], _ => none
  | o :: r, n =>
    match lastDecl r n with
    | some x => some x
    | none => if o.name == n then some o else none

/-- the loop of `merge_options` -/
def optStep (tu td : Test) (user : AList OVal) (opts : AList OVal) (o : OptDecl) : Except Err (AList OVal) :=
  match decideOption tu td o.name (user.lookup o.name) o.dflt with
  | .error e => .error e
  | .ok v => .ok (dictSet opts o.name v)

theorem mergeOptions_eq (tu td : Test) (defs : List OptDecl) (user plugin : AList OVal) :
    mergeOptions tu td defs user plugin =
      match foldE (optStep tu td user) plugin defs with
      | .error e => .error e
      | .ok opts => .ok (opts, (user.map (·.1)).filter (fun k => !hasKey opts k)) := rfl

theorem foldE_optStep_lookup (tu td : Test) (user : AList OVal) (defs : List OptDecl)
    (acc opts : AList OVal) (h : foldE (optStep tu td user) acc defs = .ok opts) (n : String) :
    opts.lookup n = match lastDecl defs n with
      | some o => (decideOption tu td o.name (user.lookup o.name) o.dflt).toOption
      | none => acc.lookup n := by
  induction defs generalizing acc with
  | nil =>
    simp only [foldE, Except.ok.injEq] at h
    subst h
    rfl
  | cons o r ih =>
    simp only [foldE] at h
    cases hs : optStep tu td user acc o with
    | error e => rw [hs] at h; cases h
    | ok acc1 =>
      rw [hs] at h
      rw [ih acc1 h]
      simp only [lastDecl]
      cases lastDecl r n with
      | some x => rfl
      | none =>
        unfold optStep at hs
        cases hd : decideOption tu td o.name (user.lookup o.name) o.dflt with
        | error e => rw [hd] at hs; cases hs
        | ok v =>
          rw [hd] at hs
          simp only [Except.ok.injEq] at hs
          subst hs
          rw [lookup_dictSet]
          by_cases e : o.name = n
          · subst e
            simp [hd, Except.toOption]
          · have hb : (o.name == n) = false := by simpa using e
            have : ¬ n = o.name := fun x => e x.symm
            simp [hb, this]

theorem lastDecl_some (defs : List OptDecl) (n : String) (o' : OptDecl) (h : lastDecl defs n = some o') :
    o' ∈ defs ∧ o'.name = n := by
  induction defs with
  | nil => simp [lastDecl] at h
  | cons x r ih =>
    simp only [lastDecl] at h
    cases hl : lastDecl r n with
    | some y =>
      rw [hl] at h
      simp only [Option.some.injEq] at h
      subst h
      obtain ⟨h1, h2⟩ := ih hl
      exact ⟨by simp [h1], h2⟩
    | none =>
      rw [hl] at h
      by_cases e : x.name = n
      · simp only [e, beq_self_eq_true, if_true, Option.some.injEq] at h
        subst h
        exact ⟨by simp, e⟩
      · have hb : (x.name == n) = false := by simpa using e
        simp [hb] at h

theorem lastDecl_isSome_of_mem (defs : List OptDecl) (o : OptDecl) (h : o ∈ defs) :
    ∃ o', lastDecl defs o.name = some o' := by
  induction defs with
  | nil => simp at h
  | cons x r ih =>
    simp only [lastDecl]
    cases hl : lastDecl r o.name with
    | some y => exact ⟨y, rfl⟩
    | none =>
      rcases List.mem_cons.mp h with h | h
      · subst h; simp
      · obtain ⟨o', h1⟩ := ih h
        rw [hl] at h1
        cases h1

theorem lastDecl_some_of_mem (defs : List OptDecl) (o : OptDecl) (h : o ∈ defs) :
    ∃ o', lastDecl defs o.name = some o' ∧ o' ∈ defs ∧ o'.name = o.name := by
  obtain ⟨o', h1⟩ := lastDecl_isSome_of_mem defs o h
  exact ⟨o', h1, lastDecl_some defs _ o' h1⟩

/-! ### syntactic inlining -/

/-- the raw (unparsed) fields and friends a macro contributes: those of its inclusions, then its own —
    the text one would write when expanding the macro by hand -/
def rawMacro : Nat → AList RMacro → List String → List String → String →
    Except Err (List (String × RDef) × List RStmt)
  | 0, _, _, _, _ => .error .fuel
  | f + 1, ms, exp, parents, name =>
    match ms.lookup name with
    | none => .error (.noMacro name)
    | some m =>
      match cycleErr exp parents name with
      | some e => .error e
      | none =>
      match mapE (fun n => rawMacro f ms (exp ++ [name]) (parents ++ [name]) n) m.incl with
      | .error e => .error e
      | .ok incs => .ok (incs.flatMap (·.1) ++ m.fields, incs.flatMap (·.2) ++ m.friends)

/-- `mapE g` over a concatenation of lists that are parsed one by one -/
theorem mapE_flatten {β γ ε : Type} (g : β → Except ε γ) (ls : List (List β)) (rs : List (List γ))
    (h : List.Forall₂ (fun l r => mapE g l = .ok r) ls rs) : mapE g ls.flatten = .ok rs.flatten := by
  induction h with
  | nil => rfl
  | cons hx _ ih =>
    simp only [List.flatten_cons, mapE_append, hx, ih]

theorem SubStack.append_left (e : List String) (n : String) : SubStack e (e ++ [n]) :=
  fun _ h => List.mem_append.mpr (Or.inl h)

/-- the parsed (un-de-duplicated) contribution of a macro is the parse of its raw contribution, at the
    stack of the including template (the macro itself no longer on it) -/
theorem flatMacro_eq_parse_raw (ms : AList RMacro) (f : Nat) :
    ∀ e ps n r, flatMacro f ms e ps n = .ok r →
      ∃ raw, rawMacro f ms e ps n = .ok raw ∧ mapE (pField f ms e) raw.1 = .ok r.1 ∧
        mapE (fun s => pStmt f ms e s) raw.2 = .ok r.2 := by
  induction f with
  | zero => intro e ps n r h; simp [flatMacro] at h
  | succ f ih =>
    intro e ps n r h
    rw [flatMacro] at h
    rw [rawMacro]
    cases hl : ms.lookup n with
    | none => rw [hl] at h; cases h
    | some m =>
      rw [hl] at h
      simp only at h ⊢
      cases hc : cycleErr e ps n with
      | some x => rw [hc] at h; cases h
      | none =>
        rw [hc] at h
        simp only at h ⊢
        have hsub := SubStack.append_left e n
        cases h1 : mapE (fun x => flatMacro f ms (e ++ [n]) (ps ++ [n]) x) m.incl with
        | error x => rw [h1] at h; cases h
        | ok incs =>
          rw [h1] at h
          cases h2 : mapE (pField f ms (e ++ [n])) m.fields with
          | error x => rw [h2] at h; cases h
          | ok own =>
            rw [h2] at h
            cases h3 : mapE (fun s => pStmt f ms (e ++ [n]) s) m.friends with
            | error x => rw [h3] at h; cases h
            | ok ofr =>
              rw [h3] at h
              simp only [Except.ok.injEq] at h
              subst h
              have hraws : ∀ (names : List String) (incs : List Incl),
                  mapE (fun x => flatMacro f ms (e ++ [n]) (ps ++ [n]) x) names = .ok incs →
                  ∃ raws, mapE (fun x => rawMacro f ms (e ++ [n]) (ps ++ [n]) x) names = .ok raws ∧
                    List.Forall₂ (fun l r => mapE (pField (f + 1) ms e) l = .ok r)
                      (raws.map (·.1)) (incs.map (·.1)) ∧
                    List.Forall₂ (fun l r => mapE (fun s => pStmt (f + 1) ms e s) l = .ok r)
                      (raws.map (·.2)) (incs.map (·.2)) := by
                intro names
                induction names with
                | nil =>
                  intro incs hi
                  simp only [mapE, Except.ok.injEq] at hi
                  subst hi
                  exact ⟨[], rfl, List.Forall₂.nil, List.Forall₂.nil⟩
                | cons x rest ihn =>
                  intro incs hi
                  simp only [mapE] at hi
                  cases hx : flatMacro f ms (e ++ [n]) (ps ++ [n]) x with
                  | error y => rw [hx] at hi; cases hi
                  | ok ix =>
                    rw [hx] at hi
                    cases hr : mapE (fun x => flatMacro f ms (e ++ [n]) (ps ++ [n]) x) rest with
                    | error y => rw [hr] at hi; cases hi
                    | ok irest =>
                      rw [hr] at hi
                      simp only [Except.ok.injEq] at hi
                      subst hi
                      obtain ⟨rawx, g1, g2, g3⟩ := ih (e ++ [n]) (ps ++ [n]) x ix hx
                      obtain ⟨raws, k1, k2, k3⟩ := ihn irest hr
                      refine ⟨rawx :: raws, by simp [mapE, g1, k1], ?_, ?_⟩
                      · exact List.Forall₂.cons
                          (mapE_mono _ _ _ _ (fun y _ r hy => pField_step ms f _ e hsub y r hy) g2) k2
                      · exact List.Forall₂.cons
                          (mapE_mono _ _ _ _ (fun y _ r hy => pStmt_step ms f _ e hsub y r hy) g3) k3
              obtain ⟨raws, k1, k2, k3⟩ := hraws m.incl incs h1
              rw [k1]
              refine ⟨_, rfl, ?_, ?_⟩
              · simp only [concatIncl, List.flatMap_def]
                rw [mapE_append, mapE_flatten _ _ _ k2,
                  mapE_mono _ _ _ own (fun y _ r hy => pField_step ms f _ e hsub y r hy) h2]
              · simp only [concatIncl, List.flatMap_def]
                rw [mapE_append, mapE_flatten _ _ _ k3,
                  mapE_mono _ _ _ ofr (fun y _ r hy => pStmt_step ms f _ e hsub y r hy) h3]

theorem mapE_flatMap_of_forall2 {ι κ β γ ε : Type} (g : β → Except ε γ) (p : ι → List β) (q : κ → List γ)
    (xs : List ι) (ys : List κ) (h : List.Forall₂ (fun x y => mapE g (p x) = .ok (q y)) xs ys) :
    mapE g (xs.flatMap p) = .ok (ys.flatMap q) := by
  induction h with
  | nil => rfl
  | cons hx _ ih => simp only [List.flatMap_cons, mapE_append, hx, ih]

theorem mapE_forall2 {β γ γ' ε : Type} (g : β → Except ε γ) (g' : β → Except ε γ') (P : γ' → γ → Prop)
    (l : List β) (rs : List γ) (h : ∀ x ∈ l, ∀ r, g x = .ok r → ∃ r', g' x = .ok r' ∧ P r' r)
    (hg : mapE g l = .ok rs) : ∃ rs', mapE g' l = .ok rs' ∧ List.Forall₂ P rs' rs := by
  induction l generalizing rs with
  | nil =>
    simp only [mapE, Except.ok.injEq] at hg
    subst hg
    exact ⟨[], rfl, List.Forall₂.nil⟩
  | cons x r ih =>
    simp only [mapE] at hg
    cases hx : g x with
    | error e => rw [hx] at hg; cases hg
    | ok y =>
      rw [hx] at hg
      cases hr : mapE g r with
      | error e => rw [hr] at hg; cases hg
      | ok ys =>
        rw [hr] at hg
        simp only [Except.ok.injEq] at hg
        subst hg
        obtain ⟨y', h1, h2⟩ := h x (by simp) y hx
        obtain ⟨ys', k1, k2⟩ := ih ys (fun z hz => h z (by simp [hz])) hr
        exact ⟨y' :: ys', by simp [mapE, h1, k1], List.Forall₂.cons h2 k2⟩

end SnowModel.ParseY
