/-
C18 — helper lemmas (email shape, user name, name table).
-/
import SnowModel.Proofs.C18

namespace SnowModel.Proofs.C18
open SnowModel.FakeContact

/-! ### templates -/

theorem templates_parse : emailTemplates.map parseFormat = segTemplates.map some := by decide

theorem templates_length : emailTemplates.length = 60 := by decide
theorem segTemplates_length : segTemplates.length = 60 := by decide

theorem template_at (i : Nat) (hi : i < 60) :
    ∃ t fn sep yr, emailTemplates[i]? = some t ∧ parseFormat t = some (mkSegs fn sep yr) ∧
      fn ∈ fnSegs ∧ sep ∈ firstNameSeparators ∧ yr ∈ yearSegs := by
  have h1 : i < emailTemplates.length := by rw [templates_length]; exact hi
  have h2 : i < segTemplates.length := by rw [segTemplates_length]; exact hi
  have hp : (emailTemplates.map parseFormat)[i]? = (segTemplates.map some)[i]? := by
    rw [templates_parse]
  rw [List.getElem?_map, List.getElem?_map, List.getElem?_eq_getElem h1,
    List.getElem?_eq_getElem h2] at hp
  simp only [Option.map_some, Option.some.injEq] at hp
  have hm : segTemplates[i] ∈ segTemplates := List.getElem_mem h2
  generalize segTemplates[i] = sg at hp hm
  unfold segTemplates at hm
  simp only [List.mem_flatMap, List.mem_map] at hm
  obtain ⟨fn, hfn, sep, hsep, yr, hyr, rfl⟩ := hm
  exact ⟨emailTemplates[i], fn, sep, yr, List.getElem?_eq_getElem h1, hp, hfn, hsep, hyr⟩

theorem ljust2_length (f : Str) : 2 ≤ (ljust2 f).length := by
  simp only [ljust2, List.length_append, List.length_replicate]; omega

theorem ljust2_mem {f : Str} {c : Char} (h : c ∈ ljust2 f) : c ∈ f ∨ c = '_' := by
  simp only [ljust2, List.mem_append, List.mem_replicate] at h
  rcases h with h | ⟨_, h⟩
  · exact Or.inl h
  · exact Or.inr h

theorem render_fn (fs : Fields) (fn : List Seg) (hfn : fn ∈ fnSegs) (hlen : 2 ≤ fs.firstname.length) :
    ∃ p, render fs fn = some p ∧ FnPart fs.firstname p := by
  obtain ⟨x0, x1, rest, hF⟩ : ∃ x0 x1 rest, fs.firstname = x0 :: x1 :: rest := by
    match h : fs.firstname, hlen with
    | x0 :: x1 :: rest, _ => exact ⟨x0, x1, rest, rfl⟩
    | [_], hl => simp at hl
    | [], hl => simp at hl
  simp only [fnSegs, List.mem_cons, List.not_mem_nil, or_false] at hfn
  rcases hfn with rfl | rfl | rfl
  · exact ⟨fs.firstname, by simp [render, renderSeg, Fields.get], Or.inl rfl⟩
  · exact ⟨[x0], by simp [render, renderSeg, Fields.get, hF], Or.inr (Or.inl (by simp [hF]))⟩
  · exact ⟨[x0, x1], by simp [render, renderSeg, Fields.get, hF], Or.inr (Or.inr (by simp [hF]))⟩

theorem render_year (fs : Fields) (yr : List Seg) (hyr : yr ∈ yearSegs) (hlen : 4 ≤ fs.year.length) :
    ∃ p, render fs yr = some p ∧ YearPart fs.year p := by
  obtain ⟨y0, y1, y2, y3, rest, hY⟩ : ∃ y0 y1 y2 y3 rest, fs.year = y0 :: y1 :: y2 :: y3 :: rest := by
    match h : fs.year, hlen with
    | y0 :: y1 :: y2 :: y3 :: rest, _ => exact ⟨y0, y1, y2, y3, rest, rfl⟩
    | [_, _, _], hl => simp at hl
    | [_, _], hl => simp at hl
    | [_], hl => simp at hl
    | [], hl => simp at hl
  simp only [yearSegs, List.mem_cons, List.not_mem_nil, or_false] at hyr
  rcases hyr with rfl | rfl | rfl | rfl
  · exact ⟨fs.year, by simp [render, renderSeg, Fields.get], Or.inl rfl⟩
  · exact ⟨[y2, y3], by simp [render, renderSeg, Fields.get, hY], Or.inr (Or.inl (by simp [hY]))⟩
  · exact ⟨[y3], by simp [render, renderSeg, Fields.get, hY], Or.inr (Or.inr (Or.inl (by simp [hY])))⟩
  · exact ⟨[], by simp [render], Or.inr (Or.inr (Or.inr rfl))⟩

theorem render_mkSegs (fs : Fields) (fn : List Seg) (sep : Str) (yr : List Seg) (p q : Str)
    (hp : render fs fn = some p) (hq : render fs yr = some q) :
    render fs (mkSegs fn sep yr) = some (p ++ sep ++ fs.lastname ++ q ++ '@' :: fs.domain) := by
  unfold mkSegs
  have h1 := render_append_some hp (render_lits fs sep)
  have h2 : render fs [Seg.whole Field.lastname] = some fs.lastname := by
    simp [render, renderSeg, Fields.get]
  have h3 := render_append_some h1 h2
  have h4 := render_append_some h3 hq
  have h5 : render fs [Seg.lit '@', Seg.whole Field.domain] = some ('@' :: fs.domain) := by
    simp [render, renderSeg, Fields.get]
  exact render_append_some h4 h5

theorem fnPart_noAt {f p : Str} (hf : AllAlnum f) (hp : FnPart (ljust2 f) p) : '@' ∉ p := by
  have hF : '@' ∉ ljust2 f := by
    intro hm
    rcases ljust2_mem hm with h | h
    · exact alnum_ne_at (hf _ h) rfl
    · exact absurd h (by decide)
  rcases hp with rfl | rfl | rfl
  · exact hF
  · exact fun hm => hF (List.mem_of_mem_take hm)
  · exact fun hm => hF (List.mem_of_mem_take hm)

theorem yearPart_noAt {n : Nat} {p : Str} (hp : YearPart (pyStrNat n) p) : '@' ∉ p := by
  have hY := pyStrNat_noAt n
  rcases hp with rfl | rfl | rfl | rfl
  · exact hY
  · exact fun hm => hY (List.mem_of_mem_drop (List.mem_of_mem_take hm))
  · exact fun hm => hY (List.mem_of_mem_drop (List.mem_of_mem_take hm))
  · simp

theorem sep_noAt {sep : Str} (h : sep ∈ firstNameSeparators) : '@' ∉ sep := by
  simp only [firstNameSeparators, List.mem_cons, List.not_mem_nil, or_false] at h
  rcases h with rfl | rfl | rfl | rfl | rfl <;> decide

theorem email_shape (f l : Str) (d : EmailDraws) (hfa : AllAlnum f) (hla : AllAlnum l)
    (ht : d.tmpl < 60) (hy : 1000 ≤ d.year) :
    ∃ fnPart sep yrPart,
      emailBuilt f l d = some (fnPart ++ sep ++ l ++ yrPart ++ '@' :: d.domain) ∧
      FnPart (ljust2 f) fnPart ∧ sep ∈ firstNameSeparators ∧ YearPart (pyStrNat d.year) yrPart ∧
      '@' ∉ fnPart ++ sep ++ l ++ yrPart := by
  obtain ⟨t, fn, sep, yr, hti, hpt, hfn, hsep, hyr⟩ := template_at d.tmpl ht
  let fs : Fields := { firstname := ljust2 f, lastname := l, domain := d.domain, year := pyStrNat d.year }
  obtain ⟨p, hp, hP⟩ := render_fn fs fn hfn (ljust2_length f)
  obtain ⟨q, hq, hQ⟩ := render_year fs yr hyr (pyStrNat_length _ hy)
  refine ⟨p, sep, q, ?_, hP, hsep, hQ, ?_⟩
  · unfold emailBuilt
    rw [hti]
    simp only [hpt]
    exact render_mkSegs fs fn sep yr p q hp hq
  · simp only [List.mem_append, not_or]
    exact ⟨⟨⟨fnPart_noAt hfa hP, sep_noAt hsep⟩, noAt_of_alnum hla⟩, yearPart_noAt hQ⟩

/-! ### user name -/

theorem userName_eq (fn ln : Option Str) (m : Bool) (d : UserDraws) :
    userName fn ln m d = pySlice0 (namepart fn ln m d) (namepartMaxLen d.host.length) ++ '@' :: d.host := by
  simp [userName]

theorem pySlice0_of_le (s : Str) (h : Nat) (hh : h ≤ 79) :
    pySlice0 s (namepartMaxLen h) = s.take (79 - h) := by
  unfold pySlice0 namepartMaxLen
  have : (0 : Int) ≤ 80 - ((h : Int) + 1) := by omega
  simp only [this, if_true]
  congr 1
  omega

theorem pySlice0_sublist (s : Str) (k : Int) : (pySlice0 s k).Sublist s := by
  unfold pySlice0
  split <;> exact List.take_sublist _ _

theorem namepart_suffix (fn ln : Option Str) (m : Bool) (d : UserDraws) :
    ∃ pre, namepart fn ln m d = pre ++ d.uuid := by
  unfold namepart
  split
  · exact ⟨_, rfl⟩
  · exact ⟨_, rfl⟩

theorem namepart_noAt (fn ln : Option Str) (m : Bool) (d : UserDraws)
    (hfn : SanitisedOpt fn) (hln : SanitisedOpt ln)
    (h1 : '@' ∉ d.first) (h2 : '@' ∉ d.last) (h3 : '@' ∉ d.uuid) :
    '@' ∉ namepart fn ln m d := by
  unfold namepart
  split
  · have a : '@' ∉ fn.getD [] := by
      cases fn with
      | none => simp
      | some r => exact noAt_of_alnum (hfn r rfl)
    have b : '@' ∉ ln.getD [] := by
      cases ln with
      | none => simp
      | some r => exact noAt_of_alnum (hln r rfl)
    simp only [List.mem_append, List.mem_singleton, not_or]
    exact ⟨⟨⟨⟨a, by decide⟩, b⟩, by decide⟩, h3⟩
  · simp only [List.mem_append, List.mem_singleton, not_or]
    exact ⟨⟨⟨⟨h1, by decide⟩, h2⟩, by decide⟩, h3⟩

/-! ### name table -/

theorem dictGet_mem {t : List (Str × TVal)} {k : Str} {v : TVal} (h : dictGet t k = some v) :
    (k, v) ∈ t := by
  induction t with
  | nil => simp [dictGet] at h
  | cons e r ih =>
    obtain ⟨k', v'⟩ := e
    unfold dictGet at h
    split at h
    · rename_i w hw
      cases h
      exact List.mem_cons_of_mem _ (ih hw)
    · split at h
      · cases h
        rename_i hk
        subst hk
        exact List.mem_cons_self
      · cases h

theorem dictGet_of_mem {t : List (Str × TVal)} {k : Str} {v : TVal} (h : (k, v) ∈ t) :
    ∃ w, dictGet t k = some w := by
  induction t with
  | nil => simp at h
  | cons e r ih =>
    obtain ⟨k', v'⟩ := e
    unfold dictGet
    rcases List.mem_cons.1 h with he | hr
    · cases he
      cases hd : dictGet r k with
      | some w => exact ⟨w, rfl⟩
      | none => exact ⟨v, by simp⟩
    · obtain ⟨w, hw⟩ := ih hr
      exact ⟨w, by rw [hw]⟩

theorem dictGet_append_right {a b : List (Str × TVal)} {k : Str} {w : TVal}
    (h : dictGet b k = some w) : dictGet (a ++ b) k = some w := by
  induction a with
  | nil => simpa using h
  | cons e r ih =>
    obtain ⟨k', v'⟩ := e
    simp only [List.cons_append]
    unfold dictGet
    rw [ih]

theorem mem_objToFuncList {cz : Str → Str} {d : DirList} {ig : List Str} {k : Str} {v : TVal}
    (h : (k, v) ∈ objToFuncList cz d ig) : ∃ e ∈ d.filter (visible ig), k = cz e.1 ∧ v = e.2 := by
  unfold objToFuncList at h
  obtain ⟨e, he, heq⟩ := List.mem_map.1 h
  cases heq
  exact ⟨e, he, rfl, rfl⟩

theorem objToFuncList_mem {cz : Str → Str} {d : DirList} {ig : List Str} {e : Str × TVal}
    (h : e ∈ d.filter (visible ig)) : (cz e.1, e.2) ∈ objToFuncList cz d ig :=
  List.mem_map.2 ⟨e, h, rfl⟩

/-- every pair of the table comes from a visible attribute, under one of its two keys -/
theorem mem_buildTable {fk : DirList} {ig : List Str} {sn : DirList} {k : Str} {v : TVal}
    (h : (k, v) ∈ buildTable fk ig sn) :
    ∃ e ∈ entries fk ig sn, (k = lower e.1 ∨ k = canon e.1) ∧ v = e.2 := by
  unfold buildTable at h
  simp only [List.mem_append] at h
  unfold entries
  rcases h with ((h | h) | h) | h
  · obtain ⟨e, he, hk, hv⟩ := mem_objToFuncList h
    exact ⟨e, List.mem_append_left _ he, Or.inl hk, hv⟩
  · obtain ⟨e, he, hk, hv⟩ := mem_objToFuncList h
    exact ⟨e, List.mem_append_left _ he, Or.inr hk, hv⟩
  · obtain ⟨e, he, hk, hv⟩ := mem_objToFuncList h
    exact ⟨e, List.mem_append_right _ he, Or.inl hk, hv⟩
  · obtain ⟨e, he, hk, hv⟩ := mem_objToFuncList h
    exact ⟨e, List.mem_append_right _ he, Or.inr hk, hv⟩

/-- the key under which a pair is stored has the canonical form of the attribute's name -/
theorem canon_key {k n : Str} (h : k = lower n ∨ k = canon n) : canon k = canon n := by
  rcases h with rfl | rfl
  · exact canon_lower n
  · exact canon_canon n

theorem spelling_canon {s n : Str} (h : Spelling s n) : canon (lower s) = canon n := by
  rcases h with h | h
  · rw [h]; exact canon_lower n
  · rw [h]; exact canon_canon n

/-- The two-step lookup, abstractly: if whatever is stored under the spelling as written is `v`,
    and the canonical key is present and also holds `v`, the lookup resolves to `v`. -/
theorem getFake_eq_resolve {t : List (Str × TVal)} {s : Str} {v : TVal}
    (h1 : ∀ w, dictGet t (lower s) = some w → w = v)
    (h2 : ∃ w, dictGet t (canon s) = some w)
    (h2' : ∀ w, dictGet t (canon s) = some w → w = v) : getFake t s = resolve v := by
  obtain ⟨w2, hw2⟩ := h2
  have e2 : w2 = v := h2' w2 hw2
  subst e2
  have hc : noUnderscore (lower s) = canon s := rfl
  unfold getFake
  rw [hc, hw2]
  cases h : dictGet t (lower s) with
  | none => cases w2 <;> simp [implOf, resolve]
  | some w =>
    have := h1 w h
    subst this
    cases w <;> simp [implOf, resolve]

theorem dictGet_append_cases {a b : List (Str × TVal)} {k : Str} {w : TVal}
    (h : dictGet (a ++ b) k = some w) :
    dictGet b k = some w ∨ (dictGet b k = none ∧ dictGet a k = some w) := by
  induction a with
  | nil =>
    left
    simpa using h
  | cons e r ih =>
    obtain ⟨k', v'⟩ := e
    simp only [List.cons_append] at h
    unfold dictGet at h
    cases hr : dictGet (r ++ b) k with
    | some x =>
      rw [hr] at h
      simp only [Option.some.injEq] at h
      subst h
      rcases ih hr with h' | ⟨h1, h2⟩
      · exact Or.inl h'
      · right
        refine ⟨h1, ?_⟩
        unfold dictGet
        rw [h2]
    | none =>
      rw [hr] at h
      simp only at h
      have hb : dictGet b k = none := by
        cases hb : dictGet b k with
        | none => rfl
        | some x => rw [dictGet_append_right hb] at hr; cases hr
      have hrn : dictGet r k = none := by
        cases hrr : dictGet r k with
        | none => rfl
        | some x =>
          obtain ⟨y, hy⟩ := dictGet_of_mem (t := r ++ b) (List.mem_append_left b (dictGet_mem hrr))
          rw [hy] at hr; cases hr
      right
      refine ⟨hb, ?_⟩
      unfold dictGet
      rw [hrn]
      exact h

theorem noUnderscore_canon (x : Str) : noUnderscore (canon x) = canon x := by
  unfold canon
  exact noUnderscore_idem _

theorem snow_segment_has_key {sn : DirList} {e : Str × TVal} (he : e ∈ sn.filter (visible []))
    {s : Str} (hs : Spelling s e.1) :
    ∃ w, dictGet (objToFuncList lower sn [] ++ objToFuncList canon sn []) (lower s) = some w := by
  rcases hs with h | h
  · apply dictGet_of_mem (v := e.2)
    rw [h]
    exact List.mem_append_left _ (objToFuncList_mem he)
  · apply dictGet_of_mem (v := e.2)
    rw [h]
    exact List.mem_append_right _ (objToFuncList_mem he)

theorem snow_segment_sound {sn : DirList} {k : Str} {w : TVal}
    (h : (k, w) ∈ objToFuncList lower sn [] ++ objToFuncList canon sn []) :
    ∃ e ∈ sn.filter (visible []), (k = lower e.1 ∨ k = canon e.1) ∧ w = e.2 := by
  rcases List.mem_append.1 h with h | h
  · obtain ⟨e, he, hk, hv⟩ := mem_objToFuncList h
    exact ⟨e, he, Or.inl hk, hv⟩
  · obtain ⟨e, he, hk, hv⟩ := mem_objToFuncList h
    exact ⟨e, he, Or.inr hk, hv⟩

/-! ### the table as a whole, and its Snowfakery segments -/

/-- every value stored under a key with the canonical form of `e`'s name is `e`'s value -/
theorem table_value (fk : DirList) (ig : List Str) (sn : DirList)
    (hc : Consistent (entries fk ig sn)) (e : Str × TVal) (he : e ∈ entries fk ig sn)
    (k : Str) (hk : canon k = canon e.1) (w : TVal)
    (hw : dictGet (buildTable fk ig sn) k = some w) : w = e.2 := by
  obtain ⟨e', he', hk', hv⟩ := Proofs.C18.mem_buildTable (Proofs.C18.dictGet_mem hw)
  rw [hv]
  exact hc e' he' e he (by rw [← Proofs.C18.canon_key hk', hk])

/-- the canonical form of every visible attribute's name is a key of the table -/
theorem canon_key_present (fk : DirList) (ig : List Str) (sn : DirList) (e : Str × TVal)
    (he : e ∈ entries fk ig sn) : ∃ w, dictGet (buildTable fk ig sn) (canon e.1) = some w := by
  unfold entries at he
  apply Proofs.C18.dictGet_of_mem (v := e.2)
  unfold buildTable
  simp only [List.mem_append]
  rcases List.mem_append.1 he with h | h
  · exact Or.inl (Or.inl (Or.inr (Proofs.C18.objToFuncList_mem h)))
  · exact Or.inr (Proofs.C18.objToFuncList_mem h)

/-- the snow segments come last: what they hold under a key is what the table holds -/
theorem snow_value (fk : DirList) (ig : List Str) (sn : DirList) (k : Str) (w : TVal)
    (h : dictGet (objToFuncList lower sn [] ++ objToFuncList canon sn []) k = some w) :
    dictGet (buildTable fk ig sn) k = some w := by
  unfold buildTable
  rw [List.append_assoc]
  exact Proofs.C18.dictGet_append_right h

theorem table_cases (fk : DirList) (ig : List Str) (sn : DirList) (k : Str) (w : TVal)
    (h : dictGet (buildTable fk ig sn) k = some w) :
    dictGet (objToFuncList lower sn [] ++ objToFuncList canon sn []) k = some w ∨
    (dictGet (objToFuncList lower sn [] ++ objToFuncList canon sn []) k = none ∧
      dictGet (objToFuncList lower fk ig ++ objToFuncList canon fk ig) k = some w) := by
  unfold buildTable at h
  rw [List.append_assoc] at h
  exact Proofs.C18.dictGet_append_cases h

/-- a value of the snow segments under a key with the canonical form of `e`'s name is `e`'s -/
theorem snow_table_value (sn : DirList) (hc : Consistent (sn.filter (visible [])))
    (e : Str × TVal) (he : e ∈ sn.filter (visible [])) (k : Str) (hk : canon k = canon e.1)
    (w : TVal) (hw : dictGet (objToFuncList lower sn [] ++ objToFuncList canon sn []) k = some w) :
    w = e.2 := by
  obtain ⟨e', he', hk', hv⟩ := Proofs.C18.snow_segment_sound (Proofs.C18.dictGet_mem hw)
  rw [hv]
  exact hc e' he' e he (by rw [← Proofs.C18.canon_key hk', hk])

theorem snow_canon_key (sn : DirList) (e : Str × TVal) (he : e ∈ sn.filter (visible [])) :
    ∃ w, dictGet (objToFuncList lower sn [] ++ objToFuncList canon sn []) (canon e.1) = some w :=
  Proofs.C18.dictGet_of_mem (v := e.2) (List.mem_append_right _ (Proofs.C18.objToFuncList_mem he))

end SnowModel.Proofs.C18
