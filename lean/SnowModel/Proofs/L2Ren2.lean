/-
"Hidden is a projection", part 2: name lookup and the formula evaluator commute with a renaming
(up to runs that leave the modelled fragment).
-/
import SnowModel.Proofs.L2Ren1

namespace SnowModel.L2
variable {α β : Type} {ρ σ : String → String}

theorem consume_ren (h : Ren ρ σ) (o : List OutRow) (s : St) (n t : String) :
    consume (renSt ρ o s) (ρ n) (ρ t) = (consume s n t).map (fun p => (p.1, renSt ρ o p.2)) := by
  unfold consume
  rw [renSt_names, renSt_slots, aget_renA h, aget_renA_id h]
  cases hn : aget s.names n with
  | none => rfl
  | some t' =>
    cases hs : aget s.slots n with
    | none => rfl
    | some sl =>
      cases sl with
      | unused => rfl
      | consumed i => rfl
      | alloc i =>
        simp only [Option.map_some, h.eq_iff]
        split
        · simp only [Option.map_some, renSt, aset_renA_id h]
        · rfl

theorem generateId_ren (h : Ren ρ σ) (o : List OutRow) (s : St) (t : String) (nk : Option String) :
    generateId (renSt ρ o s) (ρ t) (nk.map ρ) =
      ((generateId s t nk).1, renSt ρ o (generateId s t nk).2) := by
  unfold generateId
  have h1 : (nk.map ρ).bind (fun n => consume (renSt ρ o s) n (ρ t)) =
      (nk.bind (fun n => consume s n t)).map (fun p => (p.1, renSt ρ o p.2)) := by
    cases nk with
    | none => rfl
    | some n => simp only [Option.map_some, Option.bind_some, consume_ren h]
  rw [h1, consume_ren h, freshId_ren h]
  cases nk.bind (fun n => consume s n t) with
  | some r => rfl
  | none =>
    cases consume s t t with
    | some r => rfl
    | none => rfl

theorem objectName_ren (h : Ren ρ σ) (o : List OutRow) (s : St) (n : String) :
    objectName (renSt ρ o s) (ρ n) = (objectName s n).map (renVal ρ) := by
  unfold objectName
  simp only [renSt_seen, renSt_nick, renSt_pTable, renSt_pNick, renSt_slots, aget_renA_id h]
  cases aget s.seen n with
  | some hd => rfl
  | none =>
  cases aget s.nick n with
  | some hd => rfl
  | none =>
  cases aget s.pTable n with
  | some hd => rfl
  | none =>
  cases aget s.pNick n with
  | some hd => rfl
  | none =>
  cases aget s.slots n with
  | some hd => rfl
  | none => rfl

@[simp] theorem renCtx_obj (c : Ctx) : (renCtx ρ c).obj = c.obj := rfl
@[simp] theorem renCtx_vars (c : Ctx) : (renCtx ρ c).vars = renA ρ (renVal ρ) c.vars := rfl

/-- name lookup: a reserved name leaves the fragment, any other name is found (or not) alike -/
theorem lookupName_ren (h : Ren ρ σ) (o : List OutRow) (s : St) (c : Ctx) (n : String) :
    (∃ m, lookupName s c n = .error (.outside m)) ∨
    ∃ v, lookupName s c n = .ok v ∧
      lookupName (renSt ρ o s) (renCtx ρ c) (ρ n) = .ok (v.map (renVal ρ)) := by
  unfold lookupName
  rw [h.reserved]
  by_cases hr : reservedNames.contains n = true
  · left; rw [if_pos hr]; exact ⟨_, rfl⟩
  · right
    rw [if_neg hr, if_neg hr]
    simp only [renCtx_vars, renCtx_obj, aget_renA h]
    cases aget c.vars n with
    | some v => exact ⟨_, rfl, rfl⟩
    | none =>
    have hrow : (c.obj.bind fun hd => aget (rowData (renSt ρ o s) hd).values (ρ n)) =
        (c.obj.bind fun hd => aget (rowData s hd).values n).map (renVal ρ) := by
      cases c.obj with
      | none => rfl
      | some hd => simp only [Option.bind_some, rowData_ren h, renRow_values, aget_renA h]
    simp only [Option.map_none, hrow]
    cases (c.obj.bind fun hd => aget (rowData s hd).values n) with
    | some v => exact ⟨_, rfl, rfl⟩
    | none =>
    simp only [Option.map_none, objectName_ren h]
    cases objectName s n with
    | some v => exact ⟨_, rfl, rfl⟩
    | none =>
    simp only [Option.map_none, renSt_options, aget_renA h]
    cases aget s.options n with
    | some v => exact ⟨_, rfl, rfl⟩
    | none =>
    simp only [Option.map_none]
    have e1 := h.eq_special (n := n) (m := "id") (by simp [specialNames])
    have e2 := h.eq_special (n := n) (m := "count") (by simp [specialNames])
    have e3 := h.eq_special (n := n) (m := "child_index") (by simp [specialNames])
    have e4 := h.eq_special (n := n) (m := "this") (by simp [specialNames])
    cases c.obj with
    | none =>
      simp only [e1, e2, e3, e4]
      split
      · exact ⟨_, rfl, rfl⟩
      · exact ⟨_, rfl, rfl⟩
    | some hd =>
      simp only [e1, e2, e3, e4, rowId_ren h, rowData_ren h, renRow_idx]
      split
      · exact ⟨_, rfl, rfl⟩
      · split
        · exact ⟨_, rfl, rfl⟩
        · split
          · exact ⟨_, rfl, rfl⟩
          · exact ⟨_, rfl, rfl⟩


/-! ### formulas -/

/-- `y` is the renamed image of `x`, unless `x` left the modelled fragment -/
def RRs (ρ : String → String) (o : List OutRow) (f : α → β) (x : R α) (y : R β) : Prop :=
  (∃ m, x = .error (.outside m)) ∨ y = mapR ρ o f x

theorem arithVals_ren (o : List OutRow) (op : Nat) (va vb : Val) (s : St) :
    arithVals op (renVal ρ va) (renVal ρ vb) (renSt ρ o s) = mapR ρ o (renVal ρ) (arithVals op va vb s) := by
  cases va <;> cases vb <;> simp only [arithVals, renVal] <;> (try split) <;> (try split) <;> rfl

/-- the attribute names of an expression are acceptable to `ρ` -/
def OkExpr (ρ : String → String) : Expr → Prop
  | .int _ => True
  | .name _ => True
  | .attr e f => AttrOK ρ f ∧ OkExpr ρ e
  | .add a b => OkExpr ρ a ∧ OkExpr ρ b
  | .sub a b => OkExpr ρ a ∧ OkExpr ρ b
  | .mul a b => OkExpr ρ a ∧ OkExpr ρ b

theorem slotTest_ren (h : Ren ρ σ) {f : String} (hf : AttrOK ρ f)
    (hc : ¬ (slotAttrs.contains f = true ∨ f.startsWith "_" = true ∨ f.startsWith "yaml" = true)) :
    ¬ (slotAttrs.contains (ρ f) = true ∨ (ρ f).startsWith "_" = true ∨ (ρ f).startsWith "yaml" = true) := by
  rw [h.slotAttr]
  intro hh
  rcases hh with a | b | c
  · exact hc (Or.inl a)
  · exact hc (Or.inr (Or.inl (hf.us b)))
  · exact hc (Or.inr (Or.inr (hf.yaml c)))

theorem evalExpr_ren (h : Ren ρ σ) (o : List OutRow) (c : Ctx) (e : Expr) (he : OkExpr ρ e) :
    ∀ s, RRs ρ o (renVal ρ) (evalExpr c e s) (evalExpr (renCtx ρ c) (renExpr ρ e) (renSt ρ o s)) := by
  induction e with
  | int n => intro s; right; rfl
  | name n =>
    intro s
    simp only [renExpr, evalExpr]
    rcases lookupName_ren h o s c n with ⟨m, hm⟩ | ⟨v, hv, hv'⟩
    · left; rw [hm]; exact ⟨m, rfl⟩
    · right; rw [hv, hv']
      cases v <;> rfl
  | attr e f ih =>
    intro s
    obtain ⟨hf, he'⟩ := he
    simp only [renExpr, evalExpr]
    rcases ih he' s with ⟨m, hm⟩ | hy
    · left; rw [hm]; exact ⟨m, rfl⟩
    · rw [hy]
      cases hx : evalExpr c e s with
      | error err => right; rfl
      | ok p =>
        obtain ⟨v, s1⟩ := p
        cases v with
        | undef => right; rfl
        | null => right; rfl
        | bool b => right; rfl
        | int i => right; rfl
        | str x => left; exact ⟨_, rfl⟩
        | row hd =>
          simp only [mapR_ok, renVal]
          by_cases hc : rowPrivateAttrs.contains f = true ∨ (f.startsWith "__" = true ∧ f.endsWith "__" = true)
          · left; rw [if_pos hc]; exact ⟨_, rfl⟩
          · right
            have hc' : ¬ (rowPrivateAttrs.contains (ρ f) = true ∨
                ((ρ f).startsWith "__" = true ∧ (ρ f).endsWith "__" = true)) := by
              rw [h.rowPrivate]
              intro hh
              rcases hh with a | b
              · exact hc (Or.inl a)
              · exact hc (Or.inr (hf.dun b))
            rw [if_neg hc, if_neg hc', mapR_ok, rowData_ren h, renRow_values, lookup_renA h]
            cases List.lookup f (rowData s1 hd).values <;> rfl
        | slot n =>
          simp only [mapR_ok, renVal, h.eq_special (n := f) (m := "id") (by simp [specialNames])]
          by_cases hid : f = "id"
          · right
            rw [if_pos hid, if_pos hid, slotId_ren h]
            cases slotId s1 n with
            | error err => rfl
            | ok q => rfl
          · rw [if_neg hid, if_neg hid]
            by_cases hc : slotAttrs.contains f = true ∨ f.startsWith "_" = true ∨ f.startsWith "yaml" = true
            · left; rw [if_pos hc]; exact ⟨_, rfl⟩
            · right; rw [if_neg hc, if_neg (slotTest_ren h hf hc)]; rfl
        | deadSlot t i =>
          simp only [mapR_ok, renVal, h.eq_special (n := f) (m := "id") (by simp [specialNames])]
          by_cases hid : f = "id"
          · rw [if_pos hid, if_pos hid]
            cases i with
            | none => left; exact ⟨_, rfl⟩
            | some k => right; rfl
          · rw [if_neg hid, if_neg hid]
            by_cases hc : slotAttrs.contains f = true ∨ f.startsWith "_" = true ∨ f.startsWith "yaml" = true
            · left; rw [if_pos hc]; exact ⟨_, rfl⟩
            · right; rw [if_neg hc, if_neg (slotTest_ren h hf hc)]; rfl
  | add a b iha ihb =>
    intro s
    simp only [renExpr, evalExpr]
    rcases iha he.1 s with ⟨m, hm⟩ | hy
    · left; rw [hm]; exact ⟨m, rfl⟩
    · rw [hy]
      cases hx : evalExpr c a s with
      | error err => right; rfl
      | ok p =>
        obtain ⟨va, s1⟩ := p
        simp only [mapR_ok]
        rcases ihb he.2 s1 with ⟨m, hm⟩ | hy2
        · left; rw [hm]; exact ⟨m, rfl⟩
        · rw [hy2]
          cases hx2 : evalExpr c b s1 with
          | error err => right; rfl
          | ok p2 =>
            obtain ⟨vb, s2⟩ := p2
            right
            simp only [mapR_ok, arithVals_ren]
  | sub a b iha ihb =>
    intro s
    simp only [renExpr, evalExpr]
    rcases iha he.1 s with ⟨m, hm⟩ | hy
    · left; rw [hm]; exact ⟨m, rfl⟩
    · rw [hy]
      cases hx : evalExpr c a s with
      | error err => right; rfl
      | ok p =>
        obtain ⟨va, s1⟩ := p
        simp only [mapR_ok]
        rcases ihb he.2 s1 with ⟨m, hm⟩ | hy2
        · left; rw [hm]; exact ⟨m, rfl⟩
        · rw [hy2]
          cases hx2 : evalExpr c b s1 with
          | error err => right; rfl
          | ok p2 =>
            obtain ⟨vb, s2⟩ := p2
            right
            simp only [mapR_ok, arithVals_ren]
  | mul a b iha ihb =>
    intro s
    simp only [renExpr, evalExpr]
    rcases iha he.1 s with ⟨m, hm⟩ | hy
    · left; rw [hm]; exact ⟨m, rfl⟩
    · rw [hy]
      cases hx : evalExpr c a s with
      | error err => right; rfl
      | ok p =>
        obtain ⟨va, s1⟩ := p
        simp only [mapR_ok]
        rcases ihb he.2 s1 with ⟨m, hm⟩ | hy2
        · left; rw [hm]; exact ⟨m, rfl⟩
        · rw [hy2]
          cases hx2 : evalExpr c b s1 with
          | error err => right; rfl
          | ok p2 =>
            obtain ⟨vb, s2⟩ := p2
            right
            simp only [mapR_ok, arithVals_ren]

end SnowModel.L2
