/-
A syntactic sufficient condition for `CleanCuts`: if every `just_once` template of the recipe (at any
depth) has literal fields only (`LitOnce`), every state a run reaches at an iteration boundary has
clean persistent rows.

Part 1 (`Keep`): the non-recursive evaluators never touch the rows nor the persistent bindings.
Part 2 (`PInv`, `PFrame`): one simultaneous induction on fuel over the mutual block.
-/
import SnowModel.Proofs.L2Split
import SnowModel.Proofs.L2Refs1

namespace SnowModel.L2

/-! ### `Keep`: rows and persistent bindings untouched -/

/-- same rows, same persistent bindings -/
def Keep (s s' : St) : Prop := s'.rows = s.rows ∧ s'.pNick = s.pNick ∧ s'.pTable = s.pTable

theorem Keep.refl (s : St) : Keep s s := ⟨rfl, rfl, rfl⟩

theorem Keep.trans {a b c : St} (h1 : Keep a b) (h2 : Keep b c) : Keep a c :=
  ⟨h2.1.trans h1.1, h2.2.1.trans h1.2.1, h2.2.2.trans h1.2.2⟩

theorem freshId_keep (s : St) (t : String) : Keep s (freshId s t).2 := ⟨rfl, rfl, rfl⟩

theorem slotId_keep {s s' : St} {n : String} {i : Nat} (h : slotId s n = .ok (i, s')) : Keep s s' := by
  unfold slotId at h
  split at h
  · cases h
  · simp only [freshId, Except.ok.injEq, Prod.mk.injEq] at h
    obtain ⟨-, rfl⟩ := h
    exact ⟨rfl, rfl, rfl⟩
  · simp only [Except.ok.injEq, Prod.mk.injEq] at h
    obtain ⟨-, rfl⟩ := h
    exact Keep.refl _
  · simp only [Except.ok.injEq, Prod.mk.injEq] at h
    obtain ⟨-, rfl⟩ := h
    exact Keep.refl _

theorem consume_keep {s s' : St} {n t : String} {i : Nat} (h : consume s n t = some (i, s')) :
    Keep s s' := by
  unfold consume at h
  split at h
  · split at h
    · simp only [Option.some.injEq, Prod.mk.injEq] at h
      obtain ⟨-, rfl⟩ := h
      exact ⟨rfl, rfl, rfl⟩
    · cases h
  · cases h

theorem generateId_keep (s : St) (t : String) (nk : Option String) : Keep s (generateId s t nk).2 := by
  unfold generateId
  split
  · next r hr =>
    cases nk with
    | none => simp at hr
    | some n =>
      obtain ⟨i, s'⟩ := r
      exact consume_keep (by simpa using hr)
  · split
    · next r hr =>
      obtain ⟨i, s'⟩ := r
      exact consume_keep hr
    · exact freshId_keep _ _
theorem evalExpr_keep (c : Ctx) (e : Expr) : ∀ {s s' : St} {v : Val},
    evalExpr c e s = .ok (v, s') → Keep s s' := by
  induction e with
  | int n =>
    intro s s' v h
    simp only [evalExpr, Except.ok.injEq, Prod.mk.injEq] at h
    obtain ⟨-, rfl⟩ := h; exact Keep.refl _
  | name n =>
    intro s s' v h
    simp only [evalExpr] at h
    split at h <;> simp_all [Keep]
  | attr e f ih =>
    intro s s' v h
    simp only [evalExpr] at h
    split at h
    · cases h
    · cases h
    · next h0 s1 he =>
      split at h
      · cases h
      · simp only [Except.ok.injEq, Prod.mk.injEq] at h
        obtain ⟨-, rfl⟩ := h; exact ih he
    · next n s1 he =>
      split at h
      · split at h
        · cases h
        · next i s2 hs =>
          simp only [Except.ok.injEq, Prod.mk.injEq] at h
          obtain ⟨-, rfl⟩ := h; exact (ih he).trans (slotId_keep hs)
      · split at h
        · cases h
        · simp only [Except.ok.injEq, Prod.mk.injEq] at h
          obtain ⟨-, rfl⟩ := h; exact ih he
    · next tb i s1 he =>
      split at h
      · split at h
        · simp only [Except.ok.injEq, Prod.mk.injEq] at h
          obtain ⟨-, rfl⟩ := h; exact ih he
        · cases h
      · split at h
        · cases h
        · simp only [Except.ok.injEq, Prod.mk.injEq] at h
          obtain ⟨-, rfl⟩ := h; exact ih he
    · cases h
    · next v1 s1 _ _ _ _ _ he =>
      simp only [Except.ok.injEq, Prod.mk.injEq] at h
      obtain ⟨-, rfl⟩ := h; exact ih he
  | add a b iha ihb =>
    intro s s' v h
    simp only [evalExpr] at h
    split at h
    · cases h
    · next va s1 ha =>
      split at h
      · cases h
      · next vb s2 hb =>
        have := arithVals_eq h; subst this
        exact (iha ha).trans (ihb hb)
  | sub a b iha ihb =>
    intro s s' v h
    simp only [evalExpr] at h
    split at h
    · cases h
    · next va s1 ha =>
      split at h
      · cases h
      · next vb s2 hb =>
        have := arithVals_eq h; subst this
        exact (iha ha).trans (ihb hb)
  | mul a b iha ihb =>
    intro s s' v h
    simp only [evalExpr] at h
    split at h
    · cases h
    · next va s1 ha =>
      split at h
      · cases h
      · next vb s2 hb =>
        have := arithVals_eq h; subst this
        exact (iha ha).trans (ihb hb)

theorem renderParts_keep (c : Ctx) (ps : List Part) : ∀ {s s' : St} {vs : List Val},
    renderParts c ps s = .ok (vs, s') → Keep s s' := by
  induction ps with
  | nil =>
    intro s s' vs h
    simp only [renderParts, Except.ok.injEq, Prod.mk.injEq] at h
    obtain ⟨-, rfl⟩ := h; exact Keep.refl _
  | cons p ps ih =>
    intro s s' vs h
    cases p with
    | text t =>
      simp only [renderParts] at h
      split at h
      · cases h
      · next vs1 s1 hp =>
        simp only [Except.ok.injEq, Prod.mk.injEq] at h
        obtain ⟨-, rfl⟩ := h; exact ih hp
    | expr e =>
      simp only [renderParts] at h
      split at h
      · cases h
      · next v s1 he =>
        split at h
        · cases h
        · next vs1 s2 hp =>
          simp only [Except.ok.injEq, Prod.mk.injEq] at h
          obtain ⟨-, rfl⟩ := h; exact (evalExpr_keep c e he).trans (ih hp)

theorem renderTmpl_keep {c : Ctx} {parts : List Part} {s s' : St} {v : Val}
    (h : renderTmpl c parts s = .ok (v, s')) : Keep s s' := by
  unfold renderTmpl at h
  simp only at h
  split at h
  · split at h
    · simp only [Except.ok.injEq, Prod.mk.injEq] at h
      obtain ⟨-, rfl⟩ := h; exact Keep.refl _
    · split at h
      · simp only [Except.ok.injEq, Prod.mk.injEq] at h
        obtain ⟨-, rfl⟩ := h; exact Keep.refl _
      · cases h
  · split at h
    · split at h
      · split at h
        · cases h
        · cases h
        · next raw s1 he =>
          split at h
          · simp only [Except.ok.injEq, Prod.mk.injEq] at h
            obtain ⟨-, rfl⟩ := h; exact evalExpr_keep _ _ he
          · cases h
        · next v1 s1 _ _ he =>
          simp only [Except.ok.injEq, Prod.mk.injEq] at h
          obtain ⟨-, rfl⟩ := h; exact evalExpr_keep _ _ he
      · split at h
        · cases h
        · next vs s1 hp =>
          split at h
          · cases h
          · split at h
            · cases h
            · split at h
              · simp only [Except.ok.injEq, Prod.mk.injEq] at h
                obtain ⟨-, rfl⟩ := h; exact renderParts_keep _ _ hp
              · cases h
    · split at h
      · cases h
      · next vs s1 hp =>
        split at h
        · cases h
        · split at h
          · simp only [Except.ok.injEq, Prod.mk.injEq] at h
            obtain ⟨-, rfl⟩ := h; exact renderParts_keep _ _ hp
          · cases h

theorem renderRef_walk_keep (ps : List String) : ∀ {t v : Val} {s s' : St},
    renderRef.walk t ps s = .ok (v, s') → Keep s s' := by
  induction ps with
  | nil =>
    intro t v s s' h
    simp only [renderRef.walk, Except.ok.injEq, Prod.mk.injEq] at h
    obtain ⟨-, rfl⟩ := h; exact Keep.refl _
  | cons p ps ih =>
    intro t v s s' h
    simp only [renderRef.walk] at h
    split at h
    · split at h
      · exact ih h
      · cases h
    · split at h
      · split at h
        · cases h
        · next i s1 hs => exact (slotId_keep hs).trans (ih h)
      · split at h <;> cases h
    · split at h
      · split at h
        · exact ih h
        · cases h
      · split at h <;> cases h
    · cases h
    · cases h
    · cases h

theorem renderRef_keep {c : Ctx} {path : List String} {s s' : St} {v : Val}
    (h : renderRef c path s = .ok (v, s')) : Keep s s' := by
  unfold renderRef at h
  split at h
  · cases h
  · split at h
    · cases h
    · split at h
      · cases h
      · next t s1 hw =>
        have hws := renderRef_walk_keep _ hw
        split at h
        · split at h
          · cases h
          · next i s2 hs =>
            simp only [Except.ok.injEq, Prod.mk.injEq] at h
            obtain ⟨-, rfl⟩ := h; exact hws.trans (slotId_keep hs)
        · simp only [Except.ok.injEq, Prod.mk.injEq] at h
          obtain ⟨-, rfl⟩ := h; exact hws
        · split at h
          · simp only [Except.ok.injEq, Prod.mk.injEq] at h
            obtain ⟨-, rfl⟩ := h; exact hws
          · cases h
        · cases h
        · cases h
        · split at h <;> cases h
        · split at h <;> cases h
        · split at h <;> cases h

theorem canon_keep {s s' : St} {v : Val} {o : OVal} (h : canon s v = .ok (o, s')) : Keep s s' := by
  unfold canon at h
  split at h
  · simp only [Except.ok.injEq, Prod.mk.injEq] at h; obtain ⟨-, rfl⟩ := h; exact Keep.refl _
  · simp only [Except.ok.injEq, Prod.mk.injEq] at h; obtain ⟨-, rfl⟩ := h; exact Keep.refl _
  · simp only [Except.ok.injEq, Prod.mk.injEq] at h; obtain ⟨-, rfl⟩ := h; exact Keep.refl _
  · simp only [Except.ok.injEq, Prod.mk.injEq] at h; obtain ⟨-, rfl⟩ := h; exact Keep.refl _
  · cases h
  · split at h
    · simp only [Except.ok.injEq, Prod.mk.injEq] at h; obtain ⟨-, rfl⟩ := h; exact Keep.refl _
    · cases h
  · split at h
    · cases h
    · next i s1 hs =>
      simp only [Except.ok.injEq, Prod.mk.injEq] at h; obtain ⟨-, rfl⟩ := h; exact slotId_keep hs
  · split at h
    · simp only [Except.ok.injEq, Prod.mk.injEq] at h; obtain ⟨-, rfl⟩ := h; exact Keep.refl _
    · cases h

theorem canonFields_keep (vs : List (String × Val)) : ∀ {s s' : St} {os : List (String × OVal)},
    canonFields vs s = .ok (os, s') → Keep s s' := by
  induction vs with
  | nil =>
    intro s s' os h
    simp only [canonFields, Except.ok.injEq, Prod.mk.injEq] at h
    obtain ⟨-, rfl⟩ := h; exact Keep.refl _
  | cons p vs ih =>
    intro s s' os h
    obtain ⟨k, v⟩ := p
    simp only [canonFields] at h
    split at h
    · exact ih h
    · split at h
      · cases h
      · next o s1 hc =>
        split at h
        · cases h
        · next os1 s2 hr =>
          simp only [Except.ok.injEq, Prod.mk.injEq] at h
          obtain ⟨-, rfl⟩ := h; exact (canon_keep hc).trans (ih hr)


theorem writeRow_keep {t : Template} {h : Nat} {s6 s8 : St} {u : Unit}
    (hw : writeRow t h s6 = .ok (u, s8)) : Keep s6 s8 := by
  unfold writeRow at hw
  split at hw
  · simp only [Except.ok.injEq, Prod.mk.injEq] at hw
    obtain ⟨-, rfl⟩ := hw; exact Keep.refl _
  · split at hw
    · cases hw
    · next fs s7 hc =>
      simp only [Except.ok.injEq, Prod.mk.injEq] at hw
      obtain ⟨-, rfl⟩ := hw
      have hk := canonFields_keep _ hc
      exact ⟨hk.1, hk.2.1, hk.2.2⟩

/-! ### the syntactic condition -/


theorem litOnce_nested {t : Template} (h : LitOnceFd (.nested t) = true) : LitOnceFd.LitOnceT t = true := by
  simpa [LitOnceFd] using h

theorem litOnceT_parts {t : Template} (h : LitOnceFd.LitOnceT t = true) :
    (∀ fd, t.count = some fd → LitOnceFd fd = true) ∧ (t.justOnce = true → allLit t.fields = true) ∧
    LitOnceFd.LitOnceFields t.fields = true ∧ LitOnceFd.LitOnceStmts t.friends = true := by
  cases t with
  | mk a b jo cnt e f =>
    cases cnt with
    | none =>
      simp only [LitOnceFd.LitOnceT, Bool.and_eq_true, Bool.or_eq_true, Bool.not_eq_true', Bool.true_and] at h
      obtain ⟨⟨h2, h3⟩, h4⟩ := h
      refine ⟨?_, ?_, h3, h4⟩
      · intro fd hc
        simp [Template.count] at hc
      · intro hj
        simp only [Template.justOnce] at hj
        rcases h2 with h2 | h2
        · rw [hj] at h2; cases h2
        · exact h2
    | some fd0 =>
      simp only [LitOnceFd.LitOnceT, Bool.and_eq_true, Bool.or_eq_true, Bool.not_eq_true'] at h
      obtain ⟨⟨⟨h1, h2⟩, h3⟩, h4⟩ := h
      refine ⟨?_, ?_, h3, h4⟩
      · intro fd hc
        simp only [Template.count, Option.some.injEq] at hc
        rw [← hc]
        exact h1
      · intro hj
        simp only [Template.justOnce] at hj
        rcases h2 with h2 | h2
        · rw [hj] at h2; cases h2
        · exact h2

/-! ### the invariant: persistent handles are in range and their rows are clean -/

def pHandles (s : St) : List Nat := (s.pNick ++ s.pTable).map (·.2)

def cleanRow (r : RowData) : Prop := ∀ q ∈ r.values, plainVal q.2 = true

def PInv (s : St) : Prop := ∀ h ∈ pHandles s, h < s.rows.length ∧ cleanRow (rowData s h)

/-- new persistent handles are new rows -/
def PFrame (s s' : St) : Prop :=
  (∀ h ∈ pHandles s', h ∈ pHandles s ∨ s.rows.length ≤ h) ∧ s.rows.length ≤ s'.rows.length

theorem PFrame.refl (s : St) : PFrame s s := ⟨fun _ h => Or.inl h, Nat.le_refl _⟩

theorem PFrame.trans {a b c : St} (h1 : PFrame a b) (h2 : PFrame b c) : PFrame a c := by
  refine ⟨?_, Nat.le_trans h1.2 h2.2⟩
  intro h hh
  rcases h2.1 h hh with h' | h'
  · exact h1.1 h h'
  · exact Or.inr (Nat.le_trans h1.2 h')

theorem PFrame.notMem {s s' : St} (hf : PFrame s s') {h : Nat} (hlt : h < s.rows.length)
    (hn : h ∉ pHandles s) : h < s'.rows.length ∧ h ∉ pHandles s' := by
  refine ⟨Nat.lt_of_lt_of_le hlt hf.2, ?_⟩
  intro hm
  rcases hf.1 h hm with h' | h'
  · exact hn h'
  · omega

theorem Keep.pinv {s s' : St} (hk : Keep s s') (hi : PInv s) : PInv s' := by
  intro h hh
  have e1 : pHandles s' = pHandles s := by unfold pHandles; rw [hk.2.1, hk.2.2]
  have e2 : rowData s' h = rowData s h := by unfold rowData; rw [hk.1]
  rw [e1] at hh
  rw [hk.1, e2]
  exact hi h hh

theorem Keep.pframe {s s' : St} (hk : Keep s s') : PFrame s s' := by
  have e1 : pHandles s' = pHandles s := by unfold pHandles; rw [hk.2.1, hk.2.2]
  refine ⟨fun h hh => Or.inl (e1 ▸ hh), ?_⟩
  rw [hk.1]; exact Nat.le_refl _

theorem PInv.toPersistClean {s : St} (hi : PInv s) : PersistClean s := by
  unfold PersistClean persistClean
  simp only [List.all_eq_true]
  intro p hp q hq
  exact (hi p.2 (List.mem_map_of_mem hp)).2 q hq

/-! ### values of literals -/

theorem lookForNumber_plain {a : String} {v : Val} (h : lookForNumber a = .ok v) : plainVal v = true := by
  unfold lookForNumber at h
  simp only at h
  repeat' split at h
  all_goals (cases h <;> rfl)

theorem renderFd_lit {fuel : Nat} {c : Ctx} {l : Lit} {s s' : St} {v : Val}
    (h : renderFd fuel c (.lit l) s = .ok (v, s')) : s' = s ∧ plainVal v = true := by
  cases fuel with
  | zero => rw [renderFd_zero] at h; cases h
  | succ fuel =>
    cases l with
    | str x =>
      simp only [renderFd] at h
      split at h
      · simp only [Except.ok.injEq, Prod.mk.injEq] at h
        obtain ⟨rfl, rfl⟩ := h; exact ⟨rfl, rfl⟩
      · split at h
        · next v' hv =>
          simp only [Except.ok.injEq, Prod.mk.injEq] at h
          obtain ⟨rfl, rfl⟩ := h; exact ⟨rfl, lookForNumber_plain hv⟩
        · cases h
    | int n =>
      simp only [renderFd, Except.ok.injEq, Prod.mk.injEq] at h
      obtain ⟨rfl, rfl⟩ := h; exact ⟨rfl, rfl⟩
    | bool b =>
      simp only [renderFd, Except.ok.injEq, Prod.mk.injEq] at h
      obtain ⟨rfl, rfl⟩ := h; exact ⟨rfl, rfl⟩
    | null =>
      simp only [renderFd, Except.ok.injEq, Prod.mk.injEq] at h
      obtain ⟨rfl, rfl⟩ := h; exact ⟨rfl, rfl⟩

/-! ### `setRowValue` -/

theorem rowData_setRowValue (s : St) (h : Nat) (k : String) (v : Val) (h' : Nat) :
    rowData (setRowValue s h k v) h' = rowData s h' ∨
    (h' = h ∧ rowData (setRowValue s h k v) h' =
      { rowData s h' with values := aset (rowData s h').values k v }) := by
  unfold rowData setRowValue
  simp only [List.getD_eq_getElem?_getD, List.getElem?_mapIdx]
  cases hr : s.rows[h']? with
  | none => left; rfl
  | some r =>
    by_cases hh : h' = h
    · right; exact ⟨hh, by simp [hh]⟩
    · left; simp [hh]

theorem pHandles_setRowValue (s : St) (h : Nat) (k : String) (v : Val) :
    pHandles (setRowValue s h k v) = pHandles s := rfl

theorem length_setRowValue (s : St) (h : Nat) (k : String) (v : Val) :
    (setRowValue s h k v).rows.length = s.rows.length := by
  simp [setRowValue]

theorem setRowValue_frame (s : St) (h : Nat) (k : String) (v : Val) : PFrame s (setRowValue s h k v) :=
  ⟨fun _ hh => Or.inl hh, by rw [length_setRowValue]; exact Nat.le_refl _⟩

theorem setRowValue_pinv_notMem {s : St} {h : Nat} (k : String) (v : Val) (hn : h ∉ pHandles s)
    (hi : PInv s) : PInv (setRowValue s h k v) := by
  intro h' hh'
  rw [pHandles_setRowValue] at hh'
  rw [length_setRowValue]
  refine ⟨(hi h' hh').1, ?_⟩
  rcases rowData_setRowValue s h k v h' with e | ⟨e, -⟩
  · rw [e]; exact (hi h' hh').2
  · subst e; exact absurd hh' hn

theorem setRowValue_pinv_plain {s : St} (h : Nat) (k : String) {v : Val} (hv : plainVal v = true)
    (hi : PInv s) : PInv (setRowValue s h k v) := by
  intro h' hh'
  rw [pHandles_setRowValue] at hh'
  rw [length_setRowValue]
  refine ⟨(hi h' hh').1, ?_⟩
  rcases rowData_setRowValue s h k v h' with e | ⟨-, e⟩
  · rw [e]; exact (hi h' hh').2
  · rw [e]
    intro q hq
    rcases mem_aset hq with hq | hq
    · exact (hi h' hh').2 q hq
    · subst hq; exact hv

/-- fields that are all literals keep the invariant, whatever the row -/
theorem execFields_lit (fs : List (String × FieldDef)) : ∀ (fuel : Nat) (c : Ctx) (h : Nat) (s : St) (u : Unit) (s' : St),
    allLit fs = true → execFields fuel c h fs s = .ok (u, s') → PInv s → PInv s' ∧ PFrame s s' := by
  induction fs with
  | nil =>
    intro fuel c h s u s' _ he hi
    cases fuel with
    | zero => rw [execFields_zero] at he; cases he
    | succ fuel =>
      rw [execFields_nil] at he
      simp only [Except.ok.injEq, Prod.mk.injEq] at he
      obtain ⟨-, rfl⟩ := he
      exact ⟨hi, PFrame.refl _⟩
  | cons p rest ih =>
    intro fuel c h s u s' hl he hi
    obtain ⟨name, fd⟩ := p
    cases fuel with
    | zero => rw [execFields_zero] at he; cases he
    | succ fuel =>
      simp only [allLit, List.all_cons, Bool.and_eq_true] at hl
      obtain ⟨hl1, hl2⟩ := hl
      cases fd with
      | lit l =>
        rw [execFields_cons] at he
        split at he
        · cases he
        · next v s1 hfd =>
          obtain ⟨rfl, hv⟩ := renderFd_lit hfd
          obtain ⟨i2, f2⟩ := ih fuel c h _ u s' hl2 he (setRowValue_pinv_plain h name hv hi)
          exact ⟨i2, (setRowValue_frame _ h name v).trans f2⟩
      | tmpl ps => simp at hl1
      | ref path => simp at hl1
      | nested t => simp at hl1

/-! ### a new row -/

/-- the row a template appends before its fields are evaluated -/
def newRow (s : St) (t : Template) (i : Nat) : RowData :=
  { table := t.table, idx := i, values := [("id", Val.int (generateId s t.table t.nick).1)] }

theorem regState_shape (s : St) (t : Template) (i : Nat) :
    (regState s t i).rows = s.rows ++ [newRow s t i] ∧
    (regState s t i).pNick =
      (if t.justOnce then (match t.nick with | some nk => aset s.pNick nk s.rows.length | none => s.pNick)
       else s.pNick) ∧
    (regState s t i).pTable = (if t.justOnce then aset s.pTable t.table s.rows.length else s.pTable) := by
  have hk := generateId_keep s t.table t.nick
  obtain ⟨h1, h2, h3⟩ := hk
  unfold regState newRow
  simp only
  generalize generateId s t.table t.nick = g at h1 h2 h3 ⊢
  cases t.nick <;> cases t.justOnce <;> simp [h1, h2, h3]

theorem rowData_append_lt {rows : List RowData} {rd : RowData} {h : Nat} (hl : h < rows.length) :
    (rows ++ [rd]).getD h default = rows.getD h default := by
  simp [List.getD_eq_getElem?_getD, List.getElem?_append_left hl]

theorem regState_pinv (s : St) (t : Template) (i : Nat) (hi : PInv s) :
    PInv (regState s t i) ∧ PFrame s (regState s t i) ∧
    (t.justOnce = false → s.rows.length ∉ pHandles (regState s t i)) := by
  obtain ⟨e1, e2, e3⟩ := regState_shape s t i
  have hlen := regState_rows s t i
  -- every persistent handle of the new state is an old one or the new row
  have hmem : ∀ h ∈ pHandles (regState s t i), h ∈ pHandles s ∨ (h = s.rows.length ∧ t.justOnce = true) := by
    intro h hh
    unfold pHandles at hh ⊢
    rw [e2, e3] at hh
    cases hj : t.justOnce with
    | false =>
      rw [hj] at hh
      exact Or.inl hh
    | true =>
      rw [hj] at hh
      simp only [if_true, List.map_append, List.mem_append, List.mem_map] at hh ⊢
      rcases hh with ⟨p, hp, rfl⟩ | ⟨p, hp, rfl⟩
      · cases hn : t.nick with
        | none => rw [hn] at hp; exact Or.inl (Or.inl ⟨p, hp, rfl⟩)
        | some nk =>
          rw [hn] at hp
          rcases mem_aset hp with hp | hp
          · exact Or.inl (Or.inl ⟨p, hp, rfl⟩)
          · subst hp; exact Or.inr ⟨rfl, by first | rfl | trivial⟩
      · rcases mem_aset hp with hp | hp
        · exact Or.inl (Or.inr ⟨p, hp, rfl⟩)
        · subst hp; exact Or.inr ⟨rfl, by first | rfl | trivial⟩
  refine ⟨?_, ⟨?_, by omega⟩, ?_⟩
  · intro h hh
    rcases hmem h hh with hold | ⟨rfl, -⟩
    · obtain ⟨hlt, hcl⟩ := hi h hold
      refine ⟨by omega, ?_⟩
      have : rowData (regState s t i) h = rowData s h := by
        unfold rowData; rw [e1]; exact rowData_append_lt hlt
      rw [this]; exact hcl
    · refine ⟨by omega, ?_⟩
      have : rowData (regState s t i) s.rows.length = newRow s t i := by
        unfold rowData; rw [e1]; simp [List.getD_eq_getElem?_getD]
      rw [this]
      intro q hq
      simp only [newRow, List.mem_singleton] at hq
      subst hq; rfl
  · intro h hh
    rcases hmem h hh with hold | ⟨rfl, -⟩
    · exact Or.inl hold
    · exact Or.inr (Nat.le_refl _)
  · intro hj hm
    rcases hmem _ hm with hold | ⟨-, hj'⟩
    · have := (hi _ hold).1; omega
    · rw [hj] at hj'; cases hj'

/-! ### the simultaneous induction -/

def PAll (fuel : Nat) : Prop :=
  (∀ c fd s v s', LitOnceFd fd = true → renderFd fuel c fd s = .ok (v, s') → PInv s → PInv s' ∧ PFrame s s') ∧
  (∀ c t s r s', LitOnceFd.LitOnceT t = true → execTemplate fuel c t s = .ok (r, s') → PInv s →
    PInv s' ∧ PFrame s s') ∧
  (∀ c t i n last s r s', LitOnceFd.LitOnceT t = true → execRows fuel c t i n last s = .ok (r, s') → PInv s →
    PInv s' ∧ PFrame s s') ∧
  (∀ c t i s r s', LitOnceFd.LitOnceT t = true → execRow fuel c t i s = .ok (r, s') → PInv s →
    PInv s' ∧ PFrame s s') ∧
  (∀ c h fs s u s', LitOnceFd.LitOnceFields fs = true → h < s.rows.length → h ∉ pHandles s →
    execFields fuel c h fs s = .ok (u, s') → PInv s → PInv s' ∧ PFrame s s') ∧
  (∀ c sts cont s c' s', LitOnceFd.LitOnceStmts sts = true → execStmts fuel c sts cont s = .ok (c', s') → PInv s →
    PInv s' ∧ PFrame s s')

theorem pAll (fuel : Nat) : PAll fuel := by
  induction fuel with
  | zero =>
    refine ⟨?_, ?_, ?_, ?_, ?_, ?_⟩
    · intro c fd s v s' _ h; rw [renderFd_zero] at h; cases h
    · intro c t s r s' _ h; rw [execTemplate_zero] at h; cases h
    · intro c t i n last s r s' _ h; rw [execRows_zero] at h; cases h
    · intro c t i s r s' _ h; rw [execRow_zero] at h; cases h
    · intro c hd fs s u s' _ _ _ h; rw [execFields_zero] at h; cases h
    · intro c sts cont s c' s' _ h; rw [execStmts_zero] at h; cases h
  | succ fuel ih =>
    obtain ⟨ihFd, ihT, ihRows, ihRow, ihF, ihS⟩ := ih
    refine ⟨?_, ?_, ?_, ?_, ?_, ?_⟩
    · intro c fd s v s' hl h hi
      cases fd with
      | lit l =>
        obtain ⟨rfl, -⟩ := renderFd_lit h
        exact ⟨hi, PFrame.refl _⟩
      | tmpl parts =>
        simp only [renderFd] at h
        exact ⟨(renderTmpl_keep h).pinv hi, (renderTmpl_keep h).pframe⟩
      | ref path =>
        simp only [renderFd] at h
        exact ⟨(renderRef_keep h).pinv hi, (renderRef_keep h).pframe⟩
      | nested t =>
        have hlt := litOnce_nested hl
        simp only [renderFd] at h
        split at h
        · cases h
        · next s1 ht =>
          simp only [Except.ok.injEq, Prod.mk.injEq] at h
          obtain ⟨-, rfl⟩ := h; exact ihT _ _ _ _ _ hlt ht hi
        · next hh s1 ht =>
          simp only [Except.ok.injEq, Prod.mk.injEq] at h
          obtain ⟨-, rfl⟩ := h; exact ihT _ _ _ _ _ hlt ht hi
    · intro c t s r s' hl h hi
      rw [execTemplate_succ] at h
      split at h
      · cases h
      · next n s1 hcnt =>
        have h1 : PInv s1 ∧ PFrame s s1 := by
          split at hcnt
          · simp only [Except.ok.injEq, Prod.mk.injEq] at hcnt
            obtain ⟨-, rfl⟩ := hcnt; exact ⟨hi, PFrame.refl _⟩
          · next fd hfdc =>
            split at hcnt
            · cases hcnt
            · next v s2 hfd =>
              split at hcnt
              · cases hcnt
              · simp only [Except.ok.injEq, Prod.mk.injEq] at hcnt
                obtain ⟨-, rfl⟩ := hcnt
                exact ihFd _ _ _ _ _ ((litOnceT_parts hl).1 fd hfdc) hfd hi
        obtain ⟨i2, f2⟩ := ihRows _ _ _ _ _ _ _ _ hl h h1.1
        exact ⟨i2, h1.2.trans f2⟩
    · intro c t i n last s r s' hl h hi
      rw [execRows_succ] at h
      split at h
      · simp only [Except.ok.injEq, Prod.mk.injEq] at h
        obtain ⟨-, rfl⟩ := h; exact ⟨hi, PFrame.refl _⟩
      · split at h
        · cases h
        · next hh c2 s1 hrow =>
          obtain ⟨i1, f1⟩ := ihRow _ _ _ _ _ _ hl hrow hi
          obtain ⟨i2, f2⟩ := ihRows _ _ _ _ _ _ _ _ hl h i1
          exact ⟨i2, f1.trans f2⟩
    · intro c t i s r s' hl h hi
      obtain ⟨-, hjl, hlf, hlfr⟩ := litOnceT_parts hl
      rw [execRow_succ] at h
      split at h
      · cases h
      · next u6 s6 hf =>
        split at h
        · cases h
        · next u8 s8 hw =>
          split at h
          · cases h
          · next c2 s9 hs =>
            simp only [Except.ok.injEq, Prod.mk.injEq] at h
            obtain ⟨-, rfl⟩ := h
            obtain ⟨i0, f0, hnm⟩ := regState_pinv s t i hi
            have h6 : PInv s6 ∧ PFrame (regState s t i) s6 := by
              cases hj : t.justOnce with
              | true => exact execFields_lit _ _ _ _ _ _ _ (hjl hj) hf i0
              | false =>
                exact ihF _ _ _ _ _ _ hlf (by rw [regState_rows]; exact Nat.lt_succ_self _) (hnm hj) hf i0
            have hk := writeRow_keep hw
            obtain ⟨i9, f9⟩ := ihS _ _ _ _ _ _ hlfr hs (hk.pinv h6.1)
            exact ⟨i9, f0.trans (h6.2.trans (hk.pframe.trans f9))⟩
    · intro c hd fs s u s' hl hlt hn h hi
      cases fs with
      | nil =>
        rw [execFields_nil] at h
        simp only [Except.ok.injEq, Prod.mk.injEq] at h
        obtain ⟨-, rfl⟩ := h; exact ⟨hi, PFrame.refl _⟩
      | cons p rest =>
        obtain ⟨name, fd⟩ := p
        simp only [LitOnceFd.LitOnceFields, Bool.and_eq_true] at hl
        rw [execFields_cons] at h
        split at h
        · cases h
        · next v s1 hfd =>
          obtain ⟨i1, f1⟩ := ihFd _ _ _ _ _ hl.1 hfd hi
          obtain ⟨hlt1, hn1⟩ := f1.notMem hlt hn
          obtain ⟨i2, f2⟩ := ihF _ _ _ _ _ _ hl.2 (by rw [length_setRowValue]; exact hlt1)
            (by rw [pHandles_setRowValue]; exact hn1) h (setRowValue_pinv_notMem name v hn1 i1)
          exact ⟨i2, f1.trans ((setRowValue_frame s1 hd name v).trans f2)⟩
    · intro c sts cont s c' s' hl h hi
      cases sts with
      | nil =>
        rw [execStmts_nil] at h
        simp only [Except.ok.injEq, Prod.mk.injEq] at h
        obtain ⟨-, rfl⟩ := h; exact ⟨hi, PFrame.refl _⟩
      | cons st rest =>
        cases st with
        | var name fd =>
          simp only [LitOnceFd.LitOnceStmts, Bool.and_eq_true] at hl
          rw [execStmts_var] at h
          split at h
          · cases h
          · next v s1 hfd =>
            obtain ⟨i1, f1⟩ := ihFd _ _ _ _ _ hl.1 hfd hi
            obtain ⟨i2, f2⟩ := ihS _ _ _ _ _ _ hl.2 h i1
            exact ⟨i2, f1.trans f2⟩
        | obj t =>
          simp only [LitOnceFd.LitOnceStmts, Bool.and_eq_true] at hl
          rw [execStmts_obj] at h
          split at h
          · exact ihS _ _ _ _ _ _ hl.2 h hi
          · split at h
            · cases h
            · next r s1 ht =>
              obtain ⟨i1, f1⟩ := ihT _ _ _ _ _ hl.1 ht hi
              obtain ⟨i2, f2⟩ := ihS _ _ _ _ _ _ hl.2 h i1
              exact ⟨i2, f1.trans f2⟩

/-! ### whole runs -/

theorem plainVal_freeze (s : St) (v : Val) : plainVal (freezeVal s v) = plainVal v := by
  cases v <;> rfl

theorem resetSlots_pinv {s : St} (hi : PInv s) : PInv (resetSlots s) := by
  intro h hh
  have hh' : h ∈ pHandles s := hh
  obtain ⟨hlt, hcl⟩ := hi h hh'
  refine ⟨by rw [(resetSlots_same s).2]; exact hlt, ?_⟩
  have : rowData (resetSlots s) h =
      { rowData s h with values := (rowData s h).values.map (fun p => (p.1, freezeVal s p.2)) } := by
    unfold rowData resetSlots freezeRows
    simp [List.getD_eq_getElem?_getD, hlt]
  rw [this]
  intro q hq
  simp only [List.mem_map] at hq
  obtain ⟨p, hp, rfl⟩ := hq
  simp only [plainVal_freeze]
  exact hcl p hp

theorem initSt_pinv (r : Recipe) : PInv (initSt r) := by
  intro h hh
  simp [pHandles, initSt] at hh

theorem iterations_pinv (fuel : Nat) (r : Recipe) (hl : LitOnce r) (k : Nat) :
    ∀ (c : Ctx) (cont : Bool) (s : St) (c' : Ctx) (s' : St),
      iterations fuel r k c cont s = .ok (c', s') → PInv s → PInv s' := by
  induction k with
  | zero =>
    intro c cont s c' s' h hi
    simp only [iterations, Except.ok.injEq, Prod.mk.injEq] at h
    obtain ⟨-, rfl⟩ := h; exact hi
  | succ k ih =>
    intro c cont s c' s' h hi
    rw [iterations_succ] at h
    split at h
    · cases h
    · next c1 s1 hs =>
      split at h
      · cases h
      · exact ih _ _ _ _ _ h (resetSlots_pinv ((pAll fuel).2.2.2.2.2 _ _ _ _ _ _ hl hs hi).1)

/-- under `LitOnce` every cut is clean, wherever the cuts are -/
theorem cleanCuts_of_pinv (fuel : Nat) (r : Recipe) (hl : LitOnce r) (fs : Bool) (parts : List Nat) :
    ∀ (cont : Bool) (s : St), PInv s → CleanCuts fuel r fs parts cont s := by
  induction parts with
  | nil => intro cont s _; rfl
  | cons k ks ih =>
    intro cont s hi
    rw [CleanCuts.iff_cons]
    intro c1 s1 h1
    have i1 := iterations_pinv fuel r hl k _ _ _ _ _ h1 hi
    exact Or.inr ⟨i1.toPersistClean, ih true s1 i1⟩

end SnowModel.L2
