/-
C13 — helper lemmas, part 3: scramble / unscramble, base-N codes with padding.
-/
import SnowModel.Proofs.C13a
import Mathlib.Data.List.GetD

namespace SnowModel.Proofs.C13
open SnowModel.Uid

/-! ### scramble -/

theorem xor_cancel_right (a b m : Nat) (h : a ^^^ m = b ^^^ m) : a = b := by
  have := congrArg (· ^^^ m) h
  simpa [Nat.xor_assoc] using this

/-- what a successful `scramble` returns, with the side conditions of its two asserts -/
theorem scramble_ok (lg : Nat → Nat) (mask : Nat → Nat → Nat) (n b v : Nat)
    (h : scramble lg mask n b = .ok v) :
    10 ≤ b ∧ numbitsOf lg n b < 1000 ∧
      v = (n / 10 ^^^ mask (n % 10) (numbitsOf lg n b)) * 10000 + (n % 10) * 1000 + numbitsOf lg n b := by
  have s1 : SHIFT1 = 10 := rfl
  have s2 : SHIFT2 = 1000 := rfl
  have s3 : SHIFT3 = 10000 := rfl
  unfold scramble at h
  by_cases h1 : b < 10
  · simp [h1] at h
  · by_cases h2 : numbitsOf lg n b < SHIFT2
    · simp only [h1, h2, if_false, not_true_eq_false, Except.ok.injEq] at h
      rw [s1, s2, s3] at h
      rw [s2] at h2
      exact ⟨by omega, h2, h.symm⟩
    · simp [h1, h2] at h

theorem scramble_injective (lg : Nat → Nat) (mask : Nat → Nat → Nat) (n n' b b' v : Nat)
    (h : scramble lg mask n b = .ok v) (h' : scramble lg mask n' b' = .ok v) : n = n' := by
  obtain ⟨_, hb, e⟩ := scramble_ok lg mask n b v h
  obtain ⟨_, hb', e'⟩ := scramble_ok lg mask n' b' v h'
  have hk : n % 10 < 10 := Nat.mod_lt _ (by decide)
  have hk' : n' % 10 < 10 := Nat.mod_lt _ (by decide)
  generalize hx : (n / 10 ^^^ mask (n % 10) (numbitsOf lg n b)) = x at e
  generalize hy : (n' / 10 ^^^ mask (n' % 10) (numbitsOf lg n' b')) = y at e'
  have e3 : numbitsOf lg n b = numbitsOf lg n' b' := by omega
  have e2 : n % 10 = n' % 10 := by omega
  have e1 : x = y := by omega
  rw [← hx, ← hy, e2, e3] at e1
  have := xor_cancel_right _ _ _ e1
  omega

theorem unscramble_scramble (lg : Nat → Nat) (mask : Nat → Nat → Nat) (n b v : Nat)
    (h : scramble lg mask n b = .ok v) : unscramble mask v = n := by
  obtain ⟨_, hb, e⟩ := scramble_ok lg mask n b v h
  have hk : n % 10 < 10 := Nat.mod_lt _ (by decide)
  generalize hx : (n / 10 ^^^ mask (n % 10) (numbitsOf lg n b)) = x at e
  generalize hnb : numbitsOf lg n b = nb at *
  generalize hkk : n % 10 = k at *
  have a1 : v % 1000 = nb := by omega
  have a2 : ((v - nb) % 10000) / 1000 = k := by omega
  have a3 : (v - nb - k * 1000) / 10000 = x := by omega
  unfold unscramble
  simp only [SHIFT1, SHIFT2, SHIFT3, Nat.reduceMul]
  rw [a1, a2, a3, ← hx]
  rw [Nat.xor_assoc, Nat.xor_self, Nat.xor_zero]
  omega

theorem unscrambleAssertQty_zero (v : Nat) : unscrambleAssertQty v = 0 := by
  unfold unscrambleAssertQty
  simp only [SHIFT1, SHIFT2, SHIFT3, Nat.reduceMul]
  omega

/-- once the number is wide enough the requested minimum no longer matters -/
theorem scramble_minbits_irrelevant (lg : Nat → Nat) (mask : Nat → Nat → Nat) (n b b' : Nat)
    (hb : 10 ≤ b) (hb' : 10 ≤ b') (hn : n / 10 ≠ 0)
    (h1 : effMinbits b ≤ lg (n / 10) + 1) (h2 : effMinbits b' ≤ lg (n / 10) + 1) :
    scramble lg mask n b = scramble lg mask n b' := by
  have e : numbitsOf lg n b = numbitsOf lg n b' := by
    unfold numbitsOf
    simp only [SHIFT1, hn, ne_eq, not_false_eq_true, if_true]
    omega
  unfold scramble
  rw [e]
  have : ¬ b < 10 := by omega
  have : ¬ b' < 10 := by omega
  simp [*]

/-! ### alphabet codes -/

theorem rjust_length_ge {α} (w : Nat) (c : α) (l : List α) : w ≤ (rjust w c l).length := by
  simp [rjust]; omega

theorem rjust_mem {α} (w : Nat) (c : α) (l : List α) (x : α) (h : x ∈ rjust w c l) : x = c ∨ x ∈ l := by
  simp only [rjust, List.mem_append, List.mem_replicate] at h
  rcases h with h | h
  · exact Or.inl h.2
  · exact Or.inr h

theorem getD_mem (al : List Char) (d : Nat) (h : d < al.length) : al.getD d '?' ∈ al := by
  rw [List.getD_eq_getElem _ _ h]
  exact List.getElem_mem h

theorem idxOf_getD (al : List Char) (hnd : al.Nodup) (d : Nat) (h : d < al.length) :
    al.idxOf (al.getD d '?') = d := by
  rw [List.getD_eq_getElem _ _ h]
  exact hnd.idxOf_getElem d h

theorem decode_fold (al : List Char) (hnd : al.Nodup) (ds : List Nat) (hds : ∀ d ∈ ds, d < al.length)
    (a : Nat) :
    (ds.map (fun d => al.getD d '?')).foldl (fun a ch => a * al.length + al.idxOf ch) a
      = ds.foldl (fun a d => a * al.length + d) a := by
  induction ds generalizing a with
  | nil => rfl
  | cons d ds ih =>
    simp only [List.map_cons, List.foldl_cons]
    rw [idxOf_getD al hnd d (hds d (by simp))]
    exact ih (fun x hx => hds x (by simp [hx])) _

theorem decode_pad (al : List Char) (hnd : al.Nodup) (h2 : 2 ≤ al.length) (k : Nat) (rest : List Char) :
    alphaDecode al (List.replicate k (al.getD 0 '?') ++ rest) = alphaDecode al rest := by
  unfold alphaDecode
  rw [List.foldl_append]
  congr 1
  induction k with
  | zero => rfl
  | succ k ih =>
    rw [List.replicate_succ, List.foldl_cons, idxOf_getD al hnd 0 (by omega)]
    simpa using ih

/-- reading a code back gives the number, whatever the padding width -/
theorem alphaDecode_alphaCode (al : List Char) (hnd : al.Nodup) (h2 : 2 ≤ al.length) (m n : Nat) :
    alphaDecode al (alphaCode al m n) = n := by
  unfold alphaCode rjust
  rw [decode_pad al hnd h2]
  unfold alphaDecode alphaEncode
  rw [decode_fold al hnd _ (baseDigits_lt _ h2 n)]
  exact ofBE_baseDigits _ h2 n

theorem alphaCode_mem (al : List Char) (h2 : 2 ≤ al.length) (m n : Nat) :
    ∀ ch ∈ alphaCode al m n, ch ∈ al := by
  intro ch h
  rcases rjust_mem _ _ _ _ h with h | h
  · rw [h]; exact getD_mem al 0 (by omega)
  · unfold alphaEncode at h
    rw [List.mem_map] at h
    obtain ⟨d, hd, rfl⟩ := h
    exact getD_mem al d (baseDigits_lt _ h2 n d hd)

end SnowModel.Proofs.C13
