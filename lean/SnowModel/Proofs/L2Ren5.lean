/-
"Hidden is a projection", part 5: the syntactic conditions on a recipe (`OkFd`, `OkT`, …) and the
invariant `RowsOK` of the original run: every key of a stored row is acceptable to `ρ`, and a slot
stored under a key that `ρ` un-hides already holds an id.  One simultaneous induction on fuel.
-/
import SnowModel.Proofs.L2Ren4

namespace SnowModel.L2
variable {ρ σ : String → String}

/-- a hidden name that `ρ` makes visible -/
def Hid (ρ : String → String) (k : String) : Prop :=
  k.startsWith "__" = true ∧ (ρ k).startsWith "__" = false

/-- the fields whose stored value must never be a slot without id: those the twin writes although
    the original does not (hidden key or hidden table) — or, in mode `all`, every field -/
def Prot (ρ : String → String) (all : Bool) (tb k : String) : Prop :=
  all = true ∨ Hid ρ tb ∨ Hid ρ k

mutual
  def OkFd (ρ : String → String) (v3 all : Bool) : FieldDef → Prop
    | .lit _ => True
    | .tmpl ps => ∀ p ∈ ps, OkPart ρ p
    | .ref path => ∀ p ∈ path.tail, AttrOK ρ p
    | .nested t => OkT ρ v3 all t
  def OkT (ρ : String → String) (v3 all : Bool) : Template → Prop
    | .mk tb _ _ cnt fs fr => VisOK ρ tb ∧ OkOFd ρ v3 all cnt ∧ OkFields ρ v3 all tb fs ∧ OkStmts ρ v3 all fr
  def OkOFd (ρ : String → String) (v3 all : Bool) : Option FieldDef → Prop
    | none => True
    | some fd => OkFd ρ v3 all fd
  def OkFields (ρ : String → String) (v3 all : Bool) (tb : String) : List (String × FieldDef) → Prop
    | [] => True
    | (k, fd) :: r =>
      VisOK ρ k ∧ (Prot ρ all tb k → fdSafe v3 all fd) ∧ OkFd ρ v3 all fd ∧ OkFields ρ v3 all tb r
  def OkStmts (ρ : String → String) (v3 all : Bool) : List Stmt → Prop
    | [] => True
    | st :: r => OkStmt ρ v3 all st ∧ OkStmts ρ v3 all r
  def OkStmt (ρ : String → String) (v3 all : Bool) : Stmt → Prop
    | .var _ fd => OkFd ρ v3 all fd
    | .obj t => OkT ρ v3 all t
end

theorem OkT.table {v3 all : Bool} {t : Template} (h : OkT ρ v3 all t) : VisOK ρ t.table := by
  cases t; simp only [OkT] at h; exact h.1
theorem OkT.count {v3 all : Bool} {t : Template} (h : OkT ρ v3 all t) : OkOFd ρ v3 all t.count := by
  cases t; simp only [OkT] at h; exact h.2.1
theorem OkT.fields {v3 all : Bool} {t : Template} (h : OkT ρ v3 all t) : OkFields ρ v3 all t.table t.fields := by
  cases t; simp only [OkT] at h; exact h.2.2.1
theorem OkT.friends {v3 all : Bool} {t : Template} (h : OkT ρ v3 all t) : OkStmts ρ v3 all t.friends := by
  cases t; simp only [OkT] at h; exact h.2.2.2

/-! ### the invariant -/

def RowsOK (ρ : String → String) (all : Bool) (s : St) : Prop :=
  ∀ rd ∈ s.rows, ∀ p ∈ rd.values, VisOK ρ p.1 ∧ (Prot ρ all rd.table p.1 → AllocV s p.2)

theorem RowsOK.rowsAlloc {all : Bool} {s : St} (h : RowsOK ρ all s) (ha : all = true) : RowsAlloc s :=
  fun rd hrd p hp => (h rd hrd p hp).2 (Or.inl ha)

/-- rows stay where they are and keep their table -/
def TabMono (s s' : St) : Prop :=
  ∀ (i : Nat) (rd : RowData), s.rows[i]? = some rd → ∃ rd' : RowData, s'.rows[i]? = some rd' ∧ rd'.table = rd.table

structure HTr (ρ : String → String) (all : Bool) (s s' : St) : Prop where
  v3 : s'.v3 = s.v3
  mono : ∀ n, Alloc s n → Alloc s' n
  rows : RowsOK ρ all s → RowsOK ρ all s'
  tabs : TabMono s s'

theorem TabMono.of_eq {s s' : St} (h : s'.rows = s.rows) : TabMono s s' := by
  intro i rd hi; rw [h]; exact ⟨rd, hi, rfl⟩

theorem TabMono.trans {a b c : St} (h1 : TabMono a b) (h2 : TabMono b c) : TabMono a c := by
  intro i rd hi
  obtain ⟨rd1, h1', e1⟩ := h1 i rd hi
  obtain ⟨rd2, h2', e2⟩ := h2 i rd1 h1'
  exact ⟨rd2, h2', e2.trans e1⟩

theorem HTr.refl {all : Bool} (s : St) : HTr ρ all s s := ⟨rfl, fun _ h => h, id, TabMono.of_eq rfl⟩

theorem HTr.trans {all : Bool} {a b c : St} (h1 : HTr ρ all a b) (h2 : HTr ρ all b c) : HTr ρ all a c := by
  refine ⟨h2.v3.trans h1.v3, fun n h => h2.mono n (h1.mono n h), fun h => h2.rows (h1.rows h), ?_⟩
  intro i rd hi
  obtain ⟨rd1, h1', e1⟩ := h1.tabs i rd hi
  obtain ⟨rd2, h2', e2⟩ := h2.tabs i rd1 h1'
  exact ⟨rd2, h2', e2.trans e1⟩

theorem Step.htr {all : Bool} {s s' : St} (h : Step s s') : HTr ρ all s s' := by
  refine ⟨h.v3, h.mono, ?_, TabMono.of_eq h.rows⟩
  intro hr rd hrd p hp
  rw [h.rows] at hrd
  exact ⟨(hr rd hrd p hp).1, fun hh => ((hr rd hrd p hp).2 hh).mono h.mono⟩

theorem visOK_id (h : Ren ρ σ) : VisOK ρ "id" := by
  intro hh
  rw [h.fix_id] at hh
  rw [id_visible] at hh
  cases hh

theorem setRowValue_tabs (s : St) (hd : Nat) (k : String) (v : Val) :
    TabMono s (setRowValue s hd k v) := by
  intro i rd hi
  simp only [setRowValue, List.getElem?_mapIdx, hi, Option.map_some]
  split
  · exact ⟨_, rfl, rfl⟩
  · exact ⟨_, rfl, rfl⟩

theorem setRowValue_htr {all : Bool} (s : St) (hd : Nat) {k : String} {v : Val} (hk : VisOK ρ k)
    (hv : ∀ rd, s.rows[hd]? = some rd → Prot ρ all rd.table k → AllocV s v) :
    HTr ρ all s (setRowValue s hd k v) := by
  refine ⟨rfl, fun _ h => h, ?_, ?_⟩
  · intro hr rd hrd p hp
    simp only [setRowValue, List.mem_mapIdx] at hrd
    obtain ⟨i, hi, rfl⟩ := hrd
    have hmem : s.rows[i] ∈ s.rows := List.getElem_mem hi
    by_cases hih : i = hd
    · subst hih
      simp only [if_true] at hp ⊢
      rcases mem_aset hp with hp | rfl
      · exact hr _ hmem p hp
      · exact ⟨hk, hv _ (List.getElem?_eq_getElem hi)⟩
    · simp only [if_neg hih] at hp ⊢
      exact hr _ hmem p hp
  · intro i rd hi
    simp only [setRowValue, List.getElem?_mapIdx, hi, Option.map_some]
    split
    · exact ⟨_, rfl, rfl⟩
    · exact ⟨_, rfl, rfl⟩

theorem regState_v3 (s : St) (t : Template) (i : Nat) : (regState s t i).v3 = s.v3 := by
  have h := (generateId_step s t.table t.nick).v3
  unfold regState
  simp only
  generalize generateId s t.table t.nick = g at h ⊢
  cases t.nick <;> cases t.justOnce <;> simp [h]

theorem regState_rows_eq (s : St) (t : Template) (i : Nat) :
    (regState s t i).rows = s.rows ++
      [{ table := t.table, idx := i, values := [("id", Val.int (generateId s t.table t.nick).1)] }] := by
  rw [(regState_fields s t i).2.2.2, (generateId_step s t.table t.nick).rows]

theorem regState_htr {all : Bool} (h : Ren ρ σ) (s : St) (t : Template) (i : Nat) : HTr ρ all s (regState s t i) := by
  obtain ⟨-, e2, -, -⟩ := regState_fields s t i
  have e4 := regState_rows_eq s t i
  have hg := generateId_step s t.table t.nick
  have hm : ∀ n, Alloc s n → Alloc (regState s t i) n := by
    intro n hn
    have := hg.mono n hn
    unfold Alloc at this ⊢
    rw [e2]; exact this
  refine ⟨regState_v3 s t i, hm, ?_, ?_⟩
  · intro hr rd hrd p hp
    rw [e4] at hrd
    rcases List.mem_append.1 hrd with hrd | hrd
    · exact ⟨(hr rd hrd p hp).1, fun hh => ((hr rd hrd p hp).2 hh).mono hm⟩
    · simp only [List.mem_singleton] at hrd
      subst hrd
      simp only [List.mem_singleton] at hp
      subst hp
      exact ⟨visOK_id h, fun _ n e => by cases e⟩
  · intro j rd hj
    rw [e4]
    refine ⟨rd, ?_, rfl⟩
    have hlt : j < s.rows.length := (List.getElem?_eq_some_iff.1 hj).1
    rw [List.getElem?_append_left hlt]; exact hj

theorem writeRow_htr {all : Bool} {t : Template} {hd : Nat} {s6 s8 : St} {u : Unit}
    (hw : writeRow t hd s6 = .ok (u, s8)) : HTr ρ all s6 s8 := by
  unfold writeRow at hw
  split at hw
  · simp only [Except.ok.injEq, Prod.mk.injEq] at hw
    obtain ⟨-, rfl⟩ := hw; exact HTr.refl _
  · split at hw
    · cases hw
    · next fs s7 hc =>
      simp only [Except.ok.injEq, Prod.mk.injEq] at hw
      obtain ⟨-, rfl⟩ := hw
      have hs := canonFields_step _ hc
      exact ⟨hs.v3, fun n hn => hs.mono n hn, fun hr => (hs.htr (ρ := ρ) (all := all)).rows hr,
        TabMono.of_eq hs.rows⟩

/-- the row with handle `hd` exists and belongs to table `tb` -/
def RowTab (s : St) (hd : Nat) (tb : String) : Prop := ∃ rd, s.rows[hd]? = some rd ∧ rd.table = tb

theorem RowTab.mono {s s' : St} {hd : Nat} {tb : String} (h : RowTab s hd tb) (hm : TabMono s s') :
    RowTab s' hd tb := by
  obtain ⟨rd, h1, h2⟩ := h
  obtain ⟨rd', h1', h2'⟩ := hm hd rd h1
  exact ⟨rd', h1', h2'.trans h2⟩

theorem regState_rowTab (s : St) (t : Template) (i : Nat) :
    RowTab (regState s t i) s.rows.length t.table := by
  refine ⟨{ table := t.table, idx := i, values := [("id", Val.int (generateId s t.table t.nick).1)] }, ?_, rfl⟩
  rw [regState_rows_eq, List.getElem?_append_right (Nat.le_refl _)]
  simp

/-- all six statements for one amount of fuel -/
def InvAll (ρ : String → String) (v3 all : Bool) (fuel : Nat) : Prop :=
  (∀ c fd s v s', OkFd ρ v3 all fd → s.v3 = v3 → renderFd fuel c fd s = .ok (v, s') →
      HTr ρ all s s' ∧ (RowsOK ρ all s → fdSafe v3 all fd → AllocV s' v)) ∧
  (∀ c t s r s', OkT ρ v3 all t → s.v3 = v3 → execTemplate fuel c t s = .ok (r, s') → HTr ρ all s s') ∧
  (∀ c t i n last s r s', OkT ρ v3 all t → s.v3 = v3 → execRows fuel c t i n last s = .ok (r, s') →
      HTr ρ all s s') ∧
  (∀ c t i s r s', OkT ρ v3 all t → s.v3 = v3 → execRow fuel c t i s = .ok (r, s') → HTr ρ all s s') ∧
  (∀ c h tb fs s u s', OkFields ρ v3 all tb fs → s.v3 = v3 → RowTab s h tb →
      execFields fuel c h fs s = .ok (u, s') → HTr ρ all s s') ∧
  (∀ c sts cont s c' s', OkStmts ρ v3 all sts → s.v3 = v3 → execStmts fuel c sts cont s = .ok (c', s') →
      HTr ρ all s s')

theorem invAll (h : Ren ρ σ) (v3 all : Bool) (fuel : Nat) : InvAll ρ v3 all fuel := by
  induction fuel with
  | zero =>
    refine ⟨?_, ?_, ?_, ?_, ?_, ?_⟩
    · intro c fd s v s' _ _ h; rw [renderFd_zero] at h; cases h
    · intro c t s r s' _ _ h; rw [execTemplate_zero] at h; cases h
    · intro c t i n last s r s' _ _ h; rw [execRows_zero] at h; cases h
    · intro c t i s r s' _ _ h; rw [execRow_zero] at h; cases h
    · intro c hd tb fs s u s' _ _ _ h; rw [execFields_zero] at h; cases h
    · intro c sts cont s c' s' _ _ h; rw [execStmts_zero] at h; cases h
  | succ fuel ih =>
    obtain ⟨ihFd, ihT, ihRows, ihRow, ihF, ihS⟩ := ih
    refine ⟨?_, ?_, ?_, ?_, ?_, ?_⟩
    · intro c fd s v s' hok hv h
      cases fd with
      | lit l =>
        cases l with
        | str x =>
          simp only [renderFd] at h
          split at h
          · simp only [Except.ok.injEq, Prod.mk.injEq] at h
            obtain ⟨rfl, rfl⟩ := h
            exact ⟨HTr.refl _, fun _ _ n e => by cases e⟩
          · split at h
            · next hl =>
              simp only [Except.ok.injEq, Prod.mk.injEq] at h
              obtain ⟨rfl, rfl⟩ := h
              exact ⟨HTr.refl _, fun _ _ => (lookForNumber_notSlot hl).allocV _⟩
            · cases h
        | int n =>
          simp only [renderFd, Except.ok.injEq, Prod.mk.injEq] at h
          obtain ⟨rfl, rfl⟩ := h; exact ⟨HTr.refl _, fun _ _ n e => by cases e⟩
        | bool b =>
          simp only [renderFd, Except.ok.injEq, Prod.mk.injEq] at h
          obtain ⟨rfl, rfl⟩ := h; exact ⟨HTr.refl _, fun _ _ n e => by cases e⟩
        | null =>
          simp only [renderFd, Except.ok.injEq, Prod.mk.injEq] at h
          obtain ⟨rfl, rfl⟩ := h; exact ⟨HTr.refl _, fun _ _ n e => by cases e⟩
      | tmpl parts =>
        simp only [renderFd] at h
        exact ⟨(renderTmpl_step h).htr, fun hr hs => renderTmpl_allocV (by rw [hv]; exact hs) (fun ha => hr.rowsAlloc ha) h⟩
      | ref path =>
        simp only [renderFd] at h
        exact ⟨(renderRef_step h).htr, fun _ _ => renderRef_allocV h⟩
      | nested t =>
        simp only [renderFd] at h
        simp only [OkFd] at hok
        split at h
        · cases h
        · next s1 ht =>
          simp only [Except.ok.injEq, Prod.mk.injEq] at h
          obtain ⟨rfl, rfl⟩ := h
          exact ⟨ihT _ _ _ _ _ hok hv ht, fun _ _ n e => by cases e⟩
        · next hh s1 ht =>
          simp only [Except.ok.injEq, Prod.mk.injEq] at h
          obtain ⟨rfl, rfl⟩ := h
          exact ⟨ihT _ _ _ _ _ hok hv ht, fun _ _ n e => by cases e⟩
    · intro c t s r s' hok hv h
      rw [execTemplate_succ] at h
      split at h
      · cases h
      · next n s1 hcnt =>
        have h1 : HTr ρ all s s1 := by
          split at hcnt
          · simp only [Except.ok.injEq, Prod.mk.injEq] at hcnt
            obtain ⟨-, rfl⟩ := hcnt; exact HTr.refl _
          · next fd hfdc =>
            have hokc : OkFd ρ v3 all fd := by
              have := hok.count; rw [hfdc] at this; simpa only [OkOFd] using this
            split at hcnt
            · cases hcnt
            · next v s2 hfd =>
              split at hcnt
              · cases hcnt
              · simp only [Except.ok.injEq, Prod.mk.injEq] at hcnt
                obtain ⟨-, rfl⟩ := hcnt; exact (ihFd _ _ _ _ _ hokc hv hfd).1
        exact h1.trans (ihRows _ _ _ _ _ _ _ _ hok (h1.v3.trans hv) h)
    · intro c t i n last s r s' hok hv h
      rw [execRows_succ] at h
      split at h
      · simp only [Except.ok.injEq, Prod.mk.injEq] at h
        obtain ⟨-, rfl⟩ := h; exact HTr.refl _
      · split at h
        · cases h
        · next hh c2 s1 hrow =>
          have h1 := ihRow _ _ _ _ _ _ hok hv hrow
          exact h1.trans (ihRows _ _ _ _ _ _ _ _ hok (h1.v3.trans hv) h)
    · intro c t i s r s' hok hv h
      rw [execRow_succ] at h
      split at h
      · cases h
      · next u6 s6 hf =>
        split at h
        · cases h
        · next u8 s8 hw =>
          split at h
          · cases h
          · next c2 s9 hs =>
            simp only [Except.ok.injEq, Prod.mk.injEq] at h
            obtain ⟨-, rfl⟩ := h
            have h0 : HTr ρ all s (regState s t i) := regState_htr h s t i
            have h1 := ihF _ _ _ _ _ _ _ hok.fields (h0.v3.trans hv) (regState_rowTab s t i) hf
            have h2 : HTr ρ all s6 s8 := writeRow_htr hw
            have h012 := h0.trans (h1.trans h2)
            exact h012.trans (ihS _ _ _ _ _ _ hok.friends (h012.v3.trans hv) hs)
    · intro c hd tb fs s u s' hok hv hrt h
      cases fs with
      | nil =>
        rw [execFields_nil] at h
        simp only [Except.ok.injEq, Prod.mk.injEq] at h
        obtain ⟨-, rfl⟩ := h; exact HTr.refl _
      | cons p rest =>
        obtain ⟨name, fd⟩ := p
        simp only [OkFields] at hok
        obtain ⟨hk, hsafe, hfdok, hrest⟩ := hok
        rw [execFields_cons] at h
        split at h
        · cases h
        · next v s1 hfd =>
          obtain ⟨h1, hal⟩ := ihFd _ _ _ _ _ hfdok hv hfd
          have hrt1 := hrt.mono h1.tabs
          have h12 : HTr ρ all s (setRowValue s1 hd name v) := by
            refine ⟨h1.v3, h1.mono, fun hr0 => ?_, ?_⟩
            · refine (setRowValue_htr (all := all) s1 hd hk
                (fun rd hrd hh => hal hr0 (hsafe ?_))).rows (h1.rows hr0)
              obtain ⟨rd', hrd', e'⟩ := hrt1
              rw [hrd] at hrd'
              cases hrd'
              rw [← e']; exact hh
            · exact h1.tabs.trans (setRowValue_tabs s1 hd name v)
          exact h12.trans (ihF _ _ _ _ _ _ _ hrest (h12.v3.trans hv) (hrt.mono h12.tabs) h)
    · intro c sts cont s c' s' hok hv h
      cases sts with
      | nil =>
        rw [execStmts_nil] at h
        simp only [Except.ok.injEq, Prod.mk.injEq] at h
        obtain ⟨-, rfl⟩ := h; exact HTr.refl _
      | cons st rest =>
        simp only [OkStmts] at hok
        obtain ⟨hst, hrest⟩ := hok
        cases st with
        | var name fd =>
          simp only [OkStmt] at hst
          rw [execStmts_var] at h
          split at h
          · cases h
          · next v s1 hfd =>
            have h1 := (ihFd _ _ _ _ _ hst hv hfd).1
            exact h1.trans (ihS _ _ _ _ _ _ hrest (h1.v3.trans hv) h)
        | obj t =>
          simp only [OkStmt] at hst
          rw [execStmts_obj] at h
          split at h
          · exact ihS _ _ _ _ _ _ hrest hv h
          · split at h
            · cases h
            · next r s1 ht =>
              have h1 := ihT _ _ _ _ _ hst hv ht
              exact h1.trans (ihS _ _ _ _ _ _ hrest (h1.v3.trans hv) h)

end SnowModel.L2
