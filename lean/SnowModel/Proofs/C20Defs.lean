/-
C20 — definitions used by the statements: the decidable predicate `AvoidsKnownHoles` (a purely
syntactic, role-directed description of documents that stay away from every place where the
validation layer performs no check) and the shape invariant `WF` of accepted recipes.
-/
import SnowModel.Core.ParseCheck

namespace SnowModel.ParseCheck

/-! ### documents that avoid the known holes -/

def isScalar : Y → Bool
  | .list _ => false
  | .map _ => false
  | _ => true

/-- the key of a keyword argument that `_coerce_to_string` turns into `"to"` -/
def keyIsTo (k : Y) : Bool :=
  match coerceKey k with
  | .ok s _ => s == "to"
  | _ => false

/-- the argument of a `random_reference` names its target by a plain scalar: a scalar, a non-empty
    list that starts with a scalar, or a mapping with a `to` entry whose value is a scalar
    (avoids `refNoArgs`, `refNoTo`, `refNotSimple`) -/
def refArgsOk : Y → Bool
  | .map kvs => kvs.any (fun p => keyIsTo p.1) && kvs.all (fun p => !keyIsTo p.1 || isScalar p.2)
  | .list (x :: _) => isScalar x
  | .list [] => false
  | _ => true

mutual

/-- a value in field-value position (avoids `fieldValueShape`) -/
def okFV : Y → Bool
  | .list [.map kvs] => if getTruthy kvs "object" then okNode kvs else okStruct kvs
  | .list _ => false
  | .map kvs => if getTruthy kvs "object" then okNode kvs else okStruct kvs
  | _ => true

/-- a mapping read as a function call: the function name is a string with at most one dot
    (avoids `funcNameNotStr`, `funcNameDots`) and the arguments are fine -/
def okStruct : KVs → Bool
  | [] => true
  | (k, a) :: rest =>
    (match k with
      | .str fn => decide (countDots fn < 2) &&
          (fn != "random_reference" || refArgsOk (if rest.isEmpty then a else .map rest))
      | _ => false)
    && (if rest.isEmpty then okArgs a else okVals rest)

def okArgs : Y → Bool
  | .map kvs => okVals kvs
  | .list xs => okFVs xs
  | _ => true

def okVals : KVs → Bool
  | [] => true
  | (_, v) :: rest => okFV v && okVals rest

def okFVs : List Y → Bool
  | [] => true
  | x :: xs => okFV x && okFVs xs

/-- a `fields` mapping: every name is a non-empty string (avoids `fieldNameFalsy`, `fieldNameNotStr`) -/
def okFields : KVs → Bool
  | [] => true
  | (k, v) :: rest => k.truthy && k.isStr && okFV v && okFields rest

/-- a statement list (`friends`): every item is a mapping (avoids `friendNotMap`) that is a template,
    a variable or has only string keys (avoids `stmtKeyNotStr`) -/
def okStmts : List Y → Bool
  | [] => true
  | .map kvs :: rest =>
    (getTruthy kvs "object" || getTruthy kvs "var" || kvs.all (fun p => p.1.isStr))
      && okNode kvs && okStmts rest
  | _ :: _ => false

/-- a mapping read as a template, a variable definition, a macro or a `for_each` block -/
def okNode : KVs → Bool
  | [] => true
  | (k, v) :: rest =>
    (if keyStr k == "fields" then okFieldsY v
     else if keyStr k == "friends" then okStmtsY v
     else if keyStr k == "for_each" then okForEachY v
     else if keyStr k == "count" || keyStr k == "value" then okFV v
     else true) && okNode rest

def okFieldsY : Y → Bool
  | .map f => okFields f
  | _ => true

def okStmtsY : Y → Bool
  | .list xs => okStmts xs
  | _ => true

/-- a `for_each` block names its variable (avoids `forEachNoVar`) -/
def okForEachY : Y → Bool
  | .map f => (lookup f "var").isSome && okNode f
  | _ => true

end

/-- a top-level element: besides `okNode`, macro and option names are hashable (avoids
    `macroUnhashable`, `optionUnhashable`), a plugin name is a dotted string (avoids `pluginNotStr`,
    `pluginNoDot`), an include path is relative (avoids `includeAbs`) -/
def okTopElem : Y → Bool
  | .map kvs =>
    okNode kvs
    && (match lookup kvs "macro" with
        | some v => v.hashable
        | none => true)
    && (match lookup kvs "option" with
        | some v => v.hashable
        | none => true)
    && (match lookup kvs "plugin" with
        | some (.str s) => s == "" || countDots s != 0
        | some v => !v.truthy
        | none => true)
    && (match lookup kvs "include_file" with
        | some (.str s) => !startsWithSlash s
        | _ => true)
  | _ => true

def okDoc : Y → Bool
  | .list es => es.all okTopElem
  | _ => true

/-- the recipe and every file it can include avoid the known holes -/
def AvoidsKnownHoles (env : Env) (doc : Y) : Bool :=
  okDoc doc && env.files.all (fun p =>
    match p.2 with
    | .doc d => okDoc d
    | .yamlError => true)

/-! ### the shape invariant of an accepted recipe -/

def isSimpleStr : Ast → Bool
  | .simple (.str _) => true
  | _ => false

/-- What the interpreter relies on.  `top`: the statement is executed at the top level. -/
inductive WF : Bool → Ast → Prop where
  | simple (top : Bool) (v : Scalar) : WF top (.simple v)
  | struct (top : Bool) (fn : String) (pos : List Ast) (kw : List (String × Ast)) :
      countDots fn < 2 →
      (∀ x ∈ pos, WF false x) →
      (∀ p ∈ kw, WF false p.2) →
      WF top (.struct fn pos kw)
  | tmpl (top : Bool) (table : String) (nick : Option String) (jo : Bool) (uk : Option String)
      (fields : List (String × Ast)) (friends : List Ast) (count : Option Ast)
      (fe : Option (String × Ast)) :
      table ≠ "" →
      nick ≠ some "" →
      (jo = true → top = true) →
      (∀ p ∈ fields, p.1 ≠ "") →
      (∀ p ∈ fields, WF false p.2) →
      (∀ x ∈ friends, WF false x) →
      (∀ c, count = some c → WF false c) →
      (∀ p, fe = some p → WF false p.2) →
      (count.isSome && fe.isSome) = false →
      WF top (.tmpl table nick jo uk fields friends count fe)
  | var (top : Bool) (name : String) (v : Ast) :
      name ≠ "" → WF false v → WF top (.var name v)

/-- a statement is a template or a variable definition -/
def isStatement : Ast → Bool
  | .tmpl .. => true
  | .var .. => true
  | _ => false

end SnowModel.ParseCheck
