/-
C20 — definitions used by the statements: the shape invariant `WF` of accepted recipes.
(The predicate `AvoidsKnownHoles` of the first version is gone: the holes it described have been
repaired in the code, and `parse_never_stuck` holds for every document.)
-/
import SnowModel.Core.ParseCheck

namespace SnowModel.ParseCheck

/-! ### the shape invariant of an accepted recipe -/

def isSimpleStr : Ast → Bool
  | .simple (.str _) => true
  | _ => false

/-- What the interpreter relies on.  `top`: the statement is executed at the top level. -/
inductive WF : Bool → Ast → Prop where
  | simple (top : Bool) (v : Scalar) : WF top (.simple v)
  | struct (top : Bool) (fn : String) (pos : List Ast) (kw : List (String × Ast)) :
      countDots fn < 2 →
      (∀ x ∈ pos, WF false x) →
      (∀ p ∈ kw, WF false p.2) →
      WF top (.struct fn pos kw)
  | tmpl (top : Bool) (table : String) (nick : Option String) (jo : Bool) (uk : Option String)
      (fields : List (String × Ast)) (friends : List Ast) (count : Option Ast)
      (fe : Option (String × Ast)) :
      table ≠ "" →
      nick ≠ some "" →
      (jo = true → top = true) →
      (∀ p ∈ fields, p.1 ≠ "") →
      (∀ p ∈ fields, WF false p.2) →
      (∀ x ∈ friends, WF false x) →
      (∀ c, count = some c → WF false c) →
      (∀ p, fe = some p → WF false p.2) →
      (count.isSome && fe.isSome) = false →
      WF top (.tmpl table nick jo uk fields friends count fe)
  | var (top : Bool) (name : String) (v : Ast) :
      name ≠ "" → WF false v → WF top (.var name v)

/-- a statement is a template or a variable definition -/
def isStatement : Ast → Bool
  | .tmpl .. => true
  | .var .. => true
  | _ => false

end SnowModel.ParseCheck
