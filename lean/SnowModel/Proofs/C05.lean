/-
C05 — helper lemmas: the key sort of `yaml.dump` (insertion sort on association lists), lookups, and
the element-wise behaviour of dump / parse / setstate.
-/
import SnowModel.Core.Persist

namespace SnowModel.Persist

/-! ### sorting -/

def SortedD {α : Type} (d : Dict α) : Prop := d.Pairwise (fun a b => a.1 ≤ b.1)

theorem insertD_perm {α : Type} (k : String) (v : α) (d : Dict α) :
    (insertD k v d).Perm ((k, v) :: d) := by
  induction d with
  | nil => exact List.Perm.refl _
  | cons h t ih =>
    obtain ⟨k', v'⟩ := h
    unfold insertD
    split
    · exact List.Perm.refl _
    · exact (List.Perm.cons _ ih).trans (List.Perm.swap _ _ _)

theorem sortD_perm {α : Type} (d : Dict α) : (sortD d).Perm d := by
  induction d with
  | nil => exact List.Perm.refl _
  | cons h t ih =>
    obtain ⟨k, v⟩ := h
    exact (insertD_perm k v (sortD t)).trans (List.Perm.cons _ ih)

theorem mem_sortD {α : Type} (d : Dict α) (x : String × α) : x ∈ sortD d ↔ x ∈ d :=
  (sortD_perm d).mem_iff

theorem insertD_sorted {α : Type} (k : String) (v : α) (d : Dict α) (h : SortedD d) :
    SortedD (insertD k v d) := by
  induction d with
  | nil => simp [insertD, SortedD]
  | cons hd t ih =>
    obtain ⟨k', v'⟩ := hd
    have ht : SortedD t := (List.pairwise_cons.mp h).2
    have hall := (List.pairwise_cons.mp h).1
    unfold insertD
    split
    · rename_i hle
      refine List.pairwise_cons.mpr ⟨?_, h⟩
      intro x hx
      rcases List.mem_cons.mp hx with rfl | hx
      · exact hle
      · exact String.le_trans hle (hall x hx)
    · rename_i hle
      have hlt : k' ≤ k := by
        rcases String.le_total k k' with h1 | h1
        · exact absurd h1 hle
        · exact h1
      refine List.pairwise_cons.mpr ⟨?_, ih ht⟩
      intro x hx
      rcases List.mem_cons.mp ((insertD_perm k v t).mem_iff.mp hx) with rfl | hx
      · exact hlt
      · exact hall x hx

theorem sortD_sorted {α : Type} (d : Dict α) : SortedD (sortD d) := by
  induction d with
  | nil => simp [sortD, SortedD]
  | cons h t ih =>
    obtain ⟨k, v⟩ := h
    exact insertD_sorted k v _ ih

theorem insertD_of_le {α : Type} (k : String) (v : α) (d : Dict α)
    (h : ∀ x ∈ d, k ≤ x.1) : insertD k v d = (k, v) :: d := by
  cases d with
  | nil => rfl
  | cons hd t =>
    obtain ⟨k', v'⟩ := hd
    have : k ≤ k' := h (k', v') (List.mem_cons_self ..)
    simp [insertD, this]

theorem sortD_of_sorted {α : Type} (d : Dict α) (h : SortedD d) : sortD d = d := by
  induction d with
  | nil => rfl
  | cons hd t ih =>
    obtain ⟨k, v⟩ := hd
    have ht : SortedD t := (List.pairwise_cons.mp h).2
    have hall := (List.pairwise_cons.mp h).1
    show insertD k v (sortD t) = _
    rw [ih ht]
    exact insertD_of_le k v t hall

theorem sortD_idem {α : Type} (d : Dict α) : sortD (sortD d) = sortD d :=
  sortD_of_sorted _ (sortD_sorted d)

theorem insertD_mapD {α β : Type} (f : α → β) (k : String) (v : α) (d : Dict α) :
    insertD k (f v) (mapD f d) = mapD f (insertD k v d) := by
  induction d with
  | nil => rfl
  | cons hd t ih =>
    obtain ⟨k', v'⟩ := hd
    simp only [mapD, List.map_cons, insertD] at ih ⊢
    split
    · rfl
    · simp [ih]

theorem sortD_mapD {α β : Type} (f : α → β) (d : Dict α) : sortD (mapD f d) = mapD f (sortD d) := by
  induction d with
  | nil => rfl
  | cons hd t ih =>
    obtain ⟨k, v⟩ := hd
    show insertD k (f v) (sortD (mapD f t)) = mapD f (insertD k v (sortD t))
    rw [ih, insertD_mapD]

theorem mapD_mapD {α β γ : Type} (f : α → β) (g : β → γ) (d : Dict α) :
    mapD g (mapD f d) = mapD (fun x => g (f x)) d := by
  simp [mapD, List.map_map, Function.comp_def]

theorem mapD_congr {α β : Type} (f g : α → β) (d : Dict α) (h : ∀ x ∈ d, f x.2 = g x.2) :
    mapD f d = mapD g d := by
  unfold mapD
  apply List.map_congr_left
  intro x hx
  rw [h x hx]

/-! ### lookups do not depend on the order of a mapping with distinct keys -/

def keysD {α : Type} (d : Dict α) : List String := d.map (·.1)

theorem lookupD_none_of_not_mem {α : Type} (k : String) (d : Dict α) (h : k ∉ keysD d) :
    lookupD k d = none := by
  induction d with
  | nil => rfl
  | cons hd t ih =>
    obtain ⟨k', v'⟩ := hd
    simp only [keysD, List.map_cons, List.mem_cons, not_or] at h
    simp only [lookupD, h.1, if_false]
    exact ih h.2

theorem lookupD_mem {α : Type} (k : String) (v : α) (d : Dict α) (hn : (keysD d).Nodup)
    (h : (k, v) ∈ d) : lookupD k d = some v := by
  induction d with
  | nil => cases h
  | cons hd t ih =>
    obtain ⟨k', v'⟩ := hd
    simp only [keysD, List.map_cons, List.nodup_cons] at hn
    rcases List.mem_cons.mp h with heq | hm
    · cases heq; simp [lookupD]
    · have : k ≠ k' := by
        intro e; subst e
        exact hn.1 (List.mem_map.mpr ⟨(k, v), hm, rfl⟩)
      simp only [lookupD, this, if_false]
      exact ih hn.2 hm

theorem lookupD_some_mem {α : Type} (k : String) (v : α) (d : Dict α) (h : lookupD k d = some v) :
    (k, v) ∈ d := by
  induction d with
  | nil => cases h
  | cons hd t ih =>
    obtain ⟨k', v'⟩ := hd
    simp only [lookupD] at h
    split at h
    · rename_i e; cases h; subst e; exact List.mem_cons_self ..
    · exact List.mem_cons_of_mem _ (ih h)

theorem keysD_perm {α : Type} {d d' : Dict α} (h : d.Perm d') : (keysD d).Perm (keysD d') :=
  h.map _

/-- a Python dict is looked up by key: the order in which `yaml.dump` wrote it is invisible -/
theorem lookupD_perm {α : Type} (k : String) (d d' : Dict α) (hp : d.Perm d')
    (hn : (keysD d).Nodup) : lookupD k d = lookupD k d' := by
  have hn' : (keysD d').Nodup := (keysD_perm hp).nodup_iff.mp hn
  cases h : lookupD k d' with
  | some v =>
    exact lookupD_mem k v d hn (hp.mem_iff.mpr (lookupD_some_mem k v d' h))
  | none =>
    cases h2 : lookupD k d with
    | none => rfl
    | some v =>
      have := lookupD_mem k v d' hn' (hp.mem_iff.mp (lookupD_some_mem k v d h2))
      rw [h] at this; cases this

theorem lookupD_sortD {α : Type} (k : String) (d : Dict α) (hn : (keysD d).Nodup) :
    lookupD k (sortD d) = lookupD k d :=
  (lookupD_perm k d (sortD d) (sortD_perm d).symm hn).symm

theorem lookupD_mapD {α β : Type} (f : α → β) (k : String) (d : Dict α) :
    lookupD k (mapD f d) = (lookupD k d).map f := by
  induction d with
  | nil => rfl
  | cons hd t ih =>
    obtain ⟨k', v'⟩ := hd
    simp only [mapD, List.map_cons, lookupD] at ih ⊢
    split
    · rfl
    · exact ih

theorem keysD_mapD {α β : Type} (f : α → β) (d : Dict α) : keysD (mapD f d) = keysD d := by
  simp [keysD, mapD, List.map_map, Function.comp_def]

end SnowModel.Persist
