/-
Proleptic Gregorian calendar, as implemented by CPython's `datetime` (`_ymd2ord`, `_ord2ymd`,
`weekday`, `timetuple().tm_yday`).  Day ordinals are Python's `date.toordinal()`:
ordinal 1 = 0001-01-01 (a Monday).  No Mathlib (linked into the driver).
-/
namespace SnowModel.Civil

def isLeap (y : Nat) : Bool := (y % 4 == 0) && ((y % 100 != 0) || (y % 400 == 0))

def yearLen (y : Nat) : Nat := if isLeap y then 366 else 365

/-- days in month `m` (1..12) of year `y`; 0 for an invalid month -/
def daysInMonth (y m : Nat) : Nat :=
  if m == 2 then (if isLeap y then 29 else 28)
  else if m == 4 || m == 6 || m == 9 || m == 11 then 30
  else if 1 ≤ m && m ≤ 12 then 31 else 0

/-- days before January 1st of year `y` (`y ≥ 1`): `_days_before_year` -/
def daysBeforeYear (y : Nat) : Nat :=
  let p := y - 1
  p * 365 + p / 4 - p / 100 + p / 400

/-- days of year `y` before the first of month `m`: `_days_before_month` -/
def daysBeforeMonth (y : Nat) : Nat → Nat
  | 0 => 0
  | m + 1 => if m = 0 then 0 else daysBeforeMonth y m + daysInMonth y m

/-- `date(y, m, d).toordinal()` -/
def toOrd (y m d : Nat) : Nat := daysBeforeYear y + daysBeforeMonth y m + d

structure YMD where
  y : Nat
  m : Nat
  d : Nat
  deriving DecidableEq, Repr

def Valid (y m d : Nat) : Prop := 1 ≤ y ∧ 1 ≤ m ∧ m ≤ 12 ∧ 1 ≤ d ∧ d ≤ daysInMonth y m

instance (y m d : Nat) : Decidable (Valid y m d) := by unfold Valid; infer_instance

/-- the year containing day ordinal `n ≥ 1` (`_ord2ymd`: 400/100/4/1-year cycles) -/
def yearOfOrd (n : Nat) : Nat :=
  let n0 := n - 1
  let n400 := n0 / 146097
  let r1 := n0 % 146097
  let n100 := r1 / 36524
  let r2 := r1 % 36524
  let n4 := r2 / 1461
  let r3 := r2 % 1461
  let n1 := r3 / 365
  let y := n400 * 400 + n100 * 100 + n4 * 4 + n1 + 1
  if n1 = 4 ∨ n100 = 4 then y - 1 else y

/-- walk through the months: `r` is the 1-based day number counted from the first of month `m` -/
def monthLoop (y : Nat) : Nat → Nat → Nat → Nat × Nat
  | 0, m, r => (m, r)
  | fuel + 1, m, r =>
    if r ≤ daysInMonth y m then (m, r) else monthLoop y fuel (m + 1) (r - daysInMonth y m)

/-- `date.fromordinal(n)` as (y, m, d) -/
def ofOrd (n : Nat) : YMD :=
  let y := yearOfOrd n
  let md := monthLoop y 11 1 (n - daysBeforeYear y)
  ⟨y, md.1, md.2⟩

/-- `date.weekday()`: Monday = 0 … Sunday = 6 -/
def weekday (n : Nat) : Nat := (n + 6) % 7

/-- 1-based day of the year (`tm_yday`) -/
def yearday (n : Nat) : Nat := n - daysBeforeYear (yearOfOrd n)

end SnowModel.Civil
