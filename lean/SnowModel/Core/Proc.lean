/-
C19 — the process model.

A Python process that embeds Snowfakery is modelled as the finite list of *cells* that outlive a
call of `snowfakery.data_generator.generate` (the list is pinned from the source by the
global-state scan, `Gen.GlobalState.cells`, and classified in `SnowModel.Proc.Known`).  Everything
else a run uses (Globals, Interpreter, ParseResult, RowHistory, plugin instances, memorised
plugin values …) is created inside `generate` and is therefore part of the *program* of the run,
not of the process.

Run-time mutable cells (today):
  * `ctx`      `UniqueNumericIdGenerator.context_uniqifier = count(1)`          (identity generator)
  * caches     `_parse_date_str`, `_parse_datetime_str` (`lru_cache(maxsize=512)`; since commit 885750c only the
               string branches of `parse_date` / `parse_datetimespec` are cached), `randomizer`,
               `mask_for_key` (`lru_cache()`, i.e. 128) and Python's import cache `sys.modules`
               (through `plugins.resolve_plugin_alternatives → import_module`, unbounded)
  * `history`  the `RowHistoryCV` ContextVar (points to the RowHistory of the last run that executed)
  * `cwd`      the working directory (`datasets.chdir`, restored in `finally`)
  * `rng`      the process-wide PRNGs (`random`, Faker's shared `Random`): number of draws taken

A run is an *interaction tree* `Prog`: it emits rows, fails, or performs one operation on the
process and continues with whatever that operation returned.  Quantifying over all interaction
trees over-approximates every recipe, every option set and every continuation file: the only
assumption is that the interpreter reaches process state through these operations and nothing
else — which is what the pin and the before/after snapshots of the harness check.

`lru_cache` is modelled as CPython implements it: a recency list (most recent first), lookup by
Python key equality (`==`/`hash`), on a hit the entry moves to the front *and keeps its original
key object*, on a miss the computed value is inserted and the oldest entry is dropped when the
cache is full.  Python key equality is coarser than identity for aware datetimes (they compare by
instant, whatever their UTC offset) — that is the whole point of defects D19b.
The value the wrapped function computes on a miss is an explicit argument (`computed`): the
functions behind the caches (dateutil, `random.Random`, the import system) are not modelled.
-/

namespace SnowModel.Proc

/-- universe of cache keys and cached values -/
inductive Key where
  | str (s : String)
  | aware (instant : Int) (offset : Int)   -- aware datetime: UTC instant and utcoffset (minutes)
  | naive (wall : Int)                      -- naive datetime (minutes)
  | date (day : Int)
  | int (n : Int)
  | pair (a b : Int)                        -- `(key, numbits)` of mask_for_key
  | obj (tag : Nat)                         -- an object known only by identity (a `Random`, a module)
  deriving DecidableEq, Repr

abbrev Val := Key

def Key.isAware : Key → Bool
  | .aware _ _ => true
  | _ => false

/-- Python `==` (and `hash`) on lru_cache keys: aware datetimes compare by instant -/
def Key.pyEq : Key → Key → Bool
  | .aware i _, .aware j _ => i == j
  | a, b => decide (a = b)

inductive CacheId where
  | parseDate | parseDatetimespec | randomizer | maskForKey | importModule
  deriving DecidableEq, Repr

/-- `maxsize` of each cache (`none` = unbounded).  Bridged to the pinned decorator arguments. -/
def maxsize : CacheId → Option Nat
  | .parseDate => some 512
  | .parseDatetimespec => some 512
  | .randomizer => some 128
  | .maskForKey => some 128
  | .importModule => none

structure Cache where
  entries : List (Key × Val) := []   -- most recently used first
  hits : Nat := 0
  misses : Nat := 0
  deriving DecidableEq, Repr

def Cache.full (c : Cache) : Option Nat → Bool
  | none => false
  | some m => decide (m ≤ c.entries.length)

/-- one call of an lru_cache'd function with key `k`; `computed` is what the wrapped function
    returns if it is actually called.  Returns (value handed to the caller, was it a hit, new cache) -/
def Cache.lookup (ms : Option Nat) (c : Cache) (k : Key) (computed : Val) : Val × Bool × Cache :=
  match c.entries.find? (fun e => e.1.pyEq k) with
  | some e =>
    (e.2, true, { c with entries := e :: c.entries.eraseP (fun x => x.1.pyEq k), hits := c.hits + 1 })
  | none =>
    (computed, false,
      { c with entries := (k, computed) :: (if c.full ms then c.entries.dropLast else c.entries),
               misses := c.misses + 1 })

/-- the cells of the process -/
structure Proc where
  ctx : Nat := 1
  caches : CacheId → Cache := fun _ => {}
  history : Option Nat := none
  cwd : String := "/"
  rng : Nat := 0
  /-- process-wide settings of other modules (`csv.field_size_limit()`, `sys.getrecursionlimit()`, the locale, the
      decimal context, warning filters, signal handlers, …), indexed by position in the harness's settings vector -/
  settings : Nat → Int := fun _ => 0

/-- state while a run executes: the process plus the run's own stack of saved directories
    (the `cwd` locals of the active `datasets.chdir` context managers) -/
structure St where
  proc : Proc := {}
  dirs : List String := []

def Proc.setCache (p : Proc) (c : CacheId) (x : Cache) : Proc :=
  { p with caches := fun c' => if c' = c then x else p.caches c' }

/-- operations a run can perform on the process -/
inductive Op where
  | newGenerator                                        -- `next(self.context_uniqifier)`
  | lookup (c : CacheId) (k : Key) (computed : Val)     -- call of a cached function
  | draw (v : Int)                                      -- one draw from a process-wide PRNG (`v` = the draw)
  | clock (v : Int)                                     -- wall clock / pid read (`now`, `today`, big ids)
  | setHistory (run : Nat)                              -- `RowHistoryCV.set(self.row_history)`
  | getHistory                                          -- `RowHistoryCV.get()`
  | enterDir (d : String)                               -- `with chdir(d):` entry
  | leaveDir                                            -- … exit (the `finally`)
  | setSetting (i : Nat) (v : Int)                      -- e.g. `csv.field_size_limit(v)`: a setter that is not undone
  | getSetting (i : Nat)                                -- e.g. the csv reader consulting the limit
  deriving DecidableEq, Repr

/-- what an operation returns to the run -/
inductive Obs where
  | unit
  | nat (n : Nat)
  | val (v : Val)
  | int (i : Int)
  | hist (h : Option Nat)
  | err
  deriving DecidableEq, Repr

def step (st : St) : Op → St × Obs
  | .newGenerator => ({ st with proc := { st.proc with ctx := st.proc.ctx + 1 } }, .nat st.proc.ctx)
  | .lookup c k computed =>
    let r := (st.proc.caches c).lookup (maxsize c) k computed
    ({ st with proc := st.proc.setCache c r.2.2 }, .val r.1)
  | .draw v => ({ st with proc := { st.proc with rng := st.proc.rng + 1 } }, .int v)
  | .clock v => (st, .int v)
  | .setHistory run => ({ st with proc := { st.proc with history := some run } }, .unit)
  | .getHistory => (st, .hist st.proc.history)
  | .enterDir d => ({ proc := { st.proc with cwd := d }, dirs := st.proc.cwd :: st.dirs }, .unit)
  | .leaveDir =>
    match st.dirs with
    | [] => (st, .err)
    | s :: rest => ({ proc := { st.proc with cwd := s }, dirs := rest }, .unit)
  | .setSetting i v =>
    ({ st with proc := { st.proc with settings := fun j => if j = i then v else st.proc.settings j } }, .unit)
  | .getSetting i => (st, .int (st.proc.settings i))

/-- replay of a recorded operation list (what the driver does with a trace of a real run) -/
def exec : St → List Op → St × List Obs
  | st, [] => (st, [])
  | st, o :: os =>
    let r := step st o
    let r' := exec r.1 os
    (r'.1, r.2 :: r'.2)

/-- a run: an interaction tree over the operations -/
inductive Prog where
  | done
  | fail (msg : String)
  | emit (row : String) (rest : Prog)
  | op (o : Op) (k : Obs → Prog)

structure Result where
  st : St
  rows : List String
  ok : Bool

def run : St → Prog → Result
  | st, .done => { st := st, rows := [], ok := true }
  | st, .fail _ => { st := st, rows := [], ok := false }
  | st, .emit r p => let x := run st p; { x with rows := r :: x.rows }
  | st, .op o k => let s := step st o; run s.1 (k s.2)

/-- what the caller of `generate` observes of a run -/
def Result.out (r : Result) : List String × Bool := (r.rows, r.ok)

/-- a fresh process (state right after `import snowfakery`) -/
def fresh : St := {}

/-- runs executed back to back in one process: every run starts with an empty directory stack
    (its Python frames are gone), the process cells are whatever the previous run left -/
def runAll : St → List Prog → St
  | st, [] => st
  | st, p :: ps => runAll { proc := (run { st with dirs := [] } p).st.proc, dirs := [] } ps

/-! ### cells, and which of them an operation reads / overwrites / writes -/

inductive Cell where
  | ctx | cache (c : CacheId) | history | cwd | rng | dirs | setting (i : Nat)
  deriving DecidableEq, Repr

/-- two states agree on a cell -/
def Agree : Cell → St → St → Prop
  | .ctx, a, b => a.proc.ctx = b.proc.ctx
  | .cache c, a, b => a.proc.caches c = b.proc.caches c
  | .history, a, b => a.proc.history = b.proc.history
  | .cwd, a, b => a.proc.cwd = b.proc.cwd
  | .rng, a, b => a.proc.rng = b.proc.rng
  | .dirs, a, b => a.dirs = b.dirs
  | .setting i, a, b => a.proc.settings i = b.proc.settings i

/-- cells whose *old* value influences what the operation returns or leaves behind -/
def readsOf : Op → List Cell
  | .newGenerator => [.ctx]
  | .lookup c _ _ => [.cache c]
  | .draw _ => [.rng]
  | .clock _ => []
  | .setHistory _ => []
  | .getHistory => [.history]
  | .enterDir _ => [.cwd, .dirs]
  | .leaveDir => [.cwd, .dirs]
  | .setSetting _ _ => []
  | .getSetting i => [.setting i]

/-- cells the operation changes -/
def writesOf : Op → List Cell
  | .newGenerator => [.ctx]
  | .lookup c _ _ => [.cache c]
  | .draw _ => [.rng]
  | .clock _ => []
  | .setHistory _ => [.history]
  | .getHistory => []
  | .enterDir _ => [.cwd, .dirs]
  | .leaveDir => [.cwd, .dirs]
  | .setSetting i _ => [.setting i]
  | .getSetting _ => []

/-- `Reads cell p`: on some path of `p` the old value of `cell` is used before it is overwritten -/
inductive Reads (cell : Cell) : Prog → Prop where
  | emit {r p} : Reads cell p → Reads cell (.emit r p)
  | here {o k} : cell ∈ readsOf o → Reads cell (.op o k)
  | later {o k} (obs : Obs) : cell ∉ writesOf o → Reads cell (k obs) → Reads cell (.op o k)

/-- `Touches cell p`: some path of `p` contains an operation that writes `cell` -/
inductive Touches (cell : Cell) : Prog → Prop where
  | emit {r p} : Touches cell p → Touches cell (.emit r p)
  | here {o k} : cell ∈ writesOf o → Touches cell (.op o k)
  | later {o k} (obs : Obs) : Touches cell (k obs) → Touches cell (.op o k)

/-! ### deterministic programs, tame programs, consistent caches -/

/-- what the continuation of a lookup may depend on: the returned value seen through `f` -/
def Obs.view (f : Val → Val) : Obs → Obs
  | .val v => .val (f v)
  | o => o

/-- `Det F P V h p`: `p` uses no identity generator, no PRNG and no clock; every cached function `c` it
    calls is called with a key satisfying `P c` and would compute `F c k`, and what the program does next
    depends on the returned object only through the view `V c` (e.g. `StandardFuncs.datetime` converts
    whatever `parse_datetimespec` returns to the target zone); the ContextVar is read only after the run
    has set it (`h` = already set). -/
inductive Det (F : CacheId → Key → Val) (P : CacheId → Key → Bool) (V : CacheId → Val → Val) : Bool → Prog → Prop where
  | done {h} : Det F P V h .done
  | fail {h m} : Det F P V h (.fail m)
  | emit {h r p} : Det F P V h p → Det F P V h (.emit r p)
  | lookup {h c k v kont} : P c k = true → v = F c k →
      (∀ o o' : Obs, o.view (V c) = o'.view (V c) → kont o = kont o') →
      (∀ obs, Det F P V h (kont obs)) → Det F P V h (.op (.lookup c k v) kont)
  | setHistory {h n kont} : (∀ obs, Det F P V true (kont obs)) → Det F P V h (.op (.setHistory n) kont)
  | getHistory {kont} : (∀ obs, Det F P V true (kont obs)) → Det F P V true (.op .getHistory kont)
  | enterDir {h d kont} : (∀ obs, Det F P V h (kont obs)) → Det F P V h (.op (.enterDir d) kont)
  | leaveDir {h kont} : (∀ obs, Det F P V h (kont obs)) → Det F P V h (.op .leaveDir kont)
  | getSetting {h i kont} : (∀ obs, Det F P V h (kont obs)) → Det F P V h (.op (.getSetting i) kont)

/-- `Tame F P p`: whatever else `p` does (ids, draws, clock, failures), a cached function `c` called with a
    key satisfying `P c` computes `F c k` — the functions behind the caches are pure on `P`. -/
inductive Tame (F : CacheId → Key → Val) (P : CacheId → Key → Bool) : Prog → Prop where
  | done : Tame F P .done
  | fail {m} : Tame F P (.fail m)
  | emit {r p} : Tame F P p → Tame F P (.emit r p)
  | lookup {c k v kont} : (P c k = true → v = F c k) → (∀ obs, Tame F P (kont obs)) → Tame F P (.op (.lookup c k v) kont)
  | other {o kont} : (∀ c k v, o ≠ .lookup c k v) → (∀ obs, Tame F P (kont obs)) → Tame F P (.op o kont)

/-- every cached entry whose key satisfies `P` holds the value of `F` -/
def Consistent (F : CacheId → Key → Val) (P : CacheId → Key → Bool) (p : Proc) : Prop :=
  ∀ c e, e ∈ (p.caches c).entries → P c e.1 = true → e.2 = F c e.1

/-- `P` is closed under Python key equality and, seen through the view `V`, `F` cannot tell Python-equal
    `P`-keys apart -/
def Compat (F : CacheId → Key → Val) (P : CacheId → Key → Bool) (V : CacheId → Val → Val) : Prop :=
  ∀ c a b, P c b = true → a.pyEq b = true → (P c a = true ∧ V c (F c a) = V c (F c b))

/-- no path of the program changes a process-wide setting of another module (pinned: `Known.processSettingWrites`
    contains no unrestored setter) -/
inductive KeepsSettings : Prog → Prop where
  | done : KeepsSettings .done
  | fail {m} : KeepsSettings (.fail m)
  | emit {r p} : KeepsSettings p → KeepsSettings (.emit r p)
  | op {o kont} : (∀ i v, o ≠ .setSetting i v) → (∀ obs, KeepsSettings (kont obs)) → KeepsSettings (.op o kont)

/-- bracket discipline of `chdir` along every path, failing paths included (`finally`) -/
inductive Bal : Nat → Prog → Prop where
  | done : Bal 0 .done
  | fail {m} : Bal 0 (.fail m)
  | emit {n r p} : Bal n p → Bal n (.emit r p)
  | enter {n d kont} : (∀ obs, Bal (n + 1) (kont obs)) → Bal n (.op (.enterDir d) kont)
  | leave {n kont} : (∀ obs, Bal n (kont obs)) → Bal (n + 1) (.op .leaveDir kont)
  | other {n o kont} : (∀ d, o ≠ .enterDir d) → o ≠ .leaveDir → (∀ obs, Bal n (kont obs)) → Bal n (.op o kont)

/-- number of generators created along the path the run takes from `st` -/
def gens : St → Prog → Nat
  | _, .done => 0
  | _, .fail _ => 0
  | st, .emit _ p => gens st p
  | st, .op o k => (if o = .newGenerator then 1 else 0) + gens (step st o).1 (k (step st o).2)

/-- context identifiers handed out along the path the run takes from `st` -/
def ctxIds : St → Prog → List Nat
  | _, .done => []
  | _, .fail _ => []
  | st, .emit _ p => ctxIds st p
  | st, .op o k =>
    (if o = .newGenerator then [st.proc.ctx] else []) ++ ctxIds (step st o).1 (k (step st o).2)

/-! ### what the real cached functions compute on structured keys (strings go through dateutil) -/

/-- `parse_date` / `parse_datetimespec` on non-string keys, as the Python source computes them;
    `none` = a library call the model does not interpret -/
def specF : CacheId → Key → Option Val
  | .parseDate, .aware i o => some (.date (Int.fdiv (i + o) 1440))     -- `d.date()`: the local calendar day
  | .parseDate, .naive w => some (.date (Int.fdiv w 1440))
  | .parseDate, .date d => some (.date d)
  | .parseDatetimespec, .aware i o => some (.aware i o)                -- returned as is (tzinfo kept)
  | .parseDatetimespec, .naive w => some (.aware w 0)                  -- `replace(tzinfo=utc)`
  | .parseDatetimespec, .date d => some (.aware (d * 1440) 0)          -- midnight UTC
  | _, _ => none

/-- total version used in the refutation witnesses -/
def specFD (c : CacheId) (k : Key) : Val := (specF c k).getD k

/-- what `StandardFuncs.Functions.datetime(datetimespec, timezone=tz)` does with the object that
    `parse_datetimespec` handed back (since commit f914bf1): a value carrying a non-zero UTC offset is
    *converted* (`astimezone`: the instant is kept), anything else is *relabelled* (`replace(tzinfo=…)`:
    the wall clock is kept).  `tz = none` is `timezone: False` (naive result). -/
def datetimeFn (tz : Option Int) : Val → Val
  | .aware i o =>
    match tz with
    | some t => if o ≠ 0 then .aware i t else .aware (i + o - t) t
    | none => .naive (i + o)
  | v => v

/-- the views under which today's callers look at cached values: `datetime:` with the default zone (UTC)
    for `parse_datetimespec`, the object itself everywhere else -/
def stdV : CacheId → Val → Val
  | .parseDatetimespec => datetimeFn (some 0)
  | _ => id

/-- keys a deterministic recipe may use today: anything for `parse_datetimespec` (seen through `stdV`),
    no aware datetime for the other caches (`date:`, `date_between`, Counters, Schedule go through
    `parse_date`, which returns the offset-dependent calendar day) -/
def stdP : CacheId → Key → Bool
  | .parseDatetimespec, _ => true
  | _, k => !k.isAware

/-! ### the caller's `plugin_options` (D19c, repaired by commit 6b35a3e) -/

abbrev Dict := List (String × Int)

def Dict.set (d : Dict) (k : String) (v : Int) : Dict :=
  (k, v) :: d.filter (fun e => e.1 ≠ k)

def Dict.get? (d : Dict) (k : String) : Option Int :=
  (d.find? (fun e => e.1 = k)).map (·.2)

/-- `generate`: `plugin_options = dict(plugin_options or {})` (`copies = true`, pinned) resp. the old
    `plugin_options = plugin_options or {}` (`copies = false`: the caller's non-empty dict itself), then
    `plugin_options["snowfakery_version"] = parse_result.version` if the recipe declares one.
    Returns (the caller's dict after the call, the dict the run uses). -/
def prepareOptions (copies : Bool) (caller : Dict) (version : Option Int) : Dict × Dict :=
  let used := match version with
    | some v => caller.set "snowfakery_version" v
    | none => caller
  (if copies || caller.isEmpty then caller else used, used)

/-- dialect a run executes under (`Interpreter.__init__`: default 2) -/
def dialectOf (used : Dict) : Int := (used.get? "snowfakery_version").getD 2

/-- a caller that passes ONE dict object to a list of `generate` calls (recipe versions `vs`):
    the dialects the calls run under -/
def dialects (copies : Bool) : Dict → List (Option Int) → List Int
  | _, [] => []
  | d, v :: vs => dialectOf (prepareOptions copies d v).2 :: dialects copies (prepareOptions copies d v).1 vs

/-! ### caller-owned arguments (access kind "caller-owned argument")

The objects an embedding application passes to `generate_data` / `generate` (`user_options`, `plugin_options`,
lists, open files) are not process cells, but an application that passes the SAME object to several calls
turns them into state that crosses runs.  A call is modelled as a function from the argument object to
(the object afterwards, what the run observes). -/

/-- consecutive calls that are handed one and the same argument object -/
def runShared {A O : Type} : List (A → A × O) → A → List O
  | [], _ => []
  | c :: cs, a => (c a).2 :: runShared cs (c a).1

/-- `merge_options(option_definitions, user_options, …)` on the caller's `user_options`: a supplied value wins,
    else the declared default, else "No definition supplied" (`none`).  `writesBack` is the access kind of the
    argument: `false` = read only (pinned: `Gen.GlobalState.callerArgWrites = []`), `true` = the resolved
    default is stored into the caller's dict (`user_options.setdefault(name, default)`).
    Returns (user_options afterwards, the options of the run). -/
def mergeOptions (writesBack : Bool) : List (String × Option Int) → Dict → Dict → Dict × Option Dict
  | [], user, acc => (user, some acc)
  | (n, dflt) :: ds, user, acc =>
    match user.get? n with
    | some v => mergeOptions writesBack ds user (acc.set n v)
    | none =>
      match dflt with
      | some d => mergeOptions writesBack ds (if writesBack then user.set n d else user) (acc.set n d)
      | none => (user, none)

/-- `generate`: `user_options = user_options or {}` — an empty dict is replaced by a fresh one -/
def generateOptions (writesBack : Bool) (decls : List (String × Option Int)) (user : Dict) : Dict × Option Dict :=
  let r := mergeOptions writesBack decls user []
  (if user.isEmpty then user else r.1, r.2)

/-! ### the entry points of the code (since commit 885750c) -/

/-- `parse_date(d)`: `onlyStrings` is the pinned fact `Gen.GlobalState.cachesOnlyStrings` (true since
    commit 885750c): a datetime or date argument is answered directly, only a string reaches the cache.
    `onlyStrings = false` is the old behaviour (the whole function was cached). -/
def parseDateCall (onlyStrings : Bool) (k : Key) (computed : Val) (kont : Obs → Prog) : Prog :=
  match onlyStrings, k with
  | true, .str _ => .op (.lookup .parseDate k computed) kont
  | true, _ => kont (.val ((specF .parseDate k).getD computed))
  | false, _ => .op (.lookup .parseDate k computed) kont

/-- `parse_datetimespec(d)`: datetimes and dates directly; `"now"` / `"today"` read the clock every time;
    other strings through the cache -/
def parseDatetimespecCall (onlyStrings : Bool) (k : Key) (clk : Int) (computed : Val) (kont : Obs → Prog) : Prog :=
  match onlyStrings, k with
  | true, .str s =>
    if s = "now" ∨ s = "today" then .op (.clock clk) (fun _ => kont (.val computed))
    else .op (.lookup .parseDatetimespec k computed) kont
  | true, _ => kont (.val ((specF .parseDatetimespec k).getD computed))
  | false, _ => .op (.lookup .parseDatetimespec k computed) kont

/-- the caches that are called with their key directly -/
inductive OtherCache where
  | randomizer | maskForKey | importModule
  deriving DecidableEq, Repr

def OtherCache.id : OtherCache → CacheId
  | .randomizer => .randomizer
  | .maskForKey => .maskForKey
  | .importModule => .importModule

/-- a run written against the entry points of the code instead of raw cache operations: the date
    functions take *any* key (strings, dates, naive and aware datetimes of any offset) -/
inductive Code where
  | done
  | fail (msg : String)
  | emit (row : String) (rest : Code)
  | parseDate (k : Key) (computed : Val) (kont : Obs → Code)
  | parseDatetimespec (k : Key) (clk : Int) (computed : Val) (kont : Obs → Code)
  | cached (c : OtherCache) (k : Key) (computed : Val) (kont : Obs → Code)
  | op (o : Op) (kont : Obs → Code)

def Code.toProg (onlyStrings : Bool) : Code → Prog
  | .done => .done
  | .fail m => .fail m
  | .emit r rest => .emit r (rest.toProg onlyStrings)
  | .parseDate k v kont => parseDateCall onlyStrings k v (fun o => (kont o).toProg onlyStrings)
  | .parseDatetimespec k clk v kont => parseDatetimespecCall onlyStrings k clk v (fun o => (kont o).toProg onlyStrings)
  | .cached c k v kont => .op (.lookup c.id k v) (fun o => (kont o).toProg onlyStrings)
  | .op o kont => .op o (fun o' => (kont o').toProg onlyStrings)

/-- any run (ids, draws, clock, failures allowed) whose library calls are pure on strings / ints / pairs -/
inductive TameC (F : CacheId → Key → Val) : Code → Prop where
  | done : TameC F .done
  | fail {m} : TameC F (.fail m)
  | emit {r c} : TameC F c → TameC F (.emit r c)
  | parseDate {k v kont} : (∀ s, k = .str s → v = F .parseDate k) → (∀ o, TameC F (kont o)) → TameC F (.parseDate k v kont)
  | parseDatetimespec {k clk v kont} : (∀ s, k = .str s → s ≠ "now" → s ≠ "today" → v = F .parseDatetimespec k) →
      (∀ o, TameC F (kont o)) → TameC F (.parseDatetimespec k clk v kont)
  | cached {c k v kont} : (k.isAware = false → v = F c.id k) → (∀ o, TameC F (kont o)) → TameC F (.cached c k v kont)
  | op {o kont} : (∀ c k v, o ≠ .lookup c k v) → (∀ o', TameC F (kont o')) → TameC F (.op o kont)

/-- a deterministic run: no generator, no draw, no clock (`now` / `today` excluded), the ContextVar read only
    after it was set; **no restriction on the keys of the date functions** -/
inductive DetC (F : CacheId → Key → Val) : Bool → Code → Prop where
  | done {h} : DetC F h .done
  | fail {h m} : DetC F h (.fail m)
  | emit {h r c} : DetC F h c → DetC F h (.emit r c)
  | parseDate {h k v kont} : (∀ s, k = .str s → v = F .parseDate k) → (∀ o, DetC F h (kont o)) → DetC F h (.parseDate k v kont)
  | parseDatetimespec {h k clk v kont} : k ≠ .str "now" → k ≠ .str "today" →
      (∀ s, k = .str s → v = F .parseDatetimespec k) → (∀ o, DetC F h (kont o)) → DetC F h (.parseDatetimespec k clk v kont)
  | cached {h c k v kont} : k.isAware = false → v = F c.id k → (∀ o, DetC F h (kont o)) → DetC F h (.cached c k v kont)
  | setHistory {h n kont} : (∀ o, DetC F true (kont o)) → DetC F h (.op (.setHistory n) kont)
  | getHistory {kont} : (∀ o, DetC F true (kont o)) → DetC F true (.op .getHistory kont)
  | enterDir {h d kont} : (∀ o, DetC F h (kont o)) → DetC F h (.op (.enterDir d) kont)
  | leaveDir {h kont} : (∀ o, DetC F h (kont o)) → DetC F h (.op .leaveDir kont)
  | getSetting {h i kont} : (∀ o, DetC F h (kont o)) → DetC F h (.op (.getSetting i) kont)

/-! ### classification of the pinned cells -/

namespace Known

/-- how a cell may behave at run time -/
inductive Class where
  | constTable      -- never written after import (no store / mutator call anywhere in the package)
  | identityGen     -- hands out process-wide unique values by design (C13 relies on it)
  | pureCache       -- memoises a function of the full key
  | aliasingCache   -- memoises, but Python key equality is coarser than the function (finding D19b)
  | runPointer      -- overwritten by every run before it is read
  | rngInstance     -- a PRNG: reading it is a random function
  deriving DecidableEq, Repr

/-- today's cells: (file, qualified name, kind reported by the scan, class, one-line justification) -/
def table : List (String × String × String × Class × String) :=
  [("api.py", "OUTPUT_FORMATS", "container", .constTable, "format name -> stream class; only read by configure_output_stream"),
   ("api.py", "file_extensions", "call:tuple", .constTable, "tuple (immutable)"),
   ("backports/typeguard_context_manager_hack.py", "T", "call:TypeVar", .constTable, "typing variable"),
   ("cci_mapping_files/declaration_parser.py", "MERGE_RULES", "container", .constTable, "attribute -> merge function; only read"),
   ("data_generator_runtime.py", "SAVE_EVERYTHING", "call:os.environ.get", .constTable, "str/None read from the environment once at import"),
   ("fakedata/fake_data_generator.py", "REMOVE_WEIRD_CHARS", "container", .constTable, "translate table; only read"),
   ("fakedata/fake_data_generator.py", "UTCAsRelDelta", "call:dateutil.relativedelta.relativedelta", .constTable, "sentinel compared with `is`"),
   ("fakedata/fake_data_generator.py", "email_templates", "container", .constTable, "template list; only read (C18)"),
   ("fakedata/fake_data_generator.py", "faker_class_attrs", "call:set(dir(Faker)).union", .constTable, "ignore list; only read"),
   ("fakedata/fake_data_generator.py", "this_year", "expr:Attribute", .constTable, "int captured from the clock at import; never reassigned"),
   ("object_rows.py", "ObjectRow.__slots__", "container", .constTable, "slots declaration"),
   ("object_rows.py", "RowHistoryCV", "contextvar", .runPointer, "set as the first statement of Interpreter.execute; read only by lazily loaded references of that run"),
   ("object_rows.py", "SlotState.ALLOCATED", "call:auto", .constTable, "enum member"),
   ("object_rows.py", "SlotState.CONSUMED", "call:auto", .constTable, "enum member"),
   ("object_rows.py", "SlotState.UNUSED", "call:auto", .constTable, "enum member"),
   ("output_streams.py", "CSVContext", "call:namedtuple", .constTable, "class created at import"),
   ("output_streams.py", "CSVOutputStream.encoders", "container", .constTable, "type -> encoder; only read (C08)"),
   ("output_streams.py", "DebugOutputStream.encoders", "container", .constTable, "type -> encoder; only read (C08)"),
   ("output_streams.py", "JSONOutputStream.encoders", "container", .constTable, "type -> encoder; only read (C08)"),
   ("output_streams.py", "OutputStream.encoders", "container", .constTable, "type -> encoder; only read (C08)"),
   ("output_streams.py", "SqlDbOutputStream.encoders", "container", .constTable, "type -> encoder; only read (C08)"),
   ("output_streams.py", "SqlTextOutputStream.encoders", "container", .constTable, "type -> encoder; only read (C08; added by e8cf4d3)"),
   ("parse_recipe_yaml.py", "collection_rules", "container", .constTable, "statement kind -> parser; only read"),
   ("plugins.py", "ScalarTypes", "call:T.get_args", .constTable, "tuple of types"),
   ("row_history.py", "_DISPATCH_TABLE", "container", .constTable, "copied into each RestrictedPickler (`copyreg.dispatch_table.copy(); update(dispatchers)` writes the copy)"),
   ("row_history.py", "_SAFE_CLASSES", "container", .constTable, "allow-list; only read"),
   ("standard_plugins/Salesforce.py", "SalesforceConnectionMixin.allowed_options", "container", .constTable, "option declarations; only read"),
   ("standard_plugins/Schedule.py", "FREQ_STRS", "container", .constTable, "name -> dateutil constant (C15)"),
   ("standard_plugins/Schedule.py", "WEEKDAYS", "container", .constTable, "name -> dateutil constant (C15)"),
   ("standard_plugins/SnowfakeryVersion.py", "SnowfakeryVersion.allowed_options", "container", .constTable, "option declarations; only read"),
   ("standard_plugins/UniqueId.py", "UniqueId.allowed_options", "container", .constTable, "option declarations; only read"),
   ("standard_plugins/UniqueId.py", "UniqueNumericIdGenerator.context_uniqifier", "counter", .identityGen, "process-wide generator number: distinct generators (also of different runs) never share it (D19, C13)"),
   ("template_funcs.py", "StandardFuncs.Functions._faker_for_dates", "call:Faker", .rngInstance, "shared Faker used only by date_between / datetime_between (random functions)"),
   ("template_funcs.py", "_parse_date_str", "lru_cache", .pureCache, "keyed by the string (commit 885750c: datetimes and dates never reach the cache)"),
   ("template_funcs.py", "_parse_datetime_str", "lru_cache", .pureCache, "keyed by the string; `now` / `today` and datetime objects never reach the cache"),
   ("utils/scrambled_numbers.py", "mask_for_key", "lru_cache", .pureCache, "keyed by (key, numbits); works on a copy of the cached Random"),
   ("utils/scrambled_numbers.py", "randomizer", "lru_cache", .pureCache, "keyed by the int seed; the cached Random is never advanced (only copied)"),
   ("utils/template_utils.py", "number_chars", "call:set", .constTable, "character set; only read (`in`)"),
   ("utils/versions.py", "FINAL_VERSION_RE", "call:re.compile", .constTable, "compiled regex")]

def cells : List (String × String × String) := table.map (fun r => (r.1, r.2.1, r.2.2.1))

/-- the cells that may change while recipes run: exactly the ones the model carries -/
def runtimeMutable : List (String × String × String) :=
  (table.filter (fun r => r.2.2.2.1 ≠ .constTable)).map (fun r => (r.1, r.2.1, r.2.2.1))

/-- simple names of the run-time mutable cells -/
def mutableNames : List String :=
  ["RowHistoryCV", "context_uniqifier", "_faker_for_dates", "_parse_date_str", "_parse_datetime_str", "mask_for_key", "randomizer"]

/-- every in-function store / mutation / advance of a cell known today: (file, function, cell, how) -/
def cellWrites : List (String × String × String × String) :=
  [("data_generator_runtime.py", "Interpreter.execute", "RowHistoryCV", "call:set"),
   ("standard_plugins/UniqueId.py", "UniqueNumericIdGenerator.__init__", "context_uniqifier", "next"),
   -- `self._DISPATCH_TABLE` is an instance attribute holding a *copy* of copyreg's table; the
   -- module-level `_DISPATCH_TABLE` of row_history is only passed in as `dispatchers`
   ("utils/pickle.py", "RestrictedPickler.__init__", "_DISPATCH_TABLE", "call:update")]

/-- the writes that hit a process cell (the third one above hits a per-run copy) -/
def processWrites : List (String × String × String × String) :=
  [("data_generator_runtime.py", "Interpreter.execute", "RowHistoryCV", "call:set"),
   ("standard_plugins/UniqueId.py", "UniqueNumericIdGenerator.__init__", "context_uniqifier", "next")]

/-- who touches the run-time mutable cells: (file, function, cell) -/
def mutableUses : List (String × String × String) :=
  [("data_generator_runtime.py", "Interpreter.execute", "RowHistoryCV"),
   ("object_rows.py", "LazyLoadedObjectReference.__getattr__", "RowHistoryCV"),
   ("standard_plugins/UniqueId.py", "UniqueNumericIdGenerator.__init__", "context_uniqifier"),
   ("template_funcs.py", "StandardFuncs.Functions.date_between", "_faker_for_dates"),
   ("template_funcs.py", "StandardFuncs.Functions.datetime_between", "_faker_for_dates"),
   ("template_funcs.py", "parse_date", "_parse_date_str"),
   ("template_funcs.py", "parse_datetimespec", "_parse_datetime_str"),
   ("utils/scrambled_numbers.py", "mask_for_key", "randomizer"),
   ("utils/scrambled_numbers.py", "scramble_number", "mask_for_key"),
   ("utils/scrambled_numbers.py", "unscramble_number", "mask_for_key")]

/-- process-wide state outside the package that functions of the package change: (file, function, call, why it is harmless / what models it) -/
def externalWrites : List (String × String × String) :=
  [("plugins.py", "_register_for_continuation", "SnowfakeryDumper.add_representer(cls, …)"),
   ("plugins.py", "_register_for_continuation", "yaml.SafeLoader.add_constructor(f'tag:yaml.org,2002:python/object/apply:{cls.__module__}.{cls.__name__}', …)"),
   ("plugins.py", "plugin_path", "patch.object(sys, …)"),
   ("plugins.py", "resolve_plugin_alternatives", "import_module(module_name)"),
   ("standard_plugins/datasets.py", "FileDataset._load_dataset", "chdir(rootpath)"),
   ("standard_plugins/datasets.py", "chdir", "os.chdir(cwd)"),
   ("standard_plugins/datasets.py", "chdir", "os.chdir(path)"),
   ("standard_plugins/statistical_distributions.py", "wrap._distribution_wrapper", "seed(random_seed)")]

/-- statements executed at import time (they run once per process, before any run) -/
def importEffects : List (String × String × String) :=
  [("__main__.py", "<module>", "cli.generate_cli.main(prog_name='snowfakery')"),
   ("cli.py", "<module>", "main()"),
   ("cli.py", "<module>", "sys.path.append(str(Path(__file__).parent.parent))"),
   ("data_generator_runtime.py", "<module>", "SnowfakeryDumper.add_representer(defaultdict, SnowfakeryDumper.represent_dict)"),
   ("data_generator_runtime.py", "<module>", "yaml.SafeDumper.add_representer(Dependency, lambda representer, obj: representer.represent_list(obj))"),
   ("plugins.py", "<module>", "_register_for_continuation(PluginResult)"),
   ("standard_plugins/datasets.py", "<module>", "SnowfakeryDumper.add_representer(quoted_name, Representer.represent_str)"),
   ("standard_plugins/statistical_distributions.py", "<module>", "setattr(StatisticalDistributions.Functions, func_name, wrap(distribution))"),
   ("template_funcs.py", "StandardFuncs", "setattr(Functions, 'NULL', None)"),
   ("template_funcs.py", "StandardFuncs", "setattr(Functions, 'Null', None)"),
   ("template_funcs.py", "StandardFuncs", "setattr(Functions, 'if', Functions.if_)"),
   ("template_funcs.py", "StandardFuncs", "setattr(Functions, 'null', None)"),
   ("template_funcs.py", "StandardFuncs", "setattr(Functions, 'relativedelta', relativedelta)"),
   ("utils/scrambled_numbers.py", "<module>", "_test_scrambling_is_safe(50)"),
   -- Decimal round trip through continuation files (fix: commit cf894eb): constant registrations
   ("utils/yaml_utils.py", "<module>", "SafeLoader.add_constructor('!snowfakery_decimal', lambda loader, node: Decimal(loader.construct_scalar(node)))"),
   ("utils/yaml_utils.py", "<module>", "SnowfakeryDumper.add_representer(Decimal, lambda dumper, value: dumper.represent_scalar('!snowfakery_decimal', str(value)))")]

/-- `generate_data(dburls=[])`: rebound (`dburls = dburls or …`), never mutated -/
def mutableDefaults : List (String × String × String) :=
  [("api.py", "generate_data(dburls)", "[]")]

/-- `RestrictedUnpickler.count += 1`: the class is created by `_get_RestrictedUnpicklerClass`, once per
    RestrictedPickler, i.e. once per RowHistory, i.e. once per run -/
def classAttrWrites : List (String × String × String) :=
  [("utils/pickle.py", "_get_RestrictedUnpicklerClass.RestrictedUnpickler.find_class", "RestrictedUnpickler.count")]

/-- containers that `__init__` of the per-run classes creates anew for every run (ParseContext, Interpreter, Globals, …):
    none of them may move to the class body (it would become a process cell): (file, class, attribute) -/
def perRunContainers : List (String × String × String) :=
  [("data_generator_runtime.py", "Globals", "persistent_nicknames"),
   ("data_generator_runtime.py", "Globals", "persistent_objects_by_table"),
   ("data_generator_runtime.py", "IdManager", "start_ids"),
   ("data_generator_runtime.py", "Interpreter", "faker_template_libraries"),
   ("data_generator_runtime.py", "Interpreter", "instance_states"),
   ("data_generator_runtime.py", "Interpreter", "plugin_function_libraries"),
   ("data_generator_runtime.py", "Interpreter", "plugin_instances"),
   ("data_generator_runtime.py", "Interpreter", "standard_funcs"),
   ("data_generator_runtime.py", "JinjaTemplateEvaluatorFactory", "compilers"),
   ("data_generator_runtime.py", "RuntimeContext", "local_vars"),
   ("data_generator_runtime.py", "Transients", "last_seen_obj_by_table"),
   ("data_generator_runtime.py", "Transients", "named_slots"),
   ("data_generator_runtime.py", "Transients", "nicknamed_objects"),
   ("parse_recipe_yaml.py", "ParseContext", "files_being_parsed"),
   ("parse_recipe_yaml.py", "ParseContext", "line_numbers"),
   ("parse_recipe_yaml.py", "ParseContext", "macros"),
   ("parse_recipe_yaml.py", "ParseContext", "macros_being_expanded"),
   ("parse_recipe_yaml.py", "ParseContext", "options"),
   ("parse_recipe_yaml.py", "ParseContext", "parser_macros_plugins"),
   ("parse_recipe_yaml.py", "ParseContext", "plugins"),
   ("parse_recipe_yaml.py", "ParseContext", "random_references"),
   ("parse_recipe_yaml.py", "ParseContext", "table_infos"),
   ("parse_recipe_yaml.py", "ParseResult", "templates"),
   ("parse_recipe_yaml.py", "TableInfo", "_templates"),
   ("parse_recipe_yaml.py", "TableInfo", "fields"),
   ("parse_recipe_yaml.py", "TableInfo", "friends"),
   ("row_history.py", "RowHistory", "nickname_to_tablename"),
   ("standard_plugins/datasets.py", "DatasetBase", "datasets")]

/-- the two run-time stacks (cycle detection of include files and of macros): per-run lists, every push is protected
    by a `try … finally: pop()` that starts immediately after it — restored on every path including failure -/
def stackDiscipline : List (String × String × String × String) :=
  [("parse_recipe_yaml.py", "include_macro", "context.macros_being_expanded", "pop in finally, try follows the push"),
   ("parse_recipe_yaml.py", "parse_included_file", "context.files_being_parsed", "pop in finally, try follows the push")]

/-- what an in-function call into another module does to process-global state -/
inductive SettingClass where
  | io            -- writes to a console / file handed in by the caller; no setting
  | warnOnce      -- `warnings.warn`: the once-per-location registry decides whether the text is *printed* again (stderr only)
  | registry      -- grows a registry keyed by the full class path when a plugin class is created (idempotent)
  | restored      -- changed for the duration of a bracket and restored in `finally` / by a context manager
  | importCache   -- `sys.modules` (modelled: `CacheId.importModule`; finding D19d)
  | rng           -- advances / re-seeds a process-wide PRNG: random functions, outside `Det`
  | cacheFlush    -- empties caches that only memoise the file system (`importlib.invalidate_caches()`): idempotent, nothing to restore
  | notRestored   -- a process-wide setting changed and left changed: a defect (none today)
  deriving DecidableEq, Repr

/-- every in-function call / store into modules outside the package that the scan reports, classified:
    (file, function, what, class, why) -/
def processSettingWrites : List (String × String × String × SettingClass × String) :=
  [("api.py", "SnowfakeryApplication.echo", "call click.echo [click] (result discarded)", .io, "prints"),
   ("api.py", "generate_data", "call yaml.safe_dump [yaml] (result discarded)", .io, "writes the mapping file"),
   ("cli.py", "generate_cli", "call click.echo [click] (result discarded)", .io, "prints the version"),
   ("data_generator.py", "generate", "call warnings.warn [warnings] (result discarded)", .warnOnce, "unknown options"),
   ("data_generator.py", "initialize_globals", "call warnings.warn [warnings] (result discarded)", .warnOnce, "reused names"),
   ("data_generator.py", "save_continuation_yaml", "call yaml.dump [yaml] (result discarded)", .io, "writes the continuation file"),
   ("data_generator_runtime.py", "Interpreter.__exit__", "call warn [warnings.warn] (result discarded)", .warnOnce, "plugin close failed"),
   ("output_streams.py", "CSVOutputStream.__init__", "call Path.mkdir [pathlib.Path] (result discarded)", .io, "creates the output folder"),
   ("output_streams.py", "CSVOutputStream.close", "call json.dump [json] (result discarded)", .io, "writes csvw metadata"),
   ("output_streams.py", "SqlDbOutputStream.__init__", "call warn [warnings.warn] (result discarded)", .warnOnce, "deprecation"),
   ("output_streams.py", "SqlDbOutputStream.from_url", "call warn [warnings.warn] (result discarded)", .warnOnce, "deprecation"),
   ("parse_recipe_yaml.py", "check_identifier", "call warn [warnings.warn] (result discarded)", .warnOnce, "odd identifier"),
   ("plugins.py", "_register_for_continuation", "call yaml.SafeLoader.add_constructor [yaml]", .registry, "PluginResult subclasses, keyed by module.class"),
   ("plugins.py", "plugin_path", "call patch.object [unittest.mock.patch]", .restored, "sys.path, used as a context manager (`sys_path_is_bracket`)"),
   ("plugins.py", "resolve_plugin_alternatives", "call import_module [importlib.import_module]", .importCache, "D19d"),
   ("plugins.py", "resolve_plugins", "call invalidate_caches [importlib.invalidate_caches] (result discarded)", .cacheFlush,
    "commit b940bd9 (D58): drops the finders' directory listings and negative path entries (`sys.path_importer_cache`), NOT `sys.modules`; afterwards every lookup is answered from the file system, exactly as in a fresh process — it can only remove a difference to the fresh-process run (`flushed_caches_stay_consistent`)"),
   ("row_history.py", "RowHistory.random_row_reference", "call warnings.warn [warnings] (result discarded)", .warnOnce, "experimental scope"),
   ("standard_plugins/datasets.py", "CSVDatasetRandomPermutationIterator.start", "call shuffle [random.shuffle] (result discarded)", .rng, "Dataset.shuffle"),
   ("standard_plugins/datasets.py", "chdir", "call os.chdir [os]", .restored, "`chdir_is_bracket`, `cwd_restored`"),
   ("standard_plugins/statistical_distributions.py", "wrap._distribution_wrapper", "call seed [numpy.random.seed]", .rng, "numpy's global PRNG, on every call of a distribution"),
   ("template_funcs.py", "StandardFuncs.Functions.debug", "call sys.stderr.write [sys] (result discarded)", .io, "debug output"),
   ("utils/pickle.py", "_get_RestrictedUnpicklerClass.RestrictedUnpickler.find_class", "call warnings.warn [warnings] (result discarded)", .warnOnce, "unsafe class")]

/-- caller-owned arguments that leave the scanned code: open files handed to the yaml reader / writer and to
    `open_file_like`, the output stream and the parent application handed to the Interpreter — objects whose purpose is
    to be consumed by the call; none of them is a dict or list of settings: (file, function, parameter, where) -/
def callerArgEscapes : List (String × String × String × String) :=
  [("api.py", "_get_output_streams", "output_folder", "passed to output_stream_cls(…)"),
   -- strings / tuples (immutable): the format name and the target tuple
   ("api.py", "_get_output_streams", "output_format", "passed to output_stream_cls(…)"),
   ("api.py", "get_output_stream_class", "output_format", "passed to OUTPUT_FORMATS.get(…)"),
   ("api.py", "stopping_criteria_from_target_number", "target_number", "passed to StoppingCriteria(…)"),
   ("api.py", "generate_data", "continuation_file", "passed to open_with_cleanup(…)"),
   ("api.py", "generate_data", "generate_cci_mapping_file", "passed to open_with_cleanup(…)"),
   ("api.py", "generate_data", "generate_continuation_file", "passed to open_with_cleanup(…)"),
   ("api.py", "generate_data", "update_input_file", "passed to open_with_cleanup(…)"),
   ("api.py", "generate_data", "yaml_file", "passed to open_with_cleanup(…)"),
   ("data_generator.py", "generate", "open_yaml_file", "passed to getattr(…)"),
   ("data_generator.py", "generate", "output_stream", "passed to Interpreter(…)"),
   ("data_generator.py", "generate", "parent_application", "passed to Interpreter(…)"),
   ("data_generator.py", "generate", "stopping_criteria", "passed to SnowfakeryApplication(…)"),
   ("data_generator.py", "load_continuation_yaml", "continuation_file", "passed to yaml.safe_load(…)"),
   ("data_generator.py", "save_continuation_yaml", "continuation_file", "passed to yaml.dump(…)"),
   ("parse_recipe_yaml.py", "parse_file", "stream", "passed to getattr(…)"),
   ("parse_recipe_yaml.py", "parse_recipe", "stream", "passed to getattr(…)"),
   ("parse_recipe_yaml.py", "yaml_safe_load_with_line_numbers", "filestream", "passed to yaml.SafeLoader(…)")]

/-- the settings-like arguments whose flow the model speaks about -/
def settingsArgCells : List (String × String × String) :=
  [("api.py", "generate_data", "user_options"), ("api.py", "generate_data", "plugin_options"),
   ("api.py", "generate_data", "output_files"), ("api.py", "generate_data", "dburls"),
   ("api.py", "generate_data", "update_passthrough_fields"), ("api.py", "generate_data", "load_declarations"),
   ("data_generator.py", "generate", "user_options"), ("data_generator.py", "generate", "plugin_options"),
   ("data_generator.py", "generate", "update_passthrough_fields"),
   ("data_generator.py", "merge_options", "user_options")]

end Known

end SnowModel.Proc
