/-
Decidable hypotheses of the L2 split theorems (Props/C04L2): kept in Core (no Mathlib, no proofs) so
that the model driver can evaluate them on the very recipes the harness runs.
-/
import SnowModel.Core.L2

namespace SnowModel.L2

/-- no statement of the list is a `var` -/
def noVarStmts (sts : List Stmt) : Bool :=
  sts.all (fun st => match st with | .var _ _ => false | .obj _ => true)

/-- no top-level statement of the recipe is a `var` (variables are not in a continuation file) -/
def NoTopVars (r : Recipe) : Prop := noVarStmts r.statements = true

instance (r : Recipe) : Decidable (NoTopVars r) := inferInstanceAs (Decidable (noVarStmts r.statements = true))

/-- a value a continuation file carries faithfully -/
def plainVal : Val → Bool
  | .row _ => false
  | .slot _ => false
  | .deadSlot _ _ => false
  | _ => true

/-- every row bound to a persistent nickname or table name holds plain values only -/
def persistClean (s : St) : Bool :=
  (s.pNick ++ s.pTable).all (fun p => (rowData s p.2).values.all (fun q => plainVal q.2))

def PersistClean (s : St) : Prop := persistClean s = true

instance (s : St) : Decidable (PersistClean s) := inferInstanceAs (Decidable (persistClean s = true))

/-- `PersistClean` at every cut of the run (and at its end iff a final file is written); a run that
    errors imposes nothing.  Mirrors `chain`, but follows the *uninterrupted* run: the state is not
    passed through `saveLoad`. -/
def cleanCuts (fuel : Nat) (r : Recipe) (finalSave : Bool) : List Nat → Bool → St → Bool
  | [], _, _ => true
  | k :: ks, continued, s =>
    match iterations fuel r k { obj := none, vars := [] } continued s with
    | .error _ => true
    | .ok (_, s1) =>
      (ks.isEmpty && !finalSave) || (persistClean s1 && cleanCuts fuel r finalSave ks true s1)

def CleanCuts (fuel : Nat) (r : Recipe) (finalSave : Bool) (parts : List Nat) (continued : Bool) (s : St) :
    Prop := cleanCuts fuel r finalSave parts continued s = true

instance (fuel : Nat) (r : Recipe) (fs : Bool) (parts : List Nat) (cont : Bool) (s : St) :
    Decidable (CleanCuts fuel r fs parts cont s) :=
  inferInstanceAs (Decidable (cleanCuts fuel r fs parts cont s = true))

/-- all fields are literals -/
def allLit (fs : List (String × FieldDef)) : Bool :=
  fs.all (fun p => match p.2 with | .lit _ => true | _ => false)

/-- every `just_once` template, at any depth (counts, nested fields, friends, variables), has
    literal fields only -/
def LitOnceFd : FieldDef → Bool
  | .nested t => LitOnceT t
  | _ => true
where
  LitOnceT : Template → Bool
    | .mk _ _ jo cnt fields friends =>
      (match cnt with | some fd => LitOnceFd fd | none => true)
      && (!jo || allLit fields) && LitOnceFields fields && LitOnceStmts friends
  LitOnceFields : List (String × FieldDef) → Bool
    | [] => true
    | (_, fd) :: rest => LitOnceFd fd && LitOnceFields rest
  LitOnceStmts : List Stmt → Bool
    | [] => true
    | .var _ fd :: rest => LitOnceFd fd && LitOnceStmts rest
    | .obj t :: rest => LitOnceT t && LitOnceStmts rest

def LitOnce (r : Recipe) : Prop := LitOnceFd.LitOnceStmts r.statements = true

instance (r : Recipe) : Decidable (LitOnce r) :=
  inferInstanceAs (Decidable (LitOnceFd.LitOnceStmts r.statements = true))

end SnowModel.L2
