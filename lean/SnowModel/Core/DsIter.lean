/-
Model of the dataset iterator protocol (C17); import-free (Init only).

Mirrors
  * `snowfakery/plugins.py`  `PluginResultIterator.next / restart`
  * `snowfakery/standard_plugins/datasets.py`  `DatasetIteratorBase.next_result`,
    `CSVDatasetLinearIterator`, `CSVDatasetRandomPermutationIterator`, `SQLDataset*Iterator`
  * `snowfakery/data_generator_runtime_object_model.py`
    `ObjectTemplate._generate_fields` (a field whose value is an iterator takes one `next()`;
    `StopIteration` becomes the recipe error "Could not generate enough values"),
    `ForEachVariableDefinition.evaluate` (`recalculate_every_time = True` while the expression
    is rendered and restored afterwards — fix a90df5d —, `repeat = False`),
    `ObjectTemplate.generate_rows` (`zip(for_each iterator, itertools.count())`)
  * `snowfakery/parse_recipe_yaml.py` `build_update_recipe` (one shared
    `CSVDatasetLinearIterator(update_input_file, False)` bound to the variable `input`).

A data source is a function `src : Nat → List α`: the records that the `j`-th call of `start()`
puts into `self.results`.  Linear iterators: `fun _ => recs` (the file / table is re-read from
the top); shuffled iterators: pass `j` is a re-ordering chosen by an oracle (for CSV: Python's
`random.shuffle`, modelled below as `shuffle` with its draws as an explicit argument; for SQL:
`ORDER BY random()`).
-/
namespace SnowModel.DsIter

/-- Outcome of one `next()` call. -/
inductive Out (α : Type) where
  | value (a : α)   -- returned a record
  | stop            -- `StopIteration` left `next()`
  deriving Repr, DecidableEq, BEq

/-- `some a ↦ value a`, `none ↦ stop` -/
def Out.ofOption {α : Type} : Option α → Out α
  | some a => .value a
  | none => .stop

/-- the records of the leading `value` outcomes (everything before the first `stop`) -/
def valuesPrefix {α : Type} : List (Out α) → List α
  | .value a :: rest => a :: valuesPrefix rest
  | _ => []

def Out.isStop {α : Type} : Out α → Bool
  | .stop => true
  | .value _ => false

/-- State of a `DatasetIteratorBase` object. -/
structure Iter (α : Type) where
  repeat_ : Bool      -- `self.repeat`
  pending : List α    -- what the generator in `self.results` will still yield
  passes : Nat        -- how many times `start()` ran (index of the next pass of the source)
  deriving Repr, DecidableEq

abbrev Src (α : Type) := Nat → List α

/-- linear source: every pass is the file from the top -/
def linearSrc {α : Type} (recs : List α) : Src α := fun _ => recs

/-- `start()`: put a fresh pass over the data into `self.results`. -/
def start {α : Type} (src : Src α) (it : Iter α) : Iter α :=
  { it with pending := src it.passes, passes := it.passes + 1 }

/-- `__init__(…, repeat)`: store the flag, call `self.start()`. -/
def create {α : Type} (src : Src α) (rep : Bool) : Iter α :=
  start src { repeat_ := rep, pending := [], passes := 0 }

/-- `next_result()`: `return next(self.results)`. -/
def nextResult {α : Type} (it : Iter α) : Out α × Iter α :=
  match it.pending with
  | [] => (.stop, it)
  | x :: xs => (.value x, { it with pending := xs })

/-- `PluginResultIterator.next()`:
    `try: return self.next_result()
     except StopIteration:
         if self.repeat: self.restart(); return self.next_result()
         else: raise`   (`restart()` is `self.start()`). -/
def next {α : Type} (src : Src α) (it : Iter α) : Out α × Iter α :=
  match nextResult it with
  | (.value x, it1) => (.value x, it1)
  | (.stop, it1) => if it1.repeat_ then nextResult (start src it1) else (.stop, it1)

/-- `m` successive `next()` calls: the outcomes and the final state. -/
def runN {α : Type} (src : Src α) : Iter α → Nat → List (Out α) × Iter α
  | it, 0 => ([], it)
  | it, m + 1 =>
    let r := next src it
    let rs := runN src r.2 m
    (r.1 :: rs.1, rs.2)

/-- outcome of the `(k+1)`-th `next()` call (0-based `k`) -/
def nth {α : Type} (src : Src α) (it : Iter α) (k : Nat) : Out α :=
  (next src (runN src it k).2).1

/-! ### a field site: one `next()` per consuming row -/

/-- `m` consuming rows at one field site.  Each row takes one `next()`; a `StopIteration` is
    turned into the recipe error "Could not generate enough values to create rows" and the run
    ends: returns (records handed to the rows written so far, error?, final state). -/
def consume {α : Type} (src : Src α) : Iter α → Nat → List α × Bool × Iter α
  | it, 0 => ([], false, it)
  | it, m + 1 =>
    match next src it with
    | (.value a, it1) =>
      let r := consume src it1 m
      (a :: r.1, r.2.1, r.2.2)
    | (.stop, it1) => ([], true, it1)

/-! ### a tiny statement language: the pinned body of `PluginResultIterator.next` -/

/-- calls on `self` that occur in the method -/
inductive Prim where
  | nextResult   -- `self.next_result()`
  | restart      -- `self.restart()`
  deriving Repr, DecidableEq

/-- conditions that occur in the method -/
inductive Cond where
  | repeatFlag       -- `self.repeat`
  | notRepeatFlag    -- `not self.repeat`
  deriving Repr, DecidableEq

/-- statement blocks (each constructor carries its continuation) -/
inductive Prog where
  | ret (p : Prim)                      -- `return self.p()`
  | call (p : Prim) (k : Prog)          -- `self.p()` ; k
  | ite (c : Cond) (t e : Prog)         -- `if c: t else: e`
  | tryStop (body handler : Prog)       -- `try: body except StopIteration: handler`
  | reraise                             -- bare `raise` inside the handler
  | done                                -- fall off the end (returns `None`)
  deriving Repr, DecidableEq

/-- result of running a block -/
inductive Res (α : Type) where
  | returned (a : α)
  | returnedNone
  | raisedStop
  deriving Repr, DecidableEq

def evalCond {α : Type} (c : Cond) (it : Iter α) : Bool :=
  match c with
  | .repeatFlag => it.repeat_
  | .notRepeatFlag => !it.repeat_

/-- big-step semantics of a block; `restart()` is `start()` (pinned separately). -/
def exec {α : Type} (src : Src α) : Prog → Iter α → Res α × Iter α
  | .ret .nextResult, it =>
    match nextResult it with
    | (.value a, it1) => (.returned a, it1)
    | (.stop, it1) => (.raisedStop, it1)
  | .ret .restart, it => (.returnedNone, start src it)
  | .call .nextResult k, it =>
    match nextResult it with
    | (.value _, it1) => exec src k it1
    | (.stop, it1) => (.raisedStop, it1)
  | .call .restart k, it => exec src k (start src it)
  | .ite c t e, it => if evalCond c it then exec src t it else exec src e it
  | .tryStop b h, it =>
    match exec src b it with
    | (.raisedStop, it1) => exec src h it1
    | r => r
  | .reraise, it => (.raisedStop, it)
  | .done, it => (.returnedNone, it)

/-- how an `Out` looks as a block result -/
def Out.toRes {α : Type} : Out α → Res α
  | .value a => .returned a
  | .stop => .raisedStop

/-- the method body as written in the source today (the bridging lemma relates the regenerated
    pin to this term, and this term to `next`). -/
def nextProgModel : Prog :=
  .tryStop (.ret .nextResult)
    (.ite .repeatFlag (.call .restart (.ret .nextResult)) .reraise)

/-- Reader for the prefix token form in which the pin generator writes a method body
    (`tools/pins/datasets.py`): `ret p | call p K | if c T E | try B H | raise | done`. -/
def parseProgAux : (fuel : Nat) → List String → Option (Prog × List String)
  | 0, _ => none
  | fuel + 1, toks =>
    match toks with
    | "ret" :: "next_result" :: rest => some (.ret .nextResult, rest)
    | "ret" :: "restart" :: rest => some (.ret .restart, rest)
    | "call" :: p :: rest =>
      match (if p = "next_result" then some Prim.nextResult
             else if p = "restart" then some Prim.restart else none), parseProgAux fuel rest with
      | some q, some (k, rest') => some (.call q k, rest')
      | _, _ => none
    | "if" :: c :: rest =>
      match (if c = "repeat" then some Cond.repeatFlag
             else if c = "not_repeat" then some Cond.notRepeatFlag else none), parseProgAux fuel rest with
      | some cc, some (t, r1) =>
        match parseProgAux fuel r1 with
        | some (e, r2) => some (.ite cc t e, r2)
        | none => none
      | _, _ => none
    | "try" :: rest =>
      match parseProgAux fuel rest with
      | some (b, r1) =>
        match parseProgAux fuel r1 with
        | some (h, r2) => some (.tryStop b h, r2)
        | none => none
      | none => none
    | "raise" :: rest => some (.reraise, rest)
    | "done" :: rest => some (.done, rest)
    | _ => none

/-- a token list is a program iff it parses completely -/
def parseProg (toks : List String) : Option Prog :=
  match parseProgAux (toks.length + 1) toks with
  | some (p, []) => some p
  | _ => none

/-! ### constants of the wiring (each has a pin and a bridging lemma) -/

/-- `repeat = kwargs.get("repeat", True)` in `FileDataset._load_dataset` -/
def defaultRepeat : Bool := true
/-- `ret.repeat = False` in `ForEachVariableDefinition.evaluate` -/
def forEachRepeat : Bool := false
/-- `context.recalculate_every_time = True` in `ForEachVariableDefinition.evaluate` (while the
    for_each expression is rendered; restored afterwards, see `forEachFlagRestored`) -/
def forEachRecalculates : Bool := true
/-- `CSVDatasetLinearIterator(update_input_file, False)` in `build_update_recipe` -/
def updateRepeat : Bool := false

/-! ### `for_each` -/

/-- The row loop `for i, (rec, child_index) in enumerate(zip(iterator, itertools.count()))`:
    rows `(record, child_index)` until the iterator stops.  One unit of fuel per `next()`;
    `none` = fuel exhausted (the Python loop would still be running). -/
def zipLoop {α : Type} (src : Src α) : (fuel : Nat) → Iter α → (idx : Nat) →
    Option (List (α × Nat) × Iter α)
  | 0, _, _ => none
  | fuel + 1, it, i =>
    match next src it with
    | (.value a, it1) =>
      match zipLoop src fuel it1 (i + 1) with
      | some (rows, it2) => some ((a, i) :: rows, it2)
      | none => none
    | (.stop, it1) => some ([], it1)

/-- `ForEachVariableDefinition.evaluate` on an iterator object: `ret.repeat = False`. -/
def evaluateForEach {α : Type} (it : Iter α) : Iter α := { it with repeat_ := forEachRepeat }

/-- One execution of a `for_each` template over a dataset function: because the context
    recalculates every time, the dataset function is called again and builds a *new* iterator
    (with whatever `repeat` the recipe declared); repetition is then switched off and the row
    loop drains it. -/
def forEachExec {α : Type} (src : Src α) (declaredRepeat : Bool) (fuel : Nat) :
    Option (List (α × Nat)) :=
  (zipLoop src fuel (evaluateForEach (create src declaredRepeat)) 0).map (·.1)

/-- the same loop if `repeat` were left as declared (what `ret.repeat = False` prevents) -/
def forEachExecKeepingRepeat {α : Type} (src : Src α) (declaredRepeat : Bool) (fuel : Nat) :
    Option (List (α × Nat)) :=
  (zipLoop src fuel (create src declaredRepeat) 0).map (·.1)

/-- `e` executions of the template (iterations of the recipe, or rows of an enclosing
    template); execution `i` reads the source `srcs i`. -/
def forEachExecs {α : Type} (srcs : Nat → Src α) (declaredRepeat : Bool) (fuel : Nat) :
    (e : Nat) → Option (List (List (α × Nat)))
  | 0 => some []
  | e + 1 =>
    match forEachExecs srcs declaredRepeat fuel e, forEachExec (srcs e) declaredRepeat fuel with
    | some prev, some rows => some (prev ++ [rows])
    | _, _ => none

/-! ### a field site inside a `for_each` template (or an update-mode recipe) -/

/-- What a context that **keeps** `recalculate_every_time = True` does to a field site: the
    memorable function is called again for every row, i.e. row `k` draws its value from a
    **new** iterator (reading the source `srcs k`).  This was the behaviour of every site inside
    a `for_each` template before fix a90df5d (defect D40, found as D23); it is kept as the
    explicitly parameterised "old behaviour" (`consumeAtWith (flagRestored := false)`). -/
def consumeFresh {α : Type} (srcs : Nat → Src α) (rep : Bool) : (m : Nat) → (k : Nat) → List α × Bool
  | 0, _ => ([], false)
  | m + 1, k =>
    match next (srcs k) (create (srcs k) rep) with
    | (.value a, _) =>
      let r := consumeFresh srcs rep m (k + 1)
      (a :: r.1, r.2)
    | (.stop, _) => ([], true)

/-- `m` consuming rows at a site, by placement, parameterised by whether
    `ForEachVariableDefinition.evaluate` restores `context.recalculate_every_time` after it has
    rendered the for_each expression.  Restored (the code now): the flag is only on while the
    dataset function of the `for_each` itself is called, so a field site — wherever it lies —
    keeps one iterator for the whole run.  Not restored (old code): the template's context, and
    by inheritance nested templates and friends, recalculate, and every row gets a new iterator. -/
def consumeAtWith {α : Type} (flagRestored : Bool) (insideForEach : Bool) (src : Src α) (rep : Bool)
    (m : Nat) : List α × Bool :=
  if insideForEach && forEachRecalculates && !flagRestored then consumeFresh (fun _ => src) rep m 0
  else ((consume src (create src rep) m).1, (consume src (create src rep) m).2.1)

/-- `try: ret = render() finally: context.recalculate_every_time = previous` (pinned) -/
def forEachFlagRestored : Bool := true

/-- the code as it is: `insideForEach` covers the for_each template's own fields, templates
    nested in it, its friends, and every update-mode recipe (which is a for_each over `input`). -/
def consumeAt {α : Type} (insideForEach : Bool) (src : Src α) (rep : Bool) (m : Nat) : List α × Bool :=
  consumeAtWith forEachFlagRestored insideForEach src rep m

/-! ### several consumers: every iterator object has its own state -/

/-- what a consumer can do with *its* iterator -/
inductive Op where
  | next                  -- take one value (`next()`)
  | renew (rep : Bool)    -- drop the iterator and build a new one (what every execution of a
                          -- `for_each` template does: the dataset function is called again)
  deriving Repr, DecidableEq

/-- one operation on one iterator state; `none` = the operation returns nothing -/
def stepOp {α : Type} (src : Src α) (it : Iter α) : Op → Option (Out α) × Iter α
  | .next => (some (next src it).1, (next src it).2)
  | .renew rep => (none, create src rep)

/-- a consumer alone: its operations in order -/
def runOps {α : Type} (src : Src α) : Iter α → List Op → List (Option (Out α)) × Iter α
  | it, [] => ([], it)
  | it, op :: ops =>
    let r := stepOp src it op
    let rs := runOps src r.2 ops
    (r.1 :: rs.1, rs.2)

/-- Two consumers (`true` = A, `false` = B), each with its own iterator state and its own source
    (the same file read twice is two sources with equal content), under an arbitrary interleaving
    of their operations.  The state of the pair is a *pair of states*: nothing is shared — in the
    code: `rows = [… for row in d]` is a new list per `start()`, `self.results` a new generator. -/
def runTwo {α : Type} (srcA srcB : Src α) : Iter α × Iter α → List (Bool × Op) →
    List (Bool × Option (Out α)) × (Iter α × Iter α)
  | st, [] => ([], st)
  | (a, b), (who, op) :: ops =>
    if who then
      let r := stepOp srcA a op
      let rs := runTwo srcA srcB (r.2, b) ops
      ((true, r.1) :: rs.1, rs.2)
    else
      let r := stepOp srcB b op
      let rs := runTwo srcA srcB (a, r.2) ops
      ((false, r.1) :: rs.1, rs.2)

/-- the operations / results of one of the two consumers, in order -/
def projOps (who : Bool) (ops : List (Bool × Op)) : List Op :=
  (ops.filter (fun p => p.1 == who)).map (·.2)

def projOuts {α : Type} (who : Bool) (outs : List (Bool × Option (Out α))) : List (Option (Out α)) :=
  (outs.filter (fun p => p.1 == who)).map (·.2)

/-! ### the per-call-site state store (`Interpreter.instance_states`) -/

/-- `instance_states`: state key ↦ the iterator kept for that key.  A memorable function called
    at a call site looks its iterator up under the site's key (`unique_context_identifier` of the
    `StructuredValue`, pinned to be `str(id(self))`: one key per parsed object) and builds it on
    first use. -/
abbrev Store (K α : Type) := K → Option (Iter α)

/-- one consuming row at the call site whose key is `k`: fetch-or-create, `next()`, store back -/
def storeStep {K α : Type} [DecidableEq K] (src : Src α) (rep : Bool) (st : Store K α) (k : K) :
    Out α × Store K α :=
  let it := (st k).getD (create src rep)
  let r := next src it
  (r.1, fun k' => if k' = k then some r.2 else st k')

/-- a schedule of consuming rows, each named by the key of its call site -/
def storeRun {K α : Type} [DecidableEq K] (src : Src α) (rep : Bool) : Store K α → List K →
    List (K × Out α) × Store K α
  | st, [] => ([], st)
  | st, k :: ks =>
    let r := storeStep src rep st k
    let rs := storeRun src rep r.2 ks
    ((k, r.1) :: rs.1, rs.2)

/-- the same schedule written with call sites `S` and a key function (what the interpreter does) -/
def siteRun {S K α : Type} [DecidableEq K] (key : S → K) (src : Src α) (rep : Bool) (sched : List S) :
    List (S × Out α) :=
  (sched.zip ((storeRun src rep (fun _ => none) (sched.map key)).1.map (·.2)))

/-! ### update mode -/

/-- Update mode: `build_update_recipe` creates ONE iterator over the input file at parse time
    (`repeat = False`) and the `for_each` expression returns that same object every time it is
    evaluated; each iteration of the recipe runs the row loop on it. -/
def updateIters {α : Type} (src : Src α) (fuel : Nat) : (iterations : Nat) → Iter α →
    Option (List (List (α × Nat)))
  | 0, _ => some []
  | k + 1, it =>
    match zipLoop src fuel (evaluateForEach it) 0 with
    | some (rows, it1) =>
      match updateIters src fuel k it1 with
      | some rest => some (rows :: rest)
      | none => none
    | none => none

def updateRun {α : Type} (recs : List α) (fuel iterations : Nat) : Option (List (List (α × Nat))) :=
  updateIters (linearSrc recs) fuel iterations (create (linearSrc recs) updateRepeat)

/-! ### `random.shuffle` (CPython): Fisher–Yates with the draws as an explicit argument -/

/-- `x[i], x[j] = x[j], x[i]` -/
def swap {α : Type} (l : List α) (i j : Nat) : List α :=
  if h : i < l.length ∧ j < l.length then (l.set i l[j]).set j l[i] else l

/-- `for i in reversed(range(1, len(x))): j = randbelow(i + 1); x[i], x[j] = x[j], x[i]`
    — `fy i ds l` runs the loop for indices `i, i-1, …, 1`, taking `j` from `ds`
    (reduced modulo `i + 1`, so every draw list is meaningful; a missing draw counts as 0). -/
def fy {α : Type} : Nat → List Nat → List α → List α
  | 0, _, l => l
  | i + 1, ds, l => fy i ds.tail (swap l (i + 1) (ds.headD 0 % (i + 2)))

def shuffle {α : Type} (ds : List Nat) (l : List α) : List α := fy (l.length - 1) ds l

/-- source of `CSVDatasetRandomPermutationIterator`: pass `j` re-reads all rows and shuffles
    them with the draws `draws j`. -/
def shuffledSrc {α : Type} (recs : List α) (draws : Nat → List Nat) : Src α :=
  fun j => shuffle (draws j) recs

end SnowModel.DsIter
