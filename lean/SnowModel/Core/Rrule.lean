/-
C15 — executable model of what `snowfakery/standard_plugins/Schedule.py` computes:

* `Rule` / `occ`: the RFC 5545 subset that `dateutil.rrule` implements for the keywords the plugin
  passes (freq, dtstart, interval, count, until, bymonth, bymonthday, byyearday, byweekno,
  byweekday plain / nth, byhour, byminute, bysecond; `wkst = SU`), written declaratively:
  an instant occurs iff its period is aligned with the start's (mod interval), every supplied
  filter holds for its day, and its time of day lies in the time set.
* `combine`: `dateutil.rruleset` (rrule ∪ rdate ∪ nested sets, minus exdate / exrule, sorted,
  duplicates dropped).
* `Params` / `pluginRule` / `normUntil` / `normDateArg`: what `CalendarRule.__init__` does with
  the recipe keywords (date-valued `until` / `include` / `exclude` are placed at the start's time
  of day in the start's zone; datetimes keep their own zone, naive ones mean UTC).

Times are integers: a local wall-clock second count `L = ordinal * 86400 + second_of_day`
(ordinal = `date.toordinal()`), an absolute instant `abs = L - utcoffset`.
No Mathlib (linked into the driver).
-/
import SnowModel.Core.Civil

namespace SnowModel.Rrule
open SnowModel.Civil

inductive Freq
  | yearly | monthly | weekly | daily | hourly | minutely | secondly
  deriving DecidableEq, Repr

def Freq.isSub : Freq → Bool
  | .hourly | .minutely | .secondly => true
  | _ => false

/-- `dateutil.rrule.weekday(wd)(n)`: `n = 0` is a plain weekday, Monday = 0 -/
structure WDay where
  wd : Nat
  n : Int
  deriving DecidableEq, Repr

inductive Err
  | badInterval      -- interval < 1 (dateutil would not terminate; since fix 66ecebf the plugin
                     -- rejects it before the rule is built, see `pluginCheck`)
  | emptyRule        -- dateutil: "Invalid rrule byxxx generates an empty set." (constructor) or
                     -- "Invalid combination of interval and byhour resulting in empty rule." (first step)
  | badTime          -- datetime.time(...) rejects an hour/minute/second of the time set
  | outside          -- outside the modelled fragment (byweekno with WEEKLY; n-th weekday with |n| beyond
                     -- what dateutil's masks can index: it raises IndexError or wraps around)
  deriving DecidableEq, Repr

/-- the arguments of the `rrule(...)` call (after the plugin's normalisation) -/
structure Rule where
  freq : Freq
  sOrd : Nat                       -- local date of dtstart (ordinal)
  sSod : Nat                       -- second of the day of dtstart
  off : Int                        -- utcoffset of dtstart, seconds
  interval : Nat
  count : Option Nat
  untilAbs : Option Int            -- absolute instant
  bymonth : Option (List Int)
  bymonthday : Option (List Int)
  byyearday : Option (List Int)
  byweekno : Option (List Int)
  byweekday : Option (List WDay)
  byhour : Option (List Int)
  byminute : Option (List Int)
  bysecond : Option (List Int)
  deriving Repr

/-- the plugin fixes `wkst = rrule_mod.SU` (weekday number 6) -/
def wkst : Nat := 6

def Rule.startL (r : Rule) : Nat := r.sOrd * 86400 + r.sSod
def Rule.startYMD (r : Rule) : YMD := ofOrd r.sOrd

/-! ### day filters -/

/-- index of the period (year / month / Sunday-based week / day) that contains day `d` -/
def periodIndex (f : Freq) (d : Nat) : Nat :=
  match f with
  | .yearly => (ofOrd d).y
  | .monthly => (ofOrd d).y * 12 + (ofOrd d).m
  | .weekly => d / 7          -- ordinal % 7 = 0 ↔ Sunday
  | _ => d

def aligned (r : Rule) (d : Nat) : Bool :=
  (periodIndex r.freq d - periodIndex r.freq r.sOrd) % r.interval == 0

/-- dateutil applies the RFC defaults only when none of these was supplied (`is None` tests) -/
def noDayFilter (r : Rule) : Bool :=
  r.byweekno.isNone && r.byyearday.isNone && r.bymonthday.isNone && r.byweekday.isNone

def nthApplies (f : Freq) : Bool := f == .yearly || f == .monthly

def effBymonth (r : Rule) : List Int :=
  match r.bymonth with
  | some l => l
  | none => if noDayFilter r && r.freq == .yearly then [(r.startYMD.m : Int)] else []

def effBymonthday (r : Rule) : List Int :=
  match r.bymonthday with
  | some l => l
  | none => if noDayFilter r && nthApplies r.freq then [(r.startYMD.d : Int)] else []

/-- plain weekdays (`rrule._byweekday`) -/
def effPlain (r : Rule) : List Nat :=
  match r.byweekday with
  | some l => (l.filter (fun w => w.n == 0 || !nthApplies r.freq)).map (·.wd)
  | none => if noDayFilter r && r.freq == .weekly then [weekday r.sOrd] else []

/-- n-th weekdays (`rrule._bynweekday`), only for YEARLY / MONTHLY -/
def effNth (r : Rule) : List WDay :=
  match r.byweekday with
  | some l => l.filter (fun w => w.n != 0 && nthApplies r.freq)
  | none => []

def monthOk (l : List Int) (m : Nat) : Bool := l.isEmpty || l.contains (m : Int)

/-- `bymonthday`: positive values count from the first, negative from the last day; 0 is dropped
    by dateutil but still counts as "supplied" -/
def monthdayOk (l : List Int) (y m d : Nat) : Bool :=
  !(l.any (· != 0)) || l.contains (d : Int) || l.contains ((d : Int) - (daysInMonth y m : Int) - 1)

def yeardayOk (l : List Int) (y yd : Nat) : Bool :=
  l.isEmpty || l.contains (yd : Int) || l.contains ((yd : Int) - (yearLen y : Int) - 1)

def weekdayOk (l : List Nat) (wd : Nat) : Bool := l.isEmpty || l.contains wd

/-- is `d` the n-th (from the start if `n > 0`, from the end if `n < 0`) `w.wd` of its month / year -/
def nthMatch (d : Nat) (w : WDay) (withinYear : Bool) : Bool :=
  let x := ofOrd d
  let first := if withinYear then toOrd x.y 1 1 else toOrd x.y x.m 1
  let last := if withinYear then toOrd x.y 12 31 else toOrd x.y x.m (daysInMonth x.y x.m)
  weekday d == w.wd &&
    (if w.n > 0 then ((d - first) / 7 + 1 : Nat) == w.n.toNat
     else ((last - d) / 7 + 1 : Nat) == (-w.n).toNat)

def nthOk (r : Rule) (d : Nat) : Bool :=
  (effNth r).isEmpty ||
    (effNth r).any (fun w => nthMatch d w (r.freq == .yearly && (r.bymonth.getD []).isEmpty))

/-! #### week numbers (`_iterinfo.rebuild`, the `wnomask` part), `wkst` fixed -/

/-- the segment of a week that starts at year-day index `i0`: up to 7 days, ending before the next
    week start; `jan1wd` = weekday of January 1st -/
def inWeekSeg (jan1wd : Nat) (i0 i : Int) : Bool :=
  i0 ≤ i && i < i0 + 7 &&
    (List.range 7).all (fun t => let k := i0 + 1 + (t : Int); k > i || ((jan1wd : Int) + k) % 7 != (wkst : Int))

def weeknoOk (l : List Int) (d : Nat) : Bool :=
  l.isEmpty ||
  (let y := (ofOrd d).y
   let jan1 := toOrd y 1 1
   let i : Int := (d : Int) - (jan1 : Int)
   let ywd := weekday jan1
   let ylen := yearLen y
   let firstwkst := (7 - ywd + wkst) % 7
   let no1wkst := if firstwkst ≥ 4 then 0 else firstwkst
   let wyearlen := if firstwkst ≥ 4 then ylen + (ywd + 7 - wkst) % 7 else ylen - firstwkst
   let numweeks : Int := ((wyearlen / 7 + (wyearlen % 7) / 4 : Nat) : Int)
   let adj : Int := if no1wkst != firstwkst then (7 : Int) - (firstwkst : Int) else 0
   let segStart (n : Int) : Int := if n > 1 then (no1wkst : Int) + (n - 1) * 7 - adj else (no1wkst : Int)
   let direct := l.any (fun n0 =>
     let n := if n0 < 0 then n0 + numweeks + 1 else n0
     0 < n && n ≤ numweeks && inWeekSeg ywd (segStart n) i)
   let nextYear1 := l.contains 1 &&
     (let i0 := (no1wkst : Int) + numweeks * 7 - adj
      i0 < (ylen : Int) && inWeekSeg ywd i0 i)
   let lastOfPrev := no1wkst != 0 &&
     (let lnumweeks : Int :=
        if !(l.contains (-1)) then
          let ljan1 := toOrd (y - 1) 1 1
          let lywd := weekday ljan1
          let lno1 := (7 - lywd + wkst) % 7
          let lylen := yearLen (y - 1)
          if lno1 ≥ 4 then ((52 + ((lylen + (lywd + 7 - wkst) % 7) % 7) / 4 : Nat) : Int)
          else ((52 + ((ylen - no1wkst) % 7) / 4 : Nat) : Int)
        else -1
      l.contains lnumweeks && i < (no1wkst : Int))
   direct || nextYear1 || lastOfPrev)

/-- every supplied (or defaulted) day filter holds for day `d` -/
def filtersOk (r : Rule) (d : Nat) : Bool :=
  let x := ofOrd d
  monthOk (effBymonth r) x.m &&
  weeknoOk (r.byweekno.getD []) d &&
  weekdayOk (effPlain r) (weekday d) &&
  nthOk r d &&
  monthdayOk (effBymonthday r) x.y x.m x.d &&
  yeardayOk (r.byyearday.getD []) x.y (yearday d)

/-- day `d` carries occurrences of a YEARLY … DAILY rule -/
def occursDay (r : Rule) (d : Nat) : Bool := aligned r d && filtersOk r d

/-! ### time of day -/

def inSet (o : Option (List Int)) (dflt v : Nat) : Bool :=
  match o with
  | none => v == dflt
  | some l => l.contains (v : Int)

/-- for YEARLY … DAILY: `byhour × byminute × bysecond`, each defaulting to the start's component -/
def timeOk (r : Rule) (t : Nat) : Bool :=
  inSet r.byhour (r.sSod / 3600) (t / 3600) &&
  inSet r.byminute (r.sSod % 3600 / 60) (t % 3600 / 60) &&
  inSet r.bysecond (r.sSod % 60) (t % 60)

def timeset (r : Rule) : List Nat := (List.range 86400).filter (timeOk r)

/-- `blocks × offsets`, block-major -/
def expand (blocks offs : List Nat) : List Nat := blocks.flatMap (fun a => offs.map (a + ·))

def dayBlocks (r : Rule) (lim : Nat) : List Nat :=
  (((List.range (lim / 86400 + 1 - r.sOrd)).map (· + r.sOrd)).filter (occursDay r)).map (· * 86400)

/-! ### sub-daily frequencies: a lattice of slots starting at dtstart -/

def unitOf : Freq → Nat
  | .hourly => 3600
  | .minutely => 60
  | _ => 1

/-- filter semantics of a by-set for a frequency at or below its level: empty / absent = no filter -/
def optOk (o : Option (List Int)) (v : Nat) : Bool :=
  match o with
  | none => true
  | some l => l.isEmpty || l.contains (v : Int)

def slotOk (r : Rule) (L : Nat) : Bool :=
  let t := L % 86400
  filtersOk r (L / 86400) && optOk r.byhour (t / 3600) &&
    (r.freq == .hourly || optOk r.byminute (t % 3600 / 60)) &&
    (r.freq != .secondly || optOk r.bysecond (t % 60))

def slotBlocks (r : Rule) (lim : Nat) : List Nat :=
  let u := unitOf r.freq
  let base := r.startL - r.startL % u
  let step := u * r.interval
  ((List.range ((lim - base) / step + 1)).map (fun k => base + k * step)).filter (slotOk r)

def subOffsets (r : Rule) : List Nat :=
  match r.freq with
  | .hourly => (List.range 3600).filter (fun t =>
      inSet r.byminute (r.sSod % 3600 / 60) (t / 60) && inSet r.bysecond (r.sSod % 60) (t % 60))
  | .minutely => (List.range 60).filter (fun t => inSet r.bysecond (r.sSod % 60) t)
  | _ => [0]

/-- `rrule.__construct_byset`: values of the by-set at the frequency's own level that the
    interval lattice can reach -/
def reachable (interval base start : Nat) (l : List Int) : List Int :=
  let g := Nat.gcd interval base
  l.filter (fun v => g == 1 || (v - (start : Int)) % (g : Int) == 0)

def constructError (r : Rule) : Bool :=
  match r.freq with
  | .hourly => match r.byhour with
    | some l => (reachable r.interval 24 (r.sSod / 3600) l).isEmpty
    | none => false
  | .minutely => match r.byminute with
    | some l => (reachable r.interval 60 (r.sSod % 3600 / 60) l).isEmpty
    | none => false
  | .secondly => match r.bysecond with
    | some l => (reachable r.interval 60 (r.sSod % 60) l).isEmpty
    | none => false
  | _ => false

/-- dateutil's `_iter` for MINUTELY / SECONDLY: when it steps, it searches one full cycle of the
    interval lattice (1440 / gcd minutes, resp. 86400 / gcd seconds) for a slot whose hour — for
    SECONDLY also minute and second — lies in the by-sets, and raises "Invalid combination of
    interval and byhour … resulting in empty rule" when there is none.  The start's own slot is on
    that cycle, so the error comes at the first value request, before any value (and before any
    value of an enclosing `rruleset`, which pulls a first item from each of its parts). -/
def lazyEmpty (r : Rule) : Bool :=
  match r.freq with
  | .minutely =>
    let hs := r.byhour.getD []
    !hs.isEmpty &&
      !(List.range (1440 / Nat.gcd r.interval 1440)).any (fun k =>
        let t := (r.sSod / 60 + k * r.interval) % 1440
        hs.contains ((t / 60 : Nat) : Int) && optOk r.byminute (t % 60))
  | .secondly =>
    !(List.range (86400 / Nat.gcd r.interval 86400)).any (fun k =>
      let t := (r.sSod + k * r.interval) % 86400
      optOk r.byhour (t / 3600) && optOk r.byminute (t % 3600 / 60) && optOk r.bysecond (t % 60))
  | _ => false

def badTimeValue (r : Rule) : Bool :=
  !r.freq.isSub &&
    ((r.byhour.getD []).any (fun v => v < 0 || v ≥ 24) ||
     (r.byminute.getD []).any (fun v => v < 0 || v ≥ 60) ||
     (r.bysecond.getD []).any (fun v => v < 0 || v ≥ 60))

/-! ### occurrences -/

/-- all candidate instants (local seconds) up to `lim`, in increasing order -/
def candidates (r : Rule) (lim : Nat) : List Nat :=
  if r.freq.isSub then expand (slotBlocks r lim) (subOffsets r)
  else expand (dayBlocks r lim) (timeset r)

/-- occurrences up to the local-second bound `lim`, before `count` -/
def occAll (r : Rule) (lim : Nat) : List Nat :=
  (candidates r lim).filter (fun L => r.startL ≤ L && L ≤ lim)

def takeCount (c : Option Nat) (l : List Nat) : List Nat :=
  match c with
  | none => l
  | some n => l.take n

/-- the local-second bound: `until` (absolute) and the enumeration horizon (absolute), both
    expressed on the rule's own wall clock -/
def limitOf (r : Rule) (horizonAbs : Int) : Int :=
  match r.untilAbs with
  | some u => min (u + r.off) (horizonAbs + r.off)
  | none => horizonAbs + r.off

/-- n-th weekdays that dateutil's year-long masks cannot index -/
def nthOutOfRange (r : Rule) : Bool :=
  (effNth r).any (fun w =>
    if r.freq == .yearly && (r.bymonth.getD []).isEmpty then w.n.natAbs > 53 else w.n.natAbs > 5)

def precheck (r : Rule) : Except Err Unit :=
  if r.interval == 0 then .error .badInterval
  else if badTimeValue r then .error .badTime
  else if constructError r then .error .emptyRule
  else if lazyEmpty r then .error .emptyRule
  else if r.freq == .weekly && !(r.byweekno.getD []).isEmpty then .error .outside
  else if nthOutOfRange r then .error .outside
  else .ok ()

/-- `list(rrule(...))` cut at the horizon, as local seconds -/
def occ (r : Rule) (horizonAbs : Int) : Except Err (List Nat) :=
  match precheck r with
  | .error e => .error e
  | .ok () =>
    if limitOf r horizonAbs < 0 then .ok []
    else .ok (takeCount r.count (occAll r (limitOf r horizonAbs).toNat))

/-! ### rruleset -/

/-- an emitted value: absolute instant and the utcoffset it is expressed in -/
structure Inst where
  abs : Int          -- whole seconds
  off : Int
  us : Nat           -- microseconds within the second (rrule values always carry 0)
  deriving DecidableEq, Repr

/-- the instant at microsecond resolution: what `rruleset` compares -/
def Inst.key (i : Inst) : Int := i.abs * 1000000 + i.us

/-- `rrule` drops the microseconds of `dtstart` (`dtstart.replace(microsecond=0)`): every value of
    a rule is on a whole second -/
def Rule.inst (r : Rule) (L : Nat) : Inst := ⟨(L : Int) - r.off, r.off, 0⟩

/-- drop an element when it has the same instant as the one kept before it -/
def dedupAdj : List Inst → List Inst
  | [] => []
  | [a] => [a]
  | a :: b :: t => if a.key = b.key then dedupAdj (a :: t) else a :: dedupAdj (b :: t)

/-- `rruleset`: (rdates ∪ own rrule ∪ included sets) minus (exdates ∪ excluded sets), in
    chronological order, one value per instant -/
def combine (base rdates exdates : List Inst) (incl excl : List (List Inst)) : List Inst :=
  let ex := (exdates ++ excl.flatten).map (·.key)
  let all := (rdates ++ base ++ incl.flatten).mergeSort (fun a b => a.key ≤ b.key)
  (dedupAdj all).filter (fun i => !ex.contains i.key)

/-! ### the plugin's normalisation of the recipe keywords -/

/-- a date-like recipe value as the plugin sees it -/
inductive DateArg
  | date (ord : Nat)                          -- `date` object or a date-looking string
  | dtObj (ord sod us : Nat) (off : Option Int)   -- `datetime` object (YAML timestamp) with its microseconds; `none` = naive
  | dtStr (ord sod us : Nat) (off : Option Int)   -- datetime-looking string
  deriving Repr

/-- keyword arguments of `Schedule.Event` / `CalendarRule` -/
structure Params where
  freq : Freq
  sOrd : Nat
  sSod : Nat
  sUs : Nat                        -- microseconds of the start as written (rrule and, since 8a555f7, `_at_start_time` drop them)
  off : Int
  datePrecision : Bool             -- start given with date precision
  interval : Int                   -- as written in the recipe (may be 0 or negative)
  count : Option Nat
  untilArg : Option DateArg
  bymonth : Option (List Int)
  bymonthday : Option (List Int)
  byyearday : Option (List Int)
  byweekno : Option (List Int)
  byweekday : Option (List WDay)
  byhour : Option (List Int)
  byminute : Option (List Int)
  bysecond : Option (List Int)
  deriving Repr

/-- names that occur in the keyword wiring of `CalendarRule.__init__` -/
inductive Kw
  | freq | dtstart | startDate | interval | wkst | constSU | count | until_ | bysetpos | bymonth
  | bymonthday | byyearday | byeaster | byweekno | byweekday | byweekdayOrNone | byhour | byminute
  | bysecond | cache
  deriving DecidableEq, Repr

/-- the text of a name in the source -/
def Kw.name : Kw → String
  | .freq => "freq" | .dtstart => "dtstart" | .startDate => "start_date" | .interval => "interval"
  | .wkst => "wkst" | .constSU => "rrule_mod.SU" | .count => "count" | .until_ => "until"
  | .bysetpos => "bysetpos" | .bymonth => "bymonth" | .bymonthday => "bymonthday"
  | .byyearday => "byyearday" | .byeaster => "byeaster" | .byweekno => "byweekno"
  | .byweekday => "byweekday" | .byweekdayOrNone => "byweekday | None" | .byhour => "byhour"
  | .byminute => "byminute" | .bysecond => "bysecond" | .cache => "cache"

/-- `(rrule keyword, parameter it is normalised from)` as written in `CalendarRule.__init__`
    (pinned: `Gen.Schedule.rruleWiring`, bridged in `Props/C15Bridge.lean`) -/
def wiringTable : List (Kw × Kw) :=
  [(.freq, .freq), (.dtstart, .startDate), (.interval, .interval), (.wkst, .constSU), (.count, .count),
   (.until_, .until_), (.bysetpos, .bysetpos), (.bymonth, .bymonth), (.bymonthday, .bymonthday),
   (.byyearday, .byyearday), (.byeaster, .byeaster), (.byweekno, .byweekno),
   (.byweekday, .byweekdayOrNone), (.byhour, .byhour), (.byminute, .byminute), (.bysecond, .bysecond),
   (.cache, .cache)]

/-- which recipe parameter feeds rrule keyword `kw` -/
def sourceOf (kw : Kw) : Kw :=
  match wiringTable.find? (fun e => e.1 == kw) with
  | some e => e.2
  | none => kw

/-- the integer-list parameter called `name` -/
def Params.intList (p : Params) (name : Kw) : Option (List Int) :=
  match name with
  | .bymonth => p.bymonth
  | .bymonthday => p.bymonthday
  | .byyearday => p.byyearday
  | .byweekno => p.byweekno
  | .byhour => p.byhour
  | .byminute => p.byminute
  | .bysecond => p.bysecond
  | _ => none

/-- `CalendarRule._at_start_time` (since fix 8a555f7): a date at the start's time of day *cut to
    whole seconds* (`self.start_date.time().replace(microsecond=0)`, like the values `rrule` emits)
    in the start's zone -/
def atStartTime (sSod : Nat) (off : Int) (d : Nat) : Inst := ⟨(d : Int) * 86400 + sSod - off, off, 0⟩

/-- the behaviour before fix 8a555f7 (D53), kept only as an explicitly named old model for the
    regression witness in `Props/C15.lean`: the start's microseconds were kept -/
def atStartTimeKeepingMicros (sSod sUs : Nat) (off : Int) (d : Nat) : Inst :=
  ⟨(d : Int) * 86400 + sSod - off, off, sUs⟩

/-- `parse_datetimespec` on a datetime (object or string): its own wall clock and zone; a naive
    one means UTC -/
def parseDatetimespec (d s us : Nat) (o : Option Int) : Inst := ⟨(d : Int) * 86400 + s - o.getD 0, o.getD 0, us⟩

/-- `_normalize_until` (since fix eef84fd): datetime string or `datetime` object →
    `parse_datetimespec`; date string or `date` → `_at_start_time`; then `.astimezone(utc)`, which
    keeps the instant. -/
def normUntil (sSod : Nat) (off : Int) : DateArg → Int
  | .date d => (atStartTime sSod off d).abs            -- rule values are on whole seconds: the
  | .dtObj d s us o => (parseDatetimespec d s us o).abs   -- microseconds of `until` never matter
  | .dtStr d s us o => (parseDatetimespec d s us o).abs

/-- what the keyword means when read in the start's zone (dates) / its own zone (datetimes) -/
def intendedUntil (sSod : Nat) (off : Int) : DateArg → Int
  | .date d => (d : Int) * 86400 + sSod - off
  | .dtObj d s _ o => (d : Int) * 86400 + s - o.getD 0
  | .dtStr d s _ o => (d : Int) * 86400 + s - o.getD 0

/-- `_process_special_cases` for one date-like `include` / `exclude` entry (since fix eef84fd):
    `datetime` → `parse_datetimespec` (naive = UTC); `date` → `_at_start_time`; string →
    `_at_start_time(parse_date(str))` (the date part only).  Never fails. -/
def normDateArg (sSod sUs : Nat) (off : Int) : DateArg → Option Inst   -- `sUs`: the start's microseconds, ignored
  | .date d => some (atStartTime sSod off d)
  | .dtObj d s us o => some (parseDatetimespec d s us o)
  | .dtStr d _ _ _ => some (atStartTime sSod off d)

/-- what the entry means: a date is *the occurrence of that date*, i.e. the start's time of day as
    the rule emits it (whole seconds) in the start's zone; a datetime is the instant it says -/
def intendedDateArg (sSod : Nat) (off : Int) : DateArg → Option Inst
  | .date d => some ⟨(d : Int) * 86400 + sSod - off, off, 0⟩
  | .dtObj d s us o => some ⟨(d : Int) * 86400 + s - o.getD 0, o.getD 0, us⟩   -- naive read as UTC, like the start
  | .dtStr d _ _ _ => some ⟨(d : Int) * 86400 + sSod - off, off, 0⟩

/-- the `rrule(...)` call of `CalendarRule.__init__`, driven by the wiring table -/
def pluginRule (p : Params) : Rule :=
  { freq := p.freq, sOrd := p.sOrd, sSod := p.sSod, off := p.off, interval := p.interval.toNat,
    count := p.count,
    untilAbs := p.untilArg.map (normUntil p.sSod p.off),
    bymonth := p.intList (sourceOf .bymonth),
    bymonthday := p.intList (sourceOf .bymonthday),
    byyearday := p.intList (sourceOf .byyearday),
    byweekno := p.intList (sourceOf .byweekno),
    byweekday := p.byweekday,
    byhour := p.intList (sourceOf .byhour),
    byminute := p.intList (sourceOf .byminute),
    bysecond := p.intList (sourceOf .bysecond) }

/-- the recurrence the recipe keywords describe (each keyword to its own dimension, dates read in
    the start's zone) -/
def intendedRule (p : Params) : Rule :=
  { freq := p.freq, sOrd := p.sOrd, sSod := p.sSod, off := p.off, interval := p.interval.toNat,
    count := p.count,
    untilAbs := p.untilArg.map (intendedUntil p.sSod p.off),
    bymonth := p.bymonth, bymonthday := p.bymonthday, byyearday := p.byyearday,
    byweekno := p.byweekno, byweekday := p.byweekday,
    byhour := p.byhour, byminute := p.byminute, bysecond := p.bysecond }

/-- `_normalize_frequency`: HOURLY / MINUTELY / SECONDLY need a start of datetime precision -/
def needsDatetime (p : Params) : Bool := p.freq.isSub && p.datePrecision

/-- `_check_undocumented_features`: `any([bysetpos, byeaster, cache, byweekno])` (truthiness) -/
def gated (byweekno : Option (List Int)) : Bool :=
  match byweekno with
  | some l => !l.isEmpty
  | none => false

/-! ### `CalendarRule.__init__` as a whole: the checks before the rule is built -/

inductive PErr
  | gated            -- undocumented keyword without the opt-in
  | badInterval      -- `interval` is not a positive integer (DataGenValueError, fix 66ecebf)
  | needsDatetime    -- sub-daily frequency with a date-precision start
  | rule (e : Err)   -- raised by the recurrence engine
  deriving DecidableEq, Repr

/-- `if not isinstance(interval, int) or isinstance(interval, bool) or interval < 1` on an integer -/
def intervalError (p : Params) : Bool := p.interval < 1

/-- the checks of `__init__` in source order: gate, (start, lists, until), interval guard,
    frequency; then the rule handed to `rrule(...)` -/
def pluginCheck (p : Params) : Except PErr Rule :=
  if gated p.byweekno then .error .gated
  else if intervalError p then .error .badInterval
  else if needsDatetime p then .error .needsDatetime
  else .ok (pluginRule p)

/-- the values of the event's own rule -/
def pluginOcc (p : Params) (horizonAbs : Int) : Except PErr (List Nat) :=
  match pluginCheck p with
  | .error e => .error e
  | .ok r =>
    match occ r horizonAbs with
    | .error e => .error (.rule e)
    | .ok l => .ok l

/-! ### the state cache behind `@memorable` (`evaluate_memorable_function`, `get_contextual_state`)

`Schedule.Event` is a `@memorable` function: outside `for_each` its `CalendarRule` is created once
per *(context, argument values)* and fetched again for every later row of the template — which is
why a field sees one occurrence per row.  Two different calls evaluated in the same context (e.g.
two `Schedule.Event(...)` inside one formula) must therefore differ in their key. -/

/-- one evaluation of a memorable function; argument values are abstracted to codes -/
structure Call where
  ctx : Nat                        -- `context.unique_context_identifier`
  args : List Int                  -- positional values
  kwargs : List (String × Int)     -- keyword items, in call order
  deriving DecidableEq, Repr

/-- what a cache key may be built from -/
inductive KeyPart
  | contextId | argValues | kwargItems | argCount | kwargNames
  deriving DecidableEq, Repr

/-- the source text of a key component -/
def KeyPart.src : KeyPart → String
  | .contextId => "context.unique_context_identifier"
  | .argValues => "tuple(args)"
  | .kwargItems => "tuple(kwargs.items())"
  | .argCount => "len(args)"
  | .kwargNames => "tuple(kwargs.keys())"

inductive KeyVal
  | ctx (n : Nat) | vals (l : List Int) | items (l : List (String × Int)) | count (n : Nat)
  | names (l : List String)
  deriving DecidableEq, Repr

def KeyPart.of (c : Call) : KeyPart → KeyVal
  | .contextId => .ctx c.ctx
  | .argValues => .vals c.args
  | .kwargItems => .items c.kwargs
  | .argCount => .count c.args.length
  | .kwargNames => .names (c.kwargs.map (·.1))

/-- the components of `user_key` (pinned: `Gen.Memorable.userKeyParts`) -/
def keyParts : List KeyPart := [.contextId, .argValues, .kwargItems]

def keyWith (parts : List KeyPart) (c : Call) : List KeyVal := parts.map (KeyPart.of c)

def cacheKey (c : Call) : List KeyVal := keyWith keyParts c

/-- `Interpreter.instance_states` restricted to one function, no `parent`, no `name` override -/
abbrev Store (σ : Type) := List (List KeyVal × σ)

/-- `get_contextual_state`: fetch the state stored under the key, else make and store it -/
def evalMemo {σ : Type} (parts : List KeyPart) (make : Call → σ) (st : Store σ) (c : Call) : σ × Store σ :=
  match st.lookup (keyWith parts c) with
  | some v => (v, st)
  | none => (make c, (keyWith parts c, make c) :: st)

/-! #### call sites: where the context identifier comes from

The identifier is the identity of the parsed value object (`str(id(self))` of the
`StructuredValue` / `SimpleValue`).  The parser makes a new object for every field it parses, and
`include_macro` parses the macro's fields anew for every template that includes it — so every
place an Event is written, and every inclusion of a macro that contains one, is its own call site. -/

/-- parse `n` fields: they get the next `n` identities -/
def parseFields (next n : Nat) : List Nat × Nat := (List.range' next n, next + n)

/-- `include_macro` for a macro with `n` fields, once per including template: no cache, the
    fields are parsed again each time -/
def includeMacro (next n : Nat) : Nat → List (List Nat) × Nat
  | 0 => ([], next)
  | k + 1 =>
    let (ids, next') := parseFields next n
    let (rest, last) := includeMacro next' n k
    (ids :: rest, last)

/-! ### what a template sees -/

inductive Out
  | date (ord : Int)
  | datetime (abs off : Int) (us : Nat)
  deriving DecidableEq, Repr

/-- `_next_date` takes `.date()` of the value in the value's own zone; `for_each` iterates the
    rruleset itself and therefore always sees datetimes -/
def emit (datePrecision viaNext : Bool) (i : Inst) : Out :=
  if datePrecision && viaNext then .date ((i.abs + i.off) / 86400) else .datetime i.abs i.off i.us

end SnowModel.Rrule
