/-
Persist — executable model of the continuation file (C05).

What the Python does (snowfakery/data_generator_runtime.py, object_rows.py, data_generator.py):

  save_continuation_yaml g f  =  yaml.dump(g.__getstate__(), f, Dumper=SnowfakeryDumper)
  load_continuation_yaml f    =  hydrate(Globals, yaml.safe_load(f))

* `Globals.__getstate__` builds a dict with six keys; rows go through `ObjectRow.__getstate__`, which
  DROPS every field whose value is an `ObjectRow` (D03).
* `yaml.dump` (default `sort_keys=True`) writes every mapping with its keys sorted and raises
  `RepresenterError` at the first value (in that traversal order) whose class has no representer on
  `SnowfakeryDumper` — `NicknameSlot`, … (D04).  `Decimal` has one since cf894eb (own tag, read back by
  a constructor registered on `SafeLoader`): it is a scalar of the YAML layer.
* `yaml.safe_load` re-reads scalars; `Globals.__setstate__` reads the keys back (`state[k]` — KeyError
  when missing — or `state.get(k, default)`), re-derives `start_ids`, adds the dependencies to a fresh
  `OrderedSet` and resets the transients.
* `Interpreter.resave_objects_from_continuation` puts the loaded rows back into the row history; it
  skips a row reachable by table name when a nicknamed row has the same (table, id) (5da9efa; before
  that: the same bare id), then calls `row_history.reset_locals()` (9826fcb).

The YAML scalar layer is a parameter `Y` (dump / load of one scalar); its contract `Lawful Y` is an
explicit hypothesis of the theorems, never an axiom.  No Mathlib.
-/

namespace SnowModel.Persist

/-- scalars that the YAML layer represents: str (incl. YAML-hostile), int of any size, float (opaque
    `repr` token), bool, null, date and datetime (opaque ISO tokens), decimal (opaque `str` token) -/
inductive Sc where
  | str (s : String)
  | int (i : Int)
  | float (repr : String)
  | bool (b : Bool)
  | null
  | date (iso : String)
  | datetime (iso : String)
  | decimal (s : String)   -- `decimal.Decimal`: written as `!snowfakery_decimal '<str(v)>'` (cf894eb)
  deriving DecidableEq, Repr, Inhabited

/-- what a field of a row can hold in memory -/
inductive Val where
  | sc (v : Sc)
  | row (table : String) (id : Int)  -- an `ObjectRow` (reference to / nested row)
  | slot (table : String)            -- a `NicknameSlot` (stored forward reference)
  | other (cls : String)             -- any other accepted class without a representer
  deriving DecidableEq, Repr, Inhabited

abbrev Dict (α : Type) := List (String × α)

structure Row where
  table : String
  values : Dict Val
  deriving DecidableEq, Repr, Inhabited

structure Dep where
  tableFrom : String
  tableTo : String
  field : String
  deriving DecidableEq, Repr, Inhabited

/-- `Globals` + `IdManager`: everything that crosses a continuation -/
structure G where
  lastUsed : Dict Int        -- IdManager.last_used_ids
  startIds : Dict Int        -- IdManager.start_ids (derived on load)
  pNick : Dict Row           -- persistent_nicknames
  pTable : Dict Row          -- persistent_objects_by_table
  nickTable : Dict String    -- nicknames_and_tables
  today : Sc
  deps : List Dep            -- intertable_dependencies (an OrderedSet)
  deriving DecidableEq, Repr, Inhabited

/-- the state of a run that has not started -/
def emptyG : G :=
  { lastUsed := [], startIds := [], pNick := [], pTable := [], nickTable := [], today := .null, deps := [] }

inductive Err where
  | cannotRepresent (cls : String)   -- yaml.representer.RepresenterError
  | keyError (key : String)          -- `state[k]` on a file without k
  | shape (key : String)             -- a key holds a node of the wrong kind
  deriving DecidableEq, Repr, Inhabited

/-! ### key names (bridged to the pins in Props/C05Bridge.lean) -/
def kNick := "persistent_nicknames"
def kTable := "persistent_objects_by_table"
def kIdm := "id_manager"
def kToday := "today"
def kNames := "nicknames_and_tables"
def kDeps := "intertable_dependencies"
def kLegacyNick := "nicknamed_objects"
def kLastUsed := "last_used_ids"
def kRowTable := "_tablename"
def kRowValues := "_values"
def kDepFrom := "table_name_from"
def kDepTo := "table_name_to"
def kDepField := "field_name"

/-- keys of the dict literal in `Globals.__getstate__`, in source order -/
def globalsSavedKeys : List String := [kNick, kTable, kIdm, kToday, kNames, kDeps]
/-- accesses of `Globals.__setstate__`, in source order, with their access kind -/
def globalsLoadedKeys : List String :=
  ["get:" ++ kLegacyNick, "get:" ++ kNick, "item:" ++ kNames, "item:" ++ kIdm, "get:" ++ kDeps,
   "item:" ++ kToday, "get:" ++ kTable]

/-! ### documents: the state dict, generic in the scalar leaf type -/

inductive RowEntry (σ : Type) where
  | name (s : String)
  | values (d : Dict σ)
  deriving DecidableEq, Repr, Inhabited

inductive Top (σ : Type) where
  | rows (d : Dict (Dict (RowEntry σ)))
  | idm (d : Dict (Dict Int))
  | sc (v : σ)
  | names (d : Dict String)
  | deps (l : List (Dict String))
  deriving DecidableEq, Repr, Inhabited

abbrev StateOf (σ : Type) := Dict (Top σ)

/-! ### sorting of mapping keys (`yaml.dump(sort_keys=True)`: `sorted(mapping.items())`) -/

def insertD {α : Type} (k : String) (v : α) : Dict α → Dict α
  | [] => [(k, v)]
  | (k', v') :: t => if k ≤ k' then (k, v) :: (k', v') :: t else (k', v') :: insertD k v t

def sortD {α : Type} : Dict α → Dict α
  | [] => []
  | (k, v) :: t => insertD k v (sortD t)

def mapD {α β : Type} (f : α → β) (d : Dict α) : Dict β := d.map (fun kv => (kv.1, f kv.2))

def lookupD {α : Type} (k : String) : Dict α → Option α
  | [] => none
  | (k', v) :: t => if k = k' then some v else lookupD k t

/-! ### `__getstate__` -/

def Val.isRow : Val → Bool
  | .row _ _ => true
  | _ => false

/-- `ObjectRow.__getstate__`: `{k: v for k, v in self._values.items() if not isinstance(v, ObjectRow)}` -/
def keptValues (d : Dict Val) : Dict Val := d.filter (fun kv => !kv.2.isRow)

def rowGetstate (r : Row) : Dict (RowEntry Val) :=
  [(kRowTable, .name r.table), (kRowValues, .values (keptValues r.values))]

def depGetstate (d : Dep) : Dict String :=
  [(kDepFrom, d.tableFrom), (kDepTo, d.tableTo), (kDepField, d.field)]

/-- `Globals.__getstate__` (keys in source order) -/
def getstate (g : G) : StateOf Val :=
  [(kNick, .rows (mapD rowGetstate g.pNick)),
   (kTable, .rows (mapD rowGetstate g.pTable)),
   (kIdm, .idm [(kLastUsed, g.lastUsed)]),
   (kToday, .sc (.sc g.today)),
   (kNames, .names g.nickTable),
   (kDeps, .deps (g.deps.map depGetstate))]

/-! ### the YAML layer -/

structure Yaml (τ : Type) where
  dump : Sc → τ
  load : τ → Sc

/-- the scalar contract: what is written is read back as the same value of the same type -/
def Lawful {τ : Type} (Y : Yaml τ) : Prop := ∀ v, Y.load (Y.dump v) = v

/-- which classes `SnowfakeryDumper` can represent (scalars), and the error otherwise -/
def represent {τ : Type} (Y : Yaml τ) : Val → Except Err τ
  | .sc v => .ok (Y.dump v)
  | .row _ _ => .error (.cannotRepresent "ObjectRow")
  | .slot _ => .error (.cannotRepresent "NicknameSlot")
  | .other c => .error (.cannotRepresent c)

/-- entries of one mapping, already in sorted order; the first failure wins -/
def dumpValues {τ : Type} (Y : Yaml τ) : Dict Val → Except Err (Dict τ)
  | [] => .ok []
  | (k, v) :: t =>
    match represent Y v with
    | .error e => .error e
    | .ok s => match dumpValues Y t with
      | .error e => .error e
      | .ok t' => .ok ((k, s) :: t')

def dumpRowEntries {τ : Type} (Y : Yaml τ) : Dict (RowEntry Val) → Except Err (Dict (RowEntry τ))
  | [] => .ok []
  | (k, .name s) :: t =>
    match dumpRowEntries Y t with
    | .error e => .error e
    | .ok t' => .ok ((k, .name s) :: t')
  | (k, .values d) :: t =>
    match dumpValues Y (sortD d) with
    | .error e => .error e
    | .ok d' => match dumpRowEntries Y t with
      | .error e => .error e
      | .ok t' => .ok ((k, .values d') :: t')

def dumpRows {τ : Type} (Y : Yaml τ) : Dict (Dict (RowEntry Val)) → Except Err (Dict (Dict (RowEntry τ)))
  | [] => .ok []
  | (k, r) :: t =>
    match dumpRowEntries Y (sortD r) with
    | .error e => .error e
    | .ok r' => match dumpRows Y t with
      | .error e => .error e
      | .ok t' => .ok ((k, r') :: t')

def dumpTop {τ : Type} (Y : Yaml τ) : Top Val → Except Err (Top τ)
  | .rows d => match dumpRows Y (sortD d) with
    | .error e => .error e
    | .ok d' => .ok (.rows d')
  | .idm d => .ok (.idm (sortD (mapD sortD d)))
  | .sc v => match represent Y v with
    | .error e => .error e
    | .ok s => .ok (.sc s)
  | .names d => .ok (.names (sortD d))
  | .deps l => .ok (.deps (l.map sortD))

def dumpTops {τ : Type} (Y : Yaml τ) : StateOf Val → Except Err (StateOf τ)
  | [] => .ok []
  | (k, t) :: rest =>
    match dumpTop Y t with
    | .error e => .error e
    | .ok t' => match dumpTops Y rest with
      | .error e => .error e
      | .ok rest' => .ok ((k, t') :: rest')

/-- `yaml.dump(state, Dumper=SnowfakeryDumper)`: the file as a tree of scalar tokens, every mapping
    sorted by key; `RepresenterError` at the first unrepresentable value in traversal order -/
def yamlDump {τ : Type} (Y : Yaml τ) (st : StateOf Val) : Except Err (StateOf τ) := dumpTops Y (sortD st)

/-- `save_continuation_yaml` -/
def saveFile {τ : Type} (Y : Yaml τ) (g : G) : Except Err (StateOf τ) := yamlDump Y (getstate g)

/-- `yaml.safe_load`: every scalar token is resolved and constructed -/
def parseRowEntry {τ : Type} (Y : Yaml τ) : RowEntry τ → RowEntry Sc
  | .name s => .name s
  | .values d => .values (mapD Y.load d)

def parseTop {τ : Type} (Y : Yaml τ) : Top τ → Top Sc
  | .rows d => .rows (mapD (mapD (parseRowEntry Y)) d)
  | .idm d => .idm d
  | .sc s => .sc (Y.load s)
  | .names d => .names d
  | .deps l => .deps l

def yamlLoad {τ : Type} (Y : Yaml τ) (doc : StateOf τ) : StateOf Sc := mapD (parseTop Y) doc

/-! ### `__setstate__` -/

/-- `hydrate(ObjectRow, v)`: `for slot, value in state.items(): setattr(self, slot, value)`; a row
    without `_tablename` / `_values` is unusable (AttributeError on first use) — an explicit error -/
def rowSetstate (st : Dict (RowEntry Sc)) : Except Err Row :=
  match lookupD kRowTable st, lookupD kRowValues st with
  | some (.name t), some (.values d) => .ok ⟨t, mapD Val.sc d⟩
  | none, _ => .error (.keyError kRowTable)
  | _, none => .error (.keyError kRowValues)
  | _, _ => .error (.shape kRowTable)

def rowsSetstate : Dict (Dict (RowEntry Sc)) → Except Err (Dict Row)
  | [] => .ok []
  | (k, st) :: t =>
    match rowSetstate st with
    | .error e => .error e
    | .ok r => match rowsSetstate t with
      | .error e => .error e
      | .ok t' => .ok ((k, r) :: t')

/-- `Dependency(**dep)` -/
def depSetstate (d : Dict String) : Except Err Dep :=
  match lookupD kDepFrom d, lookupD kDepTo d, lookupD kDepField d with
  | some a, some b, some c => .ok ⟨a, b, c⟩
  | _, _, _ => .error (.shape kDeps)

/-- `OrderedSet.add` -/
def addDep (acc : List Dep) (d : Dep) : List Dep := if d ∈ acc then acc else acc ++ [d]

def depsSetstate (acc : List Dep) : List (Dict String) → Except Err (List Dep)
  | [] => .ok acc
  | d :: t =>
    match depSetstate d with
    | .error e => .error e
    | .ok dep => depsSetstate (addDep acc dep) t

/-- `start_ids = {name: val + 1 …}` (the arithmetic is pinned: `Gen.Runtime.startId`) -/
def startIdOf (v : Int) : Int := v + 1

/-- `state.get(k, {})` for a dict of rows -/
def getRows (st : StateOf Sc) (k : String) : Except Err (Dict Row) :=
  match lookupD k st with
  | none => .ok []
  | some (.rows d) => rowsSetstate d
  | some _ => .error (.shape k)

/-- `state.get("intertable_dependencies", [])`, each entry added to a fresh `OrderedSet` -/
def getDeps (st : StateOf Sc) : Except Err (List Dep) :=
  match lookupD kDeps st with
  | none => .ok []
  | some (.deps l) => depsSetstate [] l
  | some _ => .error (.shape kDeps)

/-- `Globals.__setstate__` + `IdManager.__setstate__` -/
def setstate (st : StateOf Sc) : Except Err G :=
  match getRows st kLegacyNick with            -- read, stored in an attribute nothing uses
  | .error e => .error e
  | .ok _ =>
  match getRows st kNick with
  | .error e => .error e
  | .ok pNick =>
  match lookupD kNames st with                 -- state["nicknames_and_tables"]
  | none => .error (.keyError kNames)
  | some (.names names) =>
    match lookupD kIdm st with                 -- state["id_manager"]
    | none => .error (.keyError kIdm)
    | some (.idm idm) =>
      match lookupD kLastUsed idm with         -- state["last_used_ids"]
      | none => .error (.keyError kLastUsed)
      | some lastUsed =>
        match getDeps st with                   -- state.get("intertable_dependencies", [])
        | .error e => .error e
        | .ok deps =>
          match lookupD kToday st with         -- state["today"]
          | none => .error (.keyError kToday)
          | some (.sc today) =>
            match getRows st kTable with       -- state.get("persistent_objects_by_table")
            | .error e => .error e
            | .ok pTable =>
              .ok { lastUsed := lastUsed, startIds := mapD startIdOf lastUsed, pNick := pNick,
                    pTable := pTable, nickTable := names, today := today, deps := deps }
          | some _ => .error (.shape kToday)
    | some _ => .error (.shape kIdm)
  | some _ => .error (.shape kNames)

/-- `load_continuation_yaml` -/
def loadFile {τ : Type} (Y : Yaml τ) (doc : StateOf τ) : Except Err G := setstate (yamlLoad Y doc)

/-- one save followed by one load -/
def cycle {τ : Type} (Y : Yaml τ) (g : G) : Except Err G :=
  match saveFile Y g with
  | .error e => .error e
  | .ok doc => loadFile Y doc

/-- a chain of `n` save/load steps -/
def chain {τ : Type} (Y : Yaml τ) : Nat → G → Except Err G
  | 0, g => .ok g
  | n + 1, g => match cycle Y g with
    | .error e => .error e
    | .ok g' => chain Y n g'

/-! ### what a load is expected to give back -/

def stripRow (r : Row) : Row := ⟨r.table, keptValues r.values⟩
def canonRow (r : Row) : Row := ⟨r.table, sortD r.values⟩

/-- the state with every mapping in key order and `start_ids` re-derived (Python dicts compare and
    are looked up regardless of order: see `lookupD_sortD`) -/
def canon (g : G) : G :=
  { lastUsed := sortD g.lastUsed, startIds := mapD startIdOf (sortD g.lastUsed),
    pNick := sortD (mapD canonRow g.pNick), pTable := sortD (mapD canonRow g.pTable),
    nickTable := sortD g.nickTable, today := g.today, deps := g.deps }

/-- … with the row-valued fields that `ObjectRow.__getstate__` drops removed -/
def strip (g : G) : G := { g with pNick := mapD stripRow g.pNick, pTable := mapD stripRow g.pTable }

def Val.storable : Val → Bool
  | .sc _ => true
  | .row _ _ => true      -- dropped before the dumper sees it
  | _ => false

def Row.storable (r : Row) : Bool := r.values.all (fun kv => kv.2.storable)
/-- no persistent row holds a slot or another unrepresentable object -/
def Storable (g : G) : Prop :=
  (∀ kr ∈ g.pNick, kr.2.storable = true) ∧ (∀ kr ∈ g.pTable, kr.2.storable = true)

def Row.noRowVals (r : Row) : Bool := r.values.all (fun kv => !kv.2.isRow)
def NoRowVals (g : G) : Prop :=
  (∀ kr ∈ g.pNick, kr.2.noRowVals = true) ∧ (∀ kr ∈ g.pTable, kr.2.noRowVals = true)

/-! ### `resave_objects_from_continuation` -/

def Row.id? (r : Row) : Option Val := lookupD "id" r.values

/-- rows put back into the row history of a continued run: `(table, nickname?, row)`;
    `keep` = tables with history (`tables_to_keep_history_for`) -/
def resaved (g : G) (keep : List String) : List (String × Option String × Row) :=
  let byNick := g.pNick.map (fun kr => (kr.2.table, some kr.1, kr.2))
  -- set((obj._tablename, obj._id) …)
  let already := g.pNick.map (fun kr => (kr.2.table, kr.2.id?))
  -- `if (tablename, obj._id) not in already_saved` (tablename = the dict key)
  let byTable := (g.pTable.filter (fun kr => !(already.contains (kr.1, kr.2.id?)))).map
    (fun kr => (kr.1, (none : Option String), kr.2))
  (byNick ++ byTable).filter (fun e => keep.contains e.1)

/-- is the row `(table, id)` back in the history? -/
def restored (g : G) (keep : List String) (table : String) (id : Option Val) : Bool :=
  (resaved g keep).any (fun e => e.1 == table && e.2.2.id? == id)

end SnowModel.Persist
