/-
Model of the output layer (`snowfakery/output_streams.py`, `snowfakery/api.py`
`configure_output_stream`, `snowfakery/parse_recipe_yaml.py` `TableInfo`) — import-free.

It mirrors what the Python *does*:

* **E — encoders.**  `OutputStream.cleanup` looks the exact `type(value)` up in the class's
  `encoders` dict (resolved through the class hierarchy and the `**Base.encoders` unpacking),
  references go through `flatten`.  The encoded value then reaches the class's sink
  (`f"{v}"`, `json.dumps`, `csv.DictWriter`, sqlite through SQLAlchemy `Unicode(255)` columns);
  `encodeCell` is what an independent decoder reads back from the artefact.
  Renderings that belong to the Python library (`date.isoformat()`, `str(datetime)`, `repr(float)`,
  `str(Decimal)`) are carried inside the value as strings: *which* rendering a stream class uses is
  Snowfakery's logic and is what the model decides.
* **B — DB buffer machine.**  `SqlDbOutputStream`: `count` starts at 1; `write_row` appends to
  `buffered_rows[table]`, flushes when `count % flush_limit == 0`, commits when
  `count % commit_limit == 0`, then increments `count`; `flush` inserts the buffered rows of the
  tables of `table_info` only (one transaction: a row sqlite cannot bind makes the whole flush fail
  and roll back); `commit` flushes iff `any(self.buffered_rows)` (some key is a non-empty string);
  `close` commits.  `SqlTextOutputStream` wraps such a stream; its `commit` delegates (since 043066e).
* **R — reporting.**  `generate` commits the stream once the interpreter is done (since 043066e), so a
  failing final flush fails the run; `configure_output_stream` still echoes and swallows an exception
  of `close()`.
* **S — schema.**  `TableInfo.register` (union of the visible field names of all templates of a
  table, `has_update_keys`), the CSV header, the DB columns / `fallback_dict`, the keys of a row.
* **M — multiplexing.**  `MultiplexOutputStream.write_row` loops over the streams and stops at the
  first exception; `close` closes every stream and re-raises the first error (since 043066e).
-/
namespace SnowModel.Output

/-! ### E — values, encoders, sinks -/

/-- Python values that can reach `write_row` (`FieldValue`). -/
inductive Val where
  | str (s : String)
  | int (i : Int)
  | float (r : String)              -- `repr(f)`
  | bool (b : Bool)
  | none
  | date (iso : String)             -- `d.isoformat()` = `str(d)`
  | datetime (tsec sp : String)     -- `dt.isoformat(timespec="seconds")`, `str(dt)` = `dt.isoformat(" ")`
  | decimal (s : String)            -- `str(dec)`
  | ref (table : String) (id : Int) -- `ObjectRow` / `ObjectReference`
  | other (simplified : Option String) -- any other type; `some s`: it has `.simplify()` returning `s`
  deriving DecidableEq, Repr

/-- The key types of the `encoders` dicts. -/
inductive Ty where
  | str | int | float | date | datetime | none | bool | decimal
  deriving DecidableEq, Repr

/-- How the source spells the key. -/
def Ty.key : Ty → String
  | .str => "str" | .int => "int" | .float => "float" | .date => "datetime.date"
  | .datetime => "datetime.datetime" | .none => "type(None)" | .bool => "bool" | .decimal => "Decimal"

/-- The encoder callables used in the `encoders` dicts. -/
inductive Enc where
  | str | int | float | noop | bool | formatDatetime | rejectNul
  deriving DecidableEq, Repr

/-- How the source spells the callable. -/
def Enc.name : Enc → String
  | .str => "str" | .int => "int" | .float => "float" | .noop => "noop" | .bool => "bool"
  | .formatDatetime => "format_datetime"
  | .rejectNul => "_reject_nul"

/-- `type(value)` as a dict key (exact type: `bool` is not `int`, `datetime` is not `date`). -/
def typeOf : Val → Option Ty
  | .str _ => some .str | .int _ => some .int | .float _ => some .float | .bool _ => some .bool
  | .none => some .none | .date _ => some .date | .datetime _ _ => some .datetime
  | .decimal _ => some .decimal | .ref _ _ => Option.none | .other _ => Option.none

/-- The stream classes reachable from `OUTPUT_FORMATS` / `--dburl`
    (`base` = `OutputStream` itself, the root of the hierarchy). -/
inductive Cls where
  | base | debug | csv | json | sqlDb | sqlText
  deriving DecidableEq, Repr

def Cls.all : List Cls := [.base, .debug, .csv, .json, .sqlDb, .sqlText]

/-- `{**d, k: v, …}`: an existing key keeps its position and takes the new value, a new key is
    appended. -/
def dictSet {κ ν : Type} [DecidableEq κ] : List (κ × ν) → κ → ν → List (κ × ν)
  | [], k, v => [(k, v)]
  | (k', v') :: rest, k, v => if k' = k then (k', v) :: rest else (k', v') :: dictSet rest k v

def dictUpdate {κ ν : Type} [DecidableEq κ] (d : List (κ × ν)) (upd : List (κ × ν)) : List (κ × ν) :=
  upd.foldl (fun acc kv => dictSet acc kv.1 kv.2) d

def dictGet {κ ν : Type} [DecidableEq κ] : List (κ × ν) → κ → Option ν
  | [], _ => Option.none
  | (k', v') :: rest, k => if k' = k then some v' else dictGet rest k

/-- `OutputStream.encoders` -/
def baseEncoders : List (Ty × Enc) :=
  [(.str, .str), (.int, .int), (.float, .float), (.date, .noop), (.datetime, .noop),
   (.none, .noop), (.bool, .int), (.decimal, .str)]

/-- The `encoders` attribute each class ends up with (own dict literal with `**Base.encoders`, or
    inherited: `SqlTextOutputStream → FileOutputStream → OutputStream`). -/
def encodersOf : Cls → List (Ty × Enc)
  | .base => baseEncoders
  | .debug => dictUpdate baseEncoders [(.datetime, .formatDatetime)]
  | .csv => dictUpdate baseEncoders [(.datetime, .formatDatetime)]
  | .json => dictUpdate baseEncoders [(.date, .str), (.datetime, .str), (.bool, .bool)]
  | .sqlDb => dictUpdate baseEncoders [(.datetime, .formatDatetime)]
  | .sqlText => dictUpdate baseEncoders [(.str, .rejectNul)]   -- since fix e8cf4d3 (before: inherited)

/-- the string holds a NUL character -/
def hasNul (s : String) : Bool := s.toList.contains (Char.ofNat 0)

/-- `str(v)` / `f"{v}"` -/
def pyStr : Val → String
  | .str s => s
  | .int i => toString i
  | .float r => r
  | .bool b => if b then "True" else "False"
  | .none => "None"
  | .date iso => iso
  | .datetime _ sp => sp
  | .decimal s => s
  | .ref _ i => toString i            -- `ObjectRow.__str__`
  | .other s => s.getD "<object>"

/-- Apply an encoder callable to a value; `none`: the call raises / is not meaningful
    (never happens for the pinned tables — `encoders_total`). -/
def applyEnc : Enc → Val → Option Val
  | .noop, v => some v
  | .str, v => some (.str (pyStr v))
  | .int, .int i => some (.int i)
  | .int, .bool b => some (.int (if b then 1 else 0))
  | .float, .float r => some (.float r)
  | .bool, .bool b => some (.bool b)
  | .formatDatetime, .datetime tsec _ => some (.str tsec)
  | .rejectNul, .str s => if hasNul s then Option.none else some (.str s)   -- raises `ValueError` on NUL
  | _, _ => Option.none

/-- What `flatten` returns for a reference. -/
inductive Flat where
  | id          -- `target_object_row.id`
  | tableParenId -- `f"{target_object_row._tablename}({target_object_row.id})"`
  deriving DecidableEq, Repr

def flattenOf : Cls → Flat
  | .debug => .tableParenId
  | _ => .id

inductive EncErr where
  | noEncoder        -- `TypeError("No encoder found …")`
  | encoderRaises
  | notSerializable  -- `json.dumps` / sqlite cannot take the value
  | overflow         -- `OverflowError: Python int too large to convert to SQLite INTEGER`
  deriving DecidableEq, Repr

/-- `OutputStream.cleanup` -/
def cleanup (c : Cls) (v : Val) : Except EncErr Val :=
  match v with
  | .ref t i =>
    match flattenOf c with
    | .id => .ok (.int i)
    | .tableParenId => .ok (.str (t ++ "(" ++ toString i ++ ")"))
  | v =>
    match (typeOf v).bind (dictGet (encodersOf c)) with
    | some e =>
      match applyEnc e v with
      | some x => .ok x
      | Option.none => .error .encoderRaises
    | Option.none =>
      match v with
      | .other (some s) => .ok (.str s)
      | _ => .error .noEncoder

/-- What an independent decoder reads back from an artefact. -/
inductive Cell where
  | text (s : String)
  | int (i : Int)
  | bool (b : Bool)
  | null
  | float (r : String)
  deriving DecidableEq, Repr

def int64 (i : Int) : Bool := decide (-9223372036854775808 ≤ i) && decide (i ≤ 9223372036854775807)

/-- `SqlTextOutputStream` renders its rows with `sqlite3.Connection.iterdump()`, i.e. with sqlite's
    `quote()`, which stops at the first NUL character of a text value (`"a\0b"` would be dumped as
    `'a'`; the database behind a dburl keeps the full value).  Since fix e8cf4d3 the class's `str`
    encoder `_reject_nul` raises before such a string reaches the dump (defect D56 before it). -/
def truncNul (s : String) : String := String.ofList (s.toList.takeWhile (fun c => c != Char.ofNat 0))

/-- text of a string value as it reaches the artefact of a sqlite-backed class -/
def sqlText (c : Cls) (s : String) : String :=
  match c with
  | .sqlText => truncNul s
  | _ => s

/-- The sink of a class applied to an *encoded* value.  `isId`: the cell is the `id` column
    (INTEGER PRIMARY KEY in the database; elsewhere like any other field).  -/
def sink (c : Cls) (isId : Bool) (v : Val) : Except EncErr Cell :=
  match c with
  | .base => .error .notSerializable       -- abstract class: no sink
  | .debug => .ok (.text (pyStr v))         -- f"{key}={value}"
  | .csv =>                                 -- csv.writer: None → "", str as is, anything else str()
    match v with
    | .none => .ok (.text "")
    | v => .ok (.text (pyStr v))
  | .json =>                                -- json.dumps
    match v with
    | .str s => .ok (.text s)
    | .int i => .ok (.int i)
    | .float r => .ok (.float r)
    | .bool b => .ok (.bool b)
    | .none => .ok .null
    | _ => .error .notSerializable
  | .sqlDb | .sqlText =>                    -- sqlite: id INTEGER, other columns VARCHAR (TEXT affinity)
    match v with
    | .none => .ok .null
    | .int i => if int64 i then .ok (if isId then .int i else .text (toString i)) else .error .overflow
    | .str s => .ok (.text (sqlText c s))
    | .float r => .ok (.text r)
    | .date iso => .ok (.text iso)          -- sqlite3 default adapter
    | .datetime _ sp => .ok (.text sp)      -- sqlite3 default adapter: isoformat(" ")
    | .bool b => .ok (.text (if b then "1" else "0"))
    | _ => .error .notSerializable

/-- value ↦ cell of the artefact -/
def encodeCell (c : Cls) (isId : Bool) (v : Val) : Except EncErr Cell :=
  match cleanup c v with
  | .ok x => sink c isId x
  | .error e => .error e

/-- The value universe of the property: every `FieldValue` type that has an encoder. -/
def InUniverse : Val → Prop
  | .other Option.none => False
  | _ => True

/-! ### B — the DB buffer machine -/

/-- State of a `SqlDbOutputStream` over rows of type `ρ`. -/
structure Db (ρ : Type) where
  count : Nat                          -- `self.count` (class attribute initial value)
  buffered : String → List ρ           -- `self.buffered_rows` (a `defaultdict(list)`)
  keys : List String                   -- its keys, in insertion order
  committed : String → List ρ          -- rows inserted into the database, per table, in order
  known : List String                  -- keys of `self.table_info`
  log : List (Nat × String × Nat)      -- ghost: (count, table, #rows) of every `session.execute`

def Db.init {ρ : Type} (count0 : Nat) (known : List String) : Db ρ :=
  { count := count0, buffered := fun _ => [], keys := [], committed := fun _ => [], known := known, log := [] }

def addKey (ks : List String) (t : String) : List String := if ks.contains t then ks else ks ++ [t]

/-- `write_single_row`: `self.buffered_rows[tablename].append(row)` -/
def Db.writeSingle {ρ : Type} (s : Db ρ) (t : String) (r : ρ) : Db ρ :=
  { s with buffered := fun t' => if t' = t then s.buffered t ++ [r] else s.buffered t',
           keys := addKey s.keys t }

/-- `flush` (= `_flush_rows` inside one transaction).  `bad r`: sqlite cannot bind the row
    (an int outside 64 bits) — the whole transaction fails and nothing of it is committed. -/
def Db.flush {ρ : Type} (bad : ρ → Bool) (s : Db ρ) : Option (Db ρ) :=
  if s.known.any (fun t => (s.buffered t).any bad) then Option.none
  else some
    { s with
      committed := fun t => if s.known.contains t then s.committed t ++ s.buffered t else s.committed t,
      buffered := fun t => if s.known.contains t then [] else s.buffered t,
      keys := s.known.foldl addKey s.keys,
      log := s.log ++ (s.known.filter (fun t => !(s.buffered t).isEmpty)).map
                        (fun t => (s.count, t, (s.buffered t).length)) }

/-- `commit`: `if any(self.buffered_rows): self.flush()` — `any` over the *keys* of the dict. -/
def Db.commit {ρ : Type} (bad : ρ → Bool) (s : Db ρ) : Option (Db ρ) :=
  if s.keys.any (fun k => k != "") then s.flush bad else some s

/-- `OutputStream.write_row` after `cleanup`. -/
def Db.writeRow {ρ : Type} (fl cl : Nat) (bad : ρ → Bool) (s : Db ρ) (t : String) (r : ρ) : Option (Db ρ) :=
  let s1 := s.writeSingle t r
  match (if s1.count % fl = 0 then s1.flush bad else some s1) with
  | Option.none => Option.none
  | some s2 =>
    match (if s2.count % cl = 0 then s2.commit bad else some s2) with
    | Option.none => Option.none
    | some s3 => some { s3 with count := s3.count + 1 }

/-- all `write_row` calls of a run, in order; `none`: one of them raised -/
def Db.writeAll {ρ : Type} (fl cl : Nat) (bad : ρ → Bool) : Db ρ → List (String × ρ) → Option (Db ρ)
  | s, [] => some s
  | s, (t, r) :: ws =>
    match s.writeRow fl cl bad t r with
    | Option.none => Option.none
    | some s' => Db.writeAll fl cl bad s' ws

/-! ### R — what the run reports -/

inductive Outcome (ρ : Type) where
  | writeFailed                 -- an exception left `write_row`: the run fails ("Cannot write row")
  | commitFailed                -- `generate`'s `output_stream.commit()` raised: the run fails
                                --   (`DataGenError("Cannot write to output stream: …")`)
  | closed (s : Db ρ)           -- all writes, the final commit and `close()` succeeded
  | closeFailed (s : Db ρ)      -- everything before `close()` succeeded, `close()` raised

/-- `generate()` after `interpreter.execute()`: `output_stream.commit()` (since fix 043066e;
    `pre = false` is the behaviour before it, when only `close()` wrote the final batch). -/
def Db.preCommit {ρ : Type} (pre : Bool) (bad : ρ → Bool) (s : Db ρ) : Option (Db ρ) :=
  if pre then s.commit bad else some s

/-- A whole run against one database stream: every `write_row`, then (iff `pre`) the commit that
    `generate` issues while an error can still fail the run, then `close()` (= commit). -/
def runDb {ρ : Type} (pre : Bool) (count0 fl cl : Nat) (bad : ρ → Bool) (known : List String)
    (ws : List (String × ρ)) : Outcome ρ :=
  match Db.writeAll fl cl bad (Db.init count0 known) ws with
  | Option.none => .writeFailed
  | some s =>
    match s.preCommit pre bad with
    | Option.none => .commitFailed
    | some s1 =>
      match s1.commit bad with
      | Option.none => .closeFailed s1
      | some s2 => .closed s2

/-- `configure_output_stream`: `try: messages = output_stream.close()  except Exception as e: echo(…)`.
    `swallow` = the handler does not re-raise (still the case; pinned). -/
def reportsSuccess {ρ : Type} (swallow : Bool) : Outcome ρ → Bool
  | .writeFailed => false
  | .commitFailed => false
  | .closed _ => true
  | .closeFailed _ => swallow

def Outcome.db? {ρ : Type} : Outcome ρ → Option (Db ρ)
  | .writeFailed => Option.none
  | .commitFailed => Option.none
  | .closed s => some s
  | .closeFailed s => some s

/-- The SQL-script stream on top of the DB machine: its `close()` is `_dump_db` (inner commit, then
    the dump of the inner database is written to the text file) — `dumpOk = false`: writing the dump
    raises (e.g. the text file cannot encode a character).  Result: the outcome of the run and the
    database state that reached the script (`none`: no row did). -/
def runScript {ρ : Type} (pre dumpOk : Bool) (count0 fl cl : Nat) (bad : ρ → Bool) (known : List String)
    (ws : List (String × ρ)) : Outcome ρ × Option (Db ρ) :=
  match runDb pre count0 fl cl bad known ws with
  | .closed s => if dumpOk then (.closed s, some s) else (.closeFailed s, Option.none)
  | o => (o, Option.none)

/-- the rows written to table `T`, in order -/
def rowsOf {ρ : Type} (T : String) (ws : List (String × ρ)) : List ρ :=
  (ws.filter (fun w => w.1 == T)).map (fun w => w.2)

/-! ### S — schema inference and row keys -/

structure Template where
  table : String
  fields : List String      -- field names in declaration order (isHidden ones included)
  updateKey : Bool          -- `update_key:` present
  deriving Repr

structure TableInfo where
  fields : List String      -- keys of `TableInfo.fields`, in dict order
  hasUpdateKeys : Bool
  deriving Repr, DecidableEq

def isHidden (name : String) : Bool := name.startsWith "__"

/-- add a key to an insertion-ordered key list (`dict.update` on the keys) -/
def addField (fs : List String) (f : String) : List String := if fs.contains f then fs else fs ++ [f]

/-- `TableInfo.register(template)` -/
def TableInfo.register (ti : TableInfo) (tpl : Template) : TableInfo :=
  { fields := (tpl.fields.filter (fun f => !isHidden f)).foldl addField ti.fields,
    hasUpdateKeys := ti.hasUpdateKeys || tpl.updateKey }

/-- `TableInfo` of table `t` after registering all templates (of any table) in order -/
def inferTable (tpls : List Template) (t : String) : TableInfo :=
  (tpls.filter (fun tpl => tpl.table == t)).foldl TableInfo.register { fields := [], hasUpdateKeys := false }

/-- keys of the dict a template passes to `write_row` (`_generate_row` then `filter_row_values`) -/
def writtenKeys (tpl : Template) : List String :=
  (("id" :: (if tpl.updateKey then ["_sf_update_key"] else [])) ++ tpl.fields).filter (fun f => !isHidden f)

/-- keys of `fallback_dict` of a table (`create_or_validate_tables` of the DB stream) -/
def dbColumns (ti : TableInfo) : List String :=
  let c1 := addField ti.fields "id"
  if ti.hasUpdateKeys then addField c1 "_sf_update_key" else c1

/-- `CSVOutputStream.open_writer`: `fieldnames = list(table.fields.keys()) + ["id"]`, then
    `fieldnames.append("_sf_update_key")` iff the table has update keys (since fix bc0f717; before it
    the header stopped at `id` — defect D16); `csv.DictWriter` raises `ValueError` on extra keys. -/
def csvHeader (ti : TableInfo) : List String :=
  ti.fields ++ ["id"] ++ (if ti.hasUpdateKeys then ["_sf_update_key"] else [])

/-- `{key: row[key] if key in row else fallback_dict[key] for key in fallback_dict.keys()}` -/
def projectRow {ν : Type} (cols : List String) (row : List (String × ν)) : List (String × Option ν) :=
  cols.map (fun k => (k, dictGet row k))

/-! ### M — multiplexing -/

/-- `for stream in self.outputstreams: stream.write_row(…)` (stops at the first exception) -/
def muxStep {σ α ε : Type} (w : α → σ → Except ε σ) (a : α) : List σ → Except ε (List σ)
  | [] => .ok []
  | s :: ss =>
    match w a s with
    | .error e => .error e
    | .ok s' =>
      match muxStep w a ss with
      | .error e => .error e
      | .ok ss' => .ok (s' :: ss')

def runMux {σ α ε : Type} (w : α → σ → Except ε σ) : List σ → List α → Except ε (List σ)
  | ss, [] => .ok ss
  | ss, a :: as =>
    match muxStep w a ss with
    | .error e => .error e
    | .ok ss' => runMux w ss' as

def runOne {σ α ε : Type} (w : α → σ → Except ε σ) : σ → List α → Except ε σ
  | s, [] => .ok s
  | s, a :: as =>
    match w a s with
    | .error e => .error e
    | .ok s' => runOne w s' as

/-- `MultiplexOutputStream.close`: result per stream — `some true` closed, `some false` its close
    raised, `none` never reached.  `goOn = true` (since fix 043066e): every stream is closed and the
    first error is re-raised afterwards; `goOn = false` (before): the loop stopped at the first error. -/
def muxClose {σ : Type} (goOn : Bool) (closeOk : σ → Bool) : List σ → List (Option Bool)
  | [] => []
  | s :: ss =>
    if closeOk s then some true :: muxClose goOn closeOk ss
    else if goOn then some false :: muxClose goOn closeOk ss
    else some false :: ss.map (fun _ => Option.none)

/-- whether `MultiplexOutputStream.close` raises -/
def muxCloseRaises {σ : Type} (closeOk : σ → Bool) (ss : List σ) : Bool := ss.any (fun s => !closeOk s)

end SnowModel.Output
