/-
C07 — which tables can a recipe create?  Model of the table registration done by
`snowfakery/parse_recipe_yaml.py` while it parses the recipe's own statement list
(`parse_recipe` → `parse_statement_list` → `parse_object_template` → `parse_inclusions` /
`include_macro`, `parse_fields` (nested object templates), `parse_friends`,
`ParseContext.register_template`), and of the filter that produces `parse_result.tables`
(`not name.startswith("__")`).  `Interpreter.__init__` validates the stopping table against that.

Abstract syntax: an object template is its table name, the macros it `include:`s (in order) and
its child templates (nested object templates of its fields, then its friends, in order).  A macro
is a name, the macros it includes and its child templates.  The macro table is the merged
`context.macros` (include_file'd libraries first, own declarations last); the statement list is
the merged list (included files' statements first).  Declaring a macro registers nothing: only
*expanding* it (because a template reachable from the statement list includes it) does.

`parse*` mirror the parser operationally (state = the ordered key list of `table_infos`, the stack
`macros_being_expanded`); `ReachT`/`ReachM`/`Reach` say declaratively which tables some template
reachable from the statements has.  No Mathlib import: linked into the driver.
-/
namespace SnowModel.StopTables

inductive Tmpl where
  | mk (table : String) (includes : List String) (kids : List Tmpl)

structure Macro where
  name : String
  includes : List String
  kids : List Tmpl

structure Recipe where
  macros : List Macro
  statements : List Tmpl

/-- `context.macros.get(name)` -/
def lookup (ms : List Macro) (n : String) : Option Macro := ms.find? (fun m => m.name == n)

/-- `table_infos[tablename] = …`: a dict keeps the position of the first insertion -/
def register (acc : List String) (t : String) : List String :=
  if acc.contains t then acc else acc ++ [t]

inductive Err where
  /-- `DataGenNameError("Cannot find macro named …")` -/
  | macroNotFound
  /-- `DataGenError`: a macro that is being expanded is included again -/
  | macroCycle
  /-- the model's fuel ran out -/
  | fuel
  deriving Repr, DecidableEq

mutual
/-- `parse_object_template`: inclusions, then fields / friends (children), then `register_template` -/
def parseT : Nat → List Macro → List String → List String → Tmpl → Except Err (List String)
  | 0, _, _, _, _ => .error .fuel
  | f + 1, ms, st, acc, .mk t incs kids =>
    match parseIncs f ms st acc incs with
    | .error e => .error e
    | .ok acc1 =>
      match parseL f ms st acc1 kids with
      | .error e => .error e
      | .ok acc2 => .ok (register acc2 t)
/-- `parse_statement_list` / the nested templates of `parse_fields`, in order -/
def parseL : Nat → List Macro → List String → List String → List Tmpl → Except Err (List String)
  | 0, _, _, _, _ => .error .fuel
  | _ + 1, _, _, acc, [] => .ok acc
  | f + 1, ms, st, acc, k :: ks =>
    match parseT f ms st acc k with
    | .error e => .error e
    | .ok acc1 => parseL f ms st acc1 ks
/-- `parse_inclusions`: every named macro, in order -/
def parseIncs : Nat → List Macro → List String → List String → List String → Except Err (List String)
  | 0, _, _, _, _ => .error .fuel
  | _ + 1, _, _, acc, [] => .ok acc
  | f + 1, ms, st, acc, n :: ns =>
    match parseM f ms st acc n with
    | .error e => .error e
    | .ok acc1 => parseIncs f ms st acc1 ns
/-- `include_macro`: look the macro up, refuse a macro that is already being expanded, expand its
    own inclusions and then its fields / friends -/
def parseM : Nat → List Macro → List String → List String → String → Except Err (List String)
  | 0, _, _, _, _ => .error .fuel
  | f + 1, ms, st, acc, n =>
    match lookup ms n with
    | none => .error .macroNotFound
    | some m =>
      if st.contains n then .error .macroCycle
      else
        match parseIncs f ms (n :: st) acc m.includes with
        | .error e => .error e
        | .ok acc1 => parseL f ms (n :: st) acc1 m.kids
end

/-- `not name.startswith("__")` -/
def visible (n : String) : Bool :=
  match n.toList with
  | '_' :: '_' :: _ => false
  | _ => true

/-- `parse_recipe(...).tables` (its keys, in order): everything registered while parsing the
    recipe's statement list, hidden names dropped. -/
def parseTables (fuel : Nat) (rc : Recipe) : Except Err (List String) :=
  match parseL fuel rc.macros [] [] rc.statements with
  | .error e => .error e
  | .ok acc => .ok (acc.filter visible)

mutual
/-- table `x` belongs to template `T` itself, to one of its children, or comes with a macro it includes -/
inductive ReachT (ms : List Macro) : Tmpl → String → Prop
  | self (t : String) (incs : List String) (kids : List Tmpl) : ReachT ms (.mk t incs kids) t
  | kid (t : String) (incs : List String) (kids : List Tmpl) (k : Tmpl) (x : String) :
      k ∈ kids → ReachT ms k x → ReachT ms (.mk t incs kids) x
  | inc (t : String) (incs : List String) (kids : List Tmpl) (n : String) (x : String) :
      n ∈ incs → ReachM ms n x → ReachT ms (.mk t incs kids) x
/-- table `x` comes with macro `n`: through one of its child templates or a macro it includes -/
inductive ReachM (ms : List Macro) : String → String → Prop
  | kid (n : String) (m : Macro) (k : Tmpl) (x : String) :
      lookup ms n = some m → k ∈ m.kids → ReachT ms k x → ReachM ms n x
  | inc (n : String) (m : Macro) (n' : String) (x : String) :
      lookup ms n = some m → n' ∈ m.includes → ReachM ms n' x → ReachM ms n x
end

/-- **The recipe can create table `x`**: some template reachable from the top-level statements
    (through nested fields, friends and included macros) has that table. -/
def Reach (rc : Recipe) (x : String) : Prop := ∃ t, t ∈ rc.statements ∧ ReachT rc.macros t x

end SnowModel.StopTables
