/-
Model layer P (composition part) — `include_file`, macros, field de-duplication and option merge.

Mirrors, function by function (names in back-quotes are the Python names):
  snowfakery/parse_recipe_yaml.py   `_dedupe_field_list`, `parse_inclusions`, `include_macro`,
      `parse_object_template` (the inclusion / fields / friends / de-dup part), `parse_statement_list`,
      `parse_included_files`, `parse_top_level_elements`, `parse_version`, `parse_file`, `parse_recipe`
  snowfakery/data_generator.py      `merge_options`

The model mirrors what the code *does*, including:
  * `{f.name: f for f in fields}`: a repeated name keeps the position of its first occurrence and the
    definition of its last one;
  * `include_macro` de-duplicates the field list of every macro it returns and `parse_object_template`
    de-duplicates again; friends are never de-duplicated;
  * two macro cycle checks: `parent_macros` (the chain of `include:` lines; `parse_object_template`
    always restarts it with `parent_macros=()`) and, since the repair of D46 (commit 97f2c27), the stack
    `context.macros_being_expanded` of *all* macros under expansion — a macro that reaches itself
    through a nested template (a friend or an object-valued field of the macro) is `Err.macroNested`;
  * macros are kept unparsed in `context.macros` (a dict: a later definition of the same name replaces
    the earlier one) and are expanded only after *all* files have been read, so every template — also
    one that comes from an included file — sees the final definition;
  * `parse_top_level_elements` reads all included files (depth first, in the order of the
    `include_file` lines, wherever those lines are) *before* it registers its own options and macros and
    before its own statements; since the repair of D45 (commit 70277f6) `parse_included_file` keeps the
    *stack* `context.files_being_parsed` (push before, pop after reading the file; the main file is not
    on it) and a file reached again while it is open is `Err.includeCycle` — a file may still be included
    any number of times from different places (twice, diamonds), nothing is remembered after the pop;
  * since the repair of D47 (commit 6931335): `own_version = parse_version(<declarations of this file>)`;
    a file without declaration leaves `context.version` as the included files set it; an own version
    that differs from a version already set is the same error as a conflict inside one file;
  * the two tests of `merge_options` are parameters of the model (`Test.truthyGet` for `d.get(k)`,
    `Test.contains` for `k in d`), pinned from the AST: `name in user_options` / `"default" in option`
    since the repair of D12 (commit d8c74a2; before: truthiness of `user_options.get(name)` /
    `option.get("default")`).
Field definitions other than nested templates, and the template attributes that this layer only
passes through (nickname, count, just_once …), are opaque payload strings.
No Mathlib import (linked into the driver).
-/

namespace SnowModel.ParseY

/-! ### Python dict semantics on association lists -/

abbrev AList (α : Type) := List (String × α)

def hasKey {α : Type} (d : AList α) (k : String) : Bool := d.any (fun p => p.1 == k)

/-- `d[k] = v`: an existing key keeps its position -/
def dictSet {α : Type} (d : AList α) (k : String) (v : α) : AList α :=
  if hasKey d k then d.map (fun p => if p.1 == k then (k, v) else p) else d ++ [(k, v)]

/-- `d.update({k: v for k, v in l})`, i.e. successive assignment -/
def dictUpdate {α : Type} (d : AList α) (l : AList α) : AList α :=
  l.foldl (fun acc p => dictSet acc p.1 p.2) d

/-- `_dedupe_field_list`: `list({f.name: f for f in fields}.values())` -/
def dedupe {α : Type} (l : AList α) : AList α := dictUpdate [] l

/-- `Except`-valued map, left to right, stopping at the first error -/
def mapE {α β ε : Type} (f : α → Except ε β) : List α → Except ε (List β)
  | [] => .ok []
  | x :: xs =>
    match f x with
    | .error e => .error e
    | .ok y =>
      match mapE f xs with
      | .error e => .error e
      | .ok ys => .ok (y :: ys)

/-- `Except`-valued left fold -/
def foldE {α σ ε : Type} (f : σ → α → Except ε σ) : σ → List α → Except ε σ
  | s, [] => .ok s
  | s, x :: xs =>
    match f s x with
    | .error e => .error e
    | .ok s' => foldE f s' xs

/-! ### Syntax: raw (as written, with `include:`) and parsed (macros expanded) -/

mutual
  inductive RDef where
    | val (payload : String)
    | nested (t : RTemplate)
  inductive RTemplate where
    | mk (table : String) (attrs : String) (incl : List String)
         (fields : List (String × RDef)) (friends : List RStmt)
  inductive RStmt where
    | var (name : String) (value : RDef)
    | obj (t : RTemplate)
end

instance : Inhabited RDef := ⟨.val ""⟩
instance : Inhabited RTemplate := ⟨.mk "" "" [] [] []⟩
instance : Inhabited RStmt := ⟨.obj default⟩

def RTemplate.table : RTemplate → String | .mk t _ _ _ _ => t
def RTemplate.attrs : RTemplate → String | .mk _ a _ _ _ => a
def RTemplate.incl : RTemplate → List String | .mk _ _ i _ _ => i
def RTemplate.fields : RTemplate → List (String × RDef) | .mk _ _ _ f _ => f
def RTemplate.friends : RTemplate → List RStmt | .mk _ _ _ _ f => f

/-- the body of a `- macro: name` declaration -/
structure RMacro where
  incl : List String
  fields : List (String × RDef)
  friends : List RStmt
  deriving Inhabited

mutual
  inductive PDef where
    | val (payload : String)
    | nested (t : PTemplate)
  inductive PTemplate where
    | mk (table : String) (attrs : String) (fields : List (String × PDef)) (friends : List PStmt)
  inductive PStmt where
    | var (name : String) (value : PDef)
    | obj (t : PTemplate)
end

instance : Inhabited PDef := ⟨.val ""⟩
instance : Inhabited PTemplate := ⟨.mk "" "" [] []⟩
instance : Inhabited PStmt := ⟨.obj default⟩

def PTemplate.table : PTemplate → String | .mk t _ _ _ => t
def PTemplate.attrs : PTemplate → String | .mk _ a _ _ => a
def PTemplate.fields : PTemplate → List (String × PDef) | .mk _ _ f _ => f
def PTemplate.friends : PTemplate → List PStmt | .mk _ _ _ f => f

inductive Err where
  | fuel
  | noMacro (name : String)                          -- DataGenNameError "Cannot find macro named …"
  | macroCycle (parents : List String) (name : String)  -- DataGenError "Macro `a` calls `b` which calls `a`"
  | macroNested (name : String)                      -- DataGenError "Macro `a` includes itself through a nested object template"
  | noFile (name : String)                           -- DataGenError "Cannot load include file …"
  | includeCycle (name : String)                     -- DataGenError "Include file … includes itself"
  | versionConflict                                  -- "Cannot have multiple conflicting versions …"
  | badVersion                                       -- "Version must be 2 or 3"
  | noOption (name : String)                         -- DataGenNameError "No definition supplied for option …"
  deriving Repr, DecidableEq, Inhabited

/-! ### Macro expansion -/

/-- `[x.strip() for x in yaml_sobj.get("include", "").split(",")]` filtered for non-empty names.
    The typed syntax above carries the resulting name list (`incl`); the driver applies `incNames` to
    the raw `include:` string when it decodes a recipe. -/
def incNames (s : String) : List String :=
  ((s.splitOn ",").map (fun x => (x.trimAscii).toString)).filter (fun x => x != "")

/-- what `include_macro` returns: (fields, friends) -/
abbrev Incl := AList PDef × List PStmt

/-- `fields.extend(include_fields); friends.extend(include_friends)` over all inclusions -/
def concatIncl (rs : List Incl) : Incl := (rs.flatMap (·.1), rs.flatMap (·.2))

mutual
  /-- `parse_field_value` (the part that matters here: nested templates are parsed recursively).
      `exp` is `context.macros_being_expanded`. -/
  def pDef : Nat → AList RMacro → List String → RDef → Except Err PDef
    | 0, _, _, _ => .error .fuel
    | _ + 1, _, _, .val p => .ok (.val p)
    | f + 1, ms, exp, .nested t =>
      match pTemplate f ms exp t with
      | .error e => .error e
      | .ok r => .ok (.nested r)

  /-- one element of `parse_statement_list` -/
  def pStmt : Nat → AList RMacro → List String → RStmt → Except Err PStmt
    | 0, _, _, _ => .error .fuel
    | f + 1, ms, exp, .var n d =>
      match pDef f ms exp d with
      | .error e => .error e
      | .ok r => .ok (.var n r)
    | f + 1, ms, exp, .obj t =>
      match pTemplate f ms exp t with
      | .error e => .error e
      | .ok r => .ok (.obj r)

  /-- `parse_object_template`: inclusions (with `parent_macros=()`), own fields, own friends, de-dup -/
  def pTemplate : Nat → AList RMacro → List String → RTemplate → Except Err PTemplate
    | 0, _, _, _ => .error .fuel
    | f + 1, ms, exp, t =>
      match mapE (fun n => includeMacro f ms exp [] n) t.incl with
      | .error e => .error e
      | .ok incs =>
        match mapE (fun p => match pDef f ms exp p.2 with
                             | .error e => .error e
                             | .ok d => .ok (p.1, d)) t.fields with
        | .error e => .error e
        | .ok own =>
          match mapE (fun s => pStmt f ms exp s) t.friends with
          | .error e => .error e
          | .ok ofr =>
            .ok (.mk t.table t.attrs (dedupe ((concatIncl incs).1 ++ own)) ((concatIncl incs).2 ++ ofr))

  /-- `include_macro(name, context, parent_macros)`; `exp` = `context.macros_being_expanded`
      (every parent is on it; the macro is pushed while its inclusions, fields and friends are parsed) -/
  def includeMacro : Nat → AList RMacro → List String → List String → String → Except Err Incl
    | 0, _, _, _, _ => .error .fuel
    | f + 1, ms, exp, parents, name =>
      match ms.lookup name with
      | none => .error (.noMacro name)
      | some m =>
        if !parents.contains name && exp.contains name then .error (.macroNested name) else
        if parents.contains name then .error (.macroCycle parents name) else
        match mapE (fun n => includeMacro f ms (exp ++ [name]) (parents ++ [name]) n) m.incl with
        | .error e => .error e
        | .ok incs =>
          match mapE (fun p => match pDef f ms (exp ++ [name]) p.2 with
                               | .error e => .error e
                               | .ok d => .ok (p.1, d)) m.fields with
          | .error e => .error e
          | .ok own =>
            match mapE (fun s => pStmt f ms (exp ++ [name]) s) m.friends with
            | .error e => .error e
            | .ok ofr =>
              .ok (dedupe ((concatIncl incs).1 ++ own), (concatIncl incs).2 ++ ofr)
end

/-- `parse_fields` at a given fuel -/
def pField (f : Nat) (ms : AList RMacro) (exp : List String) (p : String × RDef) : Except Err (String × PDef) :=
  match pDef f ms exp p.2 with
  | .error e => .error e
  | .ok d => .ok (p.1, d)

/-! ### Options (declaration side) -/

/-- option / default values as far as `merge_options` looks at them -/
inductive OVal where
  | none_                 -- Python `None`
  | bool (b : Bool)
  | int (i : Int)
  | str (s : String)
  | other (truthy : Bool) (repr : String)   -- lists, dicts, floats …: only their truthiness matters
  deriving Repr, DecidableEq, Inhabited

def OVal.truthy : OVal → Bool
  | .none_ => false
  | .bool b => b
  | .int i => i != 0
  | .str s => s != ""
  | .other t _ => t

/-- `- option: name` with or without a `default:` key -/
structure OptDecl where
  name : String
  dflt : Option OVal
  deriving Repr, DecidableEq, Inhabited

/-! ### Files: `include_file` flattening -/

inductive Item where
  | includeFile (name : String)
  | macro (name : String) (m : RMacro)
  | option (o : OptDecl)
  | version (v : Int)
  | stmt (s : RStmt)
  deriving Inhabited

/-- `categorize_top_level_objects` -/
def includesOf : List Item → List String
  | [] => []
  | .includeFile n :: r => n :: includesOf r
  | _ :: r => includesOf r
def macrosOf : List Item → AList RMacro
  | [] => []
  | .macro n m :: r => (n, m) :: macrosOf r
  | _ :: r => macrosOf r
def optionsOf : List Item → List OptDecl
  | [] => []
  | .option o :: r => o :: optionsOf r
  | _ :: r => optionsOf r
def versionsOf : List Item → List Int
  | [] => []
  | .version v :: r => v :: versionsOf r
  | _ :: r => versionsOf r
def stmtsOf : List Item → List RStmt
  | [] => []
  | .stmt s :: r => s :: stmtsOf r
  | _ :: r => stmtsOf r

/-- `ParseContext` as far as this layer uses it -/
structure PCtx where
  macros : AList RMacro
  options : List OptDecl
  version : Option Int
  deriving Inhabited

def PCtx.empty : PCtx := ⟨[], [], none⟩

/-- `parse_version` -/
def parseVersion (vs : List Int) : Except Err (Option Int) :=
  match vs with
  | [] => .ok none
  | b :: _ =>
    if vs.any (fun v => v != b) then .error .versionConflict
    else if b != 2 && b != 3 then .error .badVersion
    else .ok (some b)

/-- the version rule of `parse_top_level_elements`: a file without declaration keeps the version set by
    the files it included; an own version must agree with a version already set -/
def mergeVersion (inherited own : Option Int) : Except Err (Option Int) :=
  match own with
  | none => .ok inherited
  | some v =>
    match inherited with
    | none => .ok (some v)
    | some w => if w == v then .ok (some v) else .error .versionConflict

/-- `parse_file` → `parse_top_level_elements`: included files first (depth first, context threaded
    through; `stack` = `context.files_being_parsed`: a file that is still open is `includeCycle`), then
    this file's options, macros, version, then its statements. Files are looked up by name in one flat
    directory. -/
def parseFile : Nat → AList (List Item) → List String → PCtx → String → Except Err (List RStmt × PCtx)
  | 0, _, _, _, _ => .error .fuel
  | f + 1, files, stack, ctx, name =>
    match files.lookup name with
    | none => .error (.noFile name)
    | some items =>
      match foldE (fun (acc : List RStmt × PCtx) n =>
                    if stack.contains n then .error (.includeCycle n) else
                    match parseFile f files (stack ++ [n]) acc.2 n with
                    | .error e => .error e
                    | .ok r => .ok (acc.1 ++ r.1, r.2)) ([], ctx) (includesOf items) with
      | .error e => .error e
      | .ok (incStmts, c1) =>
        match parseVersion (versionsOf items) with
        | .error e => .error e
        | .ok own =>
          match mergeVersion c1.version own with
          | .error e => .error e
          | .ok v =>
            .ok (incStmts ++ stmtsOf items,
                 { macros := dictUpdate c1.macros (macrosOf items),
                   options := c1.options ++ optionsOf items,
                   version := v })

/-- what `parse_recipe` hands to the interpreter -/
structure Parsed where
  statements : List PStmt
  options : List OptDecl
  version : Option Int
  deriving Inhabited

/-- `parse_recipe`: read all files, then `parse_statement_list` with the final macro table -/
def parseRecipe (fuel : Nat) (files : AList (List Item)) (main : String) : Except Err Parsed :=
  match parseFile fuel files [] PCtx.empty main with
  | .error e => .error e
  | .ok (stmts, ctx) =>
    match mapE (fun s => pStmt fuel ctx.macros [] s) stmts with
    | .error e => .error e
    | .ok ps => .ok ⟨ps, ctx.options, ctx.version⟩

/-! ### `merge_options` -/

/-- how a key is tested: `d.get(k)` (truthiness of the value) or `k in d` -/
inductive Test where
  | truthyGet
  | contains
  deriving Repr, DecidableEq, Inhabited

def Test.holds (t : Test) (v : Option OVal) : Bool :=
  match t, v with
  | _, none => false
  | .contains, some _ => true
  | .truthyGet, some x => x.truthy

/-- one round of the loop body: the value stored for one declared option -/
def decideOption (tu td : Test) (name : String) (user dflt : Option OVal) : Except Err OVal :=
  match user, dflt with
  | some u, _ => if tu.holds (some u) then .ok u else
      match dflt with
      | some d => if td.holds (some d) then .ok d else .error (.noOption name)
      | none => .error (.noOption name)
  | none, some d => if td.holds (some d) then .ok d else .error (.noOption name)
  | none, none => .error (.noOption name)

/-- `merge_options(option_definitions, user_options, raw_plugin_options)` → (options, extra_options);
    `extra_options` is a set on the Python side: here the user keys in their order, filtered. -/
def mergeOptions (tu td : Test) (defs : List OptDecl) (user plugin : AList OVal) :
    Except Err (AList OVal × List String) :=
  match foldE (fun (opts : AList OVal) (o : OptDecl) =>
                match decideOption tu td o.name (user.lookup o.name) o.dflt with
                | .error e => .error e
                | .ok v => .ok (dictSet opts o.name v)) plugin defs with
  | .error e => .error e
  | .ok opts => .ok (opts, (user.map (·.1)).filter (fun k => !hasKey opts k))

/-! ### where an option is visible: the layers of the formula namespace

`EvaluationNamespace.field_vars` = `{**simple_field_vars(), **field_funcs()}` and `simple_field_vars` is
one dict literal: built-ins (`id count child_index this today now fake template`), then `**options`,
`**object_names`, `**obj._values` (the fields of the current row evaluated so far, and its `id`),
`**plugin_function_libraries`, `**variable_definitions()`.  A later entry overrides an earlier one, so
the order of the layers — pinned — decides which names may shadow an option. -/

inductive Layer where
  | builtin | option | objectName | rowField | plugin | variable | func
  deriving Repr, DecidableEq, Inhabited

/-- farthest first -/
def layerOrder : List Layer := [.builtin, .option, .objectName, .rowField, .plugin, .variable, .func]

/-- the layer a name resolves to at a read position where layer `L` binds the names `binds L`:
    the *last* layer of `order` that binds it (Python dict construction: later entries overwrite) -/
def resolveIn (order : List Layer) (binds : Layer → List String) (name : String) : Option Layer :=
  order.reverse.find? (fun L => (binds L).contains name)

def resolve (binds : Layer → List String) (name : String) : Option Layer := resolveIn layerOrder binds name

end SnowModel.ParseY
