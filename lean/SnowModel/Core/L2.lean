/-
L2 — reference interpreter for the deterministic core of the recipe language
(`ObjectTemplate.execute / generate_rows / _generate_row / _generate_fields`,
`VariableDefinition.execute`, `SimpleValue.render`, `reference`, the name-lookup order of
`EvaluationNamespace.simple_field_vars`, both formula dialects).  Import-free.

One function per syntactic category, all on fuel (`Err.fuel` is a distinct outcome; theorems
speak about completed runs).  What the model does not cover returns `Err.outside`; the
correspondence harness discards those cases and counts them.
-/
namespace SnowModel.L2

/-! ### Syntax -/

inductive Expr where
  | int (n : Int)
  | name (s : String)
  | attr (e : Expr) (f : String)
  | add (a b : Expr)
  | sub (a b : Expr)
  | mul (a b : Expr)
  deriving Repr, Inhabited

inductive Part where
  | text (s : String)
  | expr (e : Expr)
  deriving Repr, Inhabited

inductive Lit where
  | int (n : Int)
  | str (s : String)
  | bool (b : Bool)
  | null
  deriving Repr, Inhabited

mutual
  inductive FieldDef where
    | lit (v : Lit)
    | tmpl (parts : List Part)
    | ref (path : List String)
    | nested (t : Template)
  inductive Template where
    | mk (table : String) (nick : Option String) (justOnce : Bool) (count : Option FieldDef)
         (fields : List (String × FieldDef)) (friends : List Stmt)
  inductive Stmt where
    | var (name : String) (value : FieldDef)
    | obj (t : Template)
end

instance : Inhabited FieldDef := ⟨.lit .null⟩
instance : Inhabited Template := ⟨.mk "" none false none [] []⟩
instance : Inhabited Stmt := ⟨.obj default⟩

def Template.table : Template → String | .mk t _ _ _ _ _ => t
def Template.nick : Template → Option String | .mk _ n _ _ _ _ => n
def Template.justOnce : Template → Bool | .mk _ _ j _ _ _ => j
def Template.count : Template → Option FieldDef | .mk _ _ _ c _ _ => c
def Template.fields : Template → List (String × FieldDef) | .mk _ _ _ _ f _ => f
def Template.friends : Template → List Stmt | .mk _ _ _ _ _ f => f

structure Recipe where
  v3 : Bool
  options : List (String × Lit)
  statements : List Stmt
  deriving Inhabited

/-! ### Values and state -/

inductive Val where
  | undef                       -- jinja `Undefined`
  | null
  | bool (b : Bool)
  | int (i : Int)
  | str (s : String)
  | row (h : Nat)               -- handle into `St.rows`
  | slot (name : String)        -- a forward-reference slot (`NicknameSlot`) of the current iteration
  | deadSlot (table : String) (id : Option Nat)
      -- a slot object of an *earlier* iteration still held by a stored row or a variable: it keeps
      -- the table and the id it had (`none`: it was never asked for an id)
  deriving Repr, DecidableEq, Inhabited

structure RowData where
  table : String
  idx : Nat                      -- `_child_index`
  values : List (String × Val)   -- ordered like the Python dict (first insertion position)
  deriving Repr, Inhabited

inductive SlotSt where
  | unused
  | alloc (id : Nat)
  | consumed (id : Nat)
  deriving Repr, DecidableEq, Inhabited

/-- output value -/
inductive OVal where
  | null
  | bool (b : Bool)
  | int (i : Int)
  | str (s : String)
  | ref (table : String) (id : Nat)
  deriving Repr, DecidableEq, Inhabited

structure OutRow where
  table : String
  fields : List (String × OVal)
  deriving Repr, DecidableEq, Inhabited

inductive Err where
  | recipe (msg : String)      -- the real interpreter raises a DataGenError
  | outside (msg : String)     -- outside the modelled fragment
  | fuel
  deriving Repr, DecidableEq, Inhabited

abbrev AList (α : Type) := List (String × α)

def aget {α : Type} (l : AList α) (k : String) : Option α := l.lookup k

/-- Python dict assignment: existing key keeps its position. -/
def aset {α : Type} (l : AList α) (k : String) (v : α) : AList α :=
  if l.any (fun p => p.1 == k) then l.map (fun p => if p.1 == k then (k, v) else p) else l ++ [(k, v)]

structure St where
  v3 : Bool
  names : AList String             -- nicknames_and_tables
  options : AList Val
  lastUsed : AList Nat
  slots : AList SlotSt
  pNick : AList Nat                -- name ↦ row handle
  pTable : AList Nat
  nick : AList Nat
  seen : AList Nat
  rows : List RowData
  out : List OutRow
  deriving Inhabited

structure Ctx where
  obj : Option Nat
  vars : AList Val
  deriving Inhabited

abbrev R (α : Type) := Except Err (α × St)

def rowData (s : St) (h : Nat) : RowData := s.rows.getD h default

def rowId (s : St) (h : Nat) : Val := ((rowData s h).values.lookup "id").getD .undef

def setRowValue (s : St) (h : Nat) (k : String) (v : Val) : St :=
  { s with rows := s.rows.mapIdx (fun i r => if i = h then { r with values := aset r.values k v } else r) }

/-! ### ids and slots (same rules as `Core/IdMachine.lean`) -/

def freshId (s : St) (table : String) : Nat × St :=
  let n := ((aget s.lastUsed table).getD 0) + 1
  (n, { s with lastUsed := aset s.lastUsed table n })

/-- `NicknameSlot.id` -/
def slotId (s : St) (name : String) : R Nat :=
  match aget s.names name, (aget s.slots name).getD .unused with
  | none, _ => .error (.outside "slot without name binding")
  | some t, .unused =>
    let (i, s1) := freshId s t
    .ok (i, { s1 with slots := aset s1.slots name (.alloc i) })
  | some _, .alloc i => .ok (i, s)
  | some _, .consumed i => .ok (i, s)

def consume (s : St) (name table : String) : Option (Nat × St) :=
  match aget s.names name, aget s.slots name with
  | some t, some (.alloc i) =>
    if t = table then some (i, { s with slots := aset s.slots name (.consumed i) }) else none
  | _, _ => none

def generateId (s : St) (table : String) (nick : Option String) : Nat × St :=
  match nick.bind (fun n => consume s n table) with
  | some r => r
  | none =>
    match consume s table table with
    | some r => r
    | none => freshId s table

/-- what a slot value becomes when its iteration ends (`reset_slots` replaces the slot objects; the
    old objects stay wherever they were stored, with the id they held) -/
def freezeVal (s : St) : Val → Val
  | .slot n =>
    .deadSlot ((aget s.names n).getD "")
      (match aget s.slots n with
       | some (.alloc i) => some i
       | some (.consumed i) => some i
       | _ => none)
  | v => v

def freezeRows (s : St) : List RowData :=
  s.rows.map (fun r => { r with values := r.values.map (fun p => (p.1, freezeVal s p.2)) })

def resetSlots (s : St) : St :=
  { s with slots := s.names.map (fun p => (p.1, SlotSt.unused)), nick := [], seen := [],
           rows := freezeRows s }

def notFilled (s : St) : List String :=
  (s.slots.filter (fun p => match p.2 with | .alloc _ => true | _ => false)).map (·.1)

/-! ### name lookup (`simple_field_vars`: later entries override earlier ones) -/

def reservedNames : List String :=
  ["today", "now", "fake", "template", "UniqueId", "SnowfakeryVersion", "snowfakery_version",
   "snowfakery_locale", "random_number", "reference", "random_choice", "random_reference", "date",
   "datetime", "date_between", "datetime_between", "relativedelta", "if_", "choice", "debug",
   "unique_id", "unique_alpha_code", "snowfakery_filename", "NULL", "null", "true", "false", "none",
   "True", "False", "None", "range", "dict", "lipsum", "cycler", "joiner", "namespace"]

/-- attributes a `NicknameSlot` really has (anything else raises AttributeError) -/
def slotAttrs : List String := ["id", "status", "allocated_id", "consumed", "id_manager", "consume_slot"]

/-- attributes an `ObjectRow` really has besides its fields (`__getattr__` serves everything else
    from the field values, hidden `__x` fields included; dunder names are Python's) -/
def rowPrivateAttrs : List String := ["_tablename", "_values", "_child_index", "_id"]

def objectName (s : St) (n : String) : Option Val :=
  match aget s.seen n with
  | some h => some (.row h)
  | none =>
  match aget s.nick n with
  | some h => some (.row h)
  | none =>
  match aget s.pTable n with
  | some h => some (.row h)
  | none =>
  match aget s.pNick n with
  | some h => some (.row h)
  | none =>
  match aget s.slots n with
  | some _ => some (.slot n)
  | none => none

/-- `field_vars()[n]`; `none` = not in the namespace at all -/
def lookupName (s : St) (c : Ctx) (n : String) : Except Err (Option Val) :=
  if reservedNames.contains n then .error (.outside s!"reserved name {n}") else
  match aget c.vars n with
  | some v => .ok (some v)
  | none =>
  match c.obj.bind (fun h => aget (rowData s h).values n) with
  | some v => .ok (some v)
  | none =>
  match objectName s n with
  | some v => .ok (some v)
  | none =>
  match aget s.options n with
  | some v => .ok (some v)
  | none =>
    match c.obj with
    | some h =>
      if n = "id" ∨ n = "count" then .ok (some (rowId s h))
      else if n = "child_index" then .ok (some (.int (rowData s h).idx))
      else if n = "this" then .ok (some (.row h))
      else .ok none
    | none =>
      if n = "id" ∨ n = "count" ∨ n = "child_index" ∨ n = "this" then .ok (some .null) else .ok none

/-! ### formulas -/

/-- `+ - *` on evaluated operands (`op` 0/1/2) -/
def arithVals (op : Nat) (va vb : Val) (s : St) : R Val :=
  match va, vb with
  | .undef, _ => .error (.recipe "undefined in arithmetic")
  | _, .undef => .error (.recipe "undefined in arithmetic")
  | .int x, .int y =>
    .ok (.int (if op = 0 then x + y else if op = 1 then x - y else x * y), s)
  | .str x, .str y => if op = 0 then .ok (.str (x ++ y), s) else .error (.recipe "type error")
  | .int _, .str _ => if op = 2 then .error (.outside "string repeat") else .error (.recipe "type error")
  | .str _, .int _ => if op = 2 then .error (.outside "string repeat") else .error (.recipe "type error")
  | .bool _, _ => .error (.outside "bool arithmetic")
  | _, .bool _ => .error (.outside "bool arithmetic")
  | _, _ => .error (.recipe "type error")

def evalExpr (c : Ctx) : Expr → St → R Val
  | .int n, s => .ok (.int n, s)
  | .name n, s =>
    match lookupName s c n with
    | .error e => .error e
    | .ok (some v) => .ok (v, s)
    | .ok none => .ok (.undef, s)
  | .attr e f, s =>
    match evalExpr c e s with
    | .error e => .error e
    | .ok (.undef, _) => .error (.recipe "attribute of undefined")
    | .ok (.row h, s1) =>
      if rowPrivateAttrs.contains f ∨ (f.startsWith "__" ∧ f.endsWith "__") then
        .error (.outside "private attribute")
      else .ok (((rowData s1 h).values.lookup f).getD .undef, s1)
    | .ok (.slot n, s1) =>
      if f = "id" then
        match slotId s1 n with
        | .error e => .error e
        | .ok (i, s2) => .ok (.int i, s2)
      else if slotAttrs.contains f ∨ f.startsWith "_" ∨ f.startsWith "yaml" then .error (.outside "attribute of slot")
      else .ok (.undef, s1)        -- jinja: getattr and getitem both fail -> Undefined
    | .ok (.deadSlot _ i, s1) =>
      if f = "id" then
        match i with
        | some k => .ok (.int k, s1)
        | none => .error (.outside "id of a detached unused slot")
      else if slotAttrs.contains f ∨ f.startsWith "_" ∨ f.startsWith "yaml" then .error (.outside "attribute of slot")
      else .ok (.undef, s1)
    | .ok (.str _, _) => .error (.outside "attribute of string")
    | .ok (_, s1) => .ok (.undef, s1)
  | .add a b, s =>
    match evalExpr c a s with
    | .error e => .error e
    | .ok (va, s1) =>
      match evalExpr c b s1 with
      | .error e => .error e
      | .ok (vb, s2) => arithVals 0 va vb s2
  | .sub a b, s =>
    match evalExpr c a s with
    | .error e => .error e
    | .ok (va, s1) =>
      match evalExpr c b s1 with
      | .error e => .error e
      | .ok (vb, s2) => arithVals 1 va vb s2
  | .mul a b, s =>
    match evalExpr c a s with
    | .error e => .error e
    | .ok (va, s1) =>
      match evalExpr c b s1 with
      | .error e => .error e
      | .ok (vb, s2) => arithVals 2 va vb s2

def isDigit (c : Char) : Bool := '0' ≤ c ∧ c ≤ '9'

/-- `look_for_number` (v2 dialect) on the modelled fragment: floats are outside. -/
def lookForNumber (a : String) : Except Err Val :=
  let cs := a.toList
  match cs with
  | [] => .ok (.str a)
  | c0 :: rest =>
    if c0 = '0' ∧ rest.head? ≠ some '.' then .ok (.str a)
    else if cs.all (fun c => isDigit c ∨ c = '.') then
      let dots := (cs.filter (· = '.')).length
      if dots = 0 then .ok (.int (a.toNat!))
      else if dots = 1 then .error (.outside "float")
      else .ok (.str a)
    else .ok (.str a)

def intToStr (i : Int) : String := toString i

/-- `str(value)` as jinja concatenation does (v2), or `to_str` inside multi-part templates. -/
def toStr (s : St) : Val → Except Err String
  | .undef => .ok ""
  | .null => .ok "None"
  | .bool b => .ok (if b then "True" else "False")
  | .int i => .ok (intToStr i)
  | .str x => .ok x
  | .row h =>
    match rowId s h with
    | .int i => .ok (intToStr i)
    | _ => .error (.outside "row without int id")
  | .slot _ => .error (.outside "slot repr")
  | .deadSlot _ _ => .error (.outside "slot repr")

def allDigits (cs : List Char) : Bool := !cs.isEmpty ∧ cs.all isDigit

/-- `ast.literal_eval` as used by jinja's NativeEnvironment on a concatenated / string result,
    restricted to strings where its behaviour is obvious; everything risky is `outside`. -/
def nativeLiteral (raw : String) : Except Err Val :=
  let cs := raw.toList
  if allDigits cs then
    if raw = "0" ∨ cs.head? ≠ some '0' then .ok (.int raw.toNat!) else .error (.outside "leading zero literal")
  else
    match cs with
    | '-' :: rest =>
      if allDigits rest ∧ (rest = ['0'] ∨ rest.head? ≠ some '0') then .ok (.int (-(String.ofList rest).toNat!))
      else .error (.outside "literal_eval risk")
    | [] => .error (.outside "empty literal")
    | c0 :: _ =>
      if raw = "None" ∨ raw = "True" ∨ raw = "False" ∨ isDigit c0
         ∨ cs.any (fun c => "'\"[](){}#,+-*/.\\ \t\n_:".toList.contains c) then
        .error (.outside "literal_eval risk")
      else .ok (.str raw)

def litVal : Lit → Val
  | .int n => .int n
  | .str s => .str s
  | .bool b => .bool b
  | .null => .null

/-- evaluate the parts of a template to strings (left to right) -/
def renderParts (c : Ctx) : List Part → St → R (List Val)
  | [], s => .ok ([], s)
  | .text t :: ps, s =>
    match renderParts c ps s with
    | .error e => .error e
    | .ok (vs, s1) => .ok (.str t :: vs, s1)
  | .expr e :: ps, s =>
    match evalExpr c e s with
    | .error e => .error e
    | .ok (v, s1) =>
      match renderParts c ps s1 with
      | .error e => .error e
      | .ok (vs, s2) => .ok (v :: vs, s2)

def concatStrs (s : St) : List Val → Except Err String
  | [] => .ok ""
  | v :: vs =>
    match toStr s v, concatStrs s vs with
    | .ok a, .ok b => .ok (a ++ b)
    | .error e, _ => .error e
    | _, .error e => .error e

/-- `SimpleValue.render` for a string definition -/
def renderTmpl (c : Ctx) (parts : List Part) (s : St) : R Val :=
  let hasExpr := parts.any (fun p => match p with | .expr _ => true | _ => false)
  if !hasExpr then
    let text := String.join (parts.map (fun p => match p with | .text t => t | _ => ""))
    if s.v3 then .ok (.str text, s)
    else match lookForNumber text with
      | .ok v => .ok (v, s)
      | .error e => .error e
  else if s.v3 then
    match parts with
    | [.expr e] =>
      match evalExpr c e s with
      | .error e => .error e
      | .ok (.undef, _) => .error (.recipe "undefined")
      | .ok (.str raw, s1) =>
        match nativeLiteral raw with
        | .ok v => .ok (v, s1)
        | .error e => .error e
      | .ok (v, s1) => .ok (v, s1)
    | _ =>
      match renderParts c parts s with
      | .error e => .error e
      | .ok (vs, s1) =>
        if vs.any (· == .undef) then .error (.outside "undefined in concatenation (v3)") else
        match concatStrs s1 vs with
        | .error e => .error e
        | .ok raw =>
          match nativeLiteral raw with
          | .ok v => .ok (v, s1)
          | .error e => .error e
  else
    match renderParts c parts s with
    | .error e => .error e
    | .ok (vs, s1) =>
      match concatStrs s1 vs with
      | .error e => .error e
      | .ok raw =>
        match lookForNumber raw with
        | .ok v => .ok (v, s1)
        | .error e => .error e

/-- `reference: a.b.c` -/
def renderRef (c : Ctx) (path : List String) (s : St) : R Val :=
  match path with
  | [] => .error (.outside "empty reference")
  | p0 :: rest =>
    match lookupName s c p0 with
    | .error e => .error e
    | .ok v0 =>
      let rec walk (t : Val) (ps : List String) (s : St) : R Val :=
        match ps with
        | [] => .ok (t, s)
        | p :: ps' =>
          match t with
          | .row h =>
            match aget (rowData s h).values p with
            | some v => walk v ps' s
            | none => .error (.recipe "no such attribute")
          | .slot n =>
            if p = "id" then
              match slotId s n with
              | .error e => .error e
              | .ok (i, s1) => walk (.int i) ps' s1
            else if slotAttrs.contains p ∨ p.startsWith "_" ∨ p.startsWith "yaml" then .error (.outside "attribute of slot")
            else .error (.recipe "no such attribute")
          | .deadSlot _ i =>
            if p = "id" then
              match i with
              | some k => walk (.int k) ps' s
              | none => .error (.outside "id of a detached unused slot")
            else if slotAttrs.contains p ∨ p.startsWith "_" ∨ p.startsWith "yaml" then .error (.outside "attribute of slot")
            else .error (.recipe "no such attribute")
          | .undef => .error (.recipe "no such attribute")
          | .null => .error (.recipe "no such attribute")
          | _ => .error (.outside "attribute of scalar")
      match walk (v0.getD .null) rest s with
      | .error e => .error e
      | .ok (t, s1) =>
        match t with
        | .slot n =>
          match slotId s1 n with
          | .error e => .error e
          | .ok (_, s2) => .ok (.slot n, s2)
        | .row h => .ok (.row h, s1)
        | .deadSlot t i =>
          match i with
          | some _ => .ok (.deadSlot t i, s1)
          | none => .error (.outside "id of a detached unused slot")
        | .null => .error (.recipe "cannot find object")
        | .undef => .error (.recipe "cannot find object")
        | .int i => if i = 0 then .error (.recipe "cannot find object") else .error (.recipe "incorrect object type")
        | .str x => if x = "" then .error (.recipe "cannot find object") else .error (.recipe "incorrect object type")
        | .bool b => if b then .error (.recipe "incorrect object type") else .error (.recipe "cannot find object")

/-- `int(float(x))` for a count -/
def countOf (_s : St) : Val → Except Err Nat
  | .int i => .ok i.toNat
  | .bool b => .ok (if b then 1 else 0)
  | .str x =>
    if allDigits x.toList then .ok x.toNat!
    else if x.toList.all (fun c => c.isAlpha) then .error (.recipe "count is not a number")
    else .error (.outside "count string")
  | .null => .error (.recipe "count is null")
  | .undef => .error (.recipe "count undefined")
  | .row _ => .error (.recipe "count is a row")      -- `float(ObjectRow)` raises TypeError
  | .slot _ => .error (.recipe "count is a slot")
  | .deadSlot _ _ => .error (.recipe "count is a slot")

/-- output encoding of a value (`write_row` reads `.id` of rows and slots) -/
def canon (s : St) : Val → R OVal
  | .null => .ok (.null, s)
  | .bool b => .ok (.bool b, s)
  | .int i => .ok (.int i, s)
  | .str x => .ok (.str x, s)
  | .undef => .error (.outside "undefined value stored")
  | .row h =>
    match rowId s h with
    | .int i => .ok (.ref (rowData s h).table i.toNat, s)
    | _ => .error (.outside "row id")
  | .slot n =>
    match slotId s n with
    | .error e => .error e
    | .ok (i, s1) => .ok (.ref ((aget s1.names n).getD "") i, s1)
  | .deadSlot t i =>
    match i with
    | some k => .ok (.ref t k, s)
    | none => .error (.outside "id of a detached unused slot")

def canonFields : List (String × Val) → St → R (List (String × OVal))
  | [], s => .ok ([], s)
  | (k, v) :: rest, s =>
    if k.startsWith "__" then canonFields rest s else
    match canon s v with
    | .error e => .error e
    | .ok (o, s1) =>
      match canonFields rest s1 with
      | .error e => .error e
      | .ok (os, s2) => .ok ((k, o) :: os, s2)

/-! ### statements, templates, rows, fields — one mutual recursion on fuel -/

mutual
  /-- `FieldDefinition.render` -/
  def renderFd (fuel : Nat) (c : Ctx) (fd : FieldDef) (s : St) : R Val :=
    match fuel with
    | 0 => .error .fuel
    | fuel + 1 =>
      match fd with
      | .lit (.str x) =>
        if s.v3 then .ok (.str x, s)
        else match lookForNumber x with
          | .ok v => .ok (v, s)
          | .error e => .error e
      | .lit v => .ok (litVal v, s)
      | .tmpl parts => renderTmpl c parts s
      | .ref path => renderRef c path s
      | .nested t =>
        match execTemplate fuel c t s with
        | .error e => .error e
        | .ok (none, s1) => .ok (.null, s1)
        | .ok (some h, s1) => .ok (.row h, s1)

  /-- `ObjectTemplate.generate_rows`: child context snapshot of the parent's variables; returns the
      last row -/
  def execTemplate (fuel : Nat) (parent : Ctx) (t : Template) (s : St) : R (Option Nat) :=
    match fuel with
    | 0 => .error .fuel
    | fuel + 1 =>
      let c0 : Ctx := { obj := none, vars := parent.vars }
      let cnt : R Nat :=
        match t.count with
        | none => .ok (1, s)
        | some fd =>
          match renderFd fuel c0 fd s with
          | .error e => .error e
          | .ok (v, s1) =>
            match countOf s1 v with
            | .error e => .error e
            | .ok n => .ok (n, s1)
      match cnt with
      | .error e => .error e
      | .ok (n, s1) => execRows fuel c0 t 0 n none s1

  /-- rows `i .. n-1` of one execution of a template; `c.vars` persists from row to row -/
  def execRows (fuel : Nat) (c : Ctx) (t : Template) (i n : Nat) (last : Option Nat) (s : St) :
      R (Option Nat) :=
    match fuel with
    | 0 => .error .fuel
    | fuel + 1 =>
      if i ≥ n then .ok (last, s) else
      let c1 : Ctx := { c with vars := aset c.vars "child_index" (.int i) }
      match execRow fuel c1 t i s with
      | .error e => .error e
      | .ok ((h, c2), s1) => execRows fuel c2 t (i + 1) n (some h) s1

  /-- `_generate_row` -/
  def execRow (fuel : Nat) (c : Ctx) (t : Template) (i : Nat) (s : St) : R (Nat × Ctx) :=
    match fuel with
    | 0 => .error .fuel
    | fuel + 1 =>
      let (rid, s1) := generateId s t.table t.nick
      let h := s1.rows.length
      let rd : RowData := { table := t.table, idx := i, values := [("id", Val.int rid)] }
      let s2 : St := { s1 with rows := s1.rows ++ [rd] }
      -- register_object
      let s3 : St :=
        match t.nick with
        | some nk => if t.justOnce then { s2 with pNick := aset s2.pNick nk h }
                     else { s2 with nick := aset s2.nick nk h }
        | none => s2
      let s4 : St := if t.justOnce then { s3 with pTable := aset s3.pTable t.table h } else s3
      let s5 : St := { s4 with seen := aset s4.seen t.table h }
      let c1 : Ctx := { c with obj := some h }
      match execFields fuel c1 h t.fields s5 with
      | .error e => .error e
      | .ok (_, s6) =>
        let written : R Unit :=
          if t.table.startsWith "__" then .ok ((), s6) else
          match canonFields (rowData s6 h).values s6 with
          | .error e => .error e
          | .ok (fs, s7) => .ok ((), { s7 with out := s7.out ++ [{ table := t.table, fields := fs }] })
        match written with
        | .error e => .error e
        | .ok (_, s8) =>
          match execStmts fuel c1 t.friends true s8 with
          | .error e => .error e
          | .ok (c2, s9) => .ok ((h, c2), s9)

  /-- `_generate_fields`: in declaration order, each value stored before the next is evaluated -/
  def execFields (fuel : Nat) (c : Ctx) (h : Nat) (fs : List (String × FieldDef)) (s : St) : R Unit :=
    match fuel with
    | 0 => .error .fuel
    | fuel + 1 =>
      match fs with
      | [] => .ok ((), s)
      | (name, fd) :: rest =>
        match renderFd fuel c fd s with
        | .error e => .error e
        | .ok (v, s1) => execFields fuel c h rest (setRowValue s1 h name v)

  /-- `loop_over_templates_once`: a `var` is evaluated in a child context (no current object) and
      stored in the *enclosing* context; a template is skipped iff `just_once ∧ continuing` -/
  def execStmts (fuel : Nat) (c : Ctx) (sts : List Stmt) (continuing : Bool) (s : St) : R Ctx :=
    match fuel with
    | 0 => .error .fuel
    | fuel + 1 =>
      match sts with
      | [] => .ok (c, s)
      | .var name fd :: rest =>
        match renderFd fuel ({ obj := none, vars := c.vars } : Ctx) fd s with
        | .error e => .error e
        | .ok (v, s1) => execStmts fuel ({ c with vars := aset c.vars name v } : Ctx) rest continuing s1
      | .obj t :: rest =>
        if t.justOnce ∧ continuing then execStmts fuel c rest continuing s else
        match execTemplate fuel c t s with
        | .error e => .error e
        | .ok (_, s1) => execStmts fuel c rest continuing s1
end

/-! ### whole runs -/

def topNames (sts : List Stmt) : AList String :=
  let nicks := sts.foldl (fun acc st => match st with
    | .obj t => (match t.nick with | some n => aset acc n t.table | none => acc)
    | _ => acc) ([] : AList String)
  sts.foldl (fun acc st => match st with
    | .obj t => aset acc t.table t.table
    | _ => acc) nicks

def initSt (r : Recipe) : St :=
  let names := topNames r.statements
  { v3 := r.v3, names := names, options := r.options.map (fun p => (p.1, litVal p.2)),
    lastUsed := [], slots := names.map (fun p => (p.1, SlotSt.unused)),
    pNick := [], pTable := [], nick := [], seen := [], rows := [], out := [] }

/-- `reps` iterations of one run; the top-level context lives for the whole run. -/
def iterations (fuel : Nat) (r : Recipe) : Nat → Ctx → Bool → St → R Ctx
  | 0, c, _, s => .ok (c, s)
  | k + 1, c, continuing, s =>
    match execStmts fuel c r.statements continuing s with
    | .error e => .error e
    | .ok (c1, s1) =>
      match notFilled s1 with
      | _ :: _ => .error (.recipe "reference not fulfilled")
      | [] =>
        iterations fuel r k { c1 with vars := c1.vars.map (fun p => (p.1, freezeVal s1 p.2)) } true
          (resetSlots s1)

def dropRowVals (r : RowData) : RowData :=
  { r with values := r.values.filter (fun p => match p.2 with | .row _ => false | _ => true) }

/-- the rows a continuation file holds: those bound to a persistent nickname or table name -/
def isPersistent (s : St) (h : Nat) : Bool := (s.pNick ++ s.pTable).any (fun p => p.2 == h)

/-- what a continuation keeps: ids, persistent rows (their row-valued fields dropped, as
    `ObjectRow.__getstate__` does), name bindings; the output accumulates over the chain.
    Rows that are not persistent are not in the file at all; here they stay in `rows` untouched,
    where nothing can reach them any more (`nick`, `seen` and the variables are emptied and the
    persistent rows have lost their row-valued fields). -/
def saveLoad (s : St) : St :=
  { s with nick := [], seen := [], slots := s.names.map (fun p => (p.1, SlotSt.unused)),
           rows := (freezeRows s).mapIdx (fun h r => if isPersistent s h then dropRowVals r else r) }

/-- `save_continuation_yaml` fails (RepresenterError) when a persistent row holds a slot value -/
def saveFails (s : St) : Bool :=
  (s.pNick ++ s.pTable).any (fun p => (rowData s p.2).values.any (fun q =>
    match q.2 with | .slot _ => true | .deadSlot _ _ => true | _ => false))

/-- a chain of runs: `parts = [k₁, …, k_m]` iterations each, linked by continuation files
    (a continuation file is written between runs, and after the last one iff `finalSave`) -/
def chain (fuel : Nat) (r : Recipe) (finalSave : Bool) : List Nat → Bool → St → Except Err St
  | [], _, s => .ok s
  | k :: ks, continued, s =>
    match iterations fuel r k { obj := none, vars := [] } continued s with
    | .error e => .error e
    | .ok (_, s1) =>
      if (finalSave || !ks.isEmpty) && saveFails s1 then
        .error (.recipe "cannot represent a slot in the continuation file")
      else chain fuel r finalSave ks true (saveLoad s1)

structure Outcome where
  status : String            -- "ok" | "recipe_error" | "outside:<msg>" | "fuel"
  out : List OutRow

def runChain (fuel : Nat) (r : Recipe) (parts : List Nat) (finalSave : Bool := true) : Outcome :=
  match chain fuel r finalSave parts false (initSt r) with
  | .ok s => { status := "ok", out := s.out }
  | .error (.recipe _) => { status := "recipe_error", out := [] }
  | .error (.outside m) => { status := "outside:" ++ m, out := [] }
  | .error .fuel => { status := "fuel", out := [] }

end SnowModel.L2
