/-
Model of the Snowfakery-specific fake contact data (C18), import-free (Init only).

Mirrors `snowfakery/fakedata/fake_data_generator.py`:
  * `replace_unicode_strings_with_None` / `REMOVE_WEIRD_CHARS`      → `sanitise`
  * `email_templates` (3 × 5 × 4 `str.format` templates)             → `emailTemplates`, with a
    small interpreter of the `str.format` sub-language they use       → `parseFormat`, `render`
  * `FakeNames.email`                                                → `email`
  * `FakeNames.user_name` (Python slice semantics incl. negative stop) → `userName`
  * `FakeData.__init__` (the four-segment name table) / `_get_fake_data` → `buildTable`, `getFake`
  * the per-template-execution `local_vars` dictionary                → `Locals`, `step`, `runCalls`

Strings are `List Char`.  Everything random or external (Faker) is an explicit draw argument.
`lower` is Python's `str.lower()` restricted to ASCII strings (the driver refuses others).
-/
namespace SnowModel.FakeContact

abbrev Str := List Char

/-! ### characters, `str.lower()`, the canonical name -/

/-- ASCII lower-casing of one character. -/
def lowerC (c : Char) : Char :=
  if 65 ≤ c.toNat ∧ c.toNat ≤ 90 then Char.ofNat (c.toNat + 32) else c

/-- `s.lower()` (ASCII strings). -/
def lower (s : Str) : Str := s.map lowerC

/-- `s.replace("_", "")` -/
def noUnderscore (s : Str) : Str := s.filter (fun c => c != '_')

/-- `no_underscore_name(name) = name.lower().replace("_", "")` -/
def canon (s : Str) : Str := noUnderscore (lower s)

/-- `x < 128`, the domain of `REMOVE_WEIRD_CHARS` / `str.isascii()` per character. -/
def isAsciiC (c : Char) : Bool := c.toNat < 128

/-- `chr(x).isalnum()` for `x < 128`: digits and ASCII letters. -/
def isAlnumC (c : Char) : Bool :=
  (48 ≤ c.toNat && c.toNat ≤ 57) || (65 ≤ c.toNat && c.toNat ≤ 90) || (97 ≤ c.toNat && c.toNat ≤ 122)

/-- `replace_unicode_strings_with_None(val)` for a `str`: `None` when not ASCII, otherwise
    `val.translate(REMOVE_WEIRD_CHARS)` (every ASCII non-alphanumeric removed). -/
def sanitise (s : Str) : Option Str :=
  if s.all isAsciiC then some (s.filter isAlnumC) else none

/-! ### the `str.format` sub-language used by `email_templates` -/

inductive Field where
  | firstname | lastname | domain | year
  deriving DecidableEq, Repr

/-- keyword names passed to `template.format(...)` -/
def fieldOf (s : Str) : Option Field :=
  if s = "firstname".toList then some .firstname
  else if s = "lastname".toList then some .lastname
  else if s = "domain".toList then some .domain
  else if s = "year".toList then some .year
  else none

inductive Seg where
  | lit (c : Char)
  | whole (f : Field)          -- `{name}`
  | idx (f : Field) (i : Nat)  -- `{name[i]}`
  deriving DecidableEq, Repr

inductive Mode where
  | text
  | name (acc : Str)                       -- inside `{`, collecting the field name (reversed)
  | index (f : Str) (n : Nat) (any : Bool)   -- inside `[`, collecting decimal digits
  | close (f : Str) (n : Nat)              -- after `]`, a `}` must follow
  deriving Repr

def digitVal (c : Char) : Option Nat :=
  if 48 ≤ c.toNat ∧ c.toNat ≤ 57 then some (c.toNat - 48) else none

/-- Parser for replacement fields `{name}` and `{name[digits]}`; anything else that
    `str.format` rejects (or that the templates never use) is `none`. -/
def parseAux : Mode → Str → Option (List Seg)
  | .text, [] => some []
  | .text, c :: r =>
    if c = '{' then parseAux (.name []) r
    else if c = '}' then none
    else (parseAux .text r).map (fun t => Seg.lit c :: t)
  | .name _, [] => none
  | .name acc, c :: r =>
    if c = '}' then
      match fieldOf acc.reverse with
      | some f => (parseAux .text r).map (fun t => Seg.whole f :: t)
      | none => none
    else if c = '[' then parseAux (.index acc.reverse 0 false) r
    else if c = '{' then none
    else parseAux (.name (c :: acc)) r
  | .index _ _ _, [] => none
  | .index f n any, c :: r =>
    if c = ']' then (if any then parseAux (.close f n) r else none)
    else match digitVal c with
      | some d => parseAux (.index f (10 * n + d) true) r
      | none => none
  | .close _ _, [] => none
  | .close f n, c :: r =>
    if c = '}' then
      match fieldOf f with
      | some fld => (parseAux .text r).map (fun t => Seg.idx fld n :: t)
      | none => none
    else none

def parseFormat (s : Str) : Option (List Seg) := parseAux .text s

structure Fields where
  firstname : Str
  lastname : Str
  domain : Str
  year : Str
  deriving Repr

def Fields.get (fs : Fields) : Field → Str
  | .firstname => fs.firstname
  | .lastname => fs.lastname
  | .domain => fs.domain
  | .year => fs.year

/-- One replacement field; `none` = `IndexError: string index out of range`. -/
def renderSeg (fs : Fields) : Seg → Option Str
  | .lit c => some [c]
  | .whole f => some (fs.get f)
  | .idx f i => ((fs.get f)[i]?).map (fun c => [c])

def render (fs : Fields) : List Seg → Option Str
  | [] => some []
  | s :: r =>
    match renderSeg fs s, render fs r with
    | some a, some b => some (a ++ b)
    | _, _ => none

/-! ### `email_templates` -/

def firstNamePatterns : List Str :=
  ["{firstname}".toList, "{firstname[0]}".toList, "{firstname[0]}{firstname[1]}".toList]
def firstNameSeparators : List Str := [[], ['.'], ['-'], ['_'], ['+']]
def yearPatterns : List Str := ["{year}".toList, "{year[2]}{year[3]}".toList, "{year[3]}".toList, []]

/-- `f"{first_name}{first_name_separator}{{lastname}}{year}@{{domain}}"` -/
def mkTemplate (fnp sep yp : Str) : Str :=
  fnp ++ sep ++ "{lastname}".toList ++ yp ++ "@{domain}".toList

/-- `[… for first_name, first_name_separator, year in product(patterns, separators, years)]` -/
def emailTemplates : List Str :=
  firstNamePatterns.flatMap fun fnp =>
    firstNameSeparators.flatMap fun sep =>
      yearPatterns.map fun yp => mkTemplate fnp sep yp

/-- The same 60 templates, already parsed (proved equal: `Props.C18.templates_parse`). -/
def fnSegs : List (List Seg) :=
  [[.whole .firstname], [.idx .firstname 0], [.idx .firstname 0, .idx .firstname 1]]
def yearSegs : List (List Seg) :=
  [[.whole .year], [.idx .year 2, .idx .year 3], [.idx .year 3], []]
def mkSegs (fn : List Seg) (sep : Str) (yr : List Seg) : List Seg :=
  fn ++ sep.map Seg.lit ++ [.whole .lastname] ++ yr ++ [.lit '@', .whole .domain]
def segTemplates : List (List Seg) :=
  fnSegs.flatMap fun fn => firstNameSeparators.flatMap fun sep => yearSegs.map fun yr => mkSegs fn sep yr

/-! ### `str(int)` for the birth year, `ljust` -/

def digitChar (d : Nat) : Char := Char.ofNat (48 + d % 10)

def digitsAux : Nat → Nat → Str → Str
  | 0, _, acc => acc
  | fuel + 1, n, acc =>
    if n < 10 then digitChar n :: acc else digitsAux fuel (n / 10) (digitChar (n % 10) :: acc)

/-- `str(n)` for a natural number. -/
def pyStrNat (n : Nat) : Str := digitsAux (n + 1) n []

/-- `s.ljust(2, "_")` -/
def ljust2 (s : Str) : Str := s ++ List.replicate (2 - s.length) '_'

/-! ### `FakeNames.email` -/

/-- Python truthiness of an `already_created` entry (`None` and `""` are falsy). -/
def truthy : Option Str → Bool
  | some (_ :: _) => true
  | _ => false

structure EmailDraws where
  tmpl : Nat        -- index chosen by `random.choice(email_templates)`
  domain : Str      -- `self.f.safe_domain_name()`
  year : Nat        -- `random.randint(this_year - 80, this_year - 10)`
  fallback : Str    -- `self.f.ascii_safe_email()`
  deriving Repr

inductive EmailOut where
  | built (s : Str)      -- composed from the row's names
  | fallback (s : Str)   -- Faker's `ascii_safe_email()`
  | formatError          -- `IndexError`/`KeyError`/`ValueError` out of `str.format`
  deriving Repr, DecidableEq

/-- `template.format(firstname=f.ljust(2,"_"), lastname=l, domain=…, year=str(…))` -/
def emailBuilt (f l : Str) (d : EmailDraws) : Option Str :=
  match emailTemplates[d.tmpl]? with
  | none => none
  | some t =>
    match parseFormat t with
    | none => none
    | some segs =>
      render { firstname := ljust2 f, lastname := l, domain := d.domain, year := pyStrNat d.year } segs

/-- `fn`, `ln` are the two entries of `_already_have(("firstname","lastname"))`. -/
def email (fn ln : Option Str) (matching : Bool) (d : EmailDraws) : EmailOut :=
  if matching && truthy fn && truthy ln then
    match emailBuilt (fn.getD []) (ln.getD []) d with
    | some s => .built s
    | none => .formatError
  else .fallback d.fallback

/-! ### `FakeNames.user_name` -/

/-- `s[0:k]` with Python's treatment of a negative stop. -/
def pySlice0 (s : Str) (k : Int) : Str :=
  if 0 ≤ k then s.take k.toNat else s.take (s.length - k.natAbs)

structure UserDraws where
  host : Str    -- `self.f.hostname()`
  first : Str   -- `self.f.first_name()` (only drawn when not matching)
  last : Str    -- `self.f.last_name()`
  uuid : Str    -- `self.f.uuid4()`
  deriving Repr

/-- the un-truncated name part -/
def namepart (fn ln : Option Str) (matching : Bool) (d : UserDraws) : Str :=
  if matching && truthy fn && truthy ln then
    fn.getD [] ++ ['.'] ++ ln.getD [] ++ ['_'] ++ d.uuid
  else
    d.first ++ ['_'] ++ d.last ++ ['_'] ++ d.uuid

/-- `namepart_max_len = 80 - (len(domain) + 1)` -/
def namepartMaxLen (domainLen : Nat) : Int := 80 - ((domainLen : Int) + 1)

def userName (fn ln : Option Str) (matching : Bool) (d : UserDraws) : Str :=
  pySlice0 (namepart fn ln matching d) (namepartMaxLen d.host.length) ++ ['@'] ++ d.host

/-! ### the name table of `FakeData` and `_get_fake_data` -/

/-- What a table entry denotes.  Snowfakery's own `email` / `user_name` are modelled; every other
    callable is opaque and identified by a tag (defining name, or an id chosen by the harness). -/
inductive Prov where
  | email
  | userName
  | other (tag : Str)
  deriving DecidableEq, Repr

inductive TVal where
  | impl (p : Prov)
  | notImpl            -- the class attribute is `NotImplemented`
  deriving DecidableEq, Repr

/-- `dir(obj)` with what each attribute is. -/
abbrev DirList := List (Str × TVal)

/-- `not name.startswith("_") and name not in ignore_list` -/
def visible (ignore : List Str) (e : Str × TVal) : Bool :=
  !(e.1.head? == some '_') && !(ignore.contains e.1)

/-- `{canonicalizer(name): getattr(obj, name) for name in dir(obj) if …}` as an association list
    (a later pair overrides an earlier one, as in a `dict`). -/
def objToFuncList (canonicalizer : Str → Str) (d : DirList) (ignore : List Str) : List (Str × TVal) :=
  (d.filter (visible ignore)).map fun e => (canonicalizer e.1, e.2)

/-- `self.fake_names = {**faker/lower, **faker/no_underscore, **snowfakery/lower, **snowfakery/no_underscore}` -/
def buildTable (fk : DirList) (ignore : List Str) (sn : DirList) : List (Str × TVal) :=
  objToFuncList lower fk ignore ++ objToFuncList canon fk ignore ++
  objToFuncList lower sn [] ++ objToFuncList canon sn []

/-- `dict.get`: the last pair with that key wins. -/
def dictGet : List (Str × TVal) → Str → Option TVal
  | [], _ => none
  | (k', v) :: r, k =>
    match dictGet r k with
    | some w => some w
    | none => if k' = k then some v else none

inductive Lookup where
  | found (p : Prov)
  | noSuchName          -- `AttributeError("No fake data type named …")`
  deriving DecidableEq, Repr

/-- What a `dict.get(key, NotImplemented)` result means for the lookup: `NotImplemented`
    (explicit or by default) is "nothing found". -/
def implOf : Option TVal → Option Prov
  | some (.impl p) => some p
  | _ => none

/-- `name = origname.lower(); meth = self.fake_names.get(name, NotImplemented)`, and — since fix
    6b5b124 — `if meth == NotImplemented: meth = self.fake_names.get(name.replace("_", ""), NotImplemented)`:
    the spelling as written first, then its canonical (no-underscore) form. -/
def getFake (t : List (Str × TVal)) (orig : Str) : Lookup :=
  match implOf (dictGet t (lower orig)) with
  | some p => .found p
  | none =>
    match implOf (dictGet t (noUnderscore (lower orig))) with
    | some p => .found p
    | none => .noSuchName

/-- `dir(FakeNames(...))` without the names starting with `_` (bridged to the class body by
    `Props.C18Bridge.snow_attrs`). `count`/`index` come from `tuple`, `f`/`faker_context` are the
    NamedTuple fields. -/
def snowDir : DirList :=
  [ ("alias".toList, .impl (.other "alias".toList)),
    ("count".toList, .impl (.other "tuple.count".toList)),
    ("date_time".toList, .impl (.other "date_time_between".toList)),
    ("date_time_ad".toList, .notImpl),
    ("date_time_between".toList, .impl (.other "date_time_between".toList)),
    ("date_time_between_dates".toList, .impl (.other "date_time_between".toList)),
    ("date_time_this_century".toList, .notImpl),
    ("date_time_this_decade".toList, .notImpl),
    ("date_time_this_month".toList, .notImpl),
    ("date_time_this_year".toList, .notImpl),
    ("datetime".toList, .impl (.other "date_time_between".toList)),
    ("email".toList, .impl .email),
    ("f".toList, .impl (.other "field:f".toList)),
    ("faker_context".toList, .impl (.other "field:faker_context".toList)),
    ("future_datetime".toList, .impl (.other "future_datetime".toList)),
    ("index".toList, .impl (.other "tuple.index".toList)),
    ("iso8601".toList, .impl (.other "iso8601".toList)),
    ("postalcode".toList, .impl (.other "postalcode".toList)),
    ("realistic_maybe_real_email".toList, .impl (.other "realistic_maybe_real_email".toList)),
    ("state".toList, .impl (.other "state".toList)),
    ("user_name".toList, .impl .userName) ]

/-! ### calls within one template execution (the shared `local_vars` dictionary) -/

/-- A remembered value: a string, or something else (date, number, …). -/
inductive LVal where
  | str (s : Str)
  | nonStr
  deriving DecidableEq, Repr

/-- `local_vars` of the Faker plugin context: newest binding first. -/
abbrev Locals := List (Str × LVal)

def Locals.get (loc : Locals) (k : Str) : Option LVal :=
  (loc.find? (fun e => e.1 = k)).map (fun e => e.2)

/-- One entry of `_already_have`: `some (some s)` a sanitised string (or `None` for non-ASCII /
    missing), and `none` when the remembered value is not a string (outside the model). -/
def alreadyHave (loc : Locals) (k : Str) : Option (Option Str) :=
  match loc.get k with
  | none => some none
  | some (.str s) => some (sanitise s)
  | some .nonStr => none

structure Draws where
  tmpl : Nat
  domain : Str
  year : Nat
  fallback : Str
  host : Str
  first : Str
  last : Str
  uuid : Str
  other : LVal        -- what an opaque provider returned
  deriving Repr

def Draws.email (d : Draws) : EmailDraws :=
  { tmpl := d.tmpl, domain := d.domain, year := d.year, fallback := d.fallback }
def Draws.user (d : Draws) : UserDraws :=
  { host := d.host, first := d.first, last := d.last, uuid := d.uuid }

structure Call where
  spelling : Str
  matching : Bool
  d : Draws
  deriving Repr

inductive Res where
  | value (v : LVal)
  | noSuchName
  | formatError
  | outsideModel
  deriving DecidableEq, Repr

def Res.isError : Res → Bool
  | .value _ => false
  | _ => true

def firstnameKey : Str := "firstname".toList
def lastnameKey : Str := "lastname".toList

/-- `FakeData._get_fake_data(origname, …)`: look the name up, call it, remember the result under
    `name.replace("_", "")`. -/
def step (t : List (Str × TVal)) (loc : Locals) (c : Call) : Locals × Res :=
  match getFake t c.spelling with
  | .noSuchName => (loc, .noSuchName)
  | .found p =>
    let key := noUnderscore (lower c.spelling)
    match p with
    | .other _ => ((key, c.d.other) :: loc, .value c.d.other)
    | .email =>
      match alreadyHave loc firstnameKey, alreadyHave loc lastnameKey with
      | some fn, some ln =>
        match email fn ln c.matching c.d.email with
        | .built s => ((key, .str s) :: loc, .value (.str s))
        | .fallback s => ((key, .str s) :: loc, .value (.str s))
        | .formatError => (loc, .formatError)
      | _, _ => (loc, .outsideModel)
    | .userName =>
      match alreadyHave loc firstnameKey, alreadyHave loc lastnameKey with
      | some fn, some ln =>
        let s := userName fn ln c.matching c.d.user
        ((key, .str s) :: loc, .value (.str s))
      | _, _ => (loc, .outsideModel)

/-- All calls of one template execution, in order; an error aborts the run. -/
def runCalls (t : List (Str × TVal)) : Locals → List Call → List Res
  | _, [] => []
  | loc, c :: cs =>
    let (loc', r) := step t loc c
    if r.isError then [r] else r :: runCalls t loc' cs

/-! ### the reserved domains (RFC 2606) and the domain of an address -/

def reservedDomains : List Str := ["example.org".toList, "example.com".toList, "example.net".toList]

/-- what follows the last `@` (`addr.rsplit("@", 1)[1]`) -/
def addrDomain (s : Str) : Str := (s.reverse.takeWhile (fun c => c != '@')).reverse

def ReservedAddr (s : Str) : Prop := '@' ∈ s ∧ addrDomain s ∈ reservedDomains

end SnowModel.FakeContact

/-! ### vocabulary of the specifications (used by the theorems of `Props/C18.lean`) -/
namespace SnowModel.FakeContact

/-- every character is an ASCII letter or digit -/
def AllAlnum (s : Str) : Prop := ∀ c ∈ s, isAlnumC c = true

/-- an `already_created` entry after the sanitiser -/
def SanitisedOpt (o : Option Str) : Prop := ∀ r, o = some r → AllAlnum r

/-- the part of the address that comes from the (padded) first name `F` -/
def FnPart (F p : Str) : Prop := p = F ∨ p = F.take 1 ∨ p = F.take 2

/-- the part of the address that comes from the year string `Y` -/
def YearPart (Y p : Str) : Prop := p = Y ∨ p = (Y.drop 2).take 2 ∨ p = (Y.drop 3).take 1 ∨ p = []

/-- the attributes that take part in the table -/
def entries (fk : DirList) (ignore : List Str) (sn : DirList) : List (Str × TVal) :=
  fk.filter (visible ignore) ++ sn.filter (visible [])

/-- names with the same canonical form denote the same thing -/
def Consistent (es : List (Str × TVal)) : Prop :=
  ∀ e ∈ es, ∀ e' ∈ es, canon e.1 = canon e'.1 → e.2 = e'.2

/-- `s` is `n` in any mixture of upper and lower case, with all or none of its underscores -/
def Spelling (s n : Str) : Prop := lower s = lower n ∨ lower s = canon n

/-- `s` is `n` up to case and up to underscores anywhere (any subset dropped, any added) -/
def AnySpelling (s n : Str) : Prop := canon s = canon n

def resolve : TVal → Lookup
  | .impl p => .found p
  | .notImpl => .noSuchName

end SnowModel.FakeContact
