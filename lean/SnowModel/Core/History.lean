/-
Model of `snowfakery/row_history.py` (`RowHistory`, `RandomReferenceContext`), of
`Interpreter.get_contextual_state` (the per-parent state rule used by `parent:`) and of
`find_tables_to_keep_history_for`.  Mathlib-free (linked into the driver).

Every operation mirrors one call of the Python code; the harness (`harness/c10.py`) wraps those
calls in real runs, logs one op per call with what it observed, and replays the log on `step`.
Random draws are explicit arguments: `pick … draw` for `randint(min_id, max_id)`, the generator
oracle `mk` of `SnowModel.RandRange` for `unique: true`.

What the code *does* is modelled, including its quirks:
* `save_row` stores `table_counters[tablename] = max(row_id, table_counters.get(tablename) or 0)`
  (since fix 9826fcb: the counter never moves backwards); nickname ordinals live only in
  `nickname_counters` (since fix 07a822a: no longer also in `table_counters[nickname]`);
* `reset_locals` snapshots both dicts (`local_counters`, `local_nickname_counters`);
* `RowHistory.__init__` calls `reset_locals`; `resave_objects_from_continuation` re-saves the
  just_once rows of a continuation and then calls `reset_locals` again (fix 9826fcb), so the
  re-saved rows are earlier-iteration rows: one operation `Op.resave`.
Ghost fields (`since`, `resaved`, `epoch`, `prior`) are never read by the operations; they only
let the theorems speak about iterations and about rows created by earlier runs.
-/
import SnowModel.Core.RandRange

namespace SnowModel.History

abbrev Name := String

/-- The `scope` argument of `random_row_reference`. -/
inductive Scope where
  | current      -- "current-iteration"
  | prior        -- "prior-and-current-iterations"
  | other        -- any other string: `DataGenError`
  deriving Repr, DecidableEq

/-- One row of a history table (`id, nickname, nickname_id`; the pickled data is irrelevant). -/
structure SRow where
  table : Name
  id : Nat
  nick : Option Name
  ord : Option Nat
  /-- ghost: value of `St.epoch` when the row was saved -/
  since : Nat
  /-- ghost: saved by `resave_objects_from_continuation` (a just_once row of an earlier run) -/
  resaved : Bool
  deriving Repr, DecidableEq

structure St where
  /-- tables created by `_make_history_table` -/
  tables : List Name
  /-- `nickname_to_tablename` (entries with nickname = table removed) -/
  nickToTable : List (Name × Name)
  /-- `table_counters.get(k, 0)`; keys are table names only (fix 07a822a) -/
  tableCtr : Name → Nat
  /-- `nickname_counters[k]` (a `defaultdict(int)`) -/
  nickCtr : Name → Nat
  /-- `local_counters.get(k, 0)` -/
  localCtr : Name → Nat
  /-- `local_nickname_counters.get(k, 0)` -/
  localNick : Name → Nat
  /-- rows inserted so far, oldest first -/
  rows : List SRow
  /-- ghost: number of `reset_locals` calls so far (`__init__` performs the first) -/
  epoch : Nat
  /-- ghost: `orig_used_ids` handed to `__init__`: ids `1..prior T` exist from earlier runs -/
  prior : Name → Nat

def upd (f : Name → Nat) (k : Name) (v : Nat) : Name → Nat := fun x => if x = k then v else f x

def ctrOf (l : List (Name × Nat)) : Name → Nat := fun n => (l.lookup n).getD 0

/-- `RowHistory.__init__(table_counters, tables_to_keep_history_for, tablename_for_nickname)` -/
def init (counters : List (Name × Nat)) (tables : List Name) (nickmap : List (Name × Name)) : St :=
  { tables := tables
    nickToTable := nickmap.filter (fun p => decide (p.2 ≠ p.1))
    tableCtr := ctrOf counters
    nickCtr := fun _ => 0
    localCtr := ctrOf counters
    localNick := fun _ => 0
    rows := []
    epoch := 1
    prior := ctrOf counters }

inductive Err where
  | noRows      -- DataGenError "There is no table or nickname … at this point in the recipe"
  | notFound    -- AssertionError in `find_row_id_for_nickname_id`
  | badScope    -- DataGenError "Scope must be …"
  | integrity   -- sqlite3.IntegrityError: id already present in the history table
  | noTable     -- sqlite3.OperationalError: no such (history) table
  deriving Repr, DecidableEq

/-- `self.table_counters[tablename] = max(row_id, self.table_counters.get(tablename) or 0)` -/
def saveTableCtr (rowId cur : Nat) : Nat := max rowId cur

/-- `save_row(tablename, nickname, row)`; `resave` is ghost. On an sqlite error the run is over
    (the model returns the error; Python has already updated the counters by then). -/
def save (s : St) (table : Name) (nick : Option Name) (id : Nat) (resave : Bool) : Except Err St :=
  if table ∉ s.tables then .error .noTable
  else if s.rows.any (fun r => decide (r.table = table ∧ r.id = id)) then .error .integrity
  else
    let tc1 := upd s.tableCtr table (saveTableCtr id (s.tableCtr table))
    match nick with
    | some n =>
      let k := s.nickCtr n + 1
      .ok { s with tableCtr := tc1, nickCtr := upd s.nickCtr n k,
                   rows := s.rows ++ [{ table := table, id := id, nick := some n, ord := some k,
                                        since := s.epoch, resaved := resave }] }
    | none =>
      .ok { s with tableCtr := tc1,
                   rows := s.rows ++ [{ table := table, id := id, nick := none, ord := none,
                                        since := s.epoch, resaved := resave }] }

/-- `reset_locals()` -/
def resetLocals (s : St) : St :=
  { s with localCtr := s.tableCtr, localNick := s.nickCtr, epoch := s.epoch + 1 }

/-- What `random_row_reference` hands to `randomizer_func`, and how the result is interpreted. -/
structure PickRange where
  nick : Option Name
  table : Name
  lo : Nat
  hi : Nat
  deriving Repr, DecidableEq

/-- `min_id` of the `current-iteration` branches: `local_counters.get(key, 0) + 1` -/
def minIdLocal (loc : Nat) : Nat := loc + 1

/-- `if max_id < min_id: min_id = 1` -/
def fallback (minId maxId : Nat) : Nat := if maxId < minId then 1 else minId

def pickRange (s : St) (name : Name) (scope : Scope) : Except Err PickRange :=
  if scope = .other then .error .badScope
  else
    let (nick, table, maxId) :=
      match s.nickToTable.lookup name with
      | some t => (some name, t, s.nickCtr name)
      | none => ((none : Option Name), name, s.tableCtr name)
    if maxId = 0 then .error .noRows
    else
      let minId :=
        if scope = .prior then 1
        else match nick with
          | some n => minIdLocal (s.localNick n)
          | none => minIdLocal (s.localCtr table)
      .ok { nick := nick, table := table, lo := fallback minId maxId, hi := maxId }

/-- `find_row_id_for_nickname_id` -/
def findRow (s : St) (table nick : Name) (ord : Nat) : Option Nat :=
  (s.rows.find? (fun r => decide (r.table = table ∧ r.nick = some nick ∧ r.ord = some ord))).map (·.id)

def resolve (s : St) (pr : PickRange) (draw : Nat) : Except Err (Name × Nat) :=
  match pr.nick with
  | some n =>
    match findRow s pr.table n draw with
    | some id => .ok (pr.table, id)
    | none => .error .notFound
  | none => .ok (pr.table, draw)

/-- `random_row_reference(name, scope, randomizer_func)` with `randomizer_func(lo, hi) = draw`. -/
def pick (s : St) (name : Name) (scope : Scope) (draw : Nat) : Except Err (Name × Nat) :=
  match pickRange s name scope with
  | .error e => .error e
  | .ok pr => resolve s pr draw

/-- `resave_objects_from_continuation`: `save_row` for each just_once row of the continuation
    (in order), the first sqlite error ends it. -/
def saveAll : St → List (Name × Option Name × Nat) → Except Err St
  | s, [] => .ok s
  | s, (t, n, i) :: rest =>
    match save s t n i true with
    | .ok s' => saveAll s' rest
    | .error e => .error e

/-- Which rows `resave_objects_from_continuation` re-saves (since fix 5da9efa the de-duplication is
    by `(table, id)`, not by bare id): `pn` = `persistent_nicknames.items()` as
    `(nickname, (obj._tablename, obj._id))`, `pt` = `persistent_objects_by_table.items()` as
    `(tablename, obj._id)`, `hist` = `tables_to_keep_history_for`.  First the rows known by a
    nickname, then those known by their table name whose `(tablename, id)` is not among the former,
    both filtered to history-backed tables. -/
def resaveRows (pn : List (Name × Name × Nat)) (pt : List (Name × Nat)) (hist : List Name) :
    List (Name × Option Name × Nat) :=
  let nicked : List (Name × Option Name × Nat) := pn.map (fun x => (x.2.1, some x.1, x.2.2))
  let already : List (Name × Nat) := pn.map (fun x => (x.2.1, x.2.2))
  let byTable : List (Name × Option Name × Nat) :=
    (pt.filter (fun x => decide (x ∉ already))).map (fun x => (x.1, none, x.2))
  (nicked ++ byTable).filter (fun x => decide (x.1 ∈ hist))

inductive Op where
  /-- `save_row` called from `remember_row` (a row of the running iteration) -/
  | save (table : Name) (nick : Option Name) (id : Nat)
  | pick (name : Name) (scope : Scope) (draw : Nat)
  | reset
  /-- `resave_objects_from_continuation`: the re-saves, then `reset_locals()` -/
  | resave (rows : List (Name × Option Name × Nat))
  deriving Repr, DecidableEq

inductive Obs where
  | ok
  | picked (table : Name) (id : Nat)
  deriving Repr, DecidableEq

def step (s : St) : Op → Except Err (St × Obs)
  | .save t n i =>
    match save s t n i false with
    | .ok s' => .ok (s', .ok)
    | .error e => .error e
  | .resave rows =>
    match saveAll s rows with
    | .ok s' => .ok (resetLocals s', .ok)
    | .error e => .error e
  | .pick name scope draw =>
    match pick s name scope draw with
    | .ok (t, i) => .ok (s, .picked t i)
    | .error e => .error e
  | .reset => .ok (resetLocals s, .ok)

/-- Run an op list; the first error ends the run (as it does in Python). -/
def run : St → List Op → Except Err St
  | s, [] => .ok s
  | s, op :: ops =>
    match step s op with
    | .ok (s', _) => run s' ops
    | .error e => .error e

/-! ### `unique: true` — `RandomReferenceContext.unique_random` -/

open SnowModel.RandRange in
/-- `unique_random(a, b)`: `b += 1`; create the `UpdatableRandomRange` on first use, otherwise
    `set_new_range(a, b)`; then `next`.  `none` = `self.rng is None`. -/
def uniqueDraw (mk : Mk) (u : Option RandRange.St) (a b : Int) : Option RandRange.St × Out :=
  match u with
  | none =>
    match create mk a (b + 1) with
    | some s => let r := RandRange.step mk s .next; (some r.1, r.2)
    | none => (none, .assertion)
  | some s =>
    let r1 := RandRange.step mk s (.setRange a (b + 1))
    if r1.2 = .ok then
      let r2 := RandRange.step mk r1.1 .next
      (some r2.1, r2.2)
    else (some r1.1, .assertion)

open SnowModel.RandRange in
/-- A sequence of `unique_random(a, b)` calls on one context. -/
def uniqueRun (mk : Mk) : Option RandRange.St → List (Int × Int) → Option RandRange.St × List Out
  | u, [] => (u, [])
  | u, (a, b) :: reqs =>
    let r := uniqueDraw mk u a b
    let rs := uniqueRun mk r.1 reqs
    (rs.1, r.2 :: rs.2)

/-- Outcome of `RandomReferenceContext.next()` with `unique: true`. -/
inductive UObs where
  | picked (table : Name) (id : Nat)
  | exhausted          -- StopIteration → DataGenError "Cannot find an unused …"
  | assertion          -- an `assert` of UpdatableRandomRange failed
  | err (e : Err)
  deriving Repr, DecidableEq

open SnowModel.RandRange in
/-- `random_row_reference(name, scope, self.unique_random)` -/
def uniquePick (mk : Mk) (s : St) (u : Option RandRange.St) (name : Name) (scope : Scope) :
    Option RandRange.St × UObs :=
  match pickRange s name scope with
  | .error e => (u, .err e)
  | .ok pr =>
    let r := uniqueDraw mk u pr.lo pr.hi
    match r.2 with
    | .value v =>
      match resolve s pr v.toNat with
      | .ok (t, i) => (r.1, .picked t i)
      | .error e => (r.1, .err e)
    | .stop => (r.1, .exhausted)
    | _ => (r.1, .assertion)

/-! ### `Interpreter.get_contextual_state` — the `(parent_obj, value)` rule -/

/-- `instance_states[key]`: `none` = no entry; `some (p, v)` = `[parent_obj, value]`.
    Returns the new entry, the state to use, and whether `make_state_func` was called. -/
def getState {P σ : Type} [DecidableEq P] (c : Option (Option P × σ)) (parent : Option P) (fresh : σ) :
    Option (Option P × σ) × σ × Bool :=
  match c with
  | some (p, v) => if p ≠ parent then (some (parent, fresh), fresh, true) else (some (p, v), v, false)
  | none => (some (parent, fresh), fresh, true)

/-- Sequence of `get_contextual_state` calls for one key; output: was the state re-created? -/
def ctxRun {P : Type} [DecidableEq P] : Option (Option P × Unit) → List (Option P) → List Bool
  | _, [] => []
  | c, p :: ps => let r := getState c p (); r.2.2 :: ctxRun r.1 ps

open SnowModel.RandRange in
/-- `random_reference(to, parent=…, unique=True)` evaluated repeatedly at one call site: the
    `RandomReferenceContext` (whose `rng` starts as `None`) is re-created when the parent row
    differs from the one stored with the state. -/
def uniqueRunP {P : Type} [DecidableEq P] (mk : Mk) :
    Option (Option P × Option RandRange.St) → List (Option P × Int × Int) → List Out
  | _, [] => []
  | c, (p, a, b) :: reqs =>
    let g := getState c p none
    let r := uniqueDraw mk g.2.1 a b
    r.2 :: uniqueRunP mk (some (p, r.1)) reqs

/-! ### `find_tables_to_keep_history_for` -/

/-- `set(nicknames_and_tables.get(name, name) for name in referenced_names)` (as a list). -/
def historyTables (names : List (Name × Name)) (refs : List Name) : List Name :=
  (refs.map (fun n => (names.lookup n).getD n)).eraseDups

/-- `remember_row`: `tablename in history_tables or nickname in history_tables` -/
def shouldSave (hist : List Name) (table : Name) (nick : Option Name) : Bool :=
  decide (table ∈ hist) || (match nick with | some n => decide (n ∈ hist) | none => false)

end SnowModel.History
