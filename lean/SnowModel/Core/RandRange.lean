/-
Model of `snowfakery/utils/randomized_range.py` (import-free: Init only).

`randomRange` mirrors the generator function `random_range(start, stop)`:
the two `random.randint(0, maximum)` draws are explicit arguments `d1 d2`.
`URR` mirrors class `UpdatableRandomRange` as a state machine whose generator is the
*remaining output list* of the current `random_range` generator.
-/
namespace SnowModel.RandRange

/-- Python `int.bit_length` for a natural number. -/
def bitLength (n : Nat) : Nat := if n = 0 then 0 else Nat.log2 n + 1

/-- `multiplier = 4 * (maximum // 4) + 1` -/
def multiplier (maximum : Nat) : Nat := 4 * (maximum / 4) + 1

/-- `modulus = 1 << (maximum - 1).bit_length()` (for `maximum ≥ 1`) -/
def modulus (maximum : Nat) : Nat := 2 ^ bitLength (maximum - 1)

/-- `offset = randint(0, maximum) * 2 + 1` with the draw `d2`. -/
def offset (d2 : Nat) : Nat := d2 * 2 + 1

/-- `value = (value * multiplier + offset) % modulus` -/
def nextValue (maximum d2 value : Nat) : Nat :=
  (value * multiplier maximum + offset d2) % modulus maximum

/-- The `while found < maximum` loop; one unit of fuel per loop iteration. -/
def loop (maximum d2 : Nat) : (fuel : Nat) → (found value : Nat) → List Nat
  | 0, _, _ => []
  | fuel + 1, found, value =>
    if found < maximum then
      if value < maximum then
        value :: loop maximum d2 fuel (found + 1) (nextValue maximum d2 value)
      else
        loop maximum d2 fuel found (nextValue maximum d2 value)
    else []

/-- Enough iterations for the loop to finish by itself (proved: `Props.C12.fuel_sufficient`). -/
def fuelFor (maximum : Nat) : Nat := 2 * modulus maximum + 2

/-- Indices (before `mapping`) produced by the generator for a range of `maximum` numbers. -/
def indices (maximum d1 d2 : Nat) : List Nat :=
  loop maximum d2 (fuelFor maximum) 0 d1

/-- `list(random_range(start, stop))` with the draws `d1`, `d2`
    (`mapping(i) = i * 1 + start`).  For `stop ≤ start` the generator yields nothing
    (`maximum ≤ 0`, the loop condition is false at once). -/
def randomRange (start stop : Int) (d1 d2 : Nat) : List Int :=
  (indices (stop - start).toNat d1 d2).map (fun (i : Nat) => (i : Int) + start)

/-! ### UpdatableRandomRange -/

/-- Outcome of one operation. -/
inductive Out where
  | value (v : Int)     -- `next` returned `v`
  | stop                -- `next` raised `StopIteration`
  | ok                  -- `set_new_range` returned
  | assertion           -- an `assert` failed (state unchanged by the model afterwards)
  deriving Repr, DecidableEq, BEq

inductive Op where
  | next
  | setRange (a b : Int)
  deriving Repr, DecidableEq

/-- State of an `UpdatableRandomRange`.  `gen` is what the current generator will still
    yield.  `mk a b` builds a fresh generator's full output for `[a, b)`; in the
    implementation it is `random_range(a, b)` with two fresh draws, in the theorems it is
    any function producing a permutation of `[a, b)`. -/
structure URR where
  min : Int
  origMax : Int
  curMax : Int
  gen : List Int
  deriving Repr

/-- Oracle producing the full output of the `n`-th generator created (`n` counts generators). -/
abbrev Mk := Nat → Int → Int → List Int

structure St where
  u : URR
  made : Nat          -- generators created so far (index into the oracle)
  deriving Repr

def create (mk : Mk) (a b : Int) : Option St :=
  if b > a then some { u := { min := a, origMax := b, curMax := b, gen := mk 0 a b }, made := 1 }
  else none

def step (mk : Mk) (s : St) : Op → St × Out
  | .setRange a b =>
    if a = s.u.min then
      -- set_new_max
      if b ≥ s.u.curMax then ({ s with u := { s.u with curMax := b } }, .ok)
      else (s, .assertion)
    else if a ≥ s.u.origMax then
      if b > a then
        ({ u := { min := a, origMax := b, curMax := b, gen := mk s.made a b }, made := s.made + 1 }, .ok)
      else (s, .assertion)
    else (s, .assertion)
  | .next =>
    match s.u.gen with
    | v :: rest => ({ s with u := { s.u with gen := rest } }, .value v)
    | [] =>
      if s.u.curMax ≤ s.u.origMax then (s, .stop)
      else
        match mk s.made s.u.origMax s.u.curMax with
        | v :: rest =>
          ({ u := { s.u with origMax := s.u.curMax, gen := rest }, made := s.made + 1 }, .value v)
        | [] =>
          -- unreachable for a correct generator (non-empty range); Python would raise StopIteration
          ({ u := { s.u with origMax := s.u.curMax, gen := [] }, made := s.made + 1 }, .stop)

/-- Run a list of operations, collecting outputs. -/
def run (mk : Mk) : St → List Op → St × List Out
  | s, [] => (s, [])
  | s, op :: ops =>
    let (s', o) := step mk s op
    let (s'', os) := run mk s' ops
    (s'', o :: os)

/-- Values returned by `next` in an output list. -/
def values : List Out → List Int
  | [] => []
  | .value v :: os => v :: values os
  | _ :: os => values os

end SnowModel.RandRange
