/-
Executable model of Snowfakery's unique-id machinery (C13):
  snowfakery/standard_plugins/UniqueId.py   (UniqueNumericIdGenerator, AlphaUniquifier, UniqueId.Functions)
  snowfakery/utils/scrambled_numbers.py     (scramble_number, unscramble_number)
plus the part of `baseconv.BaseConverter.encode` that the plugin uses.

The model mirrors what the Python does, including its quirks:
* a generator template is split on ",", each piece stripped and lower-cased, and resolved to a
  string of octal digits; the pieces are joined with "9" and the result goes through `int()`;
* a template without `index` is constant, a template without `context` does not depend on the
  process-wide generator counter (D11);
* `scramble_number` asserts `minbits >= 10` and `numbits < SHIFT2`;
* `AlphaUniquifier` creates its own numeric generator (start 1001, not randomised) and
  therefore consumes one value of the process-wide counter too.

Two things are *oracles* (explicit function arguments, theorems quantify over all of them):
  `lg   : Nat → Nat`        what `int(math.log(n, 2))` returns (float arithmetic, not modelled)
  `mask : Nat → Nat → Nat`  what `Random(key).getrandbits(numbits)` returns
No Mathlib import here (linked into the driver).
-/
namespace SnowModel.Uid

/-! ### digits -/

/-- little-endian base-`b` digits of `n` with explicit fuel (structural recursion, so that the
    kernel can evaluate it); `[]` for 0 -/
def digitsFuel (b : Nat) : Nat → Nat → List Nat
  | 0, _ => []
  | fuel + 1, n => if n = 0 then [] else (n % b) :: digitsFuel b fuel (n / b)

/-- little-endian base-`b` digits of `n`; fuel `n` is always sufficient for `b ≥ 2`
    (`Proofs.C13.digitsLE_eq`: it is Mathlib's `Nat.digits`) -/
def digitsLE (b : Nat) (n : Nat) : List Nat := digitsFuel b n n

/-- most-significant-first base-`b` digits as Python prints them: `"0"` for 0, no leading zero
    otherwise (`oct(n)[2:]`, `"{:o}".format(n)`, `BaseConverter._convert`). -/
def baseDigits (b n : Nat) : List Nat :=
  if n = 0 then [0] else (digitsLE b n).reverse

/-- `oct(n)[2:]` as a list of digit values -/
def octDigits (n : Nat) : List Nat := baseDigits 8 n

/-- `int(s)` for a string of decimal digits given as digit values (leading zeros allowed) -/
def decVal (ds : List Nat) : Nat := ds.foldl (fun a d => a * 10 + d) 0

/-- the separator digit of `"9".join(parts)` -/
def sep : Nat := 9

/-- `"9".join(parts)` on digit lists -/
def join9 : List (List Nat) → List Nat
  | [] => []
  | [a] => a
  | a :: b :: r => a ++ sep :: join9 (b :: r)

/-- the digit string of a tuple of naturals -/
def tupleDigits (ps : List Nat) : List Nat := join9 (ps.map octDigits)

/-- `int("9".join(oct(p)[2:] for p in ps))` -/
def encodeTuple (ps : List Nat) : Nat := decVal (tupleDigits ps)

/-! ### generator templates -/

inductive Part where
  | pid
  | lit (n : Nat)
  | index
  | context
  deriving DecidableEq, Repr

inductive Err where
  | unknownPart (s : String)      -- DataGenValueError("Unknown input to eval: …")
  | assertMinbits                 -- `assert minbits >= 10`
  | assertNumbits                 -- `assert numbits < SHIFT2`
  | alphabetTooShort              -- baseconv: 'converter base digits length too short'
  | signInAlphabet                -- baseconv: 'sign character found in converter base digits'
  deriving DecidableEq, Repr

def isSpace (c : Char) : Bool := c = ' ' || c = '\t' || c = '\n' || c = '\r'

/-- `str.strip()` (ASCII whitespace; the harness generates nothing else) -/
def strip (l : List Char) : List Char :=
  ((l.dropWhile isSpace).reverse.dropWhile isSpace).reverse

/-- `str.split(",")` -/
def splitComma : List Char → List (List Char)
  | [] => [[]]
  | c :: r =>
    match splitComma r with
    | [] => [[]]  -- unreachable: splitComma never returns []
    | h :: t => if c = ',' then [] :: h :: t else (c :: h) :: t

def digitVal (c : Char) : Nat := c.toNat - '0'.toNat

/-- `UniqueNumericIdGenerator._convert` on an already stripped and lower-cased piece -/
def convertPart (s : List Char) : Except Err Part :=
  if s = "pid".toList then .ok .pid
  else if s ≠ [] ∧ s.all Char.isDigit then .ok (.lit (s.foldl (fun a c => a * 10 + digitVal c) 0))
  else if s = "index".toList then .ok .index
  else if s = "context".toList then .ok .context
  else .error (.unknownPart (String.ofList s))

/-- `[self._convert(part.strip().lower()) for part in parts.split(",")]` -/
def parseTemplate (t : String) : Except Err (List Part) :=
  (splitComma t.toList).mapM (fun p => convertPart ((strip p).map Char.toLower))

/-- default templates of `UniqueId.Functions.NumericIdGenerator` / `AlphaCodeGenerator` -/
def defaultNumericTemplate (bigIds : Bool) : String := if bigIds then "pid,context,index" else "context,index"
def defaultAlphaTemplate (bigIds : Bool) : String := if bigIds then "pid,context,index" else "index"

/-- One `UniqueNumericIdGenerator`.  `pidParts` is `[pid]` when the pid option is given and
    `[seconds since 2021, os pid]` otherwise (the Python builds `oct(a) + "9" + oct(b)`, which is
    the same digit string as two tuple components). `ctx` is the value drawn from the
    process-wide `context_uniqifier`. -/
structure NumCfg where
  parts : List Part
  pidParts : List Nat
  ctx : Nat
  deriving Repr

def resolvePart (c : NumCfg) (index : Nat) : Part → List Nat
  | .pid => c.pidParts
  | .lit n => [n]
  | .index => [index]
  | .context => [c.ctx]

/-- the tuple of naturals that draw number `index` encodes -/
def resolve (c : NumCfg) (index : Nat) : List Nat := c.parts.flatMap (resolvePart c index)

/-- `int(self.number_template.format(index=index))` -/
def rawId (c : NumCfg) (index : Nat) : Nat := encodeTuple (resolve c index)

/-! ### scramble_number / unscramble_number -/

def SHIFT1 : Nat := 10
def SHIFT2 : Nat := SHIFT1 * 100
def SHIFT3 : Nat := SHIFT2 * SHIFT1

/-- `minbits = max(10, minbits - 13)` -/
def effMinbits (minbits : Nat) : Nat := max 10 (minbits - 13)

/-- `numbits = max(minbits, (int(log(number, 2)) + 1) if number else minbits)` (after
    `number = number // SHIFT1`) -/
def numbitsOf (lg : Nat → Nat) (number minbits : Nat) : Nat :=
  let mb := effMinbits minbits
  let n := number / SHIFT1
  max mb (if n ≠ 0 then lg n + 1 else mb)

def scramble (lg : Nat → Nat) (mask : Nat → Nat → Nat) (number minbits : Nat) : Except Err Nat :=
  if minbits < 10 then .error .assertMinbits
  else
    let key := number % SHIFT1
    let n := number / SHIFT1
    let numbits := numbitsOf lg number minbits
    if ¬ numbits < SHIFT2 then .error .assertNumbits
    else .ok ((n ^^^ mask key numbits) * SHIFT3 + key * SHIFT2 + numbits)

/-- `unscramble_number` (its `assert number % SHIFT3 == 0` can never fail, see
    `Props.C13.unscramble_assert_holds`) -/
def unscramble (mask : Nat → Nat → Nat) (v : Nat) : Nat :=
  let numbits := v % SHIFT2
  let v1 := v - numbits
  let key := (v1 % SHIFT3) / SHIFT2
  let v2 := v1 - key * SHIFT2
  let scrambled := v2 / SHIFT3
  (scrambled ^^^ mask key numbits) * SHIFT1 + key

/-- the quantity the Python asserts to be 0 -/
def unscrambleAssertQty (v : Nat) : Nat :=
  let numbits := v % SHIFT2
  let v1 := v - numbits
  let key := (v1 % SHIFT3) / SHIFT2
  (v1 - key * SHIFT2) % SHIFT3

/-- `UniqueNumericIdGenerator.unique_id` for the draw whose counter value is `index` -/
def numValue (lg : Nat → Nat) (mask : Nat → Nat → Nat) (randomize : Bool) (c : NumCfg) (index : Nat) :
    Except Err Nat :=
  if randomize then scramble lg mask (rawId c index) 10 else .ok (rawId c index)

/-- start value of a numeric generator's own counter (`start: int = 1`) -/
def numericStart : Nat := 1
/-- start value of the counter of the numeric generator inside an `AlphaUniquifier` -/
def alphaStart : Nat := 1001

/-! ### AlphaUniquifier -/

structure AlphaCfg where
  num : NumCfg
  alphabet : List Char
  minChars : Nat          -- as given by the caller (default 8)
  randomize : Bool
  deriving Repr

def defaultAlphabet : List Char := "0123456789ABCDEFGHIJKLMNOPQRSTUVWXYZ".toList
def defaultMinChars : Nat := 8

/-- `self.alphabet = alphabet or string.digits + string.ascii_uppercase` -/
def effAlphabet (a : List Char) : List Char := if a = [] then defaultAlphabet else a

/-- `if randomize_codes: min_chars = max(min_chars, 4)` -/
def effMinChars (a : AlphaCfg) : Nat := if a.randomize then max a.minChars 4 else a.minChars

/-- `int(log(len(self.alphabet), 2))` — exact for every alphabet size below 100000 (checked by
    the harness against `math.log`), so no oracle is needed here -/
def bitsPerChar (a : AlphaCfg) : Nat := Nat.log2 a.alphabet.length

/-- `min_bits = int(self.min_chars) * bits_per_char` -/
def minBits (a : AlphaCfg) : Nat := effMinChars a * bitsPerChar a

/-- `BaseConverter(alphabet)` constructor checks (sign character is "-") -/
def checkAlphabet (a : List Char) : Except Err Unit :=
  if a.contains '-' then .error .signInAlphabet
  else if a.length ≤ 1 then .error .alphabetTooShort
  else .ok ()

/-- `BaseConverter(alphabet).encode(n)` for `n ≥ 0` -/
def alphaEncode (alphabet : List Char) (n : Nat) : List Char :=
  (baseDigits alphabet.length n).map (fun d => alphabet.getD d '?')

/-- `str.rjust(w, c)` -/
def rjust {α} (w : Nat) (c : α) (l : List α) : List α := List.replicate (w - l.length) c ++ l

/-- `alpha_encoder(n).rjust(min_chars, alphabet[0])` -/
def alphaCode (alphabet : List Char) (minChars n : Nat) : List Char :=
  rjust minChars (alphabet.getD 0 '?') (alphaEncode alphabet n)

/-- inverse direction used in the proofs (and exposed through the driver): read a code as a
    base-`len(alphabet)` number -/
def alphaDecode (alphabet : List Char) (code : List Char) : Nat :=
  code.foldl (fun a ch => a * alphabet.length + alphabet.idxOf ch) 0

/-- the number that is encoded: the raw id, scrambled with `min_bits` when `randomize_codes` -/
def alphaNumber (lg : Nat → Nat) (mask : Nat → Nat → Nat) (a : AlphaCfg) (index : Nat) : Except Err Nat :=
  if a.randomize then scramble lg mask (rawId a.num index) (minBits a) else .ok (rawId a.num index)

/-- `AlphaUniquifier.unique_id` for the draw whose counter value is `index` -/
def alphaValue (lg : Nat → Nat) (mask : Nat → Nat → Nat) (a : AlphaCfg) (index : Nat) : Except Err (List Char) :=
  match alphaNumber lg mask a index with
  | .error e => .error e
  | .ok x => .ok (alphaCode a.alphabet (effMinChars a) x)

/-! ### one process: generators are created and drawn from in any order -/

inductive GenKind where
  | numeric (randomize : Bool)
  | alpha (alphabet : List Char) (minChars : Nat) (randomize : Bool)
  deriving Repr

structure Gen where
  kind : GenKind
  cfg : NumCfg
  counter : Nat        -- next value of `self.counter`
  start : Nat          -- `self.start`: what the counter was created from (this is what is persisted)
  deriving Repr

/-- What `UniqueNumericIdGenerator.__reduce__` writes into a continuation file for a generator
    held by a just_once row: the template, `randomize` and the *original* `start` — neither the
    pid, nor the context number, nor the position of the counter ("continuation processes
    should have their own"). (`min_chars` is written too; the numeric generator never reads it.) -/
structure SavedGen where
  parts : List Part
  randomize : Bool
  start : Nat
  deriving Repr, DecidableEq

/-- `__reduce__` of a numeric generator. An `AlphaUniquifier` inherits `PluginResult.__reduce__`
    and persists `{}`, from which it cannot be rebuilt (the resumed run fails while loading the
    file): `none`. -/
def reduceGen (g : Gen) : Option SavedGen :=
  match g.kind with
  | .numeric r => some { parts := g.cfg.parts, randomize := r, start := g.start }
  | .alpha _ _ _ => none

/-- process state: next value of `UniqueNumericIdGenerator.context_uniqifier` and the generators
    created so far (in creation order) -/
structure Proc where
  nextCtx : Nat
  gens : List Gen
  deriving Repr

inductive Op where
  | newNumeric (parts : List Part) (pidParts : List Nat) (randomize : Bool)
  | newAlpha (parts : List Part) (pidParts : List Nat) (alphabet : List Char) (minChars : Nat) (randomize : Bool)
  | draw (gen : Nat)
  | burn     -- a constructor that failed after `next(self.context_uniqifier)` (bad template)
  /-- `PluginResult._from_continuation`: `cls(**state)` — an ordinary constructor call in the
      resuming process: the context number is drawn from *that* process's counter, the counter
      restarts at the persisted `start`; the pid is the resuming process's -/
  | restore (s : SavedGen) (pidParts : List Nat)
  deriving Repr

inductive Val where
  | num (n : Nat)
  | code (s : List Char)
  deriving DecidableEq, Repr

inductive Out where
  | created (gen : Nat)
  | value (gen : Nat) (index : Nat) (v : Val)
  | failed (e : Err)
  | noSuchGen
  deriving Repr

def Proc.init (firstCtx : Nat) : Proc := { nextCtx := firstCtx, gens := [] }

def genValue (lg : Nat → Nat) (mask : Nat → Nat → Nat) (g : Gen) : Except Err Val :=
  match g.kind with
  | .numeric r => (numValue lg mask r g.cfg g.counter).map Val.num
  | .alpha al mc r =>
    (alphaValue lg mask { num := g.cfg, alphabet := al, minChars := mc, randomize := r } g.counter).map Val.code

def step (lg : Nat → Nat) (mask : Nat → Nat → Nat) (p : Proc) : Op → Proc × Out
  | .newNumeric parts pidParts r =>
    -- `next(self.context_uniqifier)` happens first in `__init__`, before anything can fail
    let g : Gen := { kind := .numeric r, cfg := { parts := parts, pidParts := pidParts, ctx := p.nextCtx },
                     counter := numericStart, start := numericStart }
    ({ nextCtx := p.nextCtx + 1, gens := p.gens ++ [g] }, .created p.gens.length)
  | .restore sv pidParts =>
    let g : Gen := { kind := .numeric sv.randomize,
                     cfg := { parts := sv.parts, pidParts := pidParts, ctx := p.nextCtx },
                     counter := sv.start, start := sv.start }
    ({ nextCtx := p.nextCtx + 1, gens := p.gens ++ [g] }, .created p.gens.length)
  | .newAlpha parts pidParts alphabet mc r =>
    let al := effAlphabet alphabet
    let g : Gen := { kind := .alpha al mc r, cfg := { parts := parts, pidParts := pidParts, ctx := p.nextCtx },
                     counter := alphaStart, start := alphaStart }
    -- the inner numeric generator is created (and takes a context number) before BaseConverter
    -- checks the alphabet
    match checkAlphabet al with
    | .error e => ({ p with nextCtx := p.nextCtx + 1 }, .failed e)
    | .ok () => ({ nextCtx := p.nextCtx + 1, gens := p.gens ++ [g] }, .created p.gens.length)
  | .burn => ({ p with nextCtx := p.nextCtx + 1 }, .noSuchGen)
  | .draw i =>
    match p.gens[i]? with
    | none => (p, .noSuchGen)
    | some g =>
      -- `next(self.counter)` happens before anything can fail
      let p' := { p with gens := p.gens.set i { g with counter := g.counter + 1 } }
      match genValue lg mask g with
      | .error e => (p', .failed e)
      | .ok v => (p', .value i g.counter v)

def run (lg : Nat → Nat) (mask : Nat → Nat → Nat) : Proc → List Op → Proc × List Out
  | p, [] => (p, [])
  | p, op :: ops =>
    let (p1, o) := step lg mask p op
    let (p2, os) := run lg mask p1 ops
    (p2, o :: os)

end SnowModel.Uid
