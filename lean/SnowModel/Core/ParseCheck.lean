/-
P — the validation layer of Snowfakery (C20): what `parse_recipe_yaml.parse_recipe` and the two
static passes that `data_generator.generate` runs before the first row is written
(`merge_options`, `find_tables_to_keep_history_for`) *do* with an arbitrary YAML value.

The model mirrors the checks of the code in the order the code performs them (repository HEAD
66ecebf: the escape sites found by this package — D17a…D17s, D17u…D17aa — have been repaired by
`fix:` commits, and the model follows the repaired code: each former hole is now the explicit
`DataGenError` the code raises).  A recipe error (`DataGenError` and subclasses) is
`Res.recipeError kind`.

`Res.stuck site` remains for the places where the code *still* performs an operation that would
raise a non-recipe exception on an ill-shaped value (a hash of an unhashable name, an `rsplit`, an
attribute read) and relies on an earlier validation step to exclude that value; `Site` lists them.
`Props/C20.lean` proves that none of them is reachable, for any document.

`Res.fuel`: the recursion budget ran out.  On the code this is Python's recursion limit, and
`parse_recipe` turns the `RecursionError` into a `DataGenSyntaxError` ("nested too deeply").
include_file cycles and macro cycles (also through nested templates) are detected by explicit
stacks, as in the code.

Import-free (linked into the driver).  No Mathlib.
-/
namespace SnowModel.ParseCheck

/-! ### YAML values -/

/-- What `yaml.safe_load` can hand to the parser.  Floats and dates are opaque tokens (their
    `repr`), map keys are arbitrary values (the harness only produces scalar keys; PyYAML rejects
    unhashable keys itself).  The `__line__` entry that Snowfakery's loader adds to every mapping is
    not represented; it is the reason why *every* mapping is truthy (`Y.truthy`). -/
inductive Y where
  | null
  | bool (b : Bool)
  | int (i : Int)
  | float (tok : String)
  | str (s : String)
  | date (tok : String)
  | list (xs : List Y)
  | map (kvs : List (Y × Y))
  deriving Repr, Inhabited

abbrev KVs := List (Y × Y)

/-- Python truthiness (`if obj.get(key):`); a loaded mapping always contains `__line__`. -/
def Y.truthy : Y → Bool
  | .null => false
  | .bool b => b
  | .int i => i != 0
  | .float t => !(t == "0.0" || t == "-0.0")
  | .str s => s != ""
  | .date _ => true
  | .list xs => !xs.isEmpty
  | .map _ => true

def Y.isStr : Y → Bool
  | .str _ => true
  | _ => false

/-- `hash(v)` succeeds (dict key / `dict.get` argument) -/
def Y.hashable : Y → Bool
  | .list _ => false
  | .map _ => false
  | _ => true

/-- `dct.get("<k>")` with a string key -/
def lookup (kvs : KVs) (k : String) : Option Y :=
  match kvs with
  | [] => none
  | (.str s, v) :: r => if s == k then some v else lookup r k
  | _ :: r => lookup r k

/-- `if dct.get("<k>"):` -/
def getTruthy (kvs : KVs) (k : String) : Bool :=
  match lookup kvs k with
  | some v => v.truthy
  | none => false

/-! ### Outcomes -/

/-- the `DataGenError` subclass that is raised -/
inductive Err where
  | syntax    -- DataGenSyntaxError (also DataGenYamlSyntaxError)
  | generic   -- DataGenError
  | name      -- DataGenNameError
  | import_   -- DataGenImportError
  deriving Repr, DecidableEq, Inhabited

/-- The operations that would raise a non-recipe exception on an ill-shaped value and that the code
    does not guard *in place*: an earlier validation step is what excludes the value.
    Comment: exception type @ innermost Snowfakery function, and the guard. -/
inductive Site where
  | macroUnhashable   -- TypeError      @ parse_top_level_elements  `{obj["macro"]: obj …}`; guard: declaration loop
  | pluginNotStr      -- AttributeError @ resolve_plugin_alternatives `plugin.rsplit`;     guard: declaration loop
  | pluginNoDot       -- ValueError     @ resolve_plugin_alternatives `prefix, cls = …`;   guard: declaration loop
  | optionUnhashable  -- TypeError      @ merge_options `name in user_options`;            guard: declaration loop
  | templateNoObject  -- AttributeError @ parse_object_template `parsed_template.object`;  guard: the callers' `obj.get("object")`
  | varNoVar          -- AttributeError @ parse_variable_definition `parsed_template.var`; guard: the caller's `obj.get("var")`
  | forEachNoVar      -- AttributeError @ parse_for_each_variable_definition `parsed_template.var`; guard: `var` is mandatory
  deriving Repr, DecidableEq, Inhabited

def Site.name : Site → String
  | .macroUnhashable => "TypeError@parse_recipe_yaml.parse_top_level_elements"
  | .pluginNotStr => "AttributeError@plugins.resolve_plugin_alternatives"
  | .pluginNoDot => "ValueError@plugins.resolve_plugin_alternatives"
  | .optionUnhashable => "TypeError@data_generator.merge_options"
  | .templateNoObject => "AttributeError@parse_recipe_yaml.parse_object_template"
  | .varNoVar => "AttributeError@parse_recipe_yaml.parse_variable_definition"
  | .forEachNoVar => "AttributeError@parse_recipe_yaml.parse_for_each_variable_definition"

/-! ### Parsed form -/

inductive Scalar where
  | null | bool (b : Bool) | int (i : Int) | float (tok : String) | str (s : String) | date (tok : String)
  deriving Repr, DecidableEq, Inhabited

/-- `SimpleValue` / `StructuredValue` (`.args`, `.kwargs`) / `ObjectTemplate` / `VariableDefinition` -/
inductive Ast where
  | simple (v : Scalar)
  | struct (fn : String) (pos : List Ast) (kw : List (String × Ast))
  | tmpl (table : String) (nick : Option String) (justOnce : Bool) (updateKey : Option String)
         (fields : List (String × Ast)) (friends : List Ast) (count : Option Ast)
         (forEach : Option (String × Ast))
  | var (name : String) (value : Ast)
  deriving Repr, Inhabited

/-- the `(args, kwargs)` of one `random_reference` call, as `get_referent_name` sees them -/
abbrev Ref := List Ast × List (String × Ast)

/-- Result of a parsing step.  `ok a refs`: value and the `random_reference` calls appended to
    `context.random_references` while computing it (in order). -/
inductive Res (α : Type) where
  | ok (a : α) (refs : List Ref)
  | recipeError (e : Err)
  | stuck (s : Site)
  | fuel
  deriving Repr, Inhabited

def Res.bind {α β : Type} (r : Res α) (f : α → Res β) : Res β :=
  match r with
  | .ok a rs =>
    match f a with
    | .ok b rs' => .ok b (rs ++ rs')
    | .recipeError e => .recipeError e
    | .stuck s => .stuck s
    | .fuel => .fuel
  | .recipeError e => .recipeError e
  | .stuck s => .stuck s
  | .fuel => .fuel

instance : Monad Res where
  pure a := .ok a []
  bind := Res.bind

def Res.isStuck {α : Type} : Res α → Bool
  | .stuck _ => true
  | _ => false

def Res.isOk {α : Type} : Res α → Bool
  | .ok _ _ => true
  | _ => false

/-- `for x in xs: …` collecting results; stops at the first failure -/
def mapR {α β : Type} (f : α → Res β) : List α → Res (List β)
  | [] => pure []
  | x :: xs => do
    let b ← f x
    let bs ← mapR f xs
    pure (b :: bs)

/-- `for x in xs: check(x)` -/
def forR {α : Type} (f : α → Res Unit) : List α → Res Unit
  | [] => pure ()
  | x :: xs => do
    f x
    forR f xs

/-! ### `parse_element`: the key / type tables -/

/-- the classes that appear in the `isinstance` tables (`Dict`/`dict`, `List`, `str`, `int`, `bool`) -/
inductive Ty where
  | str | int | bool | dict | list
  deriving Repr, DecidableEq, Inhabited

def Ty.name : Ty → String
  | .str => "str" | .int => "int" | .bool => "bool" | .dict => "dict" | .list => "list"

/-- `isinstance(value, ty)`; `bool` is a subclass of `int` -/
def hasTy : Y → Ty → Bool
  | .str _, .str => true
  | .int _, .int => true
  | .bool _, .int => true
  | .bool _, .bool => true
  | .map _, .dict => true
  | .list _, .list => true
  | _, _ => false

abbrev KeyTable := List (String × List Ty)

/-- `parse_object_template`: `optional_keys` (no mandatory keys) -/
def objectKeys : KeyTable :=
  [("fields", [.dict]), ("friends", [.list]), ("include", [.str]), ("nickname", [.str]),
   ("just_once", [.bool]), ("for_each", [.dict]), ("count", [.str, .int, .dict]), ("update_key", [.str])]

/-- `parse_variable_definition`: `mandatory_keys` -/
def varMandatory : KeyTable := [("value", [.str, .int, .dict, .list])]

/-- `parse_for_each_variable_definition`: `mandatory_keys` -/
def forEachMandatory : KeyTable := [("var", [.str]), ("value", [.dict, .str])]

/-- `include_macro`: `optional_keys` -/
def macroKeys : KeyTable := [("fields", [.dict]), ("friends", [.list]), ("include", [.str])]

/-- `collection_rules`, in dict order -/
def collectionRules : List (String × String) :=
  [("option", "option"), ("include_file", "include_file"), ("macro", "macro"), ("plugin", "plugin"),
   ("object", "statement"), ("var", "statement"), ("snowfakery_version", "snowfakery_version")]

/-- `expected_keys.get(key)` with
    `expected_keys = {**mandatory_keys, **optional_keys, "__line__": LineTracker, element_type: str}` -/
def expectedTy (elementType : String) (mandatory optional : KeyTable) (k : String) : Option (List Ty) :=
  if k == elementType then some [.str]
  else match optional.lookup k with
    | some t => some t
    | none => mandatory.lookup k

/-- the `for key in dct:` loop of `parse_element` -/
def checkKeys (elementType : String) (mandatory optional : KeyTable) : KVs → Res Unit
  | [] => pure ()
  | (k, v) :: rest =>
    match k with
    | .str s =>
      match expectedTy elementType mandatory optional s with
      | none => .recipeError .syntax                         -- "Unexpected key"
      | some tys =>
        if tys.any (hasTy v) then checkKeys elementType mandatory optional rest
        else .recipeError .syntax                            -- "Expected `key` to be of type …"
    | _ => .recipeError .syntax                              -- "Unexpected key" (non-string key)

/-- `parse_element` (the attribute object it returns is read back with `lookup`) -/
def parseElement (kvs : KVs) (elementType : String) (mandatory optional : KeyTable) : Res Unit := do
  checkKeys elementType mandatory optional kvs
  if mandatory.all (fun p => (lookup kvs p.1).isSome) then pure ()
  else .recipeError .generic                                 -- "Expected to see … in …"

/-! ### small helpers -/

def toScalar : Y → Scalar
  | .null => .null
  | .bool b => .bool b
  | .int i => .int i
  | .float t => .float t
  | .str s => .str s
  | .date t => .date t
  | _ => .null

/-- `_coerce_to_string` -/
def coerceKey : Y → Res String
  | .str s => pure s
  | .int i => pure (toString i)
  | .bool b => pure (if b then "True" else "False")
  | .date t => pure t
  | _ => .recipeError .syntax

def countDots (s : String) : Nat := (s.toList.filter (· == '.')).length

def isWs (c : Char) : Bool :=
  c == ' ' || c == '\t' || c == '\n' || c == '\r' || c == '\x0b' || c == '\x0c'

/-- `s.split(",")` on character lists -/
def splitComma : List Char → List (List Char)
  | [] => [[]]
  | c :: cs =>
    match splitComma cs with
    | [] => [[]]
    | w :: ws => if c == ',' then [] :: w :: ws else (c :: w) :: ws

/-- `x.strip()` -/
def trimChars (l : List Char) : List Char :=
  ((l.dropWhile isWs).reverse.dropWhile isWs).reverse

/-- `[x.strip() for x in s.split(",")]` without the empty ones -/
def inclusionNames (kvs : KVs) : List String :=
  match lookup kvs "include" with
  | some (.str s) => ((splitComma s.toList).map (fun w => String.ofList (trimChars w))).filter (· != "")
  | _ => []

def startsWithSlash (s : String) : Bool := s.toList.head? == some '/'

def lastValue {α : Type} (k : String) (v : α) (rest : List (String × α)) : α :=
  match (rest.filter (fun p => p.1 == k)).getLast? with
  | some p => p.2
  | none => v

def dedupeAux {α : Type} (seen : List String) : List (String × α) → List (String × α)
  | [] => []
  | (k, v) :: rest =>
    if seen.contains k then dedupeAux seen rest
    else (k, lastValue k v rest) :: dedupeAux (k :: seen) rest

/-- `list({f.name: f for f in fields}.values())`: first position, last value -/
def dedupe {α : Type} (l : List (String × α)) : List (String × α) := dedupeAux [] l

def keyStr : Y → String
  | .str s => s
  | _ => ""

/-- macro table: `context.macros` restricted to string names (other names can never be looked up);
    `dict.update` semantics: the last definition of a name wins -/
abbrev Macros := List (String × KVs)

def lookupMacro (m : Macros) (name : String) : Option KVs :=
  match (m.filter (fun p => p.1 == name)).getLast? with
  | some p => some p.2
  | none => none

/-- `f(v) if v is a mapping else default` (`parsed.fields or {}` after the type check) -/
def onMap {α : Type} (v : Option Y) (f : KVs → Res α) (d : α) : Res α :=
  match v with
  | some (.map kvs) => f kvs
  | _ => pure d

/-- the same for a list (`parsed.friends or []`) -/
def onList {α : Type} (v : Option Y) (f : List Y → Res α) (d : α) : Res α :=
  match v with
  | some (.list xs) => f xs
  | _ => pure d

/-- `if v is not None: … f(v)` -/
def optR {α : Type} (v : Option Y) (f : Y → Res α) : Res (Option α) :=
  match v with
  | some c => do
    let x ← f c
    pure (some x)
  | none => pure none

/-- `if v is not None: … f(v)` for a value already known to be a mapping -/
def optMapR {α : Type} (v : Option Y) (f : KVs → Res α) : Res (Option α) :=
  match v with
  | some (.map kvs) => do
    let x ← f kvs
    pure (some x)
  | _ => pure none

/-- `parsed_template.just_once or False` -/
def justOnceOf (kvs : KVs) : Bool :=
  match lookup kvs "just_once" with
  | some (.bool b) => b
  | _ => false

/-- `parsed_template.nickname` / `.update_key` (an empty string behaves like `None`) -/
def optStrOf (kvs : KVs) (k : String) : Option String :=
  match lookup kvs k with
  | some (.str n) => if n == "" then none else some n
  | _ => none

/-! ### templates, fields, function calls, macros (mutually recursive; fuel) -/

mutual

/-- `parse_field_value`.  `ex`: `context.macros_being_expanded` -/
def parseFieldValue (fuel : Nat) (m : Macros) (ex : List String) (v : Y) : Res Ast :=
  match fuel with
  | 0 => .fuel
  | fuel + 1 =>
    match v with
    | .list [.map kvs] => parseFieldValue fuel m ex (.map kvs)   -- "unwrap a list of a single item"
    | .list _ => .recipeError .syntax                            -- "Unknown field … type"
    | .map kvs =>
      if getTruthy kvs "object" then parseTemplate fuel m ex false kvs
      else parseStructured fuel m ex kvs
    | s => pure (.simple (toScalar s))

/-- `parse_structured_value` (no `ParserMacroPlugin` is loaded in the modelled fragment) -/
def parseStructured (fuel : Nat) (m : Macros) (ex : List String) (kvs : KVs) : Res Ast :=
  match fuel with
  | 0 => .fuel
  | fuel + 1 =>
    match kvs with
    | [] => .recipeError .syntax                               -- "Strange datastructure"
    | (k, a) :: rest =>
      let args : Y := if rest.isEmpty then a else .map rest    -- several keys: the first value is dropped
      match k with
      | .str fn =>
        if countDots fn ≥ 2 then .recipeError .syntax          -- "Function names should have only one '.'"
        else do
          let pa ← parseArgs fuel m ex args
          let ast := Ast.struct fn pa.1 pa.2
          if fn == "random_reference" then Res.ok ast [pa] else pure ast
      | _ => .recipeError .syntax                              -- "Function names should be strings"

/-- `parse_structured_value_args` followed by `StructuredValue.__init__` (`args` / `kwargs`) -/
def parseArgs (fuel : Nat) (m : Macros) (ex : List String) (a : Y) : Res Ref :=
  match fuel with
  | 0 => .fuel
  | fuel + 1 =>
    match a with
    | .map kvs => do
      let kw ← mapR (fun (p : Y × Y) => do
        let k ← coerceKey p.1
        let x ← parseFieldValue fuel m ex p.2
        pure (k, x)) kvs
      pure ([], dedupe kw)
    | .list xs => do
      let pos ← mapR (parseFieldValue fuel m ex) xs
      pure (pos, [])
    | s => do
      let x ← parseFieldValue fuel m ex s
      pure ([x], [])

/-- `parse_fields` / `parse_field`: a field name is a non-empty string -/
def parseFields (fuel : Nat) (m : Macros) (ex : List String) (kvs : KVs) : Res (List (String × Ast)) :=
  match fuel with
  | 0 => .fuel
  | fuel + 1 =>
    mapR (fun (p : Y × Y) =>
      match p.1 with
      | .str name =>
        if name == "" then Res.recipeError .syntax             -- "Field names should be non-empty strings"
        else do
          let x ← parseFieldValue fuel m ex p.2
          pure (name, x)
      | _ => Res.recipeError .syntax) kvs

/-- `parse_statement_list` -/
def parseStmts (fuel : Nat) (m : Macros) (ex : List String) (top : Bool) (xs : List Y) : Res (List Ast) :=
  match fuel with
  | 0 => .fuel
  | fuel + 1 =>
    mapR (fun (x : Y) =>
      match x with
      | .map kvs =>
        if getTruthy kvs "object" then parseTemplate fuel m ex top kvs
        else if getTruthy kvs "var" then parseVar fuel m ex kvs
        else Res.recipeError .syntax                           -- "This statement cannot be parsed"
      | _ => Res.recipeError .syntax) xs                       -- "Statements should be dictionaries"

/-- `parse_variable_definition` -/
def parseVar (fuel : Nat) (m : Macros) (ex : List String) (kvs : KVs) : Res Ast :=
  match fuel with
  | 0 => .fuel
  | fuel + 1 => do
    parseElement kvs "var" varMandatory []
    match lookup kvs "var", lookup kvs "value" with
    | some (.str name), some value => do
      let x ← parseFieldValue fuel m ex value
      pure (.var name x)
    | _, _ => .stuck .varNoVar                                 -- parsed_template.var

/-- `parse_for_each_variable_definition` -/
def parseForEach (fuel : Nat) (m : Macros) (ex : List String) (kvs : KVs) : Res (String × Ast) :=
  match fuel with
  | 0 => .fuel
  | fuel + 1 => do
    parseElement kvs "var" forEachMandatory []
    match lookup kvs "var", lookup kvs "value" with
    | some (.str name), some value => do
      let x ← parseFieldValue fuel m ex value
      pure (name, x)
    | _, _ => .stuck .forEachNoVar                             -- parsed_template.var

/-- `parse_inclusions` -/
def parseInclusions (fuel : Nat) (m : Macros) (ex : List String) (names : List String)
    (parents : List String) : Res (List (String × Ast) × List Ast) :=
  match fuel with
  | 0 => .fuel
  | fuel + 1 => do
    let rs ← mapR (fun (n : String) => includeMacro fuel m ex n parents) names
    pure (rs.flatMap (·.1), rs.flatMap (·.2))

/-- `include_macro`: a macro that is being expanded — by this chain of inclusions (`parents`) or by
    an enclosing template further out (`ex`, `context.macros_being_expanded`) — is a recipe error.
    (Its own `_dedupe_field_list` is subsumed by the one of the including template.) -/
def includeMacro (fuel : Nat) (m : Macros) (ex : List String) (name : String) (parents : List String) :
    Res (List (String × Ast) × List Ast) :=
  match fuel with
  | 0 => .fuel
  | fuel + 1 =>
    match lookupMacro m name with
    | none => .recipeError .name                               -- "Cannot find macro named"
    | some mk => do
      parseElement mk "macro" [] macroKeys
      if parents.contains name || ex.contains name then
        Res.recipeError .generic   -- "Macro `a` calls `b` which calls `a`" / "includes itself through a nested object template"
      else do
        let inc ← parseInclusions fuel m (ex ++ [name]) (inclusionNames mk) (parents ++ [name])
        let fields ← onMap (lookup mk "fields") (parseFields fuel m (ex ++ [name])) []
        let friends ← onList (lookup mk "friends") (parseStmts fuel m (ex ++ [name]) false) []
        pure (inc.1 ++ fields, inc.2 ++ friends)

/-- `parse_object_template`, `ObjectTemplate.__init__`, `ParseContext.register_template` -/
def parseTemplate (fuel : Nat) (m : Macros) (ex : List String) (top : Bool) (kvs : KVs) : Res Ast :=
  match fuel with
  | 0 => .fuel
  | fuel + 1 => do
    parseElement kvs "object" [] objectKeys
    if !top && justOnceOf kvs then Res.recipeError .syntax     -- "just_once can only be used at the top level"
    else
      match lookup kvs "object" with
      | some (.str table) => do
        let inc ← parseInclusions fuel m ex (inclusionNames kvs) []
        let fields ← onMap (lookup kvs "fields") (parseFields fuel m ex) []
        let friends ← onList (lookup kvs "friends") (parseStmts fuel m ex false) []
        let count ← optR (lookup kvs "count") (parseFieldValue fuel m ex)
        let forEach ← optMapR (lookup kvs "for_each") (parseForEach fuel m ex)
        if count.isSome && forEach.isSome then Res.recipeError .syntax   -- "Cannot specify both a count … and a for-each"
        else
          pure (.tmpl table (optStrOf kvs "nickname") (justOnceOf kvs) (optStrOf kvs "update_key")
                  (dedupe (inc.1 ++ fields)) (inc.2 ++ friends) count forEach)
      | _ => .stuck .templateNoObject                          -- parsed_template.object

end

/-! ### files: `parse_file`, `parse_top_level_elements`, `parse_included_files` -/

inductive FileContent where
  | yamlError            -- the file is not YAML (`DataGenYamlSyntaxError`)
  | doc (y : Y)
  deriving Repr, Inhabited

/-- the world outside the document: the files next to the recipe and the importable plugin classes
    (none of which is a `ParserMacroPlugin`) -/
structure Env where
  files : List (String × FileContent)
  plugins : List String
  deriving Repr, Inhabited

/-- what `ParseContext` accumulates over the files -/
structure Top where
  options : List KVs := []
  macros : Macros := []
  version : Option Nat := none
  deriving Repr, Inhabited

/-- `categorize_top_level_objects` for one element: the category, or the error -/
def categorize (obj : Y) : Res String :=
  match obj with
  | .map kvs =>
    match collectionRules.filter (fun r => getTruthy kvs r.1) with
    | [r] => pure r.2
    | _ => .recipeError .generic        -- "matches two name patterns" / "Unknown object type"
  | _ => .recipeError .syntax           -- "Top level elements … should all be dictionaries"

def kvsOf : Y → KVs
  | .map kvs => kvs
  | _ => []

def hasCat (cat : String) (obj : Y) : Bool :=
  match categorize obj with
  | .ok c _ => c == cat
  | _ => false

/-- `"." in declared.strip(".") and not declared.startswith(".")` -/
def pluginNameOk (s : String) : Bool :=
  !(s.toList.head? == some '.') && ((s.toList.reverse.dropWhile (· == '.')).contains '.')

/-- the declaration loop of `parse_top_level_elements`: an option / macro name must not be a list or
    a mapping, a plugin name must be a dotted string that does not start with a dot -/
def declOk (kind : String) (obj : Y) : Res Unit :=
  match lookup (kvsOf obj) kind with
  | some v =>
    if kind == "plugin" then
      match v with
      | .str s => if pluginNameOk s then pure () else .recipeError .syntax
      | _ => .recipeError .syntax                            -- "Cannot use `…` as the name of a plugin"
    else if v.hashable then pure ()
    else .recipeError .syntax                                -- "Cannot use `…` as the name of a option / macro"
  | none => .recipeError .syntax

/-- the macro-name step of `parse_top_level_elements`:
    `context.macros.update({obj["macro"]: obj for obj in …})` -/
def registerMacros (m : Macros) : List Y → Res Macros
  | [] => pure m
  | obj :: rest =>
    match lookup (kvsOf obj) "macro" with
    | some (.str s) => registerMacros (m ++ [(s, kvsOf obj)]) rest
    | some v => if v.hashable then registerMacros m rest else .stuck .macroUnhashable
    | none => registerMacros m rest

/-- `resolve_plugins` on the plugin declarations, for dotted names the environment decides -/
def checkPlugin (env : Env) (obj : Y) : Res Unit :=
  match lookup (kvsOf obj) "plugin" with
  | some (.str s) =>
    if countDots s == 0 then .stuck .pluginNoDot            -- prefix, class_name = plugin.rsplit(".", 1)
    else if env.plugins.contains s then pure ()
    else .recipeError .import_                              -- "Cannot find plugin"
  | _ => .stuck .pluginNotStr                               -- plugin.rsplit

/-- numeric value of a version declaration if it is `2`, `3`, `2.0` or `3.0` (`x in (2, 3)`) -/
def versionNum : Y → Option Nat
  | .int 2 => some 2
  | .int 3 => some 3
  | .float "2.0" => some 2
  | .float "3.0" => some 3
  | _ => none

/-- `parse_version` -/
def parseVersion (decls : List Y) : Res (Option Nat) :=
  match decls with
  | [] => pure none
  | d :: rest =>
    match lookup (kvsOf d) "snowfakery_version" with
    | some base =>
      match versionNum base with
      | some v =>
        if rest.all (fun o => match lookup (kvsOf o) "snowfakery_version" with
            | some x => versionNum x == some v
            | none => false) then pure (some v)
        else .recipeError .syntax       -- "Cannot have multiple conflicting versions"
      | none => .recipeError .syntax    -- conflicting, or "Version must be 2 or 3"
    | none => .recipeError .syntax

/-- the version step of `parse_top_level_elements`: this file's declarations must agree with what an
    included file declared; a declared version becomes the recipe's version -/
def mergeVersion (cur own : Option Nat) : Res (Option Nat) :=
  match own with
  | none => pure cur
  | some v =>
    match cur with
    | none => pure (some v)
    | some c => if c == v then pure (some v) else .recipeError .syntax   -- "multiple conflicting versions"

/-- `parse_file` after YAML loading + `parse_top_level_elements`.  `stack`:
    `context.files_being_parsed` (the included files being parsed; the recipe itself is not on it).
    Returns the accumulated context and the statements (included ones first). -/
def loadFile (fuel : Nat) (env : Env) (stack : List String) (acc : Top) (doc : Y) : Res (Top × List Y) :=
  match fuel with
  | 0 => .fuel
  | fuel + 1 =>
    match doc with
    | .list data => do
      forR (fun o => do let _ ← categorize o; pure ()) data
      -- parse_included_files
      let r ← (data.filter (fun o => getTruthy (kvsOf o) "include_file")).foldlM
        (fun (st : Top × List Y) (inc : Y) => do
          parseElement (kvsOf inc) "include_file" [] []
          match lookup (kvsOf inc) "include_file" with
          | some (.str rel) =>
            if startsWithSlash rel then Res.recipeError .syntax   -- "include_file paths should be relative"
            else match env.files.lookup rel with
              | none => Res.recipeError .generic              -- "Cannot load include file" (missing, or a directory)
              | some c =>
                if stack.contains rel then Res.recipeError .generic   -- "Include file … includes itself"
                else match c with
                  | .yamlError => Res.recipeError .syntax
                  | .doc d => do
                    let sub ← loadFile fuel env (stack ++ [rel]) st.1 d
                    pure (sub.1, st.2 ++ sub.2)
          | _ => Res.recipeError .syntax)
        (acc, [])
      -- the declaration loop
      forR (declOk "option") (data.filter (hasCat "option"))
      forR (declOk "macro") (data.filter (hasCat "macro"))
      forR (declOk "plugin") (data.filter (hasCat "plugin"))
      let macros ← registerMacros r.1.macros (data.filter (hasCat "macro"))
      forR (checkPlugin env) (data.filter (hasCat "plugin"))
      let own ← parseVersion (data.filter (hasCat "snowfakery_version"))
      let version ← mergeVersion r.1.version own
      pure ({ options := r.1.options ++ (data.filter (hasCat "option")).map kvsOf, macros := macros,
              version := version },
            r.2 ++ data.filter (hasCat "statement"))
    | _ => .recipeError .syntax                               -- "Recipe file should be a list"

/-! ### the static passes of `generate` that run before the first row -/

/-- `merge_options` with no user options: `name in user_options` hashes the name; a *declared*
    default (`"default" in option`, whatever its value: `0`, `false`, `null`, `""` included) is a
    default -/
def checkOption (o : KVs) : Res Unit :=
  match lookup o "option" with
  | some v =>
    if !v.hashable then .stuck .optionUnhashable             -- name in user_options
    else if (lookup o "default").isSome then pure ()
    else .recipeError .name                                  -- "No definition supplied for option"
  | none => .recipeError .name

/-- `get_referent_name`: `target = args[0] if args else kwargs.get("to")`,
    `getattr(target, "definition", None)` must be a string -/
def checkRef (r : Ref) : Res Unit :=
  let target : Option Ast :=
    match r.1 with
    | x :: _ => some x
    | [] => r.2.lookup "to"
  match target with
  | some (.simple (.str _)) => pure ()
  | _ => .recipeError .syntax                                -- "random_reference should only refer to a name"

/-- what reaches the interpreter -/
structure Parsed where
  statements : List Ast
  version : Option Nat
  options : List KVs
  deriving Repr, Inhabited

/-- `parse_recipe` -/
def parseRecipe (fuel : Nat) (env : Env) (doc : Y) : Res Parsed := do
  let r ← loadFile fuel env [] {} doc
  let stmts ← parseStmts fuel r.1.macros [] true r.2
  pure { statements := stmts, version := r.1.version, options := r.1.options }

/-- everything `generate` decides before a row can be written: `parse_recipe`, `merge_options`,
    `find_tables_to_keep_history_for` -/
def check (fuel : Nat) (env : Env) (doc : Y) : Res Parsed :=
  match parseRecipe fuel env doc with
  | .ok p refs =>
    match forR checkOption p.options with
    | .ok _ _ =>
      match forR checkRef refs with
      | .ok _ _ => .ok p refs
      | .recipeError e => .recipeError e
      | .stuck s => .stuck s
      | .fuel => .fuel
    | .recipeError e => .recipeError e
    | .stuck s => .stuck s
    | .fuel => .fuel
  | .recipeError e => .recipeError e
  | .stuck s => .stuck s
  | .fuel => .fuel

/-- which stage produced a non-ok outcome of `check` (for the correspondence) -/
def stage (fuel : Nat) (env : Env) (doc : Y) : String :=
  match parseRecipe fuel env doc with
  | .ok p refs =>
    match forR checkOption p.options with
    | .ok _ _ =>
      match forR checkRef refs with
      | .ok _ _ => "none"
      | _ => "refs"
    | _ => "options"
  | _ => "parse"

/-! ### the run: rows can only come from the interpreter, which only starts on a checked recipe -/

/-- `generate`: `interp` is the interpreter (arbitrary); its rows exist only if `check` passed -/
def generate {Row : Type} (interp : Parsed → Bool × List Row) (fuel : Nat) (env : Env) (doc : Y) :
    Res Unit × List Row :=
  match check fuel env doc with
  | .ok p _ =>
    let r := interp p
    (if r.1 then .ok () [] else .recipeError .generic, r.2)
  | .recipeError e => (.recipeError e, [])
  | .stuck s => (.stuck s, [])
  | .fuel => (.fuel, [])

end SnowModel.ParseCheck
