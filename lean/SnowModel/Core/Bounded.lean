/-
Model of the bounded random template functions of `snowfakery/template_funcs.py`
(`random_number`, `random_choice`/`choice`, `date_between`, `datetime`/`datetime_between`)
together with the contracts of the library routines they delegate to (CPython
`random.randrange`, `random.choice`, `random.choices`; Faker `date_between`,
`date_time_between`).  Import-free (Init only).

Every random draw is an explicit argument:
  * `randrange`      : `k` = the value returned by `Random._randbelow(n)`
  * `random.choice`  : `k` = the value returned by `Random._randbelow(len(seq))`
  * `random.choices` : `x` = `floor(random() * total)` (weights are integers in the model)
  * Faker dates      : the offset, in seconds / microseconds, that `uniform(a, b)` (or
                       `a + random()`) adds to the lower timestamp.
A draw outside the library's contract gives the explicit outcome `badDraw`, so no theorem
is true merely because the model was totalised.

The model mirrors what the code *does*:
  * `random_number` converts string arguments with `int(…)` (6be3bcb, D54) and passes
    `(min, max + 1, step)` to `randrange`, whose lattice size `n` is
    computed with CPython's own formula (also for negative steps);
  * `choice` returns the written probability as it is (also `0`); `when` only when no
    probability was given (repaired by cfed176; before: `probability or when`, D09);
  * `datetime()` converts a value carrying a non-zero written offset with `astimezone` and
    relabels the others with `replace(tzinfo=…)` (repaired by f914bf1; before: always
    `replace`, D08/D39 — still available as `TzCall.replace` for statements about the old code);
  * `datetime_between` returns the start itself when both bounds are the same instant
    (repaired by e0d1353, D37); otherwise Faker truncates both bounds to whole seconds and, when
    they are at most one second apart, returns `start + random()`; the result is clamped from
    below to the start (919a3ea, D38) and from above to the end (a6412d5, D50).
-/
import SnowModel.Core.L2

namespace SnowModel.Bounded

/-! ### `random_number(min, max, step)` = `random.randrange(min, max + 1, step)` -/

inductive RROut where
  | value (x : Int)
  | emptyRange        -- ValueError("empty range in randrange(…)")
  | zeroStep          -- ValueError("zero step for randrange()")
  | badDraw           -- the draw violated `_randbelow`'s contract `0 ≤ k < n`
  deriving Repr, DecidableEq

/-- CPython `Random.randrange`: the number `n` handed to `_randbelow`.
    `step == 1`: `width`; `step > 0`: `(width + step - 1) // step`;
    `step < 0`: `(width + step + 1) // step`  (`//` is floor division). -/
def rrCount (start stop step : Int) : Int :=
  if step = 1 then stop - start
  else if step > 0 then Int.fdiv (stop - start + step - 1) step
  else if step < 0 then Int.fdiv (stop - start + step + 1) step
  else 0

/-- CPython `Random.randrange(start, stop, step)` with `_randbelow(n) = k`. -/
def randrange (start stop step : Int) (k : Nat) : RROut :=
  if step = 0 then .zeroStep
  else if rrCount start stop step ≤ 0 then .emptyRange
  else if (k : Int) < rrCount start stop step then .value (start + step * k)
  else .badDraw

/-- The arguments `random_number` passes on (pinned: `Gen.BoundedFuncs.rn*`). -/
def rnStart (min _max _step : Int) : Int := min
def rnStop (_min max _step : Int) : Int := max + 1
def rnStep (_min _max step : Int) : Int := step

/-- `random_number(min, max, step)` -/
def randomNumber (min max step : Int) (k : Nat) : RROut :=
  randrange (rnStart min max step) (rnStop min max step) (rnStep min max step) k

/-- lattice size of `random_number` -/
def rnCount (min max step : Int) : Int :=
  rrCount (rnStart min max step) (rnStop min max step) (rnStep min max step)

/-! ### The recipe-level path in the default (v2) dialect

`SimpleValue.render` passes every string it produces — the stringified result of a `${{…}}`
formula, hence also every formula-valued *argument* — through `look_for_number`
(`L2.lookForNumber`, pinned by C03's `TemplateUtils` group).  Literal YAML ints and the v3 dialect
(native types) bypass it. -/

/-- What becomes of an integer that travels through a v2 formula: `str(x)`, then `look_for_number`. -/
def renderV2 (x : Int) : Except L2.Err L2.Val := L2.lookForNumber (L2.intToStr x)

/-- The integer a rendered value denotes: an int, or the decimal text of one. -/
def valAsInt : L2.Val → Option Int
  | .int i => some i
  | .str s => s.toInt?
  | _ => none

/-- How the three arguments reach `random_number`. -/
inductive ArgMode where
  | native       -- literal YAML ints, keyword arguments inside a formula, or any v3 recipe
  | formulaV2    -- `min: ${{…}}` in the default dialect: rendered before the call
  deriving Repr, DecidableEq

/-- The Python object `random_number` receives for an argument. -/
inductive PyArg where
  | int (i : Int)
  | str (s : String)
  deriving Repr, DecidableEq

/-- The object seen for the written integer `x`: in the default dialect `look_for_number` leaves
    `"0"` and every negative number a string. -/
def argSeen (mode : ArgMode) (x : Int) : PyArg :=
  match mode with
  | .native => .int x
  | .formulaV2 =>
    match renderV2 x with
    | .ok (.int i) => .int i
    | .ok (.str t) => .str t
    | _ => .str (L2.intToStr x)     -- unreachable (`Props.C11.render_v2_identity`)

/-- What `random_number` does with its arguments before calling `randrange`. -/
inductive ArgConv where
  | asIs        -- nothing (before 6be3bcb): a `str` makes `max + 1` / `randrange` raise TypeError
  | strToInt    -- `int(arg) if isinstance(arg, str) else arg` (6be3bcb)
  deriving Repr, DecidableEq

/-- The conversion found in the source (`Gen.BoundedFuncs.rnArgConversion` is bridged to it). -/
def codeArgConv : ArgConv := .strToInt

def argConvOfString (s : String) : Option ArgConv :=
  if s = "" then some .asIs
  else if s = "min, max, step = (int(arg) if isinstance(arg, str) else arg for arg in (min, max, step))" then
    some .strToInt
  else none

inductive ArgErr where
  | typeError     -- a `str` reached `max + 1` / `randrange`
  | valueError    -- `int("abc")`: invalid literal
  deriving Repr, DecidableEq

/-- Python `int(s)` on the modelled fragment (optional `-`, decimal digits). -/
def coerceArg (conv : ArgConv) : PyArg → Except ArgErr Int
  | .int i => .ok i
  | .str s =>
    match conv with
    | .asIs => .error .typeError
    | .strToInt =>
      match s.toInt? with
      | some i => .ok i
      | none => .error .valueError

inductive RNOut where
  | typeError          -- a `str` argument: `max + 1` / `randrange` raises TypeError
  | valueError         -- a non-numeric `str` argument: `int(arg)` raises ValueError
  | out (o : RROut)
  deriving Repr, DecidableEq

/-- `random_number` on the Python objects it receives (the generator expression converts `min`,
    `max`, `step` in this order; the first failure is raised). -/
def randomNumberObj (conv : ArgConv) (a b c : PyArg) (k : Nat) : RNOut :=
  match coerceArg conv a with
  | .error .typeError => .typeError
  | .error .valueError => .valueError
  | .ok mn =>
    match coerceArg conv b with
    | .error .typeError => .typeError
    | .error .valueError => .valueError
    | .ok mx =>
      match coerceArg conv c with
      | .error .typeError => .typeError
      | .error .valueError => .valueError
      | .ok st => .out (randomNumber mn mx st k)

/-- `random_number` as a recipe calls it with the written integers `min`, `max`, `step`. -/
def randomNumberViaWith (conv : ArgConv) (mode : ArgMode) (min max step : Int) (k : Nat) : RNOut :=
  randomNumberObj conv (argSeen mode min) (argSeen mode max) (argSeen mode step) k

def randomNumberVia (mode : ArgMode) (min max step : Int) (k : Nat) : RNOut :=
  randomNumberViaWith codeArgConv mode min max step k

/-! ### `random_choice` -/

/-- A raw `probability:` value as it reaches `choice()` / `parse_weight_str`. -/
inductive RawW where
  | none               -- no `probability` given (Python `None`)
  | int (n : Nat)      -- YAML integer, e.g. `probability: 0`
  | pct (n : Nat)      -- string with a percent sign, e.g. `60%`
  | str (n : Nat)      -- numeric string without percent sign
  deriving Repr, DecidableEq

/-- The guard `if probability is not None:` — only an absent probability fails it. -/
def RawW.truthy : RawW → Bool
  | .none => false
  | _ => true

/-- `parse_weight_str`: `rstrip("%")`, then `float(…)` (integers only in the model). -/
def parseWeight : RawW → Option Nat
  | .none => none      -- float(None) raises; not reachable through `choice`
  | .int n => some n
  | .pct n => some n
  | .str n => some n

/-- First component of the tuple returned by `choice(pick, probability, when)`:
    `if probability is not None: return parse_weight_str(probability), pick` else
    `return when, pick`.  A written probability is kept as it is (also `0`);
    `when` is `None` inside `random_choice`. -/
def choiceWeight (r : RawW) (when : Option Nat := none) : Option Nat :=
  if r.truthy then parseWeight r else when

/-- Weight of a `key: value` entry of the mapping form (`parse_weight_str` only). -/
def kwWeight (r : RawW) : Option Nat := parseWeight r

inductive ChoiceOut where
  | picked (i : Nat)
  | typeError          -- a weight is `None` (accumulate / `+ 0.0` raises TypeError)
  | totalNotPositive   -- ValueError("Total of weights must be greater than zero")
  | noChoices          -- ValueError("No choices supplied!")
  | badDraw
  deriving Repr, DecidableEq

/-- `itertools.accumulate(weights)` started from `acc`. -/
def cumFrom (acc : Nat) : List Nat → List Nat
  | [] => []
  | w :: ws => (acc + w) :: cumFrom (acc + w) ws

/-- `bisect.bisect_right(cum, x, 0, hi)` on a non-decreasing list, as a left-to-right scan:
    the first index `i < hi` with `cum[i] > x`, else `hi`.  (`i0` = index of the head.) -/
def bisectScan (x : Nat) : (cum : List Nat) → (i0 : Nat) → Nat
  | [], i0 => i0
  | [_], i0 => i0                       -- `hi = n - 1`: the last entry is never inspected
  | c :: c' :: cs, i0 => if c > x then i0 else bisectScan x (c' :: cs) (i0 + 1)

def allSome : List (Option Nat) → Option (List Nat)
  | [] => some []
  | none :: _ => none
  | some w :: ws => (allSome ws).map (w :: ·)

def sumW : List Nat → Nat
  | [] => 0
  | w :: ws => w + sumW ws

/-- Specification vocabulary: sum of the first `j` weights (constant beyond the length). -/
def prefixSum : List Nat → Nat → Nat
  | [], _ => 0
  | _ :: _, 0 => 0
  | a :: w, j + 1 => a + prefixSum w j

/-- `random.choices(options, weights, k=1)[0]` as an index, with
    `x = floor(random() * total)`. -/
def weightedIndex (ws : List (Option Nat)) (x : Nat) : ChoiceOut :=
  match ws with
  | [] => .noChoices
  | _ =>
    match allSome ws with
    | none => .typeError
    | some w =>
      if sumW w = 0 then .totalNotPositive
      else if x < sumW w then .picked (bisectScan x (cumFrom 0 w) 0)
      else .badDraw

/-- `random_choice` given a list of `choice:` items (raw probabilities). -/
def randomChoiceItems (raws : List RawW) (x : Nat) : ChoiceOut :=
  weightedIndex (raws.map (fun r => choiceWeight r)) x

/-- `random_choice` given a mapping `option: weight`. -/
def randomChoiceKw (raws : List RawW) (x : Nat) : ChoiceOut :=
  weightedIndex (raws.map kwWeight) x

/-- `random_choice` given a plain list of `n` options: `random.choice(seq)` =
    `seq[_randbelow(len(seq))]`. -/
def randomChoiceList (n k : Nat) : ChoiceOut :=
  if n = 0 then .noChoices else if k < n then .picked k else .badDraw

/-! ### `date_between` (days since the epoch) -/

/-- A relative specification `±<n>y ±<n>M ±<n>w ±<n>d ±<n>h ±<n>m ±<n>s`
    (Faker's `Provider.regex`). -/
structure RelSpec where
  years : Int := 0
  months : Int := 0
  weeks : Int := 0
  days : Int := 0
  hours : Int := 0
  minutes : Int := 0
  seconds : Int := 0
  deriving Repr, DecidableEq

/-- Faker `_parse_date_string` + `timedelta(**params)` in seconds: a year is `365.24` days
    (= `36524 · 864` s), a month `30.42` days (= `3042 · 864` s). -/
def RelSpec.toSeconds (r : RelSpec) : Int :=
  864 * (36524 * r.years + 3042 * r.months) + 604800 * r.weeks + 86400 * r.days
    + 3600 * r.hours + 60 * r.minutes + r.seconds

inductive DateSpec where
  | abs (day : Int)          -- `YYYY-MM-DD` / date object / datetime object (its date)
  | rel (r : RelSpec)
  | today
  deriving Repr, DecidableEq

/-- `Provider._parse_date`: `today + timedelta(…)` on a `date` uses `timedelta.days`,
    i.e. the floor of the offset in days. -/
def resolveDate (today : Int) : DateSpec → Int
  | .abs d => d
  | .rel r => today + r.toSeconds / 86400
  | .today => today

inductive DateOut where
  | value (day : Int)
  | null               -- "empty range" ValueError swallowed: the field is `None`
  | badDraw
  deriving Repr, DecidableEq

/-- `date_between(start_date, end_date)`: Faker draws `uniform(a, b)` over the two
    midnights (UTC timestamps) and returns the UTC date of the result;
    `k` = whole seconds added to `a` (`0 ≤ k ≤ b - a`). -/
def dateBetween (today : Int) (s e : DateSpec) (k : Nat) : DateOut :=
  let a := 86400 * resolveDate today s
  let b := 86400 * resolveDate today e
  if a > b then .null
  else if (k : Int) ≤ b - a then .value ((a + k) / 86400)
  else .badDraw

/-! ### `datetime()` normalisation and `datetime_between` (microseconds since the epoch) -/

/-- How `datetime()` attaches the target zone (UTC here) to the parsed value. -/
inductive TzCall where
  | replace            -- `dt.replace(tzinfo=tz)`: wall clock kept, written offset discarded (old code)
  | astimezone         -- `dt.astimezone(tz)`: instant kept
  | astimezoneIfOffset -- `dt.astimezone(tz) if dt.utcoffset() else dt.replace(tzinfo=tz)` (f914bf1)
  deriving Repr, DecidableEq

/-- The call kind found in the source (`Gen.BoundedFuncs.datetimeTzCall` is bridged to it). -/
def codeTzCall : TzCall := .astimezoneIfOffset

def tzCallOfString (s : String) : Option TzCall :=
  if s = "replace" then some .replace
  else if s = "astimezone" then some .astimezone
  else if s = "if dt.utcoffset() and timezone is not None: astimezone else: replace" then
    some .astimezoneIfOffset
  else none

inductive DTSpec where
  /-- a written date-time: naive wall clock in µs since the epoch and the written UTC
      offset in seconds (`none` = no offset written) -/
  | stamp (wallUs : Int) (offset : Option Int)
  | date (day : Int)       -- a date: midnight UTC
  | today
  | now
  deriving Repr, DecidableEq

structure Clock where
  today : Int      -- `date.today()` as days since the epoch
  nowUs : Int      -- `datetime.now(utc)` in µs since the epoch
  deriving Repr

def usPerSec : Int := 1000000
def usPerDay : Int := 86400 * usPerSec

/-- `parse_datetimespec`: wall clock (µs) and offset (s); naive values, dates, `today`
    and `now` get UTC. -/
def parseSpec (c : Clock) : DTSpec → Int × Int
  | .stamp w off => (w, off.getD 0)
  | .date d => (d * usPerDay, 0)
  | .today => (c.today * usPerDay, 0)
  | .now => (c.nowUs, 0)

/-- The instant the user wrote (µs since the epoch, UTC). -/
def writtenInstant (c : Clock) (s : DTSpec) : Int :=
  (parseSpec c s).1 - (parseSpec c s).2 * usPerSec

/-- The instant of the value `datetime(spec)` returns (target zone UTC). -/
def normalise (call : TzCall) (c : Clock) (s : DTSpec) : Int :=
  match call with
  | .replace => (parseSpec c s).1
  | .astimezone => writtenInstant c s
  | .astimezoneIfOffset =>
    if (parseSpec c s).2 ≠ 0 then writtenInstant c s else (parseSpec c s).1

inductive DTOut where
  | value (us : Int)
  | orderError         -- DataGenError("End date is before start date")
  | badDraw
  deriving Repr, DecidableEq

/-- Faker `date_time_between(start, end)` on two instants (µs): both are truncated to whole
    seconds (`timegm(timetuple)`); if they are at most one second apart the result is
    `start + random()`, else `uniform(start, end)`.  `d` = µs added to the truncated start. -/
def fakerBetween (sUs eUs : Int) (d : Nat) : DTOut :=
  let ss := sUs / usPerSec
  let es := eUs / usPerSec
  if es - ss ≤ 1 then
    if (d : Int) < usPerSec then .value (ss * usPerSec + d) else .badDraw
  else
    if (d : Int) ≤ (es - ss) * usPerSec then .value (ss * usPerSec + d) else .badDraw

/-- `max(value, earliest)`: the drawn value is never before the start (919a3ea). -/
def clampLow (S : Int) : DTOut → DTOut
  | .value v => .value (max v S)
  | o => o

/-- `min(…, latest)`: … nor after the end (a6412d5). -/
def clampHigh (E : Int) : DTOut → DTOut
  | .value v => .value (min v E)
  | o => o

/-- `datetime_between(start_date, end_date)` with the given normalisation call. -/
def datetimeBetweenWith (call : TzCall) (c : Clock) (s e : DTSpec) (d : Nat) : DTOut :=
  let S := normalise call c s
  let E := normalise call c e
  if E < S then .orderError
  else if E = S then .value S          -- equal bounds: that instant itself (e0d1353)
  else clampHigh E (clampLow S (fakerBetween S E d))

/-- `datetime_between` as the code has it. -/
def datetimeBetween (c : Clock) (s e : DTSpec) (d : Nat) : DTOut :=
  datetimeBetweenWith codeTzCall c s e d

end SnowModel.Bounded
