/-
Python integer primitives used by the generated pins (`SnowModel/Generated/*.lean`).
`//` and `%` are `Int.fdiv` / `Int.fmod` (floor semantics) and are emitted directly.
-/
namespace Py

/-- `int.bit_length()`: number of bits of `|n|`. -/
def bitLength (n : Int) : Int :=
  if n.natAbs = 0 then 0 else (Nat.log2 n.natAbs + 1 : Nat)

end Py
