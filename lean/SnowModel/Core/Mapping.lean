/-
Model layer M — generation of the CumulusCI mapping from a run summary.

Mirrors, function by function (names in back-quotes are the Python names):
  snowfakery/generate_mapping_from_recipe.py   `mapping_from_recipe_templates`, `build_dependencies`,
      `remove_person_contact_id`, `_table_is_free`, `sort_dependencies`, `load_steps_from_tableinfos`,
      `mappings_from_load_steps`
  snowfakery/salesforce.py                     `find_record_type_column`
  snowfakery/cci_mapping_files/post_processes.py  `add_after_statements`, `_index_by_sobject`
  snowfakery/data_generator_runtime.py         `Globals.__getstate__/__setstate__` (dependencies only)
  snowfakery/parse_recipe_yaml.py              the two `startswith("__")` filters (visible tables/fields)

The model mirrors what the code *does*, including:
  * `{**inferred, **declared}`: a `load_after` declaration for a table *replaces* all inferred
    dependencies of that table in the sorter;
  * the sorter's cycle breaking: without declarations the alphabetically first remaining table is
    appended; with declarations the remaining tables are sorted by the declared dependencies only,
    appended, and then — because the loop variable is not updated — every table that is free by
    then is appended a **second time** (the result may contain duplicates; consumers use `.index`);
  * `reference_fields[(table, field)] = target`: the last recorded dependency wins;
  * the record-type column is listed under the key `RecordTypeId` — unless it holds references, in
    which case it is a lookup only (`record_type_col and (table_name, record_type_col) not in
    reference_fields`, repaired by fix 8e9f95d; before, it was listed twice);
  * `mappings[step_name] = mapping` is a dict store: equal step names overwrite (keeping the position);
  * `indexed_by_sobject.get(target_table)`: a lookup whose target has no load step (hidden `__`
    tables) gets no `after:` and generation continues (fix 7f47b5f; before, `KeyError`: D14);
  * how `Globals.__setstate__` reads the saved dependencies is a parameter (`Access`): the source
    now reads them by key (`state.get`, fix d660dab); `Access.getattr` documents the old behaviour
    (`getattr(state, …, [])` on a dict: a continued run started with an empty dependency set, D05).
No Mathlib import (linked into the driver).
-/

namespace SnowModel.Mapping

/-! ### data -/

/-- `Dependency(table_name_from, table_name_to, field_name)` -/
structure Dep where
  frm : String
  to : String
  field : String
deriving DecidableEq, Repr

/-- What the mapping generator reads of a `TableInfo`: the name, `fields.keys()` (dict order) and the
    `update_key` of every registered template (`_templates`, registration order). -/
structure TableInfo where
  name : String
  fields : List String
  templates : List (Option String)
deriving DecidableEq, Repr

/-- A relevant load declaration: `(sf_object, load_after)`. -/
abbrev Decl := String × List String

/-- `LoadStep(action, table_name, update_key, fields)`; `action` is a function of `update_key`. -/
structure LoadStep where
  table : String
  updateKey : Option String
  fields : List String
deriving DecidableEq, Repr

structure Lookup where
  field : String          -- dict key and `key_field`
  table : String
  after : Option String
deriving DecidableEq, Repr

/-- One entry of the mapping file (the keys this property speaks about). -/
structure Mapping where
  sfObject : String
  table : String
  fields : List (String × String)   -- key ↦ column, dict order
  lookups : List Lookup
  upsertKey : Option String         -- `action: upsert`, `update_key`
  filters : List String
deriving DecidableEq, Repr

inductive Err where
  | outOfFuel                       -- model artefact; `sort_terminates` shows it never happens
  | valueError (table : String)     -- `table_order.index(step.table_name)`
  | multipleRecordTypes (table : String)   -- DataGenError of `find_record_type_column`
deriving DecidableEq, Repr

/-! ### small Python idioms -/

/-- Python truthiness of an `Optional[str]`. -/
def truthy : Option String → Bool
  | some s => s != ""
  | none => false

/-- `OrderedSet(l)` / `dict.fromkeys(l)`: first occurrences, in order. -/
def dedupFirst {α} [DecidableEq α] : List α → List α
  | [] => []
  | a :: as => a :: (dedupFirst as).filter (fun x => x ≠ a)

/-- `d[k] = v` on an insertion-ordered dict. -/
def dictInsert {κ β} [DecidableEq κ] (k : κ) (v : β) : List (κ × β) → List (κ × β)
  | [] => [(k, v)]
  | (k', v') :: rest => if k' = k then (k, v) :: rest else (k', v') :: dictInsert k v rest

/-- insert `x` before the first element whose key is not smaller (keeps equal keys in input order
    when used from the right) -/
def insertBy {α} (key : α → Nat) (x : α) : List α → List α
  | [] => [x]
  | y :: ys => if key y < key x then y :: insertBy key x ys else x :: y :: ys

/-- `list.sort(key=…)`: a stable sort. -/
def stableSortBy {α} (key : α → Nat) (l : List α) : List α := l.foldr (insertBy key) []

/-- `s.lower()` for ASCII names. -/
def lowerChars (s : String) : List Char := s.toList.map Char.toLower

/-- `sorted(l)[0]` for a list of strings (`none` for the empty list). -/
def minStr : List String → Option String
  | [] => none
  | x :: xs => match minStr xs with
    | none => some x
    | some m => if m < x then some m else some x

/-- `name.startswith("__")`: hidden tables and fields (parse_recipe_yaml) -/
def hiddenName (s : String) : Bool := s.startsWith "__"

/-! ### `build_dependencies`, `remove_person_contact_id` -/

def isPersonContactLower (s : String) : Bool := lowerChars s == "personcontact".toList

/-- the dependency part of `remove_person_contact_id` -/
def removePersonContactDeps (deps : List Dep) : List Dep :=
  deps.filter (fun d => !(d.frm == "Account" && isPersonContactLower d.to))

/-- the table part of `remove_person_contact_id` -/
def removePersonContactField (tables : List TableInfo) : List TableInfo :=
  tables.map (fun t =>
    if t.name == "Account" then { t with fields := t.fields.filter (fun f => f != "PersonContactId") } else t)

/-- `relevant_declarations = [decl for decl in declarations.values() if decl.load_after]` -/
def relevantDecls (decls : List Decl) : List Decl := decls.filter (fun d => !d.2.isEmpty)

/-- `declared_dependencies`, flattened -/
def declaredDeps (decls : List Decl) : List Dep :=
  (relevantDecls decls).flatMap (fun d => d.2.map (fun t => Dep.mk d.1 t "(none)"))

/-- `reference_fields.get((table, field))`: the last recorded dependency of the field wins -/
def refTarget (deps : List Dep) (table field : String) : Option String :=
  (deps.reverse.find? (fun d => d.frm == table && d.field == field)).map (fun d => d.to)

/-- `{**inferred, **declared}.get(table, OrderedSet())` -/
def effDeps (inferred declared : List Dep) (t : String) : List Dep :=
  if declared.any (fun d => d.frm == t) then declared.filter (fun d => d.frm == t)
  else inferred.filter (fun d => d.frm == t)

/-! ### `_table_is_free`, `sort_dependencies` -/

/-- `_table_is_free(table_name, dependencies, sorted_tables)` -/
def tableIsFree (deps : String → List Dep) (t : String) (sorted : List String) : Bool :=
  (deps t).all (fun d => sorted.contains d.to || d.to == t)

/-- The `while tables:` loop. `breakCycle` is what is appended when an iteration makes no progress. -/
def sortLoop (deps : String → List Dep) (breakCycle : List String → Option (List String)) :
    Nat → List String → List String → Option (List String)
  | 0, _, _ => none
  | fuel + 1, tables, sorted =>
    if tables.isEmpty then some sorted
    else
      let leaf := tables.filter (fun t => tableIsFree deps t sorted)
      let sorted1 := sorted ++ leaf
      let tables1 := tables.filter (fun t => !sorted1.contains t)
      if tables1.length == tables.length then
        match breakCycle tables1 with
        | none => none
        | some extra => sortLoop deps breakCycle fuel tables1 (sorted1 ++ extra)
      else sortLoop deps breakCycle fuel tables1 sorted1

/-- enough fuel for `sortLoop` started on `n` tables (see `sort_terminates`) -/
def sortFuel (n : Nat) : Nat := 2 * n + 1

/-- `sorted_tables.append(sorted(tables)[0])` -/
def breakAlphabetical (tables : List String) : Option (List String) := (minStr tables).map (fun m => [m])

/-- `sort_dependencies({}, declared_dependencies, tables)`: the inner call (its own cycle breaking is
    always the alphabetical one because its `inferred_dependencies` is empty). -/
def sortDeclaredOnly (declared : List Dep) (tables : List String) : Option (List String) :=
  sortLoop (effDeps [] declared) breakAlphabetical (sortFuel tables.length) tables []

/-- `sort_dependencies(inferred_dependencies, declared_dependencies, tables)`.
    `inferredTruthy`: the `inferred_dependencies` dict has a key (some dependency was recorded). -/
def sortDependencies (inferredTruthy : Bool) (inferred declared : List Dep) (tables : List String) :
    Option (List String) :=
  sortLoop (effDeps inferred declared)
    (if inferredTruthy && !declared.isEmpty then sortDeclaredOnly declared else breakAlphabetical)
    (sortFuel tables.length) tables []

/-! ### `load_steps_from_tableinfos` -/

def rawSteps (tables : List TableInfo) : List LoadStep :=
  dedupFirst (tables.flatMap (fun t => t.templates.map (fun k => LoadStep.mk t.name k t.fields)))

def loadSteps (tables : List TableInfo) (order : List String) : Except Err (List LoadStep) :=
  let raw := rawSteps tables
  match raw.find? (fun s => !order.contains s.table) with
  | some s => .error (.valueError s.table)
  | none => .ok (stableSortBy (fun s => order.idxOf s.table) raw)

/-! ### `mappings_from_load_steps` -/

/-- `t.lower().replace("_", "") in ("recordtype", "recordtypeid")` -/
def isRecordTypeName (f : String) : Bool :=
  let n := (f.toList.filter (fun c => c != '_')).map Char.toLower
  n == "recordtype".toList || n == "recordtypeid".toList

/-- `find_record_type_column` -/
def findRecordTypeColumn (table : String) (fields : List String) : Except Err (Option String) :=
  match fields.filter isRecordTypeName with
  | [] => .ok none
  | [c] => .ok (some c)
  | _ => .error (.multipleRecordTypes table)

def stepName (s : LoadStep) : String :=
  match s.updateKey with
  | some k => if truthy s.updateKey then "Upsert " ++ s.table ++ " on " ++ k else "Insert " ++ s.table
  | none => "Insert " ++ s.table

def sfObjectOf (table : String) : String := if table == "PersonContact" then "Contact" else table

def isRef (deps : List Dep) (table field : String) : Bool := (refTarget deps table field).isSome

/-- the `fields` dict of one mapping -/
def plainFields (deps : List Dep) (table : String) (fields : List String) (rt : Option String) :
    List (String × String) :=
  let base := (fields.filter (fun f => !isRef deps table f && some f != rt)).map (fun f => (f, f))
  match rt with
  | some c => if isRef deps table c then base else dictInsert "RecordTypeId" c base
  | none => base

/-- the `lookups` dict of one mapping (before `add_after_statements`) -/
def lookupsOf (deps : List Dep) (table : String) (fields : List String) : List Lookup :=
  fields.filterMap (fun f => (refTarget deps table f).map (fun tgt => Lookup.mk f tgt none))

def mappingOfStep (deps : List Dep) (all : List LoadStep) (s : LoadStep) : Except Err (String × Mapping) :=
  match findRecordTypeColumn s.table s.fields with
  | .error e => .error e
  | .ok rt =>
    let filters :=
      if truthy s.updateKey then ["_sf_update_key = '" ++ s.updateKey.getD "" ++ "'"]
      else if all.any (fun ls => ls.table == s.table && truthy ls.updateKey) then ["_sf_update_key = NULL"]
      else []
    .ok (stepName s,
      { sfObject := sfObjectOf s.table, table := s.table,
        fields := plainFields deps s.table s.fields rt,
        lookups := lookupsOf deps s.table s.fields,
        upsertKey := if truthy s.updateKey then s.updateKey else none,
        filters := filters })

/-- the loop of `mappings_from_load_steps` before `add_after_statements` -/
def mappingsOfSteps (deps : List Dep) (all : List LoadStep) :
    List LoadStep → List (String × Mapping) → Except Err (List (String × Mapping))
  | [], acc => .ok acc
  | s :: rest, acc =>
    match mappingOfStep deps all s with
    | .error e => .error e
    | .ok (n, m) => mappingsOfSteps deps all rest (dictInsert n m acc)

/-! ### `add_after_statements` -/

/-- `indexed_by_sobject[sobj].first_instance` -/
def firstInstance (ms : List (String × Mapping)) (sobj : String) : Option Nat :=
  ms.findIdx? (fun p => p.2.sfObject == sobj)

/-- `indexed_by_sobject[sobj].last_step_name` -/
def lastStepName (ms : List (String × Mapping)) (sobj : String) : Option String :=
  (ms.reverse.find? (fun p => p.2.sfObject == sobj)).map (fun p => p.1)

/-- one lookup of the entry at position `idx`. `indexed_by_sobject.get(target_table)`: a target
    that no entry loads (e.g. a hidden `__` table) is skipped (fix 7f47b5f; before, `KeyError`). The
    post-process cannot fail any more, so it is a total function. -/
def addAfterLookup (ms : List (String × Mapping)) (idx : Nat) (l : Lookup) : Lookup :=
  if l.table == "PersonContact" then l
  else
    match firstInstance ms l.table, lastStepName ms l.table with
    | some fi, some ln =>
      if fi ≥ idx then (if l.after.isSome then l else { l with after := some ln }) else l
    | _, _ => l

def addAfterFrom (ms : List (String × Mapping)) : Nat → List (String × Mapping) → List (String × Mapping)
  | _, [] => []
  | idx, (n, m) :: rest =>
    (n, { m with lookups := m.lookups.map (addAfterLookup ms idx) }) :: addAfterFrom ms (idx + 1) rest

def addAfterStatements (ms : List (String × Mapping)) : List (String × Mapping) :=
  addAfterFrom ms 0 ms

/-! ### `mapping_from_recipe_templates` -/

/-- the table order computed for a summary -/
def tableOrder (tables : List TableInfo) (deps : List Dep) (decls : List Decl) : Option (List String) :=
  sortDependencies (!deps.isEmpty) (removePersonContactDeps deps) (declaredDeps decls)
    (tables.map (fun t => t.name))

/-- the mapping before `add_after_statements` (together with the table order and the load steps) -/
def preMapping (tables : List TableInfo) (deps : List Dep) (decls : List Decl) :
    Except Err (List String × List LoadStep × List (String × Mapping)) :=
  let tables' := removePersonContactField tables
  match tableOrder tables deps decls with
  | none => .error .outOfFuel
  | some order =>
    match loadSteps tables' order with
    | .error e => .error e
    | .ok steps =>
      match mappingsOfSteps deps steps steps [] with
      | .error e => .error e
      | .ok ms => .ok (order, steps, ms)

def mappingFromRecipe (tables : List TableInfo) (deps : List Dep) (decls : List Decl) :
    Except Err (List (String × Mapping)) :=
  match preMapping tables deps decls with
  | .error e => .error e
  | .ok (_, _, ms) => .ok (addAfterStatements ms)

/-! ### the frame of `TableInfo.fields` between parsing and mapping generation -/

/-- An in-place write into a parse-time `TableInfo.fields` dict performed by the run (for instance by
    an output stream that builds its header with `table.fields.setdefault(column, None)`). The code as
    it is has none (pinned: `Gen.MappingGen.fieldsUsesOutsideParser`); the type exists to state what the
    mapping depends on and why the frame condition is needed. -/
structure FieldWrite where
  table : String
  column : String
deriving DecidableEq, Repr

/-- `tables[w.table].fields.setdefault(w.column, None)` -/
def applyWrite (w : FieldWrite) (tables : List TableInfo) : List TableInfo :=
  tables.map (fun t =>
    if t.name == w.table && !t.fields.contains w.column then { t with fields := t.fields ++ [w.column] } else t)

def applyWrites (ws : List FieldWrite) (tables : List TableInfo) : List TableInfo :=
  ws.foldl (fun ts w => applyWrite w ts) tables

/-- The mapping of a whole run: the mapping generator reads the table infos *after* the run, i.e.
    after whatever the run wrote into them. -/
def mappingOfRun (ws : List FieldWrite) (tables : List TableInfo) (deps : List Dep) (decls : List Decl) :
    Except Err (List (String × Mapping)) :=
  mappingFromRecipe (applyWrites ws tables) deps decls

/-! ### continuation (dependencies only) -/

/-- How `Globals.__setstate__` reads a key of the saved state (a `dict`). -/
inductive Access where
  | index     -- `state["k"]`
  | get       -- `state.get("k", default)`
  | getattr   -- `getattr(state, "k", default)`: a dict has no such attribute ⇒ always the default
deriving DecidableEq, Repr

/-- what `__setstate__` makes of the saved dependency list -/
def loadDeps (a : Access) (saved : List Dep) : List Dep :=
  match a with
  | .getattr => []
  | _ => saved

/-- `OrderedSet.add` of the dependencies observed in the continued run onto the loaded ones -/
def continuedDeps (a : Access) (saved observed : List Dep) : List Dep :=
  dedupFirst (loadDeps a saved ++ observed)

end SnowModel.Mapping
