/-
C07 — model of the stopping machinery (L0 arithmetic core + the generation loop).

Mirrors, statement by statement,

* `snowfakery/api.py`: `SnowfakeryApplication` (`stopping_tablename`, `ensure_progress_was_made`,
  `check_if_finished`, class attributes `starting_id = None`, `rep_count = 0`, default criteria
  `StoppingCriteria(COUNT_REPS, 1)`),
* `snowfakery/data_generator_runtime.py`: `IdManager.start_ids` (`{}` for a fresh run,
  `{name: val + 1}` after `__setstate__`), `RuntimeContext.check_if_finished`
  (check_slots_filled → ensure_progress_was_made → check_if_finished),
  `Interpreter.loop_over_templates_until_finished` (whole iteration, then the boundary test) and the
  target-table validation in `Interpreter.__init__`.

An iteration is abstracted to the number of rows (= ids) of the target table it creates:
`r : Nat → Nat`, `r i` for the `i`-th iteration (0-based) *of this run*.  The model follows the code
after the repairs 96e00ac (D20: `starting_id` is `None` until the first boundary of a run, where it
is initialised to `start_ids.get(T, 1) - 1`, the id the run started from) and 6604eb0 (D28: the
validation tests `stop_table_name is not None`, so the empty name is rejected like any unknown
table).  The progress check still tests the *truthiness* of the name (`not self.stopping_tablename`).

Counts are naturals (a negative `count` is outside the model; the property speaks about N ≥ 1,
the model also covers 0).  No Mathlib import: this file is linked into the driver.
-/
namespace SnowModel.Stop

/-- `COUNT_REPS = "__REPS__"` (api.py) -/
def COUNT_REPS : String := "__REPS__"

/-- `StoppingCriteria(tablename, count)` -/
structure Crit where
  tablename : String
  count : Nat
  deriving Repr, DecidableEq

/-- `SnowfakeryApplication(None)`: `stopping_criteria or StoppingCriteria(COUNT_REPS, 1)` -/
def defaultCrit : Crit := ⟨COUNT_REPS, 1⟩

/-- the two mutable attributes of `SnowfakeryApplication` -/
structure App where
  startingId : Option Nat
  repCount : Nat
  deriving Repr, DecidableEq

/-- class attributes `starting_id = None`, `rep_count = 0` -/
def App.init : App := ⟨none, 0⟩

/-- `stopping_tablename`: the table name unless it is `COUNT_REPS` (then `None`). -/
def stoppingTablename (c : Crit) : Option String :=
  if c.tablename ≠ COUNT_REPS then some c.tablename else none

/-- Python truthiness of an `Optional[str]`: `None` and `""` are falsy. -/
def truthy : Option String → Bool
  | none => false
  | some s => s ≠ ""

/-- The recipe-independent part of a run's starting point: the entry of the target table in the
    continuation's `last_used_ids` (`none`: fresh run, or a table the continuation has no entry for). -/
abbrev Cont := Option Nat

/-- `id_manager.start_ids.get(target_table, 1)`; `start_ids = {name: val + 1 …}` after `__setstate__`. -/
def startId : Cont → Nat
  | none => 1
  | some v => v + 1

/-- `id_manager[target_table]` when the run starts (`defaultdict(lambda: 0)`). -/
def last0 : Cont → Nat
  | none => 0
  | some v => v

/-- `target_id = start + count - 1` -/
def targetId (start count : Nat) : Nat := start + count - 1

/-- `return last_used_id >= target_id` -/
def finishedRows (start count last : Nat) : Bool := decide (last ≥ targetId start count)

/-- `self.starting_id` as `ensure_progress_was_made` sees it: `None` (first boundary of the run) is
    replaced by `id_manager.start_ids.get(T, 1) - 1`, the id the run started from. -/
def sidOf (start : Nat) (app : App) : Nat :=
  match app.startingId with
  | none => start - 1
  | some s => s

/-- `ensure_progress_was_made(id_manager)`; `none` = `RuntimeError`. `last` is `id_manager[T]`,
    `start` is `id_manager.start_ids.get(T, 1)`. -/
def ensureProgress (c : Crit) (start : Nat) (app : App) (last : Nat) : Option App :=
  if !truthy (stoppingTablename c) then some app           -- `return False`
  else if last = sidOf start app then none                -- `raise RuntimeError`
  else some { app with startingId := some last }          -- `self.starting_id = last_used_id`

/-- `check_if_finished(id_manager)`: new application state and the verdict. -/
def checkIfFinished (c : Crit) (start : Nat) (app : App) (last : Nat) : App × Bool :=
  let app' := { app with repCount := app.repCount + 1 }   -- `self.rep_count += 1`
  if c.tablename = COUNT_REPS then (app', decide (app'.repCount ≥ c.count))
  else (app', finishedRows start c.count last)

/-- `RuntimeContext.check_if_finished` after `check_slots_filled` succeeded:
    `ensure_progress_was_made` first, then `check_if_finished`. `none` = the run ends with an error. -/
def boundary (c : Crit) (start : Nat) (app : App) (last : Nat) : Option (App × Bool) :=
  match ensureProgress c start app last with
  | none => none
  | some app1 => some (checkIfFinished c start app1 last)

/-- How a run ends. -/
inductive Outcome
  /-- `DataGenNameError("No template creating …")` raised by `Interpreter.__init__`: nothing ran -/
  | rejected
  /-- normal end after `iters` whole iterations; `last` = last id of the target table -/
  | finished (iters last : Nat) (app : App)
  /-- `RuntimeError` raised at the boundary that follows the `iters`-th whole iteration -/
  | noProgress (iters last : Nat)
  /-- the model's fuel ran out after `iters` whole iterations (the real loop is still running) -/
  | outOfFuel (iters : Nat)
  deriving Repr, DecidableEq

/-- `loop_over_templates_until_finished`: iteration `i` runs to completion (creating `r i` rows of
    the target table), then the boundary test decides. `i` = iterations already executed,
    `last` = last id used for the target table. -/
def loop (c : Crit) (start : Nat) (r : Nat → Nat) : Nat → Nat → Nat → App → Outcome
  | 0, i, _, _ => .outOfFuel i
  | fuel + 1, i, last, app =>
    let last' := last + r i
    match boundary c start app last' with
    | none => .noProgress (i + 1) last'
    | some (app', true) => .finished (i + 1) last' app'
    | some (app', false) => loop c start r fuel (i + 1) last' app'

/-- `Interpreter.__init__`:
    `if stop_table_name is not None and stop_table_name not in parse_result.tables: raise` -/
def rejects (tables : List String) (c : Crit) : Bool :=
  (stoppingTablename c).isSome && !(tables.contains c.tablename)

/-- One run with explicit fuel. `tables` = names of the (visible) tables the recipe has templates
    for, `cont` = the target table's entry in the continuation, `r` = rows of the target table per
    iteration of this run. -/
def runFuel (tables : List String) (c : Crit) (cont : Cont) (r : Nat → Nat) (fuel : Nat) : Outcome :=
  if rejects tables c then .rejected
  else loop c (startId cont) r fuel 0 (last0 cont) App.init

/-- Fuel that is always enough unless the loop really diverges (theorem `run_terminates`). -/
def fuelFor (c : Crit) : Nat := c.count + 2

def run (tables : List String) (c : Crit) (cont : Cont) (r : Nat → Nat) : Outcome :=
  runFuel tables c cont r (fuelFor c)

/-- rows of the target table created by the first `i` iterations -/
def cum (r : Nat → Nat) : Nat → Nat
  | 0 => 0
  | i + 1 => cum r i + r i

/-- `r` given as a finite list followed by a constant (driver / examples). -/
def seqOf (l : List Nat) (dflt : Nat) : Nat → Nat := fun i => l.getD i dflt

end SnowModel.Stop
