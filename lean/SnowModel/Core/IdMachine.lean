/-
L1 — the id / forward-reference-slot / name-registry machine
(`IdManager`, `NicknameSlot`, `Transients`, `Globals.register_object / object_names /
generate_id_for_nickname / check_slots_filled / reset_slots`, `RuntimeContext.generate_id`,
`IdManager.__setstate__`).  Import-free.

Every operation mirrors one call of the Python code; the correspondence harness wraps those
calls in the real interpreter, logs one op per call with the observed result, and replays the
log on `step`.  Theorems (Props/C01, C02, C06) are invariants over *arbitrary* op lists, which
over-approximates every recipe, every iteration count and every continuation split.
-/
namespace SnowModel.IdMachine

abbrev Name := String

/-- `NicknameSlot.status` with the id it holds (after the D01 fix the id survives consumption). -/
inductive SlotSt where
  | unused
  | alloc (id : Nat)
  | consumed (id : Nat)
  deriving Repr, DecidableEq

structure Row where
  table : Name
  id : Nat
  deriving Repr, DecidableEq

structure St where
  /-- `Globals.nicknames_and_tables`: name ↦ table (keys unique; it is a dict). -/
  names : List (Name × Name)
  /-- `IdManager.last_used_ids` (defaultdict, 0 when absent). -/
  lastUsed : Name → Nat
  /-- `IdManager.start_ids` (set by `__setstate__` only). -/
  startIds : Name → Option Nat
  /-- `Transients.named_slots[name]` state (only meaningful for keys of `names`). -/
  slot : Name → SlotSt
  /-- `Globals.persistent_nicknames`, `persistent_objects_by_table` -/
  pNick : Name → Option Row
  pTable : Name → Option Row
  /-- `Transients.nicknamed_objects`, `last_seen_obj_by_table` -/
  nickObjs : Name → Option Row
  lastSeen : Name → Option Row
  /-- ghost: every row created so far, whole dataset (all iterations, all continuation runs) -/
  created : List Row
  /-- ghost: references handed out by name lookups during the current iteration -/
  handedOut : List Row

def tableOf (s : St) (name : Name) : Option Name := s.names.lookup name

def init (names : List (Name × Name)) : St :=
  { names := names, lastUsed := fun _ => 0, startIds := fun _ => none, slot := fun _ => .unused,
    pNick := fun _ => none, pTable := fun _ => none, nickObjs := fun _ => none,
    lastSeen := fun _ => none, created := [], handedOut := [] }

def upd {α : Type} (f : Name → α) (k : Name) (v : α) : Name → α := fun x => if x = k then v else f x

inductive Op where
  /-- `_generate_row`: `generate_id(nickname)` then `register_object(obj, nickname, just_once)` -/
  | create (table : Name) (nick : Option Name) (justOnce : Bool)
  /-- `field_vars()[name]` followed by reading `.id` (what `reference: name` does) -/
  | lookup (name : Name)
  /-- end of an iteration: `check_slots_filled`, then `reset_slots` -/
  | endIteration
  /-- write the continuation file and start the next run from it -/
  | saveLoad
  deriving Repr, DecidableEq

inductive Obs where
  | id (n : Nat)        -- the id given to the created row
  | row (r : Row)       -- the name denotes an existing row
  | slot (r : Row)      -- the name denotes a forward-reference slot holding this reserved id
  | notFound            -- no such name
  | ok
  deriving Repr, DecidableEq

inductive Err where
  | unfulfilled (names : List Name)    -- "Reference(s) not fulfilled"
  deriving Repr, DecidableEq

/-- `Globals.generate_id_for_nickname(name, table)`: consume the slot if it is ALLOCATED and
    bound to `table`. -/
def consume (s : St) (name table : Name) : Option (St × Nat) :=
  match tableOf s name, s.slot name with
  | some t, .alloc i =>
    if t = table then some ({ s with slot := upd s.slot name (.consumed i) }, i) else none
  | _, _ => none

/-- `IdManager.generate_id(table)` -/
def fresh (s : St) (table : Name) : St × Nat :=
  ({ s with lastUsed := upd s.lastUsed table (s.lastUsed table + 1) }, s.lastUsed table + 1)

/-- `RuntimeContext.generate_id(nickname)` for a row of `table`:
    nickname slot, else table-name slot, else a fresh id. -/
def generateId (s : St) (table : Name) (nick : Option Name) : St × Nat :=
  match nick.bind (fun n => consume s n table) with
  | some r => r
  | none =>
    match consume s table table with
    | some r => r
    | none => fresh s table

/-- `Globals.register_object(obj, nickname, persistent)` -/
def register (s : St) (r : Row) (nick : Option Name) (justOnce : Bool) : St :=
  let s1 :=
    match nick with
    | some n => if justOnce then { s with pNick := upd s.pNick n (some r) }
                else { s with nickObjs := upd s.nickObjs n (some r) }
    | none => s
  let s2 := if justOnce then { s1 with pTable := upd s1.pTable r.table (some r) } else s1
  { s2 with lastSeen := upd s2.lastSeen r.table (some r) }

/-- `Globals.object_names[name]` (later dict entries override earlier ones: slots, persistent
    nicknames, persistent tables, local nicknames, last seen per table), then `.id`. -/
def lookup (s : St) (name : Name) : St × Obs :=
  match s.lastSeen name with
  | some r => ({ s with handedOut := r :: s.handedOut }, .row r)
  | none =>
  match s.nickObjs name with
  | some r => ({ s with handedOut := r :: s.handedOut }, .row r)
  | none =>
  match s.pTable name with
  | some r => ({ s with handedOut := r :: s.handedOut }, .row r)
  | none =>
  match s.pNick name with
  | some r => ({ s with handedOut := r :: s.handedOut }, .row r)
  | none =>
  match tableOf s name with
  | none => (s, .notFound)
  | some t =>
    match s.slot name with
    | .unused =>
      let (s1, i) := fresh s t
      let r : Row := ⟨t, i⟩
      ({ s1 with slot := upd s1.slot name (.alloc i), handedOut := r :: s1.handedOut }, .slot r)
    | .alloc i => ({ s with handedOut := ⟨t, i⟩ :: s.handedOut }, .slot ⟨t, i⟩)
    | .consumed i => ({ s with handedOut := ⟨t, i⟩ :: s.handedOut }, .slot ⟨t, i⟩)

/-- names whose slot is still ALLOCATED (`check_slots_filled`) -/
def notFilled (s : St) : List Name :=
  (s.names.filter (fun p => match s.slot p.1 with | .alloc _ => true | _ => false)).map (·.1)

/-- `reset_slots()` -/
def resetSlots (s : St) : St :=
  { s with slot := fun _ => .unused, nickObjs := fun _ => none, lastSeen := fun _ => none,
           handedOut := [] }

def step (s : St) : Op → Except Err (St × Obs)
  | .create table nick justOnce =>
    let (s1, i) := generateId s table nick
    let r : Row := ⟨table, i⟩
    let s2 := register s1 r nick justOnce
    .ok ({ s2 with created := s2.created ++ [r] }, .id i)
  | .lookup name => .ok (lookup s name)
  | .endIteration =>
    match notFilled s with
    | [] => .ok (resetSlots s, .ok)
    | l => .error (.unfulfilled l)
  | .saveLoad =>
    -- a continuation file is only written by a run that completed, i.e. whose last
    -- `check_slots_filled` succeeded
    match notFilled s with
    | _ :: _ => .error (.unfulfilled (notFilled s))
    | [] =>
    -- `IdManager.__setstate__`: start_ids = last_used + 1 for every table with a counter; a table
    -- without one reads `start_ids.get(t, 1)` = 1 = 0 + 1, so the total function below is
    -- observationally the same;
    -- `Globals.__setstate__` ends with `reset_slots()`; persistent rows survive.
      .ok ({ resetSlots s with startIds := fun t => some (s.lastUsed t + 1) }, .ok)

def run : St → List Op → Except Err (St × List Obs)
  | s, [] => .ok (s, [])
  | s, op :: ops =>
    match step s op with
    | .error e => .error e
    | .ok (s1, o) =>
      match run s1 ops with
      | .error e => .error e
      | .ok (s2, os) => .ok (s2, o :: os)

/-- ids of the rows created for `table`, in creation order -/
def createdIds (s : St) (table : Name) : List Nat :=
  (s.created.filter (·.table = table)).map (·.id)

/-- ids currently reserved in ALLOCATED slots bound to `table` -/
def allocIds (s : St) (table : Name) : List Nat :=
  s.names.filterMap (fun p =>
    if p.2 = table then (match s.slot p.1 with | .alloc i => some i | _ => none) else none)

end SnowModel.IdMachine
