/-
C17 — datasets are iterated faithfully: in order, cyclically, or exactly once.
Property theorems only (helper lemmas live in `SnowModel/Proofs/C17.lean`).
All statements quantify over every record list (every size), every consumer count / call
number, every repeat flag where it does not matter, and every shuffle oracle.
-/
import SnowModel.Core.DsIter
import SnowModel.Proofs.C17

namespace SnowModel.Props.C17
open SnowModel.DsIter

variable {α : Type}

/-- **k-th next = record k mod n.** A repeating linear iterator (`Dataset.iterate`, CSV or SQL)
    over `n ≥ 1` records: for *every* call number `k` (0-based) the call returns record
    `k mod n` — the restart-on-exhaustion protocol of `PluginResultIterator.next`. -/
theorem iter_kth (recs : List α) (hn : 0 < recs.length) (k : Nat) :
    nth (linearSrc recs) (create (linearSrc recs) true) k
      = .value (recs[k % recs.length]'(Nat.mod_lt _ hn)) := by
  have h := Proofs.C17.nth_create (linearSrc recs) recs.length hn (fun _ => rfl)
    (k / recs.length) (k % recs.length) (Nat.mod_lt _ hn)
  rw [Nat.mul_comm, Nat.div_add_mod] at h
  rw [h]
  simp [linearSrc, Out.ofOption, Nat.mod_lt _ hn]

example : nth (linearSrc ["a", "b", "c"]) (create (linearSrc ["a", "b", "c"]) true) 7 = .value "b" := by
  decide

/-- The whole outcome list of `m` calls, for every `m` (including multiples of `n`). -/
theorem iter_run (recs : List α) (hn : 0 < recs.length) (m : Nat) :
    (runN (linearSrc recs) (create (linearSrc recs) true) m).1
      = (List.range m).map (fun k => .value (recs[k % recs.length]'(Nat.mod_lt _ hn))) := by
  rw [Proofs.C17.runN_eq_map_nth]
  exact List.map_congr_left (fun k _ => iter_kth recs hn k)

/-- `m` consuming rows at a `Dataset.iterate` field: row `k` gets record `k mod n`; no error. -/
theorem consume_repeat (recs : List α) (hn : 0 < recs.length) (m : Nat) :
    (consume (linearSrc recs) (create (linearSrc recs) true) m).1
        = (List.range m).map (fun k => recs[k % recs.length]'(Nat.mod_lt _ hn))
    ∧ (consume (linearSrc recs) (create (linearSrc recs) true) m).2.1 = false := by
  obtain ⟨h1, h2⟩ := Proofs.C17.consume_eq_runN (linearSrc recs) (create (linearSrc recs) true) m
  have e : (List.range m).map (fun k => Out.value (recs[k % recs.length]'(Nat.mod_lt _ hn)))
      = ((List.range m).map (fun k => recs[k % recs.length]'(Nat.mod_lt _ hn))).map Out.value := by
    simp
  rw [h1, h2, iter_run recs hn m, e]
  exact ⟨Proofs.C17.valuesPrefix_map_value _, Proofs.C17.any_isStop_map_value _⟩

example : (consume (linearSrc [10, 20, 30]) (create (linearSrc [10, 20, 30]) true) 6).1
    = [10, 20, 30, 10, 20, 30] := by decide

/-- **n = 0 is an error, not a hang and not a silent default.** Over a dataset without
    records every `next()` raises, whatever the repeat flag, whatever the mode
    (every pass of the source is empty). -/
theorem iter_empty_errors (src : Src α) (hsrc : ∀ j, src j = []) (rep : Bool) (k : Nat) :
    nth src (create src rep) k = .stop := by
  have hc : create src rep = ⟨rep, [], 1⟩ := by simp [create, start, hsrc]
  obtain ⟨c', h⟩ := Proofs.C17.runN_empty src hsrc rep 1 k
  obtain ⟨c'', h2⟩ := Proofs.C17.next_empty src hsrc rep c'
  simp only [nth, hc, h, h2]

/-- …so the first consuming row already gets the recipe error and nothing is written. -/
theorem consume_empty_errors (src : Src α) (hsrc : ∀ j, src j = []) (rep : Bool) (m : Nat) :
    (consume src (create src rep) (m + 1)).1 = [] ∧ (consume src (create src rep) (m + 1)).2.1 = true := by
  have h := iter_empty_errors src hsrc rep 0
  simp only [nth, runN] at h
  simp only [consume]
  cases hn : next src (create src rep) with
  | mk o it1 =>
    rw [hn] at h
    simp only at h
    subst h
    exact ⟨rfl, rfl⟩

example : nth (linearSrc ([] : List Nat)) (create (linearSrc []) true) 3 = .stop := by decide

/-- **Exactly once.** A non-repeating linear iterator (`repeat: False`) hands out its `n` records
    in order and then raises on every further call: no silent reuse. -/
theorem norepeat_exhausts (recs : List α) (k : Nat) :
    nth (linearSrc recs) (create (linearSrc recs) false) k
      = if h : k < recs.length then .value recs[k] else .stop := by
  have hc : create (linearSrc recs) false = ⟨false, recs, 1⟩ := rfl
  rw [hc]
  split
  · next h => exact Proofs.C17.nth_norepeat_lt _ recs 1 k h
  · next h => exact Proofs.C17.nth_norepeat_ge _ recs 1 k (by omega)

/-- Rows at a non-repeating field site: the first `min m n` rows get the records in order; asking
    for more (`m > n`) is an error raised at row `n`. -/
theorem consume_norepeat (recs : List α) (m : Nat) :
    (consume (linearSrc recs) (create (linearSrc recs) false) m).1 = recs.take m
    ∧ (consume (linearSrc recs) (create (linearSrc recs) false) m).2.1 = decide (recs.length < m) := by
  obtain ⟨h1, h2⟩ := Proofs.C17.consume_eq_runN (linearSrc recs) (create (linearSrc recs) false) m
  have hc : create (linearSrc recs) false = ⟨false, recs, 1⟩ := rfl
  rw [h1, h2, hc]
  by_cases hm : m ≤ recs.length
  · rw [Proofs.C17.runN_pending _ false recs 1 m hm]
    simp only [Proofs.C17.valuesPrefix_map_value, Proofs.C17.any_isStop_map_value]
    refine ⟨trivial, ?_⟩
    have : ¬ recs.length < m := by omega
    simp [this]
  · have e : m = recs.length + (m - recs.length) := by omega
    obtain ⟨d, hd⟩ : ∃ d, m - recs.length = d + 1 := ⟨m - recs.length - 1, by omega⟩
    rw [e, Proofs.C17.runN_add, Proofs.C17.runN_pending _ false recs 1 recs.length (Nat.le_refl _)]
    simp only [List.take_length, List.drop_length, Proofs.C17.runN_stopped, hd, List.replicate_succ]
    refine ⟨?_, ?_⟩
    · rw [Proofs.C17.valuesPrefix_append_stop]
      rw [List.take_of_length_le (by omega)]
    · have : recs.length < recs.length + (d + 1) := by omega
      simp [Out.isStop, this]

example : consume (linearSrc [1, 2, 3]) (create (linearSrc [1, 2, 3]) false) 5
    = ([1, 2, 3], true, ⟨false, [], 1⟩) := by decide

/-- The `n` outcomes of cycle `c` (calls `c*n … c*n + n-1`). -/
def block (src : Src α) (it : Iter α) (n c : Nat) : List (Out α) :=
  (List.range n).map (fun r => nth src it (c * n + r))

/-- **Block structure for any source**: if every pass has `n ≥ 1` records, cycle `c` of a
    repeating iterator hands out exactly pass `c`, in the order of that pass. -/
theorem cycle_is_pass (src : Src α) (n : Nat) (hn : 0 < n) (hlen : ∀ j, (src j).length = n) (c : Nat) :
    block src (create src true) n c = (src c).map .value := by
  unfold block
  apply List.ext_getElem
  · simp [hlen c]
  · intro i h1 h2
    simp only [List.length_map, List.length_range] at h1
    simp only [List.getElem_map, List.getElem_range]
    rw [Proofs.C17.nth_create src n hn hlen c i h1]
    have : i < (src c).length := by rw [hlen c]; exact h1
    simp [Out.ofOption, this]

/-- **Shuffle = a permutation per cycle.** For every shuffle oracle whose passes are
    permutations of the record list (`random.shuffle` of all rows for CSV — see `shuffle_perm` —
    and `ORDER BY random()` for SQL), each cycle of `n` calls of `Dataset.shuffle` hands out every
    record exactly once (with multiplicity). -/
theorem shuffle_cycle_perm (recs : List α) (src : Src α) (hn : 0 < recs.length)
    (hperm : ∀ j, (src j).Perm recs) (c : Nat) :
    ∃ pass : List α, block src (create src true) recs.length c = pass.map .value ∧ pass.Perm recs :=
  ⟨src c, cycle_is_pass src recs.length hn (fun j => (hperm j).length_eq) c, hperm c⟩

/-- The model of CPython's `random.shuffle` returns a permutation of its input for **every**
    sequence of draws (out-of-range or missing draws included). -/
theorem shuffle_perm (ds : List Nat) (l : List α) : (shuffle ds l).Perm l :=
  Proofs.C17.fy_perm _ _ _

/-- `Dataset.shuffle` over a CSV file, for every draw stream. -/
theorem csv_shuffle_cycle_perm (recs : List α) (draws : Nat → List Nat) (hn : 0 < recs.length) (c : Nat) :
    ∃ pass : List α, block (shuffledSrc recs draws) (create (shuffledSrc recs draws) true) recs.length c
        = pass.map .value ∧ pass.Perm recs :=
  shuffle_cycle_perm recs _ hn (fun j => shuffle_perm (draws j) recs) c

example : shuffle [0, 0] ["a", "b", "c"] = ["b", "c", "a"] := by decide
example : block (shuffledSrc [1, 2, 3] (fun j => [j, j])) (create (shuffledSrc [1, 2, 3] (fun j => [j, j])) true) 3 1
    = [.value 1, .value 3, .value 2] := by decide

/-- A non-repeating shuffled iterator hands out one permutation and then raises. -/
theorem shuffle_norepeat (src : Src α) (k : Nat) :
    nth src (create src false) k = if h : k < (src 0).length then .value (src 0)[k] else .stop := by
  have hc : create src false = ⟨false, src 0, 1⟩ := rfl
  rw [hc]
  split
  · next h => exact Proofs.C17.nth_norepeat_lt _ (src 0) 1 k h
  · next h => exact Proofs.C17.nth_norepeat_ge _ (src 0) 1 k (by omega)

/-- **for_each: exactly one row per record, in order, `child_index` 0..n-1, then stop** — whatever
    `repeat` the recipe declared on the dataset (the evaluation forces it off), for every
    dataset size including 0.  `fuel` only has to exceed the number of records. -/
theorem for_each_rows (src : Src α) (declaredRepeat : Bool) (fuel : Nat) (hf : (src 0).length < fuel) :
    forEachExec src declaredRepeat fuel = some ((src 0).zipIdx 0) := by
  have hc : evaluateForEach (create src declaredRepeat) = ⟨false, src 0, 1⟩ := rfl
  simp only [forEachExec, hc, Proofs.C17.zipLoop_norepeat src (src 0) 1 0 fuel hf, Option.map_some]

/-- the `child_index` column of those rows is `0, 1, …, n-1` and the record column is the file -/
theorem for_each_columns (l : List α) : (l.zipIdx 0).map (·.2) = List.range l.length
    ∧ (l.zipIdx 0).map (·.1) = l := by
  refine ⟨?_, ?_⟩
  · apply List.ext_getElem <;> simp
  · apply List.ext_getElem <;> simp

example : forEachExec (linearSrc ["x", "y"]) true 5 = some [("x", 0), ("y", 1)] := by decide
example : forEachExec (linearSrc ([] : List Nat)) true 1 = some [] := by decide

/-- What `ret.repeat = False` is for: with the declared default (`repeat = True`) left in place
    the row loop over a non-empty dataset would never end, for any amount of fuel. -/
theorem for_each_needs_norepeat (src : Src α) (hsrc : ∀ j, src j ≠ []) (fuel : Nat) :
    forEachExecKeepingRepeat src true fuel = none := by
  simp only [forEachExecKeepingRepeat, create, start,
    Proofs.C17.zipLoop_repeat_none src hsrc fuel, Option.map_none]

/-- Every execution of the template (each iteration of the recipe, each row of an enclosing
    template) starts a new iterator and again emits one row per record. -/
theorem for_each_every_execution (srcs : Nat → Src α) (declaredRepeat : Bool) (fuel e : Nat)
    (hf : ∀ i, i < e → (srcs i 0).length < fuel) :
    forEachExecs srcs declaredRepeat fuel e
      = some ((List.range e).map (fun i => (srcs i 0).zipIdx 0)) := by
  induction e with
  | zero => rfl
  | succ e ih =>
    have h1 := ih (fun i hi => hf i (by omega))
    have h2 := for_each_rows (srcs e) declaredRepeat fuel (hf e (by omega))
    simp only [forEachExecs, h1, h2, List.range_succ, List.map_append, List.map_cons, List.map_nil]

/-! ### placement: a consuming site inside a `for_each` template or an update-mode recipe

Before fix a90df5d (defect D40, found as D23) `ForEachVariableDefinition.evaluate` left
`recalculate_every_time = True` on the template's context; the full-strength statements below
were refuted then.  The model now follows the repaired code (`forEachFlagRestored = true`, pinned)
and they are proved; the old behaviour stays available as `consumeAtWith false`. -/

/-- the placement does not matter any more: a site inside a for_each template / update recipe
    consumes exactly like one outside -/
theorem consumeAt_placement_irrelevant (insideForEach : Bool) (src : Src α) (rep : Bool) (m : Nat) :
    consumeAt insideForEach src rep m
      = ((consume src (create src rep) m).1, (consume src (create src rep) m).2.1) := by
  simp [consumeAt, consumeAtWith, forEachFlagRestored]

/-- **Every placement** (full strength; was `site_kth_every_placement_refuted` + `_partial`):
    at a `Dataset.iterate` site — top-level, nested, friend, inside a `for_each` template (own
    field, nested, friend) or in an update-mode recipe — consuming row `k` gets `recs[k mod n]`,
    for every record list with n ≥ 1 and every consumer count `m`; no error. -/
theorem site_kth_every_placement (insideForEach : Bool) (recs : List α) (hn : 0 < recs.length) (m : Nat) :
    (consumeAt insideForEach (linearSrc recs) true m).1
        = (List.range m).map (fun k => recs[k % recs.length]'(Nat.mod_lt _ hn))
    ∧ (consumeAt insideForEach (linearSrc recs) true m).2 = false := by
  rw [consumeAt_placement_irrelevant]
  exact consume_repeat recs hn m

example : (consumeAt true (linearSrc [10, 20]) true 5).1 = [10, 20, 10, 20, 10] := by decide

/-- **Exhaustion is an error in every placement** (full strength; was
    `norepeat_inside_for_each_refuted`): a `repeat: False` site hands out `recs.take m` and fails
    iff `m > n`, also inside a for_each template / update recipe — no silent reuse. -/
theorem norepeat_exhausts_every_placement (insideForEach : Bool) (recs : List α) (m : Nat) :
    (consumeAt insideForEach (linearSrc recs) false m).1 = recs.take m
    ∧ (consumeAt insideForEach (linearSrc recs) false m).2 = decide (recs.length < m) := by
  rw [consumeAt_placement_irrelevant]
  exact consume_norepeat recs m

example : consumeAt true (linearSrc ["only"]) false 2 = (["only"], true) := by decide

/-- …and an empty dataset is an error at the first consuming row in every placement. -/
theorem empty_errors_every_placement (insideForEach : Bool) (src : Src α) (hsrc : ∀ j, src j = [])
    (rep : Bool) (m : Nat) :
    consumeAt insideForEach src rep (m + 1) = ([], true) := by
  rw [consumeAt_placement_irrelevant]
  obtain ⟨h1, h2⟩ := consume_empty_errors src hsrc rep m
  rw [h1, h2]

/-- Shuffled site in every placement: the rows of every full cycle are a permutation of the
    records (through `cycle_is_pass`: the consumed records are the passes, in order). -/
theorem shuffle_site_every_placement (insideForEach : Bool) (recs : List α) (src : Src α)
    (hn : 0 < recs.length) (hperm : ∀ j, (src j).Perm recs) (c : Nat) :
    (consumeAt insideForEach src true ((c + 1) * recs.length)).2 = false
    ∧ ∃ pass : List α, ((consumeAt insideForEach src true ((c + 1) * recs.length)).1.drop (c * recs.length)) = pass
        ∧ pass.Perm recs := by
  rw [consumeAt_placement_irrelevant]
  obtain ⟨h1, h2⟩ := Proofs.C17.consume_eq_runN src (create src true) ((c + 1) * recs.length)
  have hlen : ∀ j, (src j).length = recs.length := fun j => (hperm j).length_eq
  -- every call returns a value: outcome k is record (k mod n) of pass (k div n)
  have hnth : ∀ k, nth src (create src true) k
      = Out.ofOption (src (k / recs.length))[k % recs.length]? := by
    intro k
    have h := Proofs.C17.nth_create src recs.length hn hlen (k / recs.length) (k % recs.length)
      (Nat.mod_lt _ hn)
    rwa [Nat.mul_comm, Nat.div_add_mod] at h
  have hval : ∀ k, nth src (create src true) k
      = Out.value ((src (k / recs.length))[k % recs.length]'(by rw [hlen]; exact Nat.mod_lt _ hn)) := by
    intro k
    rw [hnth k]
    have : k % recs.length < (src (k / recs.length)).length := by rw [hlen]; exact Nat.mod_lt _ hn
    simp [Out.ofOption, this]
  have houts : ∀ M, (runN src (create src true) M).1
      = ((List.range M).map (fun k => (src (k / recs.length))[k % recs.length]'(by
          rw [hlen]; exact Nat.mod_lt _ hn))).map Out.value := by
    intro M
    rw [Proofs.C17.runN_eq_map_nth, List.map_map]
    exact List.map_congr_left (fun k _ => hval k)
  refine ⟨?_, ?_⟩
  · show (consume src (create src true) ((c + 1) * recs.length)).2.1 = false
    rw [h2, houts]; exact Proofs.C17.any_isStop_map_value _
  · refine ⟨src c, ?_, hperm c⟩
    show (consume src (create src true) ((c + 1) * recs.length)).1.drop (c * recs.length) = src c
    rw [h1, houts, Proofs.C17.valuesPrefix_map_value]
    apply List.ext_getElem
    · simp [hlen c, Nat.add_mul]
    · intro i hi1 hi2
      have hi : i < recs.length := by rw [hlen c] at hi2; exact hi2
      simp only [List.getElem_drop, List.getElem_map, List.getElem_range]
      have e1 : (c * recs.length + i) / recs.length = c := by
        rw [Nat.mul_comm, Nat.mul_add_div hn, Nat.div_eq_of_lt hi, Nat.add_zero]
      have e2 : (c * recs.length + i) % recs.length = i := by
        rw [Nat.mul_comm, Nat.mul_add_mod, Nat.mod_eq_of_lt hi]
      simp only [e1, e2]

/-! #### the old behaviour, explicitly parameterised (`flagRestored := false`) -/

/-- Without the restore (code before a90df5d) the every-placement statement is false:
    inside a `for_each` template the second row gets the first record again. -/
theorem site_kth_without_restore_refuted :
    ¬ (∀ (insideForEach : Bool) (recs : List Nat) (hn : 0 < recs.length) (m : Nat),
        (consumeAtWith false insideForEach (linearSrc recs) true m).1
          = (List.range m).map (fun k => recs[k % recs.length]'(Nat.mod_lt _ hn))) := by
  intro h
  have := h true [10, 20] (by decide) 2
  revert this
  decide

/-- What the old code did instead: inside a `for_each` template every consuming row got the
    **first** record, for every `m`, whatever the `repeat` flag, and never an error. -/
theorem site_without_restore_always_first (recs : List α) (hn : 0 < recs.length) (rep : Bool) (m : Nat) :
    consumeAtWith false true (linearSrc recs) rep m = (List.replicate m (recs[0]'hn), false) := by
  have hfresh : ∀ k, consumeFresh (fun _ => linearSrc recs) rep m k = (List.replicate m (recs[0]'hn), false) := by
    induction m with
    | zero => intro k; rfl
    | succ m ih =>
      intro k
      cases recs with
      | nil => simp at hn
      | cons x xs =>
        have hnx : next (linearSrc (x :: xs)) (create (linearSrc (x :: xs)) rep)
            = (.value x, ⟨rep, xs, 1⟩) := rfl
        have ih' := ih (k + 1)
        simp only [List.getElem_cons_zero] at ih' ⊢
        simp only [consumeFresh, hnx, ih', List.replicate_succ]
  simp [consumeAtWith, forEachRecalculates, hfresh 0]

/-- …so a non-repeating dataset was silently reused there (old behaviour only). -/
theorem norepeat_without_restore_reused :
    consumeAtWith false true (linearSrc ["only"]) false 2 = (["only", "only"], false) := by decide

/-- the restore is exactly what separates the two behaviours: with it, `consumeAtWith` does not
    look at the placement -/
theorem restore_makes_placement_irrelevant (insideForEach : Bool) (src : Src α) (rep : Bool) (m : Nat) :
    consumeAtWith true insideForEach src rep m = consumeAtWith true false src rep m := by
  simp [consumeAtWith]

/-! ### several consumers of the same dataset do not influence each other -/

/-- **Independence.** Under *every* interleaving of the operations of two consumers (values taken,
    iterators rebuilt by `for_each`), what consumer A observes is exactly what it would observe
    alone with its own operations — whatever B's source, state and operations are; and vice
    versa.  The final states are the stand-alone final states as well. -/
theorem consumers_independent (srcA srcB : Src α) (a b : Iter α) (ops : List (Bool × Op)) :
    projOuts true (runTwo srcA srcB (a, b) ops).1 = (runOps srcA a (projOps true ops)).1
    ∧ projOuts false (runTwo srcA srcB (a, b) ops).1 = (runOps srcB b (projOps false ops)).1
    ∧ (runTwo srcA srcB (a, b) ops).2 = ((runOps srcA a (projOps true ops)).2, (runOps srcB b (projOps false ops)).2) := by
  induction ops generalizing a b with
  | nil => exact ⟨rfl, rfl, rfl⟩
  | cons p ops ih =>
    obtain ⟨who, op⟩ := p
    cases who with
    | true =>
      obtain ⟨h1, h2, h3⟩ := ih (stepOp srcA a op).2 b
      refine ⟨?_, ?_, ?_⟩
      · simp [runTwo, projOuts, projOps, runOps] at h1 ⊢
        exact h1
      · simp only [runTwo, projOuts, projOps] at h2 ⊢
        simpa using h2
      · simp only [runTwo, projOps] at h3 ⊢
        simp [runOps, h3]
    | false =>
      obtain ⟨h1, h2, h3⟩ := ih a (stepOp srcB b op).2
      refine ⟨?_, ?_, ?_⟩
      · simp only [runTwo, projOuts, projOps] at h1 ⊢
        simpa using h1
      · simp [runTwo, projOuts, projOps, runOps] at h2 ⊢
        exact h2
      · simp only [runTwo, projOps] at h3 ⊢
        simp [runOps, h3]

/-- The k-th value of consumer A does not depend on the operations of consumer B: two schedules
    with the same A-operations give A the same results, for any B-sources, B-states, B-operations. -/
theorem kth_of_A_independent_of_B (srcA srcB srcB' : Src α) (a b b' : Iter α)
    (ops ops' : List (Bool × Op)) (h : projOps true ops = projOps true ops') :
    projOuts true (runTwo srcA srcB (a, b) ops).1 = projOuts true (runTwo srcA srcB' (a, b') ops').1 := by
  rw [(consumers_independent srcA srcB a b ops).1, (consumers_independent srcA srcB' a b' ops').1, h]

/-- a consumer that only takes values sees `runN` -/
theorem runOps_next_only (src : Src α) (it : Iter α) (m : Nat) :
    (runOps src it (List.replicate m Op.next)).1 = (runN src it m).1.map some := by
  induction m generalizing it with
  | zero => rfl
  | succ m ih => simp [List.replicate_succ, runOps, stepOp, runN, ih]

/-- Hence, in every interleaving with any other consumer of the same file: a `Dataset.iterate`
    consumer that takes `m` values gets `recs[k mod n]` as its k-th value (each consumer has its own
    position)… -/
theorem interleaved_iter_kth (recs : List α) (hn : 0 < recs.length) (srcB : Src α) (b : Iter α)
    (ops : List (Bool × Op)) (m : Nat) (hA : projOps true ops = List.replicate m Op.next) :
    projOuts true (runTwo (linearSrc recs) srcB (create (linearSrc recs) true, b) ops).1
      = (List.range m).map (fun k => some (.value (recs[k % recs.length]'(Nat.mod_lt _ hn)))) := by
  rw [(consumers_independent _ srcB _ b ops).1, hA, runOps_next_only, iter_run recs hn m]
  simp

/-- …and every cycle of `n` values of a `Dataset.shuffle` consumer is a permutation of the file,
    whatever the other consumer does in between (new cycles, new iterators over the same file). -/
theorem interleaved_shuffle_cycle_perm (recs : List α) (srcA : Src α) (hn : 0 < recs.length)
    (hperm : ∀ j, (srcA j).Perm recs) (srcB : Src α) (b : Iter α) (ops : List (Bool × Op)) (c : Nat)
    (hA : projOps true ops = List.replicate ((c + 1) * recs.length) Op.next) :
    ∃ pass : List α, ((projOuts true (runTwo srcA srcB (create srcA true, b) ops).1).drop (c * recs.length))
        = pass.map (fun x => some (.value x)) ∧ pass.Perm recs := by
  refine ⟨srcA c, ?_, hperm c⟩
  rw [(consumers_independent srcA srcB _ b ops).1, hA, runOps_next_only, Proofs.C17.runN_eq_map_nth]
  have hlen : ∀ j, (srcA j).length = recs.length := fun j => (hperm j).length_eq
  apply List.ext_getElem
  · simp [hlen c, Nat.add_mul]
  · intro i hi1 hi2
    have hi : i < recs.length := by simpa [hlen c] using hi2
    simp only [List.getElem_drop, List.getElem_map, List.getElem_range]
    rw [Proofs.C17.nth_create srcA recs.length hn hlen c i hi]
    have : i < (srcA c).length := by rw [hlen c]; exact hi
    simp [Out.ofOption, this]

example : projOuts true (runTwo (linearSrc [1, 2, 3]) (shuffledSrc [1, 2, 3] (fun j => [j, j]))
      (create (linearSrc [1, 2, 3]) true, create (shuffledSrc [1, 2, 3] (fun j => [j, j])) true)
      [(true, .next), (false, .next), (false, .renew true), (true, .next), (false, .next), (true, .next), (true, .next)]).1
    = [some (.value 1), some (.value 2), some (.value 3), some (.value 1)] := by decide

/-! ### call sites keep their own iterator: the state store keyed per call-site object -/

/-- In every schedule of consuming rows over the store, the values seen under key `k` are those of
    one iterator of its own, started from record 0 (or from what the store already held),
    whatever happens under the other keys. -/
theorem store_key_independent {K : Type} [DecidableEq K] (src : Src α) (rep : Bool) (st : Store K α)
    (ks : List K) (k : K) :
    ((storeRun src rep st ks).1.filter (fun p => decide (p.1 = k))).map (·.2)
      = (runN src ((st k).getD (create src rep)) (ks.count k)).1 := by
  induction ks generalizing st with
  | nil => rfl
  | cons k' ks ih =>
    by_cases h : k' = k
    · subst h
      have := ih (storeStep src rep st k').2
      simp only [storeRun, List.filter_cons, decide_true, if_true, List.map_cons, List.count_cons_self, runN]
      rw [this]
      simp [storeStep]
    · have := ih (storeStep src rep st k').2
      have hne : (k' == k) = false := by simpa using h
      simp only [storeRun, List.filter_cons, h, decide_false, List.count_cons, hne]
      simp only [Bool.false_eq_true, if_false, Nat.add_zero]
      rw [this]
      simp [storeStep, Ne.symm h]

/-- number of rows of site `s` in the schedule = number of its key in the key schedule (injectivity) -/
theorem count_key_eq {S K : Type} [DecidableEq K] [DecidableEq S] (key : S → K)
    (hinj : Function.Injective key) (sched : List S) (s : S) :
    (sched.map key).count (key s) = sched.count s := by
  induction sched with
  | nil => rfl
  | cons t ts ih =>
    by_cases h : t = s
    · subst h; simp [ih]
    · have : key t ≠ key s := fun e => h (hinj e)
      simp [h, this, ih]

/-- **Every call site iterates independently from record 0**: with a key function that gives
    different call sites different keys (object identity), the k-th consuming row of a
    `Dataset.iterate` site gets `recs[k mod n]`, for every schedule in which other sites of the same
    file consume in between — macros included by several templates and several blocks on one
    source line included, because the key is not the source position. -/
theorem site_keyed_iter_kth {S K : Type} [DecidableEq K] [DecidableEq S] (key : S → K) (hinj : Function.Injective key)
    (recs : List α) (hn : 0 < recs.length) (sched : List S) (s : S) :
    ((storeRun (linearSrc recs) true (fun _ => none) (sched.map key)).1.filter
        (fun p => decide (p.1 = key s))).map (·.2)
      = (List.range (sched.count s)).map
          (fun k => Out.value (recs[k % recs.length]'(Nat.mod_lt _ hn))) := by
  rw [store_key_independent, count_key_eq key hinj]
  exact iter_run recs hn _

/-- Why the key must be per object: if two call sites get the **same** key (e.g. a key made of
    file, line and function name for a macro included twice), the second site continues the first
    one's iterator — its first row gets record 1, not record 0. -/
theorem shared_key_interferes :
    (storeRun (linearSrc ["r0", "r1", "r2"]) true (fun _ => none)
        ((["siteA", "siteB"]).map (fun _ => "recipe.yml:5:Dataset.iterate"))).1.map (·.2)
      = [.value "r0", .value "r1"]
    ∧ (storeRun (linearSrc ["r0", "r1", "r2"]) true (fun _ => none)
        ((["siteA", "siteB"]).map (fun (s : String) => s))).1.map (·.2)
      = [.value "r0", .value "r0"] := by decide

/-- **update mode: one row per input record, in input order, and it stops** — the first
    iteration emits the `n` rows; because the single shared iterator does not repeat, any
    further iteration of the recipe emits nothing. -/
theorem update_mode_rows (recs : List α) (fuel iters : Nat) (hf : recs.length < fuel) :
    updateRun recs fuel (iters + 1) = some (recs.zipIdx 0 :: List.replicate iters []) := by
  have h0 : 0 < fuel := by omega
  have hrest : ∀ k, updateIters (linearSrc recs) fuel k ⟨false, [], 1⟩ = some (List.replicate k []) := by
    intro k
    induction k with
    | zero => rfl
    | succ k ih =>
      have hz := Proofs.C17.zipLoop_norepeat (linearSrc recs) [] 1 0 fuel (by simpa using h0)
      have he : evaluateForEach (⟨false, [], 1⟩ : Iter α) = ⟨false, [], 1⟩ := rfl
      simp only [updateIters, he, hz, ih, List.zipIdx_nil, List.replicate_succ]
  have hc : evaluateForEach (create (linearSrc recs) updateRepeat) = ⟨false, recs, 1⟩ := rfl
  simp only [updateRun, updateIters, hc,
    Proofs.C17.zipLoop_norepeat (linearSrc recs) recs 1 0 fuel hf, hrest]

example : updateRun ["r0", "r1", "r2"] 4 2 = some [[("r0", 0), ("r1", 1), ("r2", 2)], []] := by decide

end SnowModel.Props.C17
