/-
C02 for recipes — no dangling references through the L2 reference interpreter: in the output of a
completed chain of runs (any iteration counts, any continuation boundaries) every reference value
names a table and an id such that a row with that table and id was created (hidden target tables
included; for visible ones the row is in the output by `C01L2.out_ids_are_row_ids`).
This lifts `Props/C02` (arbitrary op sequences of the L1 machine) to arbitrary recipes.
Statements are fixed; helper lemmas go to `Proofs/L2Refs.lean`.
-/
import SnowModel.Core.L2
import SnowModel.Props.C01L2
import SnowModel.Proofs.L2Refs

namespace SnowModel.Props.C02L2
open SnowModel.L2 SnowModel.Props.C01L2

/-- the reference cells of an output row -/
def refsOf (o : OutRow) : List (String × Nat) :=
  o.fields.filterMap (fun p => match p.2 with | .ref t i => some (t, i) | _ => none)

/-- a reference cell of an output row comes from one of its fields -/
theorem mem_refsOf {o : OutRow} {ti : String × Nat} (h : ti ∈ refsOf o) :
    ∃ p ∈ o.fields, p.2 = .ref ti.1 ti.2 := by
  unfold refsOf at h
  obtain ⟨p, hp, he⟩ := List.mem_filterMap.1 h
  refine ⟨p, hp, ?_⟩
  split at he
  · next t i hpi =>
    simp only [Option.some.injEq] at he
    subst he
    exact hpi
  · cases he

/-- **Every emitted reference resolves**: for every recipe without a field named `id`, a completed
    chain leaves no reference cell in the output whose (table, id) is not the id of a created row
    of that table. -/
theorem C02_recipes (fuel : Nat) (r : Recipe) (hid : NoIdField r) (fs : Bool) (parts : List Nat)
    (s : St) (h : chain fuel r fs parts false (initSt r) = .ok s) :
    ∀ o ∈ s.out, ∀ ti ∈ refsOf o, ti.2 ∈ rowIds s ti.1 := by
  intro o ho ti hti
  obtain ⟨p, hp, e⟩ := mem_refsOf hti
  exact (chain_refs noIdP fuel r (show noIdP.st r.statements from hid) fs parts s h o ho p hp _ _ e).1

/-- a reference cell never carries a placeholder: ids are positive and at most the table's counter -/
theorem C02_ref_ids_in_range (fuel : Nat) (r : Recipe) (hid : NoIdField r) (fs : Bool) (parts : List Nat)
    (s : St) (h : chain fuel r fs parts false (initSt r) = .ok s) :
    ∀ o ∈ s.out, ∀ ti ∈ refsOf o, 1 ≤ ti.2 ∧ ti.2 ≤ lastUsedOf s ti.1 := by
  intro o ho ti hti
  obtain ⟨p, hp, e⟩ := mem_refsOf hti
  exact (chain_refs noIdP fuel r (show noIdP.st r.statements from hid) fs parts s h o ho p hp _ _ e).2

/-- **A forward reference that is never fulfilled makes the run fail**: if after the statements of
    an iteration some slot is still ALLOCATED, `iterations` returns a recipe error. -/
theorem unfulfilled_fails (fuel : Nat) (r : Recipe) (k : Nat) (c c1 : Ctx) (cont : Bool) (s s1 : St)
    (he : execStmts fuel c r.statements cont s = .ok (c1, s1)) (hn : notFilled s1 ≠ []) :
    iterations fuel r (k + 1) c cont s = .error (.recipe "reference not fulfilled") := by
  simp only [iterations, he]
  cases hnf : notFilled s1 with
  | nil => exact absurd hnf hn
  | cons a l => rfl

/-! ### Non-vacuity -/
#guard (match chain 300 C01L2.demo false [2, 1] false (initSt C01L2.demo) with
        | .ok s => (s.out.map refsOf).flatten.length == 12 && (s.out.map refsOf).flatten.all (fun ti => (rowIds s ti.1).contains ti.2)
        | .error _ => false)

end SnowModel.Props.C02L2
