/-
C20 — bridging lemmas: the definitions regenerated from the Python AST on every run
(`Gen.ParseTables.*` from parse_recipe_yaml.py, `Gen.GenerateOrder.*` from data_generator.py and
data_generator_runtime.py) coincide with what the hand-written model `SnowModel.ParseCheck`
assumes (repository HEAD 66ecebf, after the `fix:` commits that repaired D17a…D17ac).  A changed
key/type table, a check added to or removed from `parse_element`, a removed validation check (or
a new `assert`), another exception class, another order of the validation steps changes a
generated file and one of these lemmas stops type-checking.
-/
import SnowModel.Core.ParseCheck
import SnowModel.Generated.ParseTables
import SnowModel.Generated.GenerateOrder
import SnowModel.Generated.PluginResolve

namespace SnowModel.Props.C20Bridge
open SnowModel.ParseCheck

def names (t : KeyTable) : List (String × List String) := t.map (fun p => (p.1, p.2.map Ty.name))

/-! #### the key / type tables handed to `parse_element` -/

theorem object_table :
    Gen.ParseTables.objectElement = "object" ∧ Gen.ParseTables.objectMandatory = names []
    ∧ Gen.ParseTables.objectOptional = names objectKeys := by decide

theorem var_table :
    Gen.ParseTables.varElement = "var" ∧ Gen.ParseTables.varMandatory = names varMandatory
    ∧ Gen.ParseTables.varOptional = names [] := by decide

theorem forEach_table :
    Gen.ParseTables.forEachElement = "var" ∧ Gen.ParseTables.forEachMandatory = names forEachMandatory
    ∧ Gen.ParseTables.forEachOptional = names [] := by decide

theorem macro_table :
    Gen.ParseTables.macroElement = "macro" ∧ Gen.ParseTables.macroMandatory = names []
    ∧ Gen.ParseTables.macroOptional = names macroKeys := by decide

theorem includeFile_table :
    Gen.ParseTables.includeFileElement = "include_file" ∧ Gen.ParseTables.includeFileMandatory = names []
    ∧ Gen.ParseTables.includeFileOptional = names [] := by decide

/-- `for_each` requires its `var` key (fix 6ccffd4): what makes `forEachNoVar` unreachable -/
theorem forEach_var_mandatory :
    (Gen.ParseTables.forEachMandatory.map (·.1)).contains "var" = true := by decide

/-! #### `parse_element` itself -/

/-- the override order that `expectedTy` implements: element type, then optional, then mandatory -/
theorem expected_keys_literal :
    Gen.ParseTables.expectedKeysLiteral
      = ["**mandatory_keys", "**optional_keys", "'__line__': LineTracker", "element_type: str"] := by
  decide

/-- the three checks of `checkKeys` / `parseElement` and the error class of each -/
theorem parse_element_checks :
    Gen.ParseTables.parseElementRaises
      = [("not key_definition", "exc.DataGenSyntaxError"),
         ("not isinstance(value, key_definition)", "exc.DataGenSyntaxError"),
         ("missing_keys", "exc.DataGenError")]
    ∧ Gen.ParseTables.parseElementTests
      = ["missing_keys", "not isinstance(value, key_definition)", "not key_definition"]
    ∧ Gen.ParseTables.parseElementLoops = ["key in dct", "key in defaulted_keys"]
    ∧ Gen.ParseTables.parseElementAssigns
      = ["defaulted_keys = set(optional_keys) - set(dct.keys())",
         "key_definition = expected_keys.get(key)",
         "missing_keys = set(mandatory_keys) - set(dct.keys())",
         "value = dct[key]"] := by decide

/-! #### top level -/

theorem collection_rules : Gen.ParseTables.collectionRules = collectionRules := by decide

theorem categorize_errors :
    Gen.ParseTables.categorizeRaises
      = [("not isinstance(obj, dict)", "exc.DataGenSyntaxError"), ("obj_category", "exc.DataGenError"),
         ("not (obj_category)", "exc.DataGenError")] := by decide

/-- `versionNum` accepts exactly the pinned versions (as int or as the equal float) -/
theorem versions_pinned :
    Gen.ParseTables.versions = [2, 3]
    ∧ (∀ n ∈ Gen.ParseTables.versions, versionNum (.int n) = some n)
    ∧ Gen.ParseTables.parseVersionRaises
      = [("mismatched_versions", "exc.DataGenSyntaxError"),
         ("base_version not in (2, 3)", "exc.DataGenSyntaxError")] := by decide

theorem versionNum_sound (y : Y) (n : Nat) (h : versionNum y = some n) : n ∈ Gen.ParseTables.versions := by
  unfold versionNum at h
  split at h <;> simp at h <;> subst h <;> decide

/-- the declaration loop runs after the include files and *before* the option / macro / plugin
    declarations are used; the version merge comes last (the order of `loadFile`) -/
theorem top_level_order :
    Gen.ParseTables.topLevelOrder
      = ["top_level_objects = categorize_top_level_objects(data, context)",
         "statements.extend(parse_included_files(path, data, context))",
         "for kind in ('option', 'macro', 'plugin'):",
         "context.options.extend(top_level_objects['option'])",
         "context.macros.update({obj['macro']: obj for obj in top_level_objects['macro']})",
         "plugin_specs = [(obj['plugin'], obj['__line__']) for obj in top_level_objects['plugin']]",
         "context.plugins.extend(resolve_plugins(plugin_specs, search_paths=[plugin_near_recipe]))",
         "own_version = parse_version(top_level_objects['snowfakery_version'], context)",
         "if own_version is not None:",
         "statements.extend(top_level_objects['statement'])"]
    ∧ Gen.ParseTables.parseRecipeOrder = ["parse_file", "parse_statement_list", "build_update_recipe", "ParseResult"] := by
  decide

/-- `declOk`: kinds in the order option, macro, plugin; an option / macro name must not be a list
    or a mapping; a plugin name is a string with a dot after stripping dots, not starting with one;
    the only raise is a DataGenSyntaxError (fix 00d5484) -/
theorem declaration_loop_pinned :
    Gen.ParseTables.declarationLoop
      = ["('option', 'macro', 'plugin')", "declared = obj[kind]",
         "well_formed = isinstance(declared, str) and '.' in declared.strip('.')",
         "well_formed = not isinstance(declared, (list, dict))",
         "well_formed = well_formed and (not declared.startswith('.'))"]
    ∧ Gen.ParseTables.topLevelRaises
      = [("not well_formed", "exc.DataGenSyntaxError"),
         ("context.version not in (None, own_version)", "exc.DataGenSyntaxError")]
    ∧ Gen.ParseTables.versionMerge = ["own_version is not None", "context.version not in (None, own_version)"] := by
  decide

/-- `loadFile`'s include handling: not a file → DataGenError; on the stack of files being parsed →
    DataGenError; the stack is pushed / popped around the recursive parse (fix 70277f6, 292eb44) -/
theorem include_cycle_check_pinned :
    Gen.ParseTables.includedFileRaises
      = [("not inclusion_path.is_file()", "exc.DataGenError"),
         ("resolved in context.files_being_parsed", "exc.DataGenError")]
    ∧ Gen.ParseTables.includedFileStack
      = ["context.files_being_parsed.append(resolved)", "context.files_being_parsed.pop()"]
    ∧ Gen.ParseTables.relpathRaises = [("relpath.startswith('/')", "exc.DataGenSyntaxError")] := by decide

/-- `includeMacro`: unknown macro → DataGenNameError; being expanded further out, or by this chain →
    DataGenError; the stack is pushed / popped around the expansion (fix 97f2c27) -/
theorem macro_cycle_check_pinned :
    Gen.ParseTables.includeMacroRaises
      = [("not macro", "exc.DataGenNameError"),
         ("name not in parent_macros and name in context.macros_being_expanded", "exc.DataGenError"),
         ("name in parent_macros", "exc.DataGenError")]
    ∧ Gen.ParseTables.includeMacroStack
      = ["context.macros_being_expanded.append(name)", "context.macros_being_expanded.pop()"] := by decide

/-- out of fuel on the code: `parse_recipe` turns the RecursionError of `parse_file` /
    `parse_statement_list` into a DataGenSyntaxError (fix a5a821f) -/
theorem recursion_guard_pinned :
    Gen.ParseTables.recursionGuard
      = ["RecursionError -> exc.DataGenSyntaxError", "parse_file", "parse_statement_list"] := by decide

/-! #### values, function calls, statements, templates -/

theorem field_value_dispatch :
    Gen.ParseTables.fieldValueScalarTypes = ["str", "Number", "date", "type(None)"]
    ∧ Gen.ParseTables.fieldValueTests
      = ["isinstance(field, (str, Number, date, type(None)))",
         "isinstance(field, dict) and field.get('object')",
         "isinstance(field, dict)",
         "isinstance(field, list) and len(field) == 1 and isinstance(field[0], dict)"]
    ∧ Gen.ParseTables.coerceTypes = ["int", "bool", "date"]
    ∧ Gen.ParseTables.statementDispatch = ["not isinstance(obj, dict)", "obj.get('object')", "obj.get('var')"]
    ∧ Gen.ParseTables.structuredValueDots
      = ["if not isinstance(function_name, str):", "if function_name.count('.') > 1:",
         "if '.' in function_name:", "if function_name == 'random_reference':",
         "namespace, name = function_name.split('.')"] := by decide

/-- the in-place repairs: each former hole is an explicit DataGenSyntaxError
    (fixes f9d6080, 6ccffd4, 8788294) -/
theorem repaired_checks_pinned :
    Gen.ParseTables.parseFieldRaises = [("not isinstance(name, str) or not name", "exc.DataGenSyntaxError")]
    ∧ Gen.ParseTables.structuredValueRaises
      = [("not top_level", "exc.DataGenSyntaxError"), ("not (len(top_level) > 1)", "NotImplementedError"),
         ("not isinstance(function_name, str)", "exc.DataGenSyntaxError"),
         ("function_name.count('.') > 1", "exc.DataGenSyntaxError")]
    ∧ Gen.ParseTables.statementListRaises
      = [("not isinstance(obj, dict)", "exc.DataGenSyntaxError"), ("not (obj.get('var'))", "exc.DataGenSyntaxError")] := by
  decide

theorem template_order :
    Gen.ParseTables.templateOrder.drop 1
      = ["if not context.top_level and parsed_template.just_once:",
         "raise exc.DataGenSyntaxError('just_once can only be used at the top level', **context.line_num())",
         "parse_inclusions(yaml_sobj, fields, friends, context)",
         "fields.extend(parse_fields(parsed_template.fields or {}, context))",
         "friends.extend(parse_friends(parsed_template.friends or [], context))",
         "fields[:] = _dedupe_field_list(fields)",
         "sobj_def['just_once'] = parsed_template.just_once or False",
         "if count_expr is not None:",
         "if for_each_expr is not None:",
         "new_template = ObjectTemplate(**sobj_def)",
         "context.register_template(new_template)"]
    ∧ Gen.ParseTables.registerNameTests = ["field.name.startswith('__')"] := by decide

/-! #### no reachable `assert` is left -/

/-- every `assert` / non-DataGenError `raise` of parse_recipe_yaml.py.  The four that an ill-shaped
    document could reach (`parse_statement_list`, `parse_field_value`, `parse_field`,
    `relpath_from_inclusion_element`) are gone; the remaining ones are guarded by a type check of
    `parse_element` / by the caller.  A new one changes this list. -/
theorem asserts_pinned :
    Gen.ParseTables.asserts
      = [("line_num", "assert obj != self.current_parent_object"), ("line_num", "assert obj"),
         ("parse_structured_value", "raise NotImplementedError"),
         ("parse_fields", "assert isinstance(fields, dict)"),
         ("parse_object_template", "assert yaml_sobj"),
         ("parse_object_template", "assert isinstance(for_each_expr, dict)"),
         ("parse_variable_definition", "assert yaml_sobj"),
         ("parse_for_each_variable_definition", "assert yaml_sobj"),
         ("categorize_top_level_objects", "assert isinstance(data, list)")] := by decide

/-- the `DataGenError` subclass raised by each function, in source order (the `Err` kinds of the model) -/
theorem raise_classes :
    Gen.ParseTables.raiseClasses
      = [("_coerce_to_string", "DataGenSyntaxError"), ("parse_structured_value", "DataGenSyntaxError"),
         ("parse_structured_value", "DataGenSyntaxError"), ("parse_structured_value", "DataGenSyntaxError"),
         ("parse_field_value", "DataGenSyntaxError"), ("parse_field", "DataGenSyntaxError"),
         ("include_macro", "DataGenNameError"), ("include_macro", "DataGenError"), ("include_macro", "DataGenError"),
         ("parse_object_template", "DataGenSyntaxError"),
         ("parse_statement_list", "DataGenSyntaxError"), ("parse_statement_list", "DataGenSyntaxError"),
         ("parse_element", "DataGenSyntaxError"), ("parse_element", "DataGenSyntaxError"),
         ("parse_element", "DataGenError"), ("relpath_from_inclusion_element", "DataGenSyntaxError"),
         ("parse_included_file", "DataGenError"), ("parse_included_file", "DataGenError"),
         ("categorize_top_level_objects", "DataGenSyntaxError"),
         ("categorize_top_level_objects", "DataGenError"), ("categorize_top_level_objects", "DataGenError"),
         ("parse_top_level_elements", "DataGenSyntaxError"), ("parse_top_level_elements", "DataGenSyntaxError"),
         ("parse_version", "DataGenSyntaxError"), ("parse_version", "DataGenSyntaxError"),
         ("parse_file", "DataGenYamlSyntaxError"), ("parse_file", "DataGenSyntaxError"),
         ("build_update_recipe", "DataGenSyntaxError"), ("build_update_recipe", "DataGenSyntaxError"),
         ("build_update_recipe", "DataGenSyntaxError"), ("parse_recipe", "DataGenSyntaxError")] := by decide

/-! #### `generate`: validation precedes the interpreter -/

/-- `parse_recipe` < `merge_options` < `create_or_validate_tables` < `Interpreter(…)` < `execute()`:
    the order `ParseCheck.check` / `ParseCheck.generate` assume -/
theorem validation_before_interpreter :
    Gen.GenerateOrder.generateCalls
      = ["parse_recipe", "process_plugins_options", "merge_options",
         "output_stream.create_or_validate_tables", "initialize_globals", "Interpreter",
         "interpreter.execute", "save_continuation_yaml"]
    ∧ Gen.GenerateOrder.interpreterInitStaticPass = ["find_tables_to_keep_history_for"] := by decide

theorem merge_options_pinned :
    Gen.GenerateOrder.mergeOptionsTests = ["name in user_options", "'default' in option"]
    ∧ Gen.GenerateOrder.mergeOptionsRaises = ["DataGenNameError"] := by decide

/-- the body of `get_referent_name` that `checkRef` mirrors (fix 2d62050: `kwargs.get`, `getattr`
    with a default — nothing unguarded is left) -/
theorem get_referent_name_pinned :
    Gen.GenerateOrder.getReferentName
      = ["args, kwargs = (random_reference.args, random_reference.kwargs)",
         "assert not (args and kwargs)",
         "target = args[0] if args else kwargs.get('to')",
         "ret = getattr(target, 'definition', None)",
         "if not isinstance(ret, str):\n    raise DataGenSyntaxError(f'random_reference should only refer to a name, not {ret}')",
         "return ret"] := by decide

/-! #### plugin declarations -/

/-- `checkPlugin`: the name is still split with an unguarded `rsplit` (`pluginNotStr`, `pluginNoDot`:
    excluded by the declaration loop), an unknown dotted name is a `DataGenImportError`, something
    that is not a class a `DataGenTypeError` (fix 00d5484) -/
theorem plugin_resolution_pinned :
    Gen.PluginResolve.alternativesHead
      = ["prefix, class_name = plugin.rsplit('.', 1)", "testnames = [plugin + '.' + class_name, plugin]"]
    ∧ Gen.PluginResolve.alternativesHandlers = ["ModuleNotFoundError"]
    ∧ Gen.PluginResolve.resolveRaises
      = [("not cls", "exc.DataGenImportError"), ("not isinstance(cls, type)", "exc.DataGenTypeError"),
         ("not (categories)", "exc.DataGenTypeError")]
    ∧ Gen.PluginResolve.resolveTests
      = ["not cls", "not isinstance(cls, type)", "issubclass(cls, FakerProvider)", "categories",
         "issubclass(cls, SnowfakeryPlugin)", "issubclass(cls, ParserMacroPlugin)"] := by decide

end SnowModel.Props.C20Bridge
