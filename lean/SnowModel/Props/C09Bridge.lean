/-
C09 — bridging lemmas: the only two places where the interpreter looks at the `__` prefix are the
filter applied to a row's values before it is written and the guard around `write_row` in
`_generate_row` — exactly where `Core/L2.lean` looks at it (`canonFields`, `execRow`).
-/
import SnowModel.Core.L2
import SnowModel.Generated.OutputHidden
import SnowModel.Generated.ObjectModel

namespace SnowModel.Props.C09Bridge

/-- `L2.canonFields` skips keys starting with `__` -/
theorem filterRowValues_eq :
    Gen.OutputHidden.filterRowValues = ["{k: v for k, v in row.items() if not k.startswith('__')}"] := rfl

/-- no other test of the prefix exists in the interpreter: values, counts, references and child
    objects cannot depend on it -/
theorem hiddenTests_eq :
    Gen.OutputHidden.hiddenTests =
      ["data_generator_runtime.py: k.startswith('__')",
       "data_generator_runtime_object_model.py: self.tablename.startswith('__')"] := rfl

/-- `L2.execRow`: the row is remembered (history) before and independently of the write guard, and
    friends are executed after it, hidden table or not -/
theorem write_guard_position :
    Gen.ObjectModel.generateRowBody.drop 6 =
      ["context.remember_row(self.tablename, self.nickname, row)",
       "with self.exception_handling('Cannot write row'):\n    if not self.tablename.startswith('__'):\n        output_stream.write_row(self.tablename, context.filter_row_values(row))",
       "context.interpreter.loop_over_templates_once(self.friends, True)", "return sobj"] := rfl

end SnowModel.Props.C09Bridge
