/-
C14 — composition features are transparent: `include_file`, macros and options.

Property theorems over the model `SnowModel.ParseY` (Core/ParseY.lean).  All statements quantify over
every field list / macro table / file set / option list; no size bound.  Helper lemmas are in
Proofs/C14 … C14d.  What `parse_recipe` hands to the interpreter is `Parsed` (statements with the
macros expanded, option declarations, version): two recipes with the same `Parsed` have the same
output, so transparency is equality of parse results.
-/
import SnowModel.Core.ParseY
import SnowModel.Proofs.C14d

namespace SnowModel.Props.C14
open SnowModel.ParseY

/-! ## 1. De-duplication: Python `{f.name: f for f in fields}` -/

/-- **dedupe_spec** — each name once, at the position of its first occurrence, with the definition
    of its last occurrence. -/
theorem dedupe_spec {α : Type} (l : AList α) :
    keys (dedupe l) = firstOcc (keys l) ∧ (keys (dedupe l)).Nodup ∧
    (∀ k v, (k, v) ∈ dedupe l ↔ lastVal l k = some v) :=
  ⟨keys_dedupe l, nodup_dedupe l, fun k v => by
    rw [mem_iff_lookup_of_nodup _ (nodup_dedupe l), lookup_dedupe]⟩

example : dedupe [("a", 1), ("b", 2), ("a", 3), ("c", 4), ("b", 5)] = [("a", 3), ("b", 5), ("c", 4)] := by
  decide
example : firstOcc ["a", "b", "a", "c", "b"] = ["a", "b", "c"] := by decide

/-- an intermediate de-duplication (the one `include_macro` applies to every macro) is invisible in
    the final de-duplicated list -/
theorem dedupe_intermediate_invisible {α : Type} (a b c : AList α) :
    dedupe (a ++ dedupe b ++ c) = dedupe (a ++ b ++ c) := dedupe_absorb a b c

/-- a list without repeated names is left alone -/
theorem dedupe_id_of_nodup {α : Type} (l : AList α) (h : (keys l).Nodup) : dedupe l = l :=
  dedupe_of_nodup l h

/-! ## 2. Macros -/

/-- **macro_fields_spec** — a template with `include: m₁, …, mₖ` has the field list
    `dedupe (fields(m₁) ++ … ++ fields(mₖ) ++ own)` and the friend list
    `friends(m₁) ++ … ++ friends(mₖ) ++ own`, where `fields(m)`/`friends(m)` are the *concatenations*
    computed by `flatMacro` (the de-duplication that `include_macro` performs per macro is invisible). -/
theorem macro_fields_spec (f : Nat) (ms : AList RMacro) (exp : List String) (t : RTemplate) (r : PTemplate)
    (h : pTemplate (f + 1) ms exp t = .ok r) :
    ∃ incs own ofr,
      mapE (fun n => flatMacro f ms exp [] n) t.incl = .ok incs ∧
      mapE (pField f ms exp) t.fields = .ok own ∧
      mapE (fun s => pStmt f ms exp s) t.friends = .ok ofr ∧
      r = .mk t.table t.attrs (dedupe ((concatIncl incs).1 ++ own)) ((concatIncl incs).2 ++ ofr) := by
  rw [pTemplate_succ] at h
  have e1 : (fun n => includeMacro f ms exp [] n) = (fun n => (flatMacro f ms exp [] n).map dedupeIncl) :=
    funext (fun n => includeMacro_eq_flat f ms exp [] n)
  rw [e1, mapE_map_ok] at h
  cases h1 : mapE (fun n => flatMacro f ms exp [] n) t.incl with
  | error e => rw [h1] at h; cases h
  | ok incs =>
    rw [h1] at h
    simp only [Except.map] at h
    cases h2 : mapE (pField f ms exp) t.fields with
    | error e => rw [h2] at h; cases h
    | ok own =>
      rw [h2] at h
      cases h3 : mapE (fun s => pStmt f ms exp s) t.friends with
      | error e => rw [h3] at h; cases h
      | ok ofr =>
        rw [h3] at h
        simp only [Except.ok.injEq] at h
        refine ⟨incs, own, ofr, rfl, rfl, rfl, ?_⟩
        rw [← h, concatIncl_dedupe_snd, concatIncl_dedupe_fst]

/-- what one macro contributes: the contributions of its own inclusions, in order, then its own
    fields / friends (recursively for nested macros) -/
theorem macro_contribution_concat (f : Nat) (ms : AList RMacro) (exp ps : List String) (n : String) (m : RMacro)
    (incs : List Incl) (own : AList PDef) (ofr : List PStmt)
    (hl : ms.lookup n = some m) (hc : exp.contains n = false) (hp : ps.contains n = false)
    (h1 : mapE (fun x => flatMacro f ms (exp ++ [n]) (ps ++ [n]) x) m.incl = .ok incs)
    (h2 : mapE (pField f ms (exp ++ [n])) m.fields = .ok own)
    (h3 : mapE (fun s => pStmt f ms (exp ++ [n]) s) m.friends = .ok ofr) :
    flatMacro (f + 1) ms exp ps n = .ok ((concatIncl incs).1 ++ own, (concatIncl incs).2 ++ ofr) := by
  rw [flatMacro, hl]
  simp only [cycleErr, hc, hp, Bool.not_false, Bool.and_false, Bool.false_eq_true, if_false, h1, h2, h3]

/-- **override order** — in the expanded template every field name occurs once; the names stand in the
    order of their first occurrence in `macro fields ++ own fields`; the template's own definition
    overrides every macro; among macros (and inside one macro's contribution) the later definition
    overrides the earlier one. -/
theorem macro_override_order (mf own : AList PDef) :
    (keys (dedupe (mf ++ own))).Nodup ∧
    keys (dedupe (mf ++ own)) = firstOcc (keys mf ++ keys own) ∧
    (∀ k, (dedupe (mf ++ own)).lookup k = match lastVal own k with
        | some v => some v
        | none => lastVal mf k) := by
  refine ⟨nodup_dedupe _, by rw [keys_dedupe, keys_append], fun k => ?_⟩
  rw [lookup_dedupe, lastVal_append]
  cases lastVal own k <;> rfl

/-- later contributions override earlier ones (`mf = fields(m₁) ++ fields(m₂)`) -/
theorem later_macro_overrides_earlier (a b : AList PDef) (k : String) :
    lastVal (a ++ b) k = match lastVal b k with
      | some v => some v
      | none => lastVal a k := by
  rw [lastVal_append]
  cases lastVal b k <;> rfl

example :
    (dedupe ([("a", PDef.val "m1a"), ("b", .val "m1b")] ++ [("b", .val "m2b"), ("c", .val "m2c")] ++
        [("c", .val "own")])).map (fun p => (p.1, match p.2 with | .val s => s | .nested _ => ""))
      = [("a", "m1a"), ("b", "m2b"), ("c", "own")] := by decide

/-- **macro_inline_equiv** — expanding the macros by hand gives the same template: a template with
    `include: m₁, …` parses to the same result as the template without `include:` whose raw field
    list is `rawfields(m₁) ++ … ++ own` and whose raw friend list is `rawfriends(m₁) ++ … ++ own`
    (`rawMacro`: recursively for nested macros), *before* de-duplication. -/
theorem macro_inline_equiv (f : Nat) (ms : AList RMacro) (exp : List String) (t : RTemplate) (r : PTemplate)
    (h : pTemplate (f + 1) ms exp t = .ok r) :
    ∃ raws, mapE (fun n => rawMacro f ms exp [] n) t.incl = .ok raws ∧
      pTemplate (f + 1) ms exp
        (.mk t.table t.attrs [] (raws.flatMap (·.1) ++ t.fields) (raws.flatMap (·.2) ++ t.friends)) = .ok r := by
  cases t with
  | mk table attrs incl fields friends =>
  obtain ⟨incs, own, ofr, h1, h2, h3, hr⟩ := macro_fields_spec f ms exp _ r h
  simp only [RTemplate.incl, RTemplate.fields, RTemplate.friends, RTemplate.table, RTemplate.attrs] at h1 h2 h3 hr ⊢
  obtain ⟨raws, k1, k2⟩ := mapE_forall2 (fun n => flatMacro f ms exp [] n) (fun n => rawMacro f ms exp [] n)
    (fun raw inc => mapE (pField f ms exp) raw.1 = .ok inc.1 ∧ mapE (fun s => pStmt f ms exp s) raw.2 = .ok inc.2)
    incl incs
    (fun x _ r hx => by
      obtain ⟨raw, g1, g2, g3⟩ := flatMacro_eq_parse_raw ms f exp [] x r hx
      exact ⟨raw, g1, g2, g3⟩) h1
  refine ⟨raws, k1, ?_⟩
  have hF : mapE (pField f ms exp) (raws.flatMap (·.1)) = .ok (incs.flatMap (·.1)) :=
    mapE_flatMap_of_forall2 _ _ _ _ _ (k2.imp (fun _ _ hp => hp.1))
  have hS : mapE (fun s => pStmt f ms exp s) (raws.flatMap (·.2)) = .ok (incs.flatMap (·.2)) :=
    mapE_flatMap_of_forall2 _ _ _ _ _ (k2.imp (fun _ _ hp => hp.2))
  rw [pTemplate_succ]
  simp only [RTemplate.incl, RTemplate.fields, RTemplate.friends, RTemplate.table, RTemplate.attrs, mapE,
    mapE_append, hF, hS]
  rw [h2, h3]
  simp only [hr, concatIncl, List.flatMap_nil, List.nil_append]

/-- **macro_expansion_terminates** (full strength since the repair of D46) — for *every* macro table
    and every template, expansion ends within fuel `#macros · (deepest macro body + 2) + depth + 2`:
    it succeeds or reports a recipe error (`noMacro`, `macroCycle`, `macroNested`), however the macros
    refer to each other — through `include:` lines, friends or object-valued fields. -/
theorem macro_expansion_terminates (ms : AList RMacro) (t : RTemplate) (f : Nat)
    (hf : (keys ms).length * (maxBody ms + 2) + dTemplate t + 2 ≤ f) :
    pTemplate f ms [] t ≠ .error .fuel :=
  (expansion_no_fuel ms f [] List.nodup_nil (by simp)).2.2.1 t (by simpa using hf)

/-- … and so does every statement of a recipe -/
theorem statement_expansion_terminates (ms : AList RMacro) (s : RStmt) (f : Nat)
    (hf : (keys ms).length * (maxBody ms + 2) + dStmt s + 2 ≤ f) :
    pStmt f ms [] s ≠ .error .fuel :=
  (expansion_no_fuel ms f [] List.nodup_nil (by simp)).2.1 s (by simpa using hf)

/-- **macro_cycle_is_error** — a macro that is already being expanded is never expanded again: reaching
    it through the chain of `include:` lines is `macroCycle`, reaching it any other way (a friend or an
    object-valued field of a macro under expansion) is `macroNested`. -/
theorem macro_cycle_is_error (f : Nat) (ms : AList RMacro) (exp ps : List String) (n : String) (m : RMacro)
    (hl : ms.lookup n = some m) (he : n ∈ exp) :
    includeMacro (f + 1) ms exp ps n =
      .error (if ps.contains n then .macroCycle ps n else .macroNested n) := by
  rw [includeMacro_succ, hl]
  have hc : exp.contains n = true := by simpa using he
  simp only [cycleErr, hc]
  cases ps.contains n <;> rfl

/-- the chain check fires: `m` includes `n` includes `m` -/
def cyc2 : AList RMacro := [("m", ⟨["n"], [], []⟩), ("n", ⟨["m"], [], []⟩)]
theorem macro_cycle_detected (f : Nat) :
    pTemplate (f + 4) cyc2 [] (.mk "A" "" ["m"] [] []) = .error (.macroCycle ["m", "n"] "m") := by
  rw [pTemplate_succ]
  have h1 : cyc2.lookup "m" = some ⟨["n"], [], []⟩ := rfl
  have h2 : cyc2.lookup "n" = some ⟨["m"], [], []⟩ := rfl
  simp only [RTemplate.incl, mapE]
  rw [includeMacro_succ]
  simp only [h1, mapE]
  rw [show cycleErr [] [] "m" = none from rfl]
  simp only
  rw [includeMacro_succ]
  simp only [h2, mapE]
  rw [show cycleErr ([] ++ ["m"]) ([] ++ ["m"]) "n" = none from rfl]
  simp only
  rw [macro_cycle_is_error f cyc2 _ _ "m" _ h1 (by decide)]
  rfl

/-- **macro_nested_cycle_detected** (was `macro_expansion_terminates_refuted` before 97f2c27) — the macro
    whose friend template includes the macro again is a recipe error for every fuel ≥ 5. -/
def loopMacros : AList RMacro := [("m", ⟨[], [], [.obj (.mk "X" "" ["m"] [] [])]⟩)]

theorem macro_nested_cycle_detected (f : Nat) :
    pTemplate (f + 5) loopMacros [] (.mk "A" "" ["m"] [] []) = .error (.macroNested "m") := by
  have hl : loopMacros.lookup "m" = some ⟨[], [], [.obj (.mk "X" "" ["m"] [] [])]⟩ := rfl
  rw [pTemplate_succ]
  simp only [RTemplate.incl, mapE]
  rw [includeMacro_succ]
  simp only [hl, mapE]
  rw [show cycleErr [] [] "m" = none from rfl]
  simp only
  rw [pStmt_obj, pTemplate_succ]
  simp only [RTemplate.incl, mapE]
  rw [macro_cycle_is_error f loopMacros _ _ "m" _ hl (by decide)]
  rfl

example : (keys loopMacros).length * (maxBody loopMacros + 2) + dTemplate (.mk "A" "" ["m"] [] []) + 2 = 7 := by
  decide

/-! ## 3. `include_file` -/

/-- **include_prepend** — the statements handed to the interpreter are those of the included files
    (depth first, in the order of the `include_file` lines) followed by the file's own; the macro table
    is updated, and the options are extended, in the same order. -/
theorem include_prepend (f : Nat) (files : AList (List Item)) (stack : List String) (ctx : PCtx) (n : String)
    (r : List RStmt × PCtx) (h : parseFile f files stack ctx n = .ok r) :
    r.1 = flatOf stmtsOf f files n ∧
    r.2.macros = dictUpdate ctx.macros (flatOf macrosOf f files n) ∧
    r.2.options = ctx.options ++ flatOf optionsOf f files n :=
  let h' := parseFile_spec f files stack ctx n r h
  ⟨h'.1, h'.2.1, h'.2.2.1⟩

/-- the depth-first order: everything included first, own declarations last -/
theorem flatOf_step {β : Type} (sel : List Item → List β) (f : Nat) (files : AList (List Item)) (n : String)
    (items : List Item) (hl : files.lookup n = some items) :
    flatOf sel (f + 1) files n = (includesOf items).flatMap (fun i => flatOf sel f files i) ++ sel items := by
  simp only [flatOf, hl]

/-- **include_twice_contributes_twice** — every `include_file` line contributes its file again: a file
    that lists the same file `g` twice gets `g`'s (flattened) statements twice, in order, before its
    own.  Nothing is remembered about files already read; writing the declarations inline would also
    produce them once per inclusion. -/
theorem include_twice_contributes_twice (f : Nat) (files : AList (List Item)) (stack : List String) (ctx : PCtx) (n g : String)
    (items : List Item) (r : List RStmt × PCtx) (hl : files.lookup n = some items)
    (hi : includesOf items = [g, g]) (h : parseFile (f + 1) files stack ctx n = .ok r) :
    r.1 = flatOf stmtsOf f files g ++ flatOf stmtsOf f files g ++ stmtsOf items := by
  rw [(parseFile_spec (f + 1) files stack ctx n r h).1, flatOf_step _ _ _ _ _ hl, hi]
  simp [List.flatMap_cons, List.append_assoc]

/-- **diamond_contributes_twice** — two included files `a`, `b` that both include a shared file `s`:
    the statements of `s` appear twice, once in front of each branch (depth first). -/
theorem diamond_contributes_twice (f : Nat) (files : AList (List Item)) (stack : List String) (ctx : PCtx) (n a b s : String)
    (items ia ib : List Item) (r : List RStmt × PCtx)
    (hl : files.lookup n = some items) (hi : includesOf items = [a, b])
    (hla : files.lookup a = some ia) (hia : includesOf ia = [s])
    (hlb : files.lookup b = some ib) (hib : includesOf ib = [s])
    (h : parseFile (f + 2) files stack ctx n = .ok r) :
    r.1 = flatOf stmtsOf f files s ++ stmtsOf ia ++ (flatOf stmtsOf f files s ++ stmtsOf ib) ++ stmtsOf items := by
  rw [(parseFile_spec (f + 2) files stack ctx n r h).1, flatOf_step _ _ _ _ _ hl, hi]
  simp only [List.flatMap_cons, List.flatMap_nil, List.append_nil]
  rw [flatOf_step _ _ _ _ _ hla, flatOf_step _ _ _ _ _ hlb, hia, hib]
  simp [List.flatMap_cons, List.append_assoc]

/-- the same for the macro table and the options: a shared file that holds only macros is harmless —
    its definitions are assigned again (`dictUpdate` with equal values), the statements are unaffected -/
theorem shared_macro_file_harmless (f : Nat) (files : AList (List Item)) (g : String) (items : List Item)
    (hl : files.lookup g = some items) (hs : stmtsOf items = []) (hi : includesOf items = []) :
    flatOf stmtsOf (f + 1) files g = [] := by
  rw [flatOf_step _ _ _ _ _ hl, hi, hs]
  rfl

example :
    (parseRecipe 6 [("main", [.includeFile "a", .includeFile "a", .stmt (.obj (.mk "M" "" [] [] []))]),
                    ("a", [.stmt (.obj (.mk "A" "" [] [] []))])] "main").map
        (fun p => p.statements.map (fun s => match s with | .obj t => t.table | .var n _ => n))
      = .ok ["A", "A", "M"] := by decide

example :
    (parseRecipe 6 [("main", [.includeFile "a", .includeFile "b"]),
                    ("a", [.includeFile "s", .stmt (.obj (.mk "A" "" [] [] []))]),
                    ("b", [.stmt (.obj (.mk "B" "" [] [] [])), .includeFile "s"]),
                    ("s", [.stmt (.obj (.mk "P" "" [] [] []))])] "main").map
        (fun p => p.statements.map (fun s => match s with | .obj t => t.table | .var n _ => n))
      = .ok ["P", "A", "P", "B"] := by decide

/-- **include_position_independent** — only the order *within* each category of declarations
    (include lines, macros, options, versions, statements) matters, not where they stand in a file -/
theorem include_position_independent (fs gs : AList (List Item)) (h : SameFiles fs gs) (f : Nat)
    (stack : List String) (ctx : PCtx) (n : String) : parseFile f fs stack ctx n = parseFile f gs stack ctx n :=
  parseFile_sameFiles fs gs h f stack ctx n

/-- … in particular an `include_file` line may be moved to the top across declarations of other kinds -/
theorem move_include_line (a b : List Item) (n : String) (ha : includesOf a = []) :
    SameCats (a ++ [Item.includeFile n] ++ b) (Item.includeFile n :: (a ++ b)) := by
  refine ⟨?_, ?_, ?_, ?_, ?_⟩
  · simp [includesOf_append, includesOf, ha]
  · simp [macrosOf_append, macrosOf]
  · simp [optionsOf_append, optionsOf]
  · simp [versionsOf_append, versionsOf]
  · simp [stmtsOf_append, stmtsOf]

/-- **includer_macro_wins** — a macro defined in a file overrides a same-named macro of the files it
    includes (for *every* template, since expansion happens after all files are read) — exactly as if
    the included declarations had been written inline at the top. -/
theorem includer_macro_wins (f : Nat) (files : AList (List Item)) (stack : List String) (ctx : PCtx) (n : String)
    (items : List Item) (r : List RStmt × PCtx) (hl : files.lookup n = some items)
    (h : parseFile (f + 1) files stack ctx n = .ok r) (k : String) :
    r.2.macros.lookup k = match lastVal (macrosOf items) k with
      | some m => some m
      | none => match lastVal ((includesOf items).flatMap (fun i => flatOf macrosOf f files i)) k with
        | some m => some m
        | none => ctx.macros.lookup k := by
  rw [(parseFile_spec (f + 1) files stack ctx n r h).2.1, lookup_dictUpdate, flatOf_step _ _ _ _ _ hl, lastVal_append]
  cases lastVal (macrosOf items) k <;>
    cases lastVal ((includesOf items).flatMap (fun i => flatOf macrosOf f files i)) k <;> rfl

/-- **flatten_terminates** (full strength since the repair of D45) — for *every* file map, reading a
    recipe ends within fuel `#files + 2`: it succeeds or reports a recipe error (`noFile`,
    `includeCycle`, version errors); no acyclicity hypothesis. -/
theorem flatten_terminates (files : AList (List Item)) (ctx : PCtx) (name : String) (f : Nat)
    (hf : (keys files).length + 2 ≤ f) : parseFile f files [] ctx name ≠ .error .fuel :=
  parseFile_no_fuel files f [] ctx name List.nodup_nil (by simp) (by simpa using hf)

/-- **include_cycle_is_error** — a file that is still open (on the stack of files being parsed) is not
    read again: the include line is `includeCycle`.  The stack is popped when a file has been read, so
    reaching a file a second time from elsewhere (twice, diamonds) stays legal — see
    `include_twice_contributes_twice`, `diamond_contributes_twice` above, which hold for every stack. -/
theorem include_cycle_is_error (f : Nat) (files : AList (List Item)) (stack : List String) (ctx : PCtx)
    (name g : String) (items : List Item) (hl : files.lookup name = some items)
    (hi : includesOf items = [g]) (hg : g ∈ stack) :
    parseFile (f + 1) files stack ctx name = .error (.includeCycle g) := by
  have hc : stack.contains g = true := by simpa using hg
  rw [parseFile_succ, hl]
  simp only [hi, foldE, incStep, hc, if_true]

/-- **include_cycle_detected** (was `flatten_terminates_refuted` before 70277f6) — two files that include
    each other: a recipe error for every fuel ≥ 3 (the main file is not on the stack, so it is read a
    second time before the cycle is seen, as on the code). -/
def cycFiles : AList (List Item) := [("a", [.includeFile "b"]), ("b", [.includeFile "a"])]

theorem include_cycle_detected (f : Nat) (ctx : PCtx) :
    parseFile (f + 3) cycFiles [] ctx "a" = .error (.includeCycle "b") := by
  have ha : cycFiles.lookup "a" = some [.includeFile "b"] := rfl
  have hb : cycFiles.lookup "b" = some [.includeFile "a"] := rfl
  rw [parseFile_succ]
  simp only [ha, includesOf, foldE, incStep]
  rw [show ([] : List String).contains "b" = false from rfl]
  simp only [Bool.false_eq_true, if_false]
  rw [parseFile_succ]
  simp only [hb, includesOf, foldE, incStep]
  rw [show ([] ++ ["b"] : List String).contains "a" = false from rfl]
  simp only [Bool.false_eq_true, if_false]
  rw [include_cycle_is_error f cycFiles _ _ "a" "b" _ ha rfl (by decide)]

example : (keys cycFiles).length + 2 = 4 := rfl

/-- **include_version_honoured** (full strength since the repair of D47; was
    `include_version_transparent_refuted`) — after a successful parse every `snowfakery_version`
    declared in *any* of the files read (depth first) is the version of the recipe; a version the
    context already had is kept; and if no file declares one the version is unchanged. -/
theorem include_version_honoured (f : Nat) (files : AList (List Item)) (stack : List String) (ctx : PCtx)
    (n : String) (r : List RStmt × PCtx) (h : parseFile f files stack ctx n = .ok r) :
    (∀ v ∈ flatOf versionsOf f files n, r.2.version = some v) ∧
    (∀ w, ctx.version = some w → r.2.version = some w) ∧
    (flatOf versionsOf f files n = [] → r.2.version = ctx.version) :=
  (parseFile_spec f files stack ctx n r h).2.2.2

/-- … in particular conflicting declarations in different files cannot both survive: a successful parse
    means all declared versions agree -/
theorem include_versions_agree (f : Nat) (files : AList (List Item)) (stack : List String) (ctx : PCtx)
    (n : String) (r : List RStmt × PCtx) (h : parseFile f files stack ctx n = .ok r)
    (v w : Int) (hv : v ∈ flatOf versionsOf f files n) (hw : w ∈ flatOf versionsOf f files n) : v = w := by
  have h1 := (include_version_honoured f files stack ctx n r h).1 v hv
  have h2 := (include_version_honoured f files stack ctx n r h).1 w hw
  rw [h1] at h2
  exact Option.some.inj h2

/-- the former D47 witness: declared only in the included file, or written inline — the same version;
    a conflict between files is the same error as a conflict inside one file -/
theorem include_version_transparent :
    (parseRecipe 5 [("main", [.includeFile "a", .stmt (.obj (.mk "A" "" [] [] []))]), ("a", [.version 3])] "main").map
        (·.version) = .ok (some 3) ∧
    (parseRecipe 5 [("main", [.version 3, .stmt (.obj (.mk "A" "" [] [] []))])] "main").map (·.version)
        = .ok (some 3) ∧
    (parseRecipe 5 [("main", [.includeFile "a", .version 2]), ("a", [.version 3])] "main").map (·.version)
        = .error .versionConflict ∧
    (parseRecipe 5 [("main", [.version 3, .version 2])] "main").map (·.version) = .error .versionConflict := by
  refine ⟨?_, ?_, ?_, ?_⟩ <;> decide

/-- **parse_recipe_terminates** — the whole front end: with fuel for the files (`#files + 2`) and for
    the statements it hands on (`#macros · (deepest body + 2) + depth + 2`), `parse_recipe` never runs out
    of fuel: every recipe — whatever includes what, files or macros — is either parsed or rejected with a
    recipe error. -/
theorem parse_recipe_terminates (fuel : Nat) (files : AList (List Item)) (main : String)
    (h1 : (keys files).length + 2 ≤ fuel)
    (h2 : ∀ stmts ctx, parseFile fuel files [] PCtx.empty main = .ok (stmts, ctx) →
      ∀ s ∈ stmts, (keys ctx.macros).length * (maxBody ctx.macros + 2) + dStmt s + 2 ≤ fuel) :
    parseRecipe fuel files main ≠ .error .fuel := by
  unfold parseRecipe
  cases hp : parseFile fuel files [] PCtx.empty main with
  | error e =>
    simp only
    intro he
    simp only [Except.error.injEq] at he
    subst he
    exact flatten_terminates files PCtx.empty main fuel h1 hp
  | ok r =>
    obtain ⟨stmts, ctx⟩ := r
    simp only
    have hm : mapE (fun s => pStmt fuel ctx.macros [] s) stmts ≠ .error .fuel :=
      mapE_ne_fuel _ _ (fun s hs => statement_expansion_terminates ctx.macros s fuel (h2 stmts ctx hp s hs))
    cases hq : mapE (fun s => pStmt fuel ctx.macros [] s) stmts with
    | error e =>
      simp only
      intro he
      simp only [Except.error.injEq] at he
      subst he
      exact hm hq
    | ok ps => simp

/-! ## 4. Options -/

/-- **option_decision** (the property, for the repaired tests `name in user_options` /
    `"default" in option`): supplied ⇒ the supplied value, whatever it is; else the declared default,
    whatever it is; an error only if neither exists. -/
theorem option_decision (name : String) (user dflt : Option OVal) :
    decideOption .contains .contains name user dflt =
      optionSpec name user dflt := by
  cases user <;> cases dflt <;> rfl

/-! The two statements below are about the explicit parameter `.truthyGet`, i.e. about the tests
    `user_options.get(name)` / `option.get("default")` that `merge_options` used before the repair of D12
    (commit d8c74a2).  The pinned tests are `.contains` now (`C14Bridge.option_decision_pinned`); these
    stay as the description of what a regression to truthiness tests would compute. -/

/-- exact characterisation of the truthiness tests: the decision table applied after *dropping* falsy
    supplied values and falsy defaults -/
theorem truthyGet_decision_exact (name : String) (user dflt : Option OVal) :
    decideOption .truthyGet .truthyGet name user dflt =
      optionSpec name (user.filter OVal.truthy) (dflt.filter OVal.truthy) := by
  cases user with
  | none =>
    cases dflt with
    | none => rfl
    | some d => cases h : d.truthy <;> simp [decideOption, Test.holds, optionSpec, Option.filter, h]
  | some u =>
    cases h : u.truthy
    · cases dflt with
      | none => simp [decideOption, Test.holds, optionSpec, Option.filter, h]
      | some d => cases h' : d.truthy <;> simp [decideOption, Test.holds, optionSpec, Option.filter, h, h']
    · simp [decideOption, Test.holds, optionSpec, Option.filter, h]

/-- hence the truthiness tests do *not* satisfy the decision table: a supplied `0` is replaced by the
    default, a supplied `False` without default is an error, a default of `0` is "no definition" -/
theorem truthyGet_decision_violates_spec :
    decideOption .truthyGet .truthyGet "o" (some (.int 0)) (some (.int 5)) ≠ optionSpec "o" (some (.int 0)) (some (.int 5)) ∧
    decideOption .truthyGet .truthyGet "o" (some (.bool false)) none ≠ optionSpec "o" (some (.bool false)) none ∧
    decideOption .truthyGet .truthyGet "o" none (some (.int 0)) ≠ optionSpec "o" none (some (.int 0)) := by
  decide

example : (OVal.int 0).truthy = false ∧ (OVal.str "").truthy = false ∧ (OVal.str "0").truthy = true := by decide

/-- **merge_options_lookup** — `merge_options` as a whole, for either pair of tests: after a successful
    merge every declared name holds the decision for its *last* declaration, every other name holds the
    plugin option it had. -/
theorem merge_options_lookup (tu td : Test) (defs : List OptDecl) (user plugin opts : AList OVal)
    (extra : List String) (h : mergeOptions tu td defs user plugin = .ok (opts, extra)) (n : String) :
    opts.lookup n = match lastDecl defs n with
      | some o => (decideOption tu td o.name (user.lookup o.name) o.dflt).toOption
      | none => plugin.lookup n := by
  rw [mergeOptions_eq] at h
  cases hf : foldE (optStep tu td user) plugin defs with
  | error e => rw [hf] at h; cases h
  | ok o =>
    rw [hf] at h
    simp only [Except.ok.injEq, Prod.mk.injEq] at h
    rw [← h.1]
    exact foldE_optStep_lookup tu td user defs plugin o hf n

/-- **merge_supplied** — with the repaired tests, a declared option that the user supplied evaluates
    to the supplied value (whatever it is), also when the option is declared several times. -/
theorem merge_supplied (defs : List OptDecl) (user plugin opts : AList OVal) (extra : List String)
    (h : mergeOptions .contains .contains defs user plugin = .ok (opts, extra))
    (o : OptDecl) (ho : o ∈ defs) (u : OVal) (hu : user.lookup o.name = some u) :
    opts.lookup o.name = some u := by
  rw [merge_options_lookup _ _ _ _ _ _ _ h]
  obtain ⟨o', h1, _, h3⟩ := lastDecl_some_of_mem defs o ho
  rw [h1]
  simp only [h3, hu, option_decision, optionSpec]
  rfl

/-- a failing merge is the failure of one declared option -/
theorem merge_options_error (tu td : Test) (defs : List OptDecl) (user plugin : AList OVal) (e : Err)
    (h : mergeOptions tu td defs user plugin = .error e) :
    ∃ o ∈ defs, decideOption tu td o.name (user.lookup o.name) o.dflt = .error e := by
  rw [mergeOptions_eq] at h
  cases hf : foldE (optStep tu td user) plugin defs with
  | ok o => rw [hf] at h; cases h
  | error e' =>
    rw [hf] at h
    simp only [Except.error.injEq] at h
    subst h
    obtain ⟨s', x, hx, hg⟩ := foldE_error _ _ _ _ hf
    refine ⟨x, hx, ?_⟩
    unfold optStep at hg
    cases hd : decideOption tu td x.name (user.lookup x.name) x.dflt with
    | error e'' => rw [hd] at hg; simpa using hg
    | ok v => rw [hd] at hg; cases hg

/-! ### where a declared option is visible -/

/-- **option_visible** — at a read position a declared option name resolves to the option exactly when no
    *nearer* layer binds the name: an object name (table / nickname), a field of the current row already
    evaluated (or its `id`), a plugin library, a variable, a standard function.  The built-ins
    (`id count child_index this today now fake template`) are *farther*: they never shadow an option. -/
theorem option_visible (binds : Layer → List String) (name : String) :
    resolve binds name = some .option ↔
      name ∈ binds .option ∧ name ∉ binds .objectName ∧ name ∉ binds .rowField ∧ name ∉ binds .plugin ∧
      name ∉ binds .variable ∧ name ∉ binds .func := by
  simp only [resolve, resolveIn, layerOrder, List.reverse_cons, List.reverse_nil, List.nil_append,
    List.cons_append, List.find?_cons, List.find?_nil]
  cases h1 : (binds .func).contains name <;> cases h2 : (binds .variable).contains name <;>
    cases h3 : (binds .plugin).contains name <;> cases h4 : (binds .rowField).contains name <;>
    cases h5 : (binds .objectName).contains name <;> cases h6 : (binds .option).contains name <;>
    cases h7 : (binds .builtin).contains name <;>
    simp_all [List.contains_iff_mem]

/-- the built-in layer is the farthest: a name bound by the options (or by any other layer) never
    resolves to a built-in -/
theorem builtin_never_shadows (binds : Layer → List String) (name : String) (L : Layer)
    (hL : L ≠ .builtin) (h : name ∈ binds L) : resolve binds name ≠ some .builtin := by
  simp only [resolve, resolveIn, layerOrder, List.reverse_cons, List.reverse_nil, List.nil_append,
    List.cons_append, List.find?_cons, List.find?_nil]
  cases L <;> first | exact absurd rfl hL | skip
  all_goals
    cases h1 : (binds .func).contains name <;> cases h2 : (binds .variable).contains name <;>
    cases h3 : (binds .plugin).contains name <;> cases h4 : (binds .rowField).contains name <;>
    cases h5 : (binds .objectName).contains name <;> cases h6 : (binds .option).contains name <;>
    simp_all [List.contains_iff_mem]

/-- a name is resolved by the nearest layer that binds it: general form, for any duplicate-free order -/
theorem resolveIn_last (order : List Layer) (binds : Layer → List String) (name : String) (L : Layer)
    (h : resolveIn order binds name = some L) : L ∈ order ∧ name ∈ binds L := by
  unfold resolveIn at h
  have hm := List.mem_of_find?_eq_some h
  have hp := List.find?_some h
  exact ⟨List.mem_reverse.mp hm, by simpa using hp⟩

example : resolve (fun L => match L with
    | .builtin => ["id", "count", "child_index", "this", "today", "now", "fake", "template"]
    | .option => ["count", "o1"] | .rowField => ["id"] | .variable => ["child_index"] | _ => []) "count"
    = some .option := by decide
example : resolve (fun L => match L with
    | .builtin => ["id", "count"] | .option => ["id"] | .rowField => ["id"] | _ => []) "id" = some .rowField := by
  decide

example : mergeOptions .contains .contains [⟨"o", some (.int 5)⟩, ⟨"p", none⟩]
    [("o", .int 0), ("p", .str ""), ("zz", .int 1)] [] =
    .ok ([("o", .int 0), ("p", .str "")], ["zz"]) := by decide
example : mergeOptions .truthyGet .truthyGet [⟨"o", some (.int 5)⟩] [("o", .int 0)] [] =
    .ok ([("o", .int 5)], []) := by decide

end SnowModel.Props.C14
