/-
C09 — names starting with two underscores never reach any output.
Over the L2 interpreter: the output list never contains a hidden table or a hidden field, for
every recipe, chain and fuel; hidden fields are nevertheless evaluated and stored exactly like
visible ones (the interpreter looks at the `__` prefix only where a row is written).
The second half of the property for the real code ("behave as if it were visible") is checked
metamorphically by the harness (recipe vs. its un-hidden twin, all output formats).
-/
import SnowModel.Core.L2
import SnowModel.Proofs.L2
import SnowModel.Proofs.L2Ext

namespace SnowModel.Props.C09
open SnowModel.L2

def hiddenName (n : String) : Bool := n.startsWith "__"

/-- no hidden table and no hidden field in the rows written so far -/
def CleanOut (out : List OutRow) : Prop :=
  ∀ r ∈ out, hiddenName r.table = false ∧ ∀ p ∈ r.fields, hiddenName p.1 = false

/-- what is written for a row: exactly its non-hidden fields, in order -/
theorem canonFields_drops_hidden (vs : List (String × Val)) (s s' : St) (os : List (String × OVal))
    (h : canonFields vs s = .ok (os, s')) :
    os.map (·.1) = (vs.filter (fun p => !hiddenName p.1)).map (·.1) := by
  simpa [hiddenName] using canonFields_keys vs h

theorem clean_stmts (fuel : Nat) (c c' : Ctx) (sts : List Stmt) (cont : Bool) (s s' : St)
    (hc : CleanOut s.out) (h : execStmts fuel c sts cont s = .ok (c', s')) : CleanOut s'.out := by
  exact ((extAll fuel).2.2.2.2.2 _ _ _ _ _ _ h).clean hc

theorem clean_template (fuel : Nat) (c : Ctx) (t : Template) (s s' : St) (r : Option Nat)
    (hc : CleanOut s.out) (h : execTemplate fuel c t s = .ok (r, s')) : CleanOut s'.out := by
  exact ((extAll fuel).2.1 _ _ _ _ _ h).clean hc

/-- **Whole runs**: whatever the recipe, the number of iterations and the continuation split, no
    `__` name appears in the output of the reference interpreter. -/
theorem no_hidden_in_output (fuel : Nat) (r : Recipe) (parts : List Nat) (finalSave : Bool) :
    CleanOut (runChain fuel r parts finalSave).out := by
  exact runChain_clean fuel r parts finalSave

/-- A hidden field is evaluated and stored like any other: the step of `execFields` does not look
    at the field's name except to store the value under it. -/
theorem hidden_field_evaluated (fuel : Nat) (c : Ctx) (h : Nat) (name : String) (fd : FieldDef)
    (rest : List (String × FieldDef)) (s : St) :
    execFields (fuel + 1) c h ((name, fd) :: rest) s =
      (match renderFd fuel c fd s with
       | .error e => .error e
       | .ok (v, s1) => execFields fuel c h rest (setRowValue s1 h name v)) := by
  exact execFields_cons fuel c h name fd rest s

/-- A hidden table gets ids, is registered and referenced like a visible one: `execRow` differs
    only in not appending the row itself to the output (see `C03.hidden_row_output`); in particular
    the id counter of the hidden table advances. -/
theorem hidden_table_gets_ids (fuel : Nat) (c c' : Ctx) (t : Template) (i h : Nat) (s s' : St)
    (hr : execRow (fuel + 1) c t i s = .ok ((h, c'), s')) :
    ∃ rid, (generateId s t.table t.nick).1 = rid ∧ h = s.rows.length := by
  refine ⟨_, rfl, ?_⟩
  rw [execRow_succ] at hr
  split at hr
  · cases hr
  · split at hr
    · cases hr
    · split at hr
      · cases hr
      · simp only [Except.ok.injEq, Prod.mk.injEq] at hr
        exact hr.1.1.symm

def demoHidden : Recipe :=
  { v3 := true, options := [],
    statements :=
      [.obj (.mk "__H" none false none [("v", .lit (.int 5))] [.obj (.mk "K" none false none [] [])]),
       .obj (.mk "A" none false none
          [("__x", .tmpl [.expr (.attr (.name "__H") "v")]), ("y", .tmpl [.expr (.add (.name "__x") (.int 1))]),
           ("r", .ref ["__H"])] [])] }

#guard (runChain 200 demoHidden [1]).status == "ok"
#guard (runChain 200 demoHidden [1]).out ==
  [⟨"K", [("id", .int 1)]⟩, ⟨"A", [("id", .int 1), ("y", .int 6), ("r", .ref "__H" 1)]⟩]

end SnowModel.Props.C09
