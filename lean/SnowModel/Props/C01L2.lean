/-
C01 for recipes — the id-allocation invariant carried through the L2 reference interpreter:
for every recipe of the modelled language in which no field is called `id`, every iteration count
and every continuation split, a completed run leaves, for each table, row ids that are exactly
1..n (n = rows created for that table, hidden tables included), and every reference value held by
a row names an issued id.  This lifts `Props/C01` (arbitrary op sequences of the L1 machine) to
arbitrary recipes: the interpreter touches ids only through `generateId`, `slotId`, `resetSlots`.
Statements are fixed; helper lemmas go to `Proofs/L2Ids.lean`.
-/
import SnowModel.Core.L2
import SnowModel.Proofs.L2Ids

namespace SnowModel.Props.C01L2
open SnowModel.L2

/-- id of a stored row, if it is a natural number -/
def rowIdNat (r : RowData) : Option Nat :=
  match r.values.lookup "id" with
  | some (.int i) => if 0 ≤ i then some i.toNat else none
  | _ => none

/-- ids of the rows created so far for table `T`, in creation order -/
def rowIds (s : St) (T : String) : List Nat :=
  (s.rows.filter (fun r => r.table = T)).filterMap rowIdNat

/-- ids reserved in ALLOCATED slots bound to table `T` -/
def allocIds (s : St) (T : String) : List Nat :=
  s.slots.filterMap (fun p =>
    match p.2 with
    | .alloc i => if aget s.names p.1 = some T then some i else none
    | _ => none)

def lastUsedOf (s : St) (T : String) : Nat := (aget s.lastUsed T).getD 0

/-- no field of any template (at any depth) is called `id` (a user field named `id` overwrites the
    row's id: such recipes are outside C01's claim) -/
def NoIdFieldFd : FieldDef → Bool
  | .nested t => NoIdFieldT t
  | _ => true
where
  NoIdFieldT : Template → Bool
    | .mk _ _ _ cnt fields friends =>
      (match cnt with | some fd => NoIdFieldFd fd | none => true)
      && NoIdFieldFields fields && NoIdFieldStmts friends
  NoIdFieldFields : List (String × FieldDef) → Bool
    | [] => true
    | (n, fd) :: rest => n != "id" && NoIdFieldFd fd && NoIdFieldFields rest
  NoIdFieldStmts : List Stmt → Bool
    | [] => true
    | .var _ fd :: rest => NoIdFieldFd fd && NoIdFieldStmts rest
    | .obj t :: rest => NoIdFieldT t && NoIdFieldStmts rest

def NoIdField (r : Recipe) : Prop := NoIdFieldFd.NoIdFieldStmts r.statements = true

/-- The invariant: slot names are unique and bound, every stored row of a table has a natural id,
    and per table the ids of stored rows plus the reserved ids are exactly `1 .. lastUsed`. -/
def GoodL2 (s : St) : Prop :=
  (s.names.map Prod.fst).Nodup ∧ s.slots.map Prod.fst = s.names.map Prod.fst ∧
  (∀ r ∈ s.rows, (rowIdNat r).isSome) ∧
  ∀ T, (rowIds s T ++ allocIds s T).Perm (List.range' 1 (lastUsedOf s T))

/-! ### bridge to the helper lemmas of `Proofs/L2Ids*` (which restate the definitions above) -/

theorem good_iff (s : St) : GoodL2 s ↔ Good s := Iff.rfl

/-- the boolean functions above are closed under taking sub-terms -/
def noIdP : NoIdP where
  fd := fun x => NoIdFieldFd x = true
  t := fun x => NoIdFieldFd.NoIdFieldT x = true
  fs := fun x => NoIdFieldFd.NoIdFieldFields x = true
  st := fun x => NoIdFieldFd.NoIdFieldStmts x = true
  fd_nested := by
    intro t' h
    simpa [NoIdFieldFd] using h
  t_count := by
    intro t' fd' h hc
    cases t' with
    | mk a b c cnt e f =>
      simp only [Template.count] at hc
      subst hc
      simp only [NoIdFieldFd.NoIdFieldT, Bool.and_eq_true] at h
      exact h.1.1
  t_fields := by
    intro t' h
    cases t' with
    | mk a b c cnt e f =>
      cases cnt <;> (simp only [NoIdFieldFd.NoIdFieldT, Bool.and_eq_true] at h; exact h.1.2)
  t_friends := by
    intro t' h
    cases t' with
    | mk a b c cnt e f =>
      cases cnt <;> (simp only [NoIdFieldFd.NoIdFieldT, Bool.and_eq_true] at h; exact h.2)
  fs_cons := by
    intro n d rest h
    simp only [NoIdFieldFd.NoIdFieldFields, Bool.and_eq_true, bne_iff_ne, ne_eq] at h
    exact ⟨h.1.1, h.1.2, h.2⟩
  st_var := by
    intro n d rest h
    simp only [NoIdFieldFd.NoIdFieldStmts, Bool.and_eq_true] at h
    exact h
  st_obj := by
    intro t' rest h
    simp only [NoIdFieldFd.NoIdFieldStmts, Bool.and_eq_true] at h
    exact h

theorem good_init (r : Recipe) : GoodL2 (initSt r) :=
  (good_iff _).2 (initSt_good r).1

/-- one execution of a statement list preserves the invariant -/
theorem good_stmts (fuel : Nat) (c c' : Ctx) (sts : List Stmt) (cont : Bool) (s s' : St)
    (hid : NoIdFieldFd.NoIdFieldStmts sts = true) (hg : GoodL2 s)
    (h : execStmts fuel c sts cont s = .ok (c', s')) : GoodL2 s' :=
  (good_iff _).2 (stmts_tr noIdP (show noIdP.st sts from hid) h ((good_iff _).1 hg)).1

/-- **Dense ids for every recipe**: a completed chain of runs (any iteration counts, any number of
    continuation boundaries, final save or not) leaves, for every table, row ids that are a
    permutation of `1 .. n`, `n` = number of rows created for that table, and the id counter at
    `n`. -/
theorem C01_recipes (fuel : Nat) (r : Recipe) (hid : NoIdField r) (fs : Bool) (parts : List Nat)
    (s : St) (h : chain fuel r fs parts false (initSt r) = .ok s) (T : String) :
    (rowIds s T).Perm (List.range' 1 (rowIds s T).length) ∧ lastUsedOf s T = (rowIds s T).length :=
  chain_dense noIdP fuel r (show noIdP.st r.statements from hid) fs parts s h T

/-- every id written for a visible table in the output of a completed chain is one of those row
    ids: the output rows of table `T` carry exactly the ids `rowIds s T` in order (hidden tables are
    not written). -/
theorem out_ids_are_row_ids (fuel : Nat) (r : Recipe) (hid : NoIdField r) (fs : Bool) (parts : List Nat)
    (s : St) (h : chain fuel r fs parts false (initSt r) = .ok s) (T : String)
    (hvis : ¬ T.startsWith "__") :
    ((s.out.filter (fun o => o.table = T)).filterMap (fun o =>
        match o.fields.lookup "id" with | some (.int i) => some i.toNat | _ => none)).Perm (rowIds s T) :=
  chain_out noIdP fuel r (show noIdP.st r.statements from hid) fs parts s h T (by simpa using hvis)

/-! ### Non-vacuity -/
def demo : Recipe :=
  { v3 := false, options := [],
    statements :=
      [.obj (.mk "A" none false none [("r1", .ref ["n1"]), ("r2", .ref ["B"])] []),
       .obj (.mk "B" (some "n1") false none [] []),
       .obj (.mk "B" none false (some (.lit (.int 2))) [("k", .nested (.mk "A" none false none [] []))] [])] }

example : NoIdField demo := by unfold NoIdField; decide
#guard (match chain 300 demo false [2, 1] false (initSt demo) with
        | .ok s => (rowIds s "A", rowIds s "B") == ([1, 2, 3, 4, 5, 6, 7, 8, 9], [1, 2, 3, 4, 5, 6, 7, 8, 9])
        | .error _ => false)

end SnowModel.Props.C01L2
