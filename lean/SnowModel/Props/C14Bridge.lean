/-
C14 — bridging lemmas: what `tools/pins/compose.py` regenerates from the Python AST on every run
(`Gen.Compose.*`) coincides with what the hand-written model `SnowModel.ParseY` was written against.
A change of a test, of the order of the steps, of a stored expression or of the body of one of the small
functions changes the generated file and one of these lemmas stops type-checking.
-/
import SnowModel.Core.ParseY
import SnowModel.Props.C14
import SnowModel.Generated.Compose

namespace SnowModel.Props.C14Bridge
open SnowModel.ParseY
open Gen.Compose

/-! ### `merge_options`: the two tests are parameters of the model, their values are pinned -/

def testOfString : String → Option Test
  | "truthy-get" => some .truthyGet
  | "in" => some .contains
  | _ => none

/-- the decision of the code *as it is now*: the model instantiated with the pinned tests -/
def pinnedDecide (name : String) (user dflt : Option OVal) : Option (Except Err OVal) :=
  (testOfString userTest).bind fun tu => (testOfString defaultTest).map fun td => decideOption tu td name user dflt

/-- `if name in user_options:` — was a value supplied (D12 repaired by d8c74a2; before, the test was
    `user_options.get(name)`, i.e. `Test.truthyGet`) -/
theorem user_test_pinned : testOfString userTest = some Test.contains := by decide

/-- `elif "default" in option:` — was a default declared (before d8c74a2: `option.get("default")`) -/
theorem default_test_pinned : testOfString defaultTest = some Test.contains := by decide

/-- what is stored is the supplied value / the declared default, as in the model -/
theorem userStored_eq : userStored = "user_options.get(name)" := rfl
theorem defaultStored_eq : defaultStored = "option['default']" := rfl
theorem neitherRaises_eq : neitherRaises = "DataGenNameError" := rfl

/-- the decision table holds for the code as soon as both pinned tests are `in` -/
theorem option_decision_pinned_of_in (h1 : testOfString userTest = some Test.contains)
    (h2 : testOfString defaultTest = some Test.contains) (name : String) (user dflt : Option OVal) :
    pinnedDecide name user dflt = some (optionSpec name user dflt) := by
  simp only [pinnedDecide, h1, h2, Option.bind_some, Option.map_some, SnowModel.Props.C14.option_decision]

/-- **the property for the code as it is** (D12 repaired): supplied ⇒ supplied value; else default; else error -/
theorem option_decision_pinned (name : String) (user dflt : Option OVal) :
    pinnedDecide name user dflt = some (optionSpec name user dflt) :=
  option_decision_pinned_of_in user_test_pinned default_test_pinned name user dflt

/-- **whole merge, for the code as it is**: a declared option that the user supplied evaluates to the
    supplied value, whatever it is, also when it is declared several times -/
theorem merge_supplied_pinned (tu td : Test) (h1 : testOfString userTest = some tu)
    (h2 : testOfString defaultTest = some td) (defs : List OptDecl) (user plugin opts : AList OVal)
    (extra : List String) (h : mergeOptions tu td defs user plugin = .ok (opts, extra))
    (o : OptDecl) (ho : o ∈ defs) (u : OVal) (hu : user.lookup o.name = some u) :
    opts.lookup o.name = some u := by
  rw [user_test_pinned] at h1
  rw [default_test_pinned] at h2
  cases h1
  cases h2
  exact SnowModel.Props.C14.merge_supplied defs user plugin opts extra h o ho u hu

theorem mergeOptionsSource_eq : mergeOptionsSource =
    ["options = raw_plugin_options.copy() if raw_plugin_options else {}",
     "for option in option_definitions:",
     "    name = option['option']",
     "    if name in user_options:",
     "        options[name] = user_options.get(name)",
     "    elif 'default' in option:",
     "        options[name] = option['default']",
     "    else:",
     "        raise DataGenNameError(f'No definition supplied for option {name}')",
     "extra_options = set(user_options.keys()) - set(options.keys())",
     "return (options, extra_options)"] := rfl

/-! ### de-duplication -/

/-- `_dedupe_field_list` builds a dict keyed by the field name and returns its values: `dedupe` -/
theorem dedupeExpr_eq : dedupeExpr = "list({f.name: f for f in fields}.values())" := rfl

/-! ### macros -/

/-- the cycle test looks at the parents only: `parents.contains name` in `includeMacro` -/
theorem cycleTest_eq : cycleTest = "name in parent_macros" := rfl

/-- the second check (D46 repaired by 97f2c27), evaluated first: the macro is on the stack of *all*
    macros under expansion although it is not a parent of this inclusion chain — `cycleErr` in the
    model; the stack is pushed before and popped after the macro's inclusions, fields and friends -/
theorem nestedCycleTest_eq :
    nestedCycleTest = "name not in parent_macros and name in context.macros_being_expanded" ∧
    macroExpansionTracking = "stack" := ⟨rfl, rfl⟩

theorem cycleErr_spec (exp ps : List String) (n : String) :
    cycleErr exp ps n =
      if !ps.contains n && exp.contains n then some (.macroNested n)
      else if ps.contains n then some (.macroCycle ps n) else none := rfl

/-- `include_macro` passes `parent_macros + (name,)` down: `parents ++ [name]` -/
theorem includeMacroInclusionArgs_eq :
    includeMacroInclusionArgs = ["macro", "fields", "friends", "context", "parent_macros + (name,)"] := rfl

/-- `parse_inclusions(..., parent_macros=())` … -/
theorem parseInclusionsParams_eq :
    parseInclusionsParams = ["yaml_sobj", "fields", "friends", "context", "parent_macros"] ∧
    parseInclusionsDefaults = ["()"] := ⟨rfl, rfl⟩

/-- … and `parse_object_template` calls it without parents (`includeMacro f ms []` in `pTemplate`:
    the cycle check restarts at every template), then own fields, own friends, de-dup -/
theorem objectTemplateCompose_eq : objectTemplateCompose =
    ["parse_inclusions(yaml_sobj, fields, friends, context)",
     "fields.extend(parse_fields(parsed_template.fields or {}, context))",
     "friends.extend(parse_friends(parsed_template.friends or [], context))",
     "fields[:] = _dedupe_field_list(fields)"] := rfl

theorem includeMacroSource_eq : includeMacroSource =
    ["macro = context.macros.get(name)",
     "if not macro:",
     "    raise exc.DataGenNameError(f'Cannot find macro named {name}', **context.line_num())",
     "parsed_macro = parse_element(macro, 'macro', {}, {'fields': Dict, 'friends': List, 'include': str}, context)",
     "if name not in parent_macros and name in context.macros_being_expanded:",
     "    raise exc.DataGenError(f'Macro `{name}` includes itself through a nested object template', **context.line_num(macro))",
     "if name in parent_macros:",
     "    idx = parent_macros.index(name)",
     "    raise exc.DataGenError(f'Macro `{name}` calls `{'` which calls `'.join(parent_macros[idx + 1:])}` which calls `{name}`', **context.line_num(macro))",
     "fields = []",
     "friends = []",
     "context.macros_being_expanded.append(name)",
     "try:",
     "    parse_inclusions(macro, fields, friends, context, parent_macros + (name,))",
     "    fields.extend(parse_fields(parsed_macro.fields or {}, context))",
     "    friends.extend(parse_friends(parsed_macro.friends or [], context))",
     "finally:",
     "    context.macros_being_expanded.pop()",
     "return (_dedupe_field_list(fields), friends)"] := rfl

theorem parseInclusionsSource_eq : parseInclusionsSource =
    ["inclusions: Iterable[str] = [x.strip() for x in yaml_sobj.get('include', '').split(',')]",
     "inclusions = filter(None, inclusions)",
     "for inclusion in inclusions:",
     "    include_fields, include_friends = include_macro(inclusion, context, parent_macros)",
     "    fields.extend(include_fields)",
     "    friends.extend(include_friends)"] := rfl

/-- the `include:` string is split on commas, stripped, empty names dropped: `incNames` -/
theorem includeSplit_eq :
    includeSplit = "[x.strip() for x in yaml_sobj.get('include', '').split(',')]" ∧
    includeFilter = "filter(None, inclusions)" := ⟨rfl, rfl⟩

/-! ### files -/

/-- the model's order of the steps of `parseFile` (see `Proofs.parseFile_succ`): included files, then the
    file's own options, macros, (plugins,) version, statements -/
def modelTopLevelOrder : List String :=
  ["included_files", "options", "macros", "plugins", "version", "statements"]

theorem topLevelOrder_eq : topLevelOrder = modelTopLevelOrder := rfl

/-- the macro table is a dict keyed by the macro name, updated per file: `dictUpdate c.macros (macrosOf items)` -/
theorem macroUpdateExpr_eq : macroUpdateExpr = "{obj['macro']: obj for obj in top_level_objects['macro']}" := rfl

/-- the version rule (D47 repaired by 6931335): kind `keep-or-conflict` — `own_version =
    parse_version(own declarations)`; only `if own_version is not None`: a version already on the
    context that differs is a `DataGenSyntaxError` (`Err.versionConflict`), else it is stored:
    `mergeVersion` in `parseFile` -/
theorem versionRule_eq : versionRule =
    ["keep-or-conflict",
     "own_version = parse_version(top_level_objects['snowfakery_version'], context)",
     "own_version is not None",
     "context.version not in (None, own_version)",
     "exc.DataGenSyntaxError",
     "context.version = own_version"] := rfl

/-- the model's rule, spelled out: nothing declared keeps, equal is fine, different is the conflict error -/
theorem mergeVersion_spec (inh : Option Int) (v : Int) :
    mergeVersion inh none = .ok inh ∧ mergeVersion none (some v) = .ok (some v) ∧
    mergeVersion (some v) (some v) = .ok (some v) ∧
    (∀ w, w ≠ v → mergeVersion (some w) (some v) = .error .versionConflict) := by
  refine ⟨rfl, rfl, by simp [mergeVersion], ?_⟩
  intro w hw
  have hb : (w == v) = false := by simpa using hw
  simp [mergeVersion, hb]

theorem parseTopLevelSource_eq : parseTopLevelSource =
    ["top_level_objects = categorize_top_level_objects(data, context)",
     "statements: List[ObjectTemplate] = []",
     "statements.extend(parse_included_files(path, data, context))",
     "for kind in ('option', 'macro', 'plugin'):",
     "    for obj in top_level_objects[kind]:",
     "        declared = obj[kind]",
     "        if kind == 'plugin':",
     "            well_formed = isinstance(declared, str) and '.' in declared.strip('.')",
     "            well_formed = well_formed and (not declared.startswith('.'))",
     "        else:",
     "            well_formed = not isinstance(declared, (list, dict))",
     "        if not well_formed:",
     "            raise exc.DataGenSyntaxError(f'Cannot use `{declared}` as the name of a {kind}', **context.line_num(obj))",
     "context.options.extend(top_level_objects['option'])",
     "context.macros.update({obj['macro']: obj for obj in top_level_objects['macro']})",
     "plugin_specs = [(obj['plugin'], obj['__line__']) for obj in top_level_objects['plugin']]",
     "plugin_near_recipe = path.parent / 'plugins'",
     "context.plugins.extend(resolve_plugins(plugin_specs, search_paths=[plugin_near_recipe]))",
     "own_version = parse_version(top_level_objects['snowfakery_version'], context)",
     "if own_version is not None:",
     "    if context.version not in (None, own_version):",
     "        raise exc.DataGenSyntaxError('Cannot have multiple conflicting versions in the same recipe: ', **context.line_num(top_level_objects['snowfakery_version'][0]))",
     "    context.version = own_version",
     "statements.extend(top_level_objects['statement'])",
     "for pluginbase, plugin in context.plugins:",
     "    if pluginbase == ParserMacroPlugin:",
     "        context.parser_macros_plugins[plugin.__name__] = plugin()",
     "return statements"] := rfl

/-- all `include_file` lines of a file, in order, wherever they stand: `includesOf` -/
theorem parseIncludedFilesSource_eq : parseIncludedFilesSource =
    ["file_inclusions = [obj for obj in data if obj.get('include_file')]",
     "templates = []",
     "for fi in file_inclusions:",
     "    templates.extend(parse_included_file(path, fi, context))",
     "return templates"] := rfl

/-- `parse_included_file` (D45 repaired by 70277f6): the files being read are a *stack* — pushed before
    `parse_file`, popped in a `finally` — and a file that is still open is an error: `incStep` in the
    model (`stack.contains n` ⇒ `includeCycle`, else read with `stack ++ [n]`; the fold continues with
    the unchanged stack, so twice / diamonds stay legal) -/
theorem includeCycleTracking_eq : includeCycleTracking = "stack" ∧
    includeCycleTest = "resolved in context.files_being_parsed" := ⟨rfl, rfl⟩

theorem parseIncludedFileSource_eq : parseIncludedFileSource =
    ["relpath, linenum = relpath_from_inclusion_element(inclusion, context)",
     "inclusion_path = parent_path.parent / relpath",
     "if not inclusion_path.is_file():",
     "    raise exc.DataGenError(f'Cannot load include file {inclusion_path}', **linenum._asdict())",
     "resolved = inclusion_path.resolve()",
     "if resolved in context.files_being_parsed:",
     "    raise exc.DataGenError(f'Include file {inclusion_path} includes itself', **linenum._asdict())",
     "context.files_being_parsed.append(resolved)",
     "try:",
     "    with inclusion_path.open() as f:",
     "        incl_objects = parse_file(f, context)",
     "        return incl_objects",
     "finally:",
     "    context.files_being_parsed.pop()"] := rfl

/-- only relative paths (an absolute one is a recipe error since 292eb44): names in one flat directory in the model -/
theorem relpathSource_eq : relpathSource =
    ["inclusion_parsed: Any = parse_element(inclusion, 'include_file', {}, {}, context)",
     "relpath = inclusion_parsed.include_file",
     "linenum = inclusion_parsed.line_num or LineTracker('unknown', -1)",
     "if relpath.startswith('/'):",
     "    raise exc.DataGenSyntaxError(f'include_file paths should be relative: {relpath}', **linenum._asdict())",
     "return (Path(relpath), linenum)"] := rfl


theorem parseVersionSource_eq : parseVersionSource =
    ["if version_declarations:",
     "    base_version = version_declarations[0]['snowfakery_version']",
     "    mismatched_versions = [obj for obj in version_declarations if obj['snowfakery_version'] != base_version]",
     "    if mismatched_versions:",
     "        with context.change_current_parent_object(version_declarations[1]):",
     "            raise exc.DataGenSyntaxError('Cannot have multiple conflicting versions in the same recipe: ', **context.line_num())",
     "    if base_version not in (2, 3):",
     "        with context.change_current_parent_object(version_declarations[0]):",
     "            raise exc.DataGenSyntaxError('Version must be 2 or 3: ', **context.line_num())",
     "    return base_version"] := rfl

/-- all files are read first, macros are expanded afterwards with the final table (`parseRecipe`); a `RecursionError` of either phase is wrapped into a recipe error (a5a821f) — the model's `Err.fuel` -/
theorem parseRecipeHead_eq : parseRecipeHead =
    ["context = ParseContext()",
     "objects = parse_file(stream, context)",
     "statements = parse_statement_list(objects, context)",
     "except RecursionError"] := rfl

theorem collectionRules_eq : collectionRules =
    ["option=option", "include_file=include_file", "macro=macro", "plugin=plugin", "object=statement",
     "var=statement", "snowfakery_version=snowfakery_version"] := rfl

/-! ### the formula namespace: who may shadow an option -/

def layerOfTag : String → Option Layer
  | "builtins" => some .builtin
  | "options" => some .option
  | "object_names" => some .objectName
  | "row_fields" => some .rowField
  | "plugins" => some .plugin
  | "variables" => some .variable
  | _ => none

/-- `simple_field_vars` is one dict literal whose entries come in this order (later overrides earlier):
    the built-ins are written *before* the options, object names / row fields / plugins / variables after -/
theorem namespaceLayers_eq :
    namespaceLayers = ["builtins", "options", "object_names", "row_fields", "plugins", "variables"] := rfl

/-- … `field_vars` merges the standard functions over all of it: together the model's `layerOrder` -/
theorem layerOrder_pinned :
    namespaceLayers.filterMap layerOfTag ++ [Layer.func] = layerOrder ∧
    fieldVarsMerge = ["self.simple_field_vars()", "self.field_funcs()"] := ⟨by decide, rfl⟩

theorem builtinKeys_eq :
    builtinKeys = ["id", "count", "child_index", "this", "today", "now", "fake", "template"] := rfl

/-- **the options clause for the code as it is**: with the pinned order, a declared option is what a
    formula sees unless an object name, a row field, a plugin, a variable or a function of that name is
    nearer; in particular none of the pinned built-in names can hide it -/
theorem option_visible_pinned (binds : Layer → List String) (name : String)
    (hb : binds .builtin = builtinKeys) (ho : name ∈ binds .option)
    (h : name ∉ binds .objectName ∧ name ∉ binds .rowField ∧ name ∉ binds .plugin ∧
      name ∉ binds .variable ∧ name ∉ binds .func) :
    resolveIn (namespaceLayers.filterMap layerOfTag ++ [Layer.func]) binds name = some .option := by
  rw [layerOrder_pinned.1]
  exact (SnowModel.Props.C14.option_visible binds name).mpr ⟨ho, h⟩

end SnowModel.Props.C14Bridge
