/-
C19 — bridging lemmas: the global-state scan regenerated from the Python sources on every run
(`Gen.GlobalState.*`) against the classification the process model was written from
(`SnowModel.Proc.Known.*`) and against the constants of the model.

A new module-level / class-level cache, counter, registry or instance, a new mutable default, a new
`global`, a new write to a class attribute, a new function that stores into one of today's constant
tables, a new reader of a run-time mutable cell, a new import-time registration, a new `os.chdir` /
`sys.path` / import-system / PRNG-seed call: each changes the generated file and one of these lemmas
stops type-checking.
-/
import SnowModel.Core.Proc
import SnowModel.Generated.GlobalState

namespace SnowModel.Props.C19Bridge
open SnowModel.Proc

/-! #### the cells -/

/-- `Gen.globalCells ⊆ Known.cells`: every cell the scan finds is classified -/
theorem cells_known : Gen.GlobalState.cells.all (fun c => Known.cells.contains c) = true := by decide

/-- every run-time mutable cell of the model still exists in the source, with the same kind -/
theorem model_cells_exist : Known.runtimeMutable.all (fun c => Gen.GlobalState.cells.contains c) = true := by decide

/-- the run-time mutable cells are exactly these seven -/
theorem runtime_mutable_names :
    Known.runtimeMutable.map (fun c => c.2.1)
      = ["RowHistoryCV", "UniqueNumericIdGenerator.context_uniqifier", "StandardFuncs.Functions._faker_for_dates",
         "_parse_date_str", "_parse_datetime_str", "mask_for_key", "randomizer"] := by rfl

/-! #### who writes them -/

/-- every store / mutation / advance of a cell inside a function is one of the known ones -/
theorem cell_writes_known : Gen.GlobalState.cellWrites.all (fun w => Known.cellWrites.contains w) = true := by decide

/-- the two writes the model has operations for are still there: `RowHistoryCV.set` in
    `Interpreter.execute` (`Op.setHistory`), `next(context_uniqifier)` in the generator's constructor
    (`Op.newGenerator`) -/
theorem process_writes_exist : Known.processWrites.all (fun w => Gen.GlobalState.cellWrites.contains w) = true := by decide

/-- no function writes to a cell classified as constant table, except into the per-instance copy
    made by `RestrictedPickler.__init__` -/
theorem const_tables_not_written :
    (Gen.GlobalState.cellWrites.filter (fun w => !(Known.mutableNames.contains w.2.2.1))).map (fun w => w.2.1)
      = ["RestrictedPickler.__init__"] := by decide

/-- the functions that touch a run-time mutable cell are exactly the known readers -/
theorem mutable_uses_known :
    Gen.GlobalState.cellUses.filter (fun u => Known.mutableNames.contains u.2.2) = Known.mutableUses := by decide

/-! #### other ways of keeping state across runs -/

theorem import_effects_known : Gen.GlobalState.importEffects.all (fun e => Known.importEffects.contains e) = true := by decide
theorem external_writes_known : Gen.GlobalState.externalWrites.all (fun e => Known.externalWrites.contains e) = true := by decide
theorem mutable_defaults_known : Gen.GlobalState.mutableDefaults.all (fun e => Known.mutableDefaults.contains e) = true := by decide
theorem class_attr_writes_known : Gen.GlobalState.classAttrWrites.all (fun e => Known.classAttrWrites.contains e) = true := by decide
theorem no_global_statements : Gen.GlobalState.globalDecls = [] := by decide

/-- the class whose attribute `count` is incremented is created per RestrictedPickler (per run) -/
theorem unpickler_class_is_per_run : Gen.GlobalState.unpicklerClassPerInstance = ["RestrictedUnpickler"] := by rfl

/-- `RowHistory.already_warned`: class default `False`, the latch is set on the instance (per run) -/
theorem already_warned_is_per_run :
    Gen.GlobalState.alreadyWarnedStores = ["already_warned = False", "self.already_warned = True"] := by rfl

/-! #### constants of the model -/

theorem maxsize_parse_date : maxsize .parseDate = some Gen.GlobalState.maxsizeParseDate := by decide
theorem maxsize_parse_datetimespec : maxsize .parseDatetimespec = some Gen.GlobalState.maxsizeParseDatetimespec := by decide
theorem maxsize_randomizer : maxsize .randomizer = some Gen.GlobalState.maxsizeRandomizer := by decide
theorem maxsize_mask_for_key : maxsize .maskForKey = some Gen.GlobalState.maxsizeMaskForKey := by decide

/-- the cache key is the whole argument list -/
theorem cache_keys :
    Gen.GlobalState.parseDateParams = ["d"] ∧ Gen.GlobalState.parseDatetimespecParams = ["d"]
    ∧ Gen.GlobalState.randomizerParams = ["key"] ∧ Gen.GlobalState.maskForKeyParams = ["key", "numbits"] := by decide

/-- commit 885750c: the caches sit on the string-only helpers; `parse_date` / `parse_datetimespec` themselves
    answer datetimes, dates, `now` and `today` directly — the value of the `onlyStrings` parameter of
    `parseDateCall` / `parseDatetimespecCall` under which `runs_independent_full` is stated -/
theorem caches_only_strings : Gen.GlobalState.cachesOnlyStrings = true := by decide

/-- the dispatch of the two wrappers is the one `parseDateCall` / `parseDatetimespecCall` were written from -/
theorem parse_date_dispatch :
    Gen.GlobalState.parseDateBody =
      ["if isinstance(d, datetime):\n    return d.date()\nelif isinstance(d, date):\n    return d",
       "return _parse_date_str(d)"]
    ∧ Gen.GlobalState.parseDateStrBody = ["return dateutil.parser.parse(d).date()"] := by
  constructor <;> rfl

theorem parse_datetimespec_dispatch :
    Gen.GlobalState.parseDatetimespecBody =
      ["if isinstance(d, datetime):\n    if not d.tzinfo:\n        d = d.replace(tzinfo=timezone.utc)\n    return d\nelif isinstance(d, str):\n    if d == 'now':\n        return datetime.now(tz=timezone.utc)\n    elif d == 'today':\n        return datetime.combine(date.today(), datetime.min.time(), tzinfo=timezone.utc)\n    return _parse_datetime_str(d)\nelif isinstance(d, date):\n    return datetime.combine(d, datetime.min.time(), tzinfo=timezone.utc)"]
    ∧ Gen.GlobalState.parseDatetimeStrBody =
      ["dt = dateutil.parser.parse(d)", "if not dt.tzinfo:\n    dt = dt.replace(tzinfo=timezone.utc)", "return dt"] := by
  constructor <;> rfl

/-- `mask_for_key` works on a copy: the cached `Random(key)` is never advanced, so `randomizer` and
    `mask_for_key` are pure functions of their keys -/
theorem mask_for_key_copies :
    Gen.GlobalState.maskForKeyBody = ["r = copy(randomizer(key))", "return r.getrandbits(numbits)"]
    ∧ Gen.GlobalState.randomizerBody = ["return Random(key)"] := by decide

/-- the counter starts where the model's fresh process starts, and is advanced exactly once per generator -/
theorem counter_start : fresh.proc.ctx = Gen.GlobalState.counterStart := by decide
theorem counter_use : Gen.GlobalState.counterUse = ["self.unique_identifer = next(self.context_uniqifier)"] := by rfl

/-- `datasets.chdir` is a bracket: the saved directory is restored in `finally` (`Bal`) -/
theorem chdir_is_bracket :
    Gen.GlobalState.chdirBody = ["cwd = os.getcwd()", "os.chdir(path)", "try:\n    yield\nfinally:\n    os.chdir(cwd)"] := by rfl

/-- `sys.path` is changed only through a restoring patch used as a context manager -/
theorem sys_path_is_bracket :
    Gen.GlobalState.pluginPathReturn = ["patch.object(sys, 'path', new_sys_path)"]
    ∧ Gen.GlobalState.resolvePluginsBody = ["with plugin_path(search_paths):"] := by decide

/-- the ContextVar is set before the run reads anything (`Det.getHistory` needs `h = true`) -/
theorem history_set_first : Gen.GlobalState.executeBody.head? = some "RowHistoryCV.set(self.row_history)" := by decide

/-! #### per-run lifecycle: everything else is created inside `generate` -/

theorem interpreter_exit_clears :
    Gen.GlobalState.exitClears = ["self.current_context = None", "self.plugin_instances = None",
      "self.plugin_function_libraries = None", "self.instance_states = None"] := by rfl

theorem interpreter_state_is_fresh :
    Gen.GlobalState.interpreterFresh =
      ["self.plugin_instances = {name: plugin(self) for name, plugin in snowfakery_plugins.items()}",
       "self.faker_template_libraries = {}", "self.instance_states = {}",
       "self.template_evaluator_factory = JinjaTemplateEvaluatorFactory(self.native_types)",
       "self.row_history = RowHistory(globals.transients.orig_used_ids, self.tables_to_keep_history_for, self.globals.nicknames_and_tables)"] := by rfl

/-- ids start at 1: a new IdManager per Globals, a new Globals per run unless a continuation is loaded -/
theorem ids_start_fresh :
    Gen.GlobalState.idManagerInit = ["self.last_used_ids = defaultdict(lambda: 0)", "self.start_ids = {}"]
    ∧ Gen.GlobalState.initializeGlobals = ["globals = continuation_data", "globals = Globals(name_slots=name_slots)"] := by decide

/-- `generate` and the caller's `plugin_options` (D19c repaired by commit 6b35a3e): the dict is copied
    before the recipe's version is stored into it — the value of the `copies` parameter of
    `prepareOptions` under which `caller_plugin_options_untouched` is stated -/
theorem generate_copies_plugin_options : Gen.GlobalState.copiesPluginOptions = true := by decide

theorem generate_plugin_options_statements :
    Gen.GlobalState.generatePluginOptions =
      ["plugin_options = dict(plugin_options or {})",
       "if parse_result.version:     plugin_options['snowfakery_version'] = parse_result.version",
       "plugin_options = process_plugins_options(snowfakery_plugins, plugin_options)",
       "options, extra_options = merge_options(parse_result.options, user_options, plugin_options)"] := by rfl

/-- `Functions.datetime` (commit f914bf1): the object served by the `parse_datetimespec` cache is converted
    when it carries a non-zero offset and relabelled otherwise (`datetimeFn`); the default zone is UTC
    (`stdV`) -/
theorem datetime_postprocess :
    Gen.GlobalState.datetimePostprocess =
      ["dt = parse_datetimespec(datetimespec)",
       "if dt.utcoffset() and timezone is not None:\n    dt = dt.astimezone(timezone)\nelse:\n    dt = dt.replace(tzinfo=timezone)"]
    ∧ Gen.GlobalState.datetimeDefaultZone = ["UTCAsRelDelta"] := by
  constructor <;> rfl

/-- `Functions.date` hands the `parse_date` result out as it is (identity view: the offset-dependent
    calendar day reaches the row — D19b) -/
theorem date_returns_cached_value :
    Gen.GlobalState.dateReturns = ["return parse_date(datespec)", "return date(year, month, day)"] := by rfl

/-! #### caller-owned arguments -/

/-- no function on the path of a caller-owned argument stores into it, deletes from it or calls a mutator on it
    (`merge_options`, `generate`, `generate_data`, `parse_recipe`, … only READ `user_options`, `plugin_options`,
    `output_files`, `dburls`, `update_passthrough_fields`): the value of the `writesBack` parameter of
    `mergeOptions` / `generateOptions` under which `caller_user_options_untouched` is stated -/
theorem caller_arguments_read_only : Gen.GlobalState.callerArgWrites = [] := by rfl

/-- the settings arguments are followed to where they are used (in particular into `merge_options`) -/
theorem settings_arguments_followed :
    Known.settingsArgCells.all (fun c => Gen.GlobalState.callerArgCells.contains c) = true := by decide

/-- where a caller-owned argument leaves the scanned code: only the known places (files, stream, application) -/
theorem caller_argument_escapes_known :
    Gen.GlobalState.callerArgEscapes.all (fun e => Known.callerArgEscapes.contains e) = true := by decide

/-! #### process-wide settings of other modules -/

/-- the calls / stores through which code of the package can change process-global state of the standard library or of
    third-party modules are exactly the classified ones (a new `csv.field_size_limit(n)`, `sys.setrecursionlimit`,
    `locale.setlocale`, `decimal.getcontext().prec = …`, `os.environ[…] = …`, `logging.basicConfig`, … changes the list) -/
theorem process_setting_writes_known :
    Gen.GlobalState.processSettingWrites = Known.processSettingWrites.map (fun r => (r.1, r.2.1, r.2.2.1)) := by rfl

/-- none of them leaves a setting changed: the hypothesis `KeepsSettings` of `runs_independent_full` for the code -/
theorem no_unrestored_setting :
    Known.processSettingWrites.all (fun r => decide (r.2.2.2.1 ≠ .notRestored)) = true := by decide

/-! #### per-run containers and stacks -/

/-- the containers of the per-run classes are created in `__init__` (a container moved to the class body leaves this
    list and enters `cells`, where `cells_known` rejects it) -/
theorem per_run_containers_known : Gen.GlobalState.perRunContainers = Known.perRunContainers := by rfl

/-- every push onto a run-time stack is immediately followed by the `try` whose `finally` pops it: no statement — in
    particular no `raise` — between push and protection, so a failing run leaves the stack as it found it (`Bal`) -/
theorem stacks_restored_on_every_path : Gen.GlobalState.stackDiscipline = Known.stackDiscipline := by rfl

end SnowModel.Props.C19Bridge
