/-
C05 — bridging lemmas: what `tools/pins/runtime.py` (Gen.Runtime, Gen.ObjectRows) and
`tools/pins/persist.py` (Gen.Persist) regenerate from the Python AST on every run coincides with
what the hand-written model `SnowModel.Persist` was written against.  A change of a key, of an
access kind, of the dump call, of the registered representers, of `__setstate__` or of the history
restore changes a generated file and one of these lemmas stops type-checking.
-/
import SnowModel.Core.Persist
import SnowModel.Props.C05
import SnowModel.Generated.Runtime
import SnowModel.Generated.ObjectRows
import SnowModel.Generated.Persist

namespace SnowModel.Props.C05Bridge
open SnowModel.Persist

/-! ### key tables -/

/-- the keys `Globals.__getstate__` writes are the keys of the model's `getstate`, in source order -/
theorem globalsSaved_eq : Gen.Runtime.globalsSaved = globalsSavedKeys := by decide

theorem getstate_keys (g : G) : keysD (getstate g) = Gen.Runtime.globalsSaved := by
  rw [globalsSaved_eq]; rfl

/-- the accesses of `Globals.__setstate__` (key and access kind) are those of the model's `setstate` -/
theorem globalsLoaded_eq : Gen.Runtime.globalsLoaded = globalsLoadedKeys := by decide

/-- **keys_roundtrip**: every key written is read back *by key access* (`state[k]` or
    `state.get(k)`) … -/
theorem keys_roundtrip :
    ∀ k ∈ Gen.Runtime.globalsSaved,
      ("item:" ++ k) ∈ Gen.Runtime.globalsLoaded ∨ ("get:" ++ k) ∈ Gen.Runtime.globalsLoaded := by
  decide

/-- … and nothing is read with `getattr(state, …)` (which on a dict silently yields the default: D05,
    fixed in this tree) -/
theorem no_attr_access : ∀ k ∈ Gen.Runtime.globalsSaved, ("attr:" ++ k) ∉ Gen.Runtime.globalsLoaded := by decide

/-- the only key read but never written is the legacy `nicknamed_objects` (read with a default) -/
theorem loaded_not_saved :
    Gen.Runtime.globalsLoaded.filter (fun a =>
      !(Gen.Runtime.globalsSaved.any (fun k => a == "item:" ++ k || a == "get:" ++ k)))
      = ["get:" ++ kLegacyNick] := by decide

theorem idManager_keys :
    Gen.Runtime.idManagerSaved = ["'" ++ kLastUsed ++ "'"] ∧ Gen.Persist.idManagerLoaded = ["item:" ++ kLastUsed] := by
  decide

theorem idManager_bodies :
    Gen.Persist.idManagerGetstate = ["return {'last_used_ids': dict(self.last_used_ids)}"] ∧
    Gen.Persist.idManagerSetstate =
      ["self.last_used_ids = defaultdict(lambda: 0, state['last_used_ids'])",
       "self.start_ids = {name: val + 1 for name, val in self.last_used_ids.items()}"] := by decide

/-- `start_ids[name] = val + 1` -/
theorem startId_eq (v : Int) : Gen.Runtime.startId v = startIdOf v := rfl

theorem objectRow_keys :
    Gen.Persist.objectRowSavedKeys = [kRowTable, kRowValues] ∧
    (∀ k ∈ Gen.Persist.objectRowSavedKeys, k ∈ Gen.Persist.objectRowSlots) := by decide

/-- `ObjectRow.__getstate__` drops exactly the `ObjectRow`-valued fields (`keptValues`), and
    `__setstate__` assigns every key as a slot -/
theorem objectRow_bodies :
    Gen.Persist.objectRowDropCond = ["not isinstance(v, ObjectRow)"] ∧
    Gen.ObjectRows.objectRowGetstate =
      ["values = {k: v for k, v in self._values.items() if not isinstance(v, ObjectRow)}",
       "return {'_tablename': self._tablename, '_values': values}"] ∧
    Gen.ObjectRows.objectRowSetstate = ["for slot, value in state.items():\n    setattr(self, slot, value)"] := by
  decide

theorem dep_fields :
    Gen.Persist.depFields = [kDepFrom, kDepTo, kDepField] ∧ Gen.Persist.depBases = ["NamedTuple"] := by decide

/-! ### the state dict and `__setstate__` -/

theorem globalsSavedExprs_eq : Gen.Persist.globalsSavedExprs =
    ["persistent_nicknames=persistent_nicknames",
     "persistent_objects_by_table=persistent_objects_by_table",
     "id_manager=self.id_manager.__getstate__()",
     "today=self.today",
     "nicknames_and_tables=self.nicknames_and_tables",
     "intertable_dependencies=intertable_dependencies"] := by decide

theorem globalsGetstateBody_eq : Gen.Persist.globalsGetstateBody =
    ["def serialize_dict_of_object_rows(dct):\n    return {k: v.__getstate__() for k, v in dct.items()}",
     "persistent_nicknames = serialize_dict_of_object_rows(self.persistent_nicknames)",
     "persistent_objects_by_table = serialize_dict_of_object_rows(self.persistent_objects_by_table)",
     "intertable_dependencies = [dict(v._asdict()) for v in self.intertable_dependencies]",
     "state = {'persistent_nicknames': persistent_nicknames, 'persistent_objects_by_table': persistent_objects_by_table, 'id_manager': self.id_manager.__getstate__(), 'today': self.today, 'nicknames_and_tables': self.nicknames_and_tables, 'intertable_dependencies': intertable_dependencies}",
     "return state"] := rfl

theorem globalsSetstateBody_eq : Gen.Persist.globalsSetstateBody =
    ["def deserialize_dict_of_object_rows(dct):\n    return {k: hydrate(ObjectRow, v) for k, v in dct.items()}",
     "self.nicknamed_objects = deserialize_dict_of_object_rows(state.get('nicknamed_objects', {}))",
     "self.persistent_nicknames = deserialize_dict_of_object_rows(state.get('persistent_nicknames', {}))",
     "self.nicknames_and_tables = state['nicknames_and_tables']",
     "self.id_manager = hydrate(IdManager, state['id_manager'])",
     "self.intertable_dependencies = OrderedSet()",
     "for dep in state.get('intertable_dependencies', []):\n    self.intertable_dependencies.add(Dependency(**dep) if isinstance(dep, dict) else Dependency(*dep))",
     "self.today = state['today']",
     "persistent_objects_by_table = state.get('persistent_objects_by_table')",
     "self.persistent_objects_by_table = deserialize_dict_of_object_rows(persistent_objects_by_table) if persistent_objects_by_table else {}",
     "self.reset_slots()"] := rfl

theorem setstateTail_eq : Gen.Runtime.setstateTail = ["self.reset_slots()"] := by decide

/-! ### the YAML wiring -/

/-- `yaml.dump(state, file, Dumper=SnowfakeryDumper)` and nothing else: in particular no
    `sort_keys=False` (the model sorts every mapping), no `default_flow_style`, no `allow_unicode` -/
theorem saveCall_eq : Gen.Persist.saveCall =
    ["yaml.dump", "continuation_data.__getstate__()", "continuation_file", "Dumper=SnowfakeryDumper"] ∧
    Gen.Persist.saveBody = ["yaml.dump(continuation_data.__getstate__(), continuation_file, Dumper=SnowfakeryDumper)"] := by
  decide

/-- the file is produced by ONE dump call of the WHOLE state: the call is the expression statement
    of the function body itself — not inside a loop, a condition or a helper — and its first argument
    is the complete `__getstate__()` dict.  (PyYAML numbers anchors `id001…` per dump call and
    `safe_load` rejects a document that defines an anchor twice; the model's `yamlDump` is one
    function of the whole state.) -/
theorem saveCall_single_document :
    Gen.Persist.saveCallContext = ["Expr", "Call"] ∧ Gen.Persist.saveBody.length = 1 ∧
    Gen.Persist.saveCall[1]? = some "continuation_data.__getstate__()" := by decide

theorem loadBody_eq : Gen.Persist.loadBody = ["return hydrate(Globals, yaml.safe_load(continuation_file))"] := by
  decide

theorem hydrate_eq : Gen.Persist.hydrateBody = ["obj = cls.__new__(cls)", "obj.__setstate__(data)", "return obj"] := by
  decide

/-- the dumper is a plain subclass of PyYAML's `SafeDumper` (its scalar representers are the YAML
    layer `Y` of the model) -/
theorem dumperClass_eq : Gen.Persist.dumperClass = ["SafeDumper", "pass"] ∧
    Gen.Persist.yamlUtilsImports = ["from decimal import Decimal", "from yaml import SafeDumper, SafeLoader"] := by
  decide

/-- every representer registered in the package: none for `NicknameSlot`, `ObjectRow` (the model's
    `represent` fails on them), none that overrides a built-in scalar type, and — since cf894eb — one
    for `Decimal`, which writes `str(value)` under the tag `!snowfakery_decimal` (the model's
    `Sc.decimal` token) -/
theorem representers_eq : Gen.Persist.representers =
    ["snowfakery/data_generator_runtime.py: SnowfakeryDumper.add_representer(defaultdict, SnowfakeryDumper.represent_dict)",
     "snowfakery/data_generator_runtime.py: yaml.SafeDumper.add_representer(Dependency, lambda representer, obj: representer.represent_list(obj))",
     "snowfakery/plugins.py: SnowfakeryDumper.add_representer(cls, Representer.represent_object)",
     "snowfakery/standard_plugins/datasets.py: SnowfakeryDumper.add_representer(quoted_name, Representer.represent_str)",
     "snowfakery/utils/yaml_utils.py: SnowfakeryDumper.add_representer(Decimal, lambda dumper, value: dumper.represent_scalar('!snowfakery_decimal', str(value)))"] :=
  rfl

/-- … and the constructors: the same tag is read back as `Decimal(<text>)` by the loader that
    `load_continuation_yaml` uses (`yaml.safe_load` = `SafeLoader`) -/
theorem constructors_eq : Gen.Persist.constructors =
    ["snowfakery/plugins.py: yaml.SafeLoader.add_constructor(f'tag:yaml.org,2002:python/object/apply:{cls.__module__}.{cls.__name__}', lambda loader, node: cls._from_continuation(loader.construct_mapping(node.value[0])))",
     "snowfakery/utils/yaml_utils.py: SafeLoader.add_constructor('!snowfakery_decimal', lambda loader, node: Decimal(loader.construct_scalar(node)))"] :=
  rfl

theorem objectReference_eq : Gen.Persist.objectReferenceBases = ["yaml.YAMLObject"] ∧
    Gen.Persist.objectRowYamlAttrs =
      ["yaml_loader = yaml.SafeLoader", "yaml_dumper = SnowfakeryDumper", "yaml_tag = '!snowfakery_objectrow'"] := by
  decide

/-- where `generate` reads and writes the file, and that a continued run starts from the loaded
    `Globals` object itself -/
theorem generate_wiring : Gen.Persist.generateContinuation =
    ["continuation_data = load_continuation_yaml(continuation_file) if continuation_file else None",
     "if generate_continuation_file:\n    save_continuation_yaml(runtime_context, generate_continuation_file)"] ∧
    Gen.Persist.initializeGlobalsContinued = ["continuation_data", "globals = continuation_data"] := by decide

/-! ### the history restore -/

theorem resaveBody_eq : Gen.Persist.resaveBody =
    ["relevant_objs = [(obj._tablename, nickname, obj) for nickname, obj in globals.persistent_nicknames.items()]",
     "already_saved = set(((obj._tablename, obj._id) for _, _, obj in relevant_objs))",
     "relevant_objs.extend(((tablename, None, obj) for tablename, obj in globals.persistent_objects_by_table.items() if (tablename, obj._id) not in already_saved))",
     "relevant_objs = ((table, nick, obj) for table, nick, obj in relevant_objs if table in tables_to_keep_history_for)",
     "for tablename, nickname, obj in relevant_objs:\n    self.row_history.save_row(tablename, nickname, obj._values)",
     "self.row_history.reset_locals()"] := rfl

theorem resave_called : Gen.Runtime.interpreterInitTail = ["RowHistory", "self.resave_objects_from_continuation"] := by
  decide

end SnowModel.Props.C05Bridge
