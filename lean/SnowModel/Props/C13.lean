/-
C13 — unique_id and unique_alpha_code never collide within a run.
Property theorems only (helper lemmas live in `SnowModel/Proofs/C13*.lean`).

Oracles: `lg n` stands for `int(math.log(n, 2))` (float arithmetic), `mask key numbits` for
`Random(key).getrandbits(numbits)`.  Every theorem holds for *every* pair of such functions, so
neither float inaccuracy nor the Mersenne twister matters; what the real code must guarantee is
only that `mask_for_key` is a function of its two arguments (checked by the harness across more
than 128 distinct pairs, i.e. across `lru_cache` evictions).
-/
import SnowModel.Core.Uid
import SnowModel.Proofs.C13c
import SnowModel.Proofs.C13e
import SnowModel.Proofs.C13f

namespace SnowModel.Props.C13
open SnowModel.Uid
open SnowModel.Proofs.C13 (WF)

/-! ### 1. tuple of naturals → integer (octal digits, "9" as separator, `int()`) -/

/-- `oct(n)[2:]` determines `n`. -/
theorem octDigits_injective (p q : Nat) (h : octDigits p = octDigits q) : p = q :=
  Proofs.C13.octDigits_injective p q h

/-- **oct9.** `int("9".join(oct(p)[2:] for p in ps))` is injective on non-empty tuples of
    naturals of any length — although `int()` drops a leading zero (`int("0917") = 917`). -/
theorem oct9_injective (ps qs : List Nat) (hp : ps ≠ []) (hq : qs ≠ [])
    (h : encodeTuple ps = encodeTuple qs) : ps = qs :=
  Proofs.C13.encodeTuple_injective ps qs hp hq h

example : encodeTuple [0, 15] = 917 ∧ encodeTuple [127, 99, 0, 1] = 17791439091 := by decide

/-- The non-emptiness hypothesis is needed (and is guaranteed by the template parser, see
    `parse_nonempty`): the empty tuple and `(0)` both give 0. -/
theorem oct9_empty_refuted : encodeTuple [] = encodeTuple [0] ∧ ([] : List Nat) ≠ [0] := by decide

/-- `"…".split(",")` never yields an empty list, so a parsed template has at least one part. -/
theorem parse_nonempty (t : String) (ps : List Part) (h : parseTemplate t = .ok ps) : ps ≠ [] := by
  unfold parseTemplate at h
  intro e
  subst e
  have hs : splitComma t.toList ≠ [] := by
    generalize t.toList = l
    cases l with
    | nil => simp [splitComma]
    | cons c r =>
      unfold splitComma
      split <;> (try split) <;> simp
  cases hl : splitComma t.toList with
  | nil => exact hs hl
  | cons a as =>
    rw [hl] at h
    simp only [List.mapM_cons, bind, Except.bind] at h
    split at h
    · cases h
    · split at h <;> cases h

/-! #### spelling variants of a template are the same template

`__init__` hands `part.strip().lower()` to `_convert`; `Proofs.C13.normPiece` is that
normalisation. The distinctness theorems below speak about the *parsed* parts (`c.parts`), so
they cover `context,index`, `context, index` and `Context,Index` alike: generators written with
different spellings share one id layout and are kept apart only by the process-wide counter. -/

/-- `parseTemplate` depends on the template text only through the normalised pieces. -/
theorem parseTemplate_spelling_invariant (t t' : String)
    (h : (splitComma t.toList).map Proofs.C13.normPiece = (splitComma t'.toList).map Proofs.C13.normPiece) :
    parseTemplate t = parseTemplate t' := by
  rw [Proofs.C13.parseTemplate_eq, Proofs.C13.parseTemplate_eq, h]

/-- blanks (space, tab, newline, carriage return) before and after a piece do not matter -/
theorem piece_blanks_irrelevant (ws p ws' : List Char)
    (h : ∀ c ∈ ws, isSpace c = true) (h' : ∀ c ∈ ws', isSpace c = true) :
    Proofs.C13.normPiece (ws ++ p ++ ws') = Proofs.C13.normPiece p :=
  Proofs.C13.normPiece_pad ws p ws' h h'

/-- letter case does not matter: pieces that are equal after lower-casing normalise equally -/
theorem piece_case_irrelevant (p q : List Char) (h : p.map Char.toLower = q.map Char.toLower) :
    Proofs.C13.normPiece p = Proofs.C13.normPiece q :=
  Proofs.C13.normPiece_case p q h

example :
    parseTemplate "context, index" = parseTemplate "context,index" ∧
    parseTemplate "Context,Index" = parseTemplate "context,index" ∧
    parseTemplate " PID ,\tContext ,   INDEX " = parseTemplate (defaultNumericTemplate true) ∧
    parseTemplate "context,index" = .ok [.context, .index] := by decide

/-! ### 2. the reversible scramble -/

/-- **scramble.** For every mask function, every `log` function and every two requested minimum
    widths: equal results come from equal numbers. -/
theorem scramble_injective (lg : Nat → Nat) (mask : Nat → Nat → Nat) (n n' b b' v : Nat)
    (h : scramble lg mask n b = .ok v) (h' : scramble lg mask n' b' = .ok v) : n = n' :=
  Proofs.C13.scramble_injective lg mask n n' b b' v h h'

/-- `unscramble_number(scramble_number(n, b)) = n`. -/
theorem unscramble_scramble (lg : Nat → Nat) (mask : Nat → Nat → Nat) (n b v : Nat)
    (h : scramble lg mask n b = .ok v) : unscramble mask v = n :=
  Proofs.C13.unscramble_scramble lg mask n b v h

/-- the `assert number % SHIFT3 == 0` inside `unscramble_number` can never fail -/
theorem unscramble_assert_holds (v : Nat) : unscrambleAssertQty v = 0 :=
  Proofs.C13.unscrambleAssertQty_zero v

/-- `scramble_number` succeeds exactly when both of its asserts hold. -/
theorem scramble_ok_iff (lg : Nat → Nat) (mask : Nat → Nat → Nat) (n b : Nat) :
    (∃ v, scramble lg mask n b = .ok v) ↔ (10 ≤ b ∧ numbitsOf lg n b < SHIFT2) := by
  constructor
  · rintro ⟨v, h⟩
    obtain ⟨h1, h2, _⟩ := Proofs.C13.scramble_ok lg mask n b v h
    exact ⟨h1, h2⟩
  · rintro ⟨h1, h2⟩
    unfold scramble
    rw [if_neg (by omega), if_neg (by simpa using h2)]
    exact ⟨_, rfl⟩

example : ∃ v, scramble Nat.log2 (fun _ _ => 0b1011011101) 1751 10 = .ok v := ⟨_, rfl⟩

/-! ### 3. base-N code with left padding -/

/-- **base-N + padding.** With an alphabet of ≥ 2 distinct characters the code determines the
    number — even across two different minimum lengths (padding uses the zero digit, and the
    converter never emits a leading zero digit except for 0 itself). -/
theorem baseN_pad_injective (al : List Char) (hnd : al.Nodup) (h2 : 2 ≤ al.length) (m m' n n' : Nat)
    (h : alphaCode al m n = alphaCode al m' n') : n = n' := by
  have d1 := Proofs.C13.alphaDecode_alphaCode al hnd h2 m n
  have d2 := Proofs.C13.alphaDecode_alphaCode al hnd h2 m' n'
  rw [← d1, ← d2, h]

/-- decoding a code gives back the number (left inverse) -/
theorem alpha_decode_encode (al : List Char) (hnd : al.Nodup) (h2 : 2 ≤ al.length) (m n : Nat) :
    alphaDecode al (alphaCode al m n) = n :=
  Proofs.C13.alphaDecode_alphaCode al hnd h2 m n

/-- every character of a code belongs to the alphabet -/
theorem code_chars_in_alphabet (al : List Char) (h2 : 2 ≤ al.length) (m n : Nat) :
    ∀ ch ∈ alphaCode al m n, ch ∈ al :=
  Proofs.C13.alphaCode_mem al h2 m n

/-- a code is at least `min_chars` long -/
theorem code_length_ge_min (al : List Char) (m n : Nat) : m ≤ (alphaCode al m n).length :=
  Proofs.C13.rjust_length_ge _ _ _

/-- the generator's codes are at least as long as the *caller's* `min_chars` (the generator may
    raise it to 4 when randomising, never lower it) and only use alphabet characters -/
theorem alphaValue_shape (lg : Nat → Nat) (mask : Nat → Nat → Nat) (a : AlphaCfg) (i : Nat) (s : List Char)
    (h2 : 2 ≤ a.alphabet.length) (h : alphaValue lg mask a i = .ok s) :
    a.minChars ≤ s.length ∧ ∀ ch ∈ s, ch ∈ a.alphabet := by
  obtain ⟨x, _, e⟩ := Proofs.C13.alphaValue_ok lg mask a i s h
  subst e
  refine ⟨Nat.le_trans ?_ (code_length_ge_min _ _ _), code_chars_in_alphabet _ h2 _ _⟩
  unfold effMinChars
  split <;> omega

example : alphaCode "ACGT".toList 6 27 = "AAACGT".toList := by decide
/-- a duplicate character in the alphabet breaks injectivity: the `Nodup` hypothesis is needed -/
example : alphaCode "AAB".toList 2 0 = alphaCode "AAB".toList 2 1 := by decide

/-! ### 4. one generator -/

/-- **A generator whose template contains `index` never repeats** (numeric, randomised or not). -/
theorem generator_injective (lg : Nat → Nat) (mask : Nat → Nat → Nat) (r : Bool) (c : NumCfg) (hc : WF c)
    (hidx : Part.index ∈ c.parts) (i j v : Nat)
    (h : numValue lg mask r c i = .ok v) (h' : numValue lg mask r c j = .ok v) : i = j :=
  Proofs.C13.resolveL_index_inj c i j c.parts hidx
    (Proofs.C13.numValue_eq_tuple lg mask r c c i j v hc hc h h')

/-- the same for alphabetic codes -/
theorem alpha_generator_injective (lg : Nat → Nat) (mask : Nat → Nat → Nat) (a : AlphaCfg) (hc : WF a.num)
    (hnd : a.alphabet.Nodup) (h2 : 2 ≤ a.alphabet.length)
    (hidx : Part.index ∈ a.num.parts) (i j : Nat) (s : List Char)
    (h : alphaValue lg mask a i = .ok s) (h' : alphaValue lg mask a j = .ok s) : i = j :=
  Proofs.C13.resolveL_index_inj a.num i j a.num.parts hidx
    (Proofs.C13.alphaValue_eq_tuple lg mask a a i j s hc hc rfl rfl hnd h2 h h')

/-! ### 5. two generators -/

/-- Two numeric generators collide only on equal tuples. -/
theorem numeric_collision_iff_tuple (lg : Nat → Nat) (mask : Nat → Nat → Nat) (r : Bool) (c c' : NumCfg)
    (hc : WF c) (hc' : WF c') (i j v : Nat)
    (h : numValue lg mask r c i = .ok v) (h' : numValue lg mask r c' j = .ok v) :
    resolve c i = resolve c' j :=
  Proofs.C13.numValue_eq_tuple lg mask r c c' i j v hc hc' h h'

/-- FULL STATEMENT planned in DESIGN.md §5 (false, see `numeric_generators_disjoint_refuted`, D23):
      "two generators whose templates contain `context` never collide"
      ∀ c c', context ∈ c.parts → context ∈ c'.parts → c.ctx ≠ c'.ctx → numValue c i ≠ numValue c' j.
    PARTIAL (explicit extra hypothesis: the two generators use the *same* template, and the same
    number of pid components): **generators with the same template containing `context` never
    collide** (they hold different values of the process-wide counter). This covers the default
    numeric templates of both modes and the big-id alphabetic template. -/
theorem numeric_generators_disjoint_partial (lg : Nat → Nat) (mask : Nat → Nat → Nat) (r : Bool) (c c' : NumCfg)
    (hc : WF c) (hc' : WF c') (hparts : c.parts = c'.parts) (hctx : Part.context ∈ c.parts)
    (hpid : c.pidParts.length = c'.pidParts.length) (hne : c.ctx ≠ c'.ctx) (i j v v' : Nat)
    (h : numValue lg mask r c i = .ok v) (h' : numValue lg mask r c' j = .ok v') : v ≠ v' := by
  intro e
  subst e
  have := Proofs.C13.numValue_eq_tuple lg mask r c c' i j v hc hc' h h'
  rw [Proofs.C13.resolve_eq, Proofs.C13.resolve_eq, ← hparts] at this
  exact Proofs.C13.resolveL_ctx_ne c c' i j c.parts hctx hpid hne this

/-- Tuples of different lengths never collide either (e.g. `context,index` against
    `pid,context,index`). -/
theorem numeric_generators_disjoint_of_length (lg : Nat → Nat) (mask : Nat → Nat → Nat) (r : Bool)
    (c c' : NumCfg) (hc : WF c) (hc' : WF c') (i j v v' : Nat)
    (hlen : (resolve c i).length ≠ (resolve c' j).length)
    (h : numValue lg mask r c i = .ok v) (h' : numValue lg mask r c' j = .ok v') : v ≠ v' := by
  intro e
  subst e
  exact hlen (congrArg List.length (Proofs.C13.numValue_eq_tuple lg mask r c c' i j v hc hc' h h'))

/-- the same for two alphabetic generators over one alphabet (any two minimum lengths) -/
theorem alpha_generators_disjoint_partial (lg : Nat → Nat) (mask : Nat → Nat → Nat) (a a' : AlphaCfg)
    (hc : WF a.num) (hc' : WF a'.num) (hal : a.alphabet = a'.alphabet) (hr : a.randomize = a'.randomize)
    (hnd : a.alphabet.Nodup) (h2 : 2 ≤ a.alphabet.length)
    (hparts : a.num.parts = a'.num.parts) (hctx : Part.context ∈ a.num.parts)
    (hpid : a.num.pidParts.length = a'.num.pidParts.length) (hne : a.num.ctx ≠ a'.num.ctx)
    (i j : Nat) (s s' : List Char)
    (h : alphaValue lg mask a i = .ok s) (h' : alphaValue lg mask a' j = .ok s') : s ≠ s' := by
  intro e
  subst e
  have := Proofs.C13.alphaValue_eq_tuple lg mask a a' i j s hc hc' hal hr hnd h2 h h'
  rw [Proofs.C13.resolve_eq, Proofs.C13.resolve_eq, ← hparts] at this
  exact Proofs.C13.resolveL_ctx_ne a.num a'.num i j a.num.parts hctx hpid hne this

/-- the default templates, parsed: both numeric defaults and the big-id alphabetic default contain
    `context` and `index`; the small-id alphabetic default is `index` alone (→ D11) -/
theorem default_templates_parsed :
    parseTemplate (defaultNumericTemplate false) = .ok [.context, .index] ∧
    parseTemplate (defaultNumericTemplate true) = .ok [.pid, .context, .index] ∧
    parseTemplate (defaultAlphaTemplate true) = .ok [.pid, .context, .index] ∧
    parseTemplate (defaultAlphaTemplate false) = .ok [.index] := by
  refine ⟨?_, ?_, ?_, ?_⟩ <;> decide

/-! ### 6. one process: any interleaving of generator creations and draws -/

/-- **The process-wide counter distinguishes generators.** After any sequence of operations
    (creations — also failed ones —, draws) from a fresh process, two different generators hold
    different context numbers. -/
theorem process_contexts_distinct (lg : Nat → Nat) (mask : Nat → Nat → Nat) (c0 : Nat) (ops : List Op)
    (g1 g2 : Nat) (a b : Gen) (hne : g1 ≠ g2)
    (ha : (run lg mask (Proc.init c0) ops).1.gens[g1]? = some a)
    (hb : (run lg mask (Proc.init c0) ops).1.gens[g2]? = some b) : a.cfg.ctx ≠ b.cfg.ctx :=
  Proofs.C13.goodCtx_ne _ (Proofs.C13.run_goodCtx lg mask ops _ (Proofs.C13.goodCtx_init c0)) g1 g2 a b hne ha hb

/-- Every value reported for generator `g` at counter value `i` is the value of the generator
    found in slot `g` of the final state (its template, pid, context and kind never change). -/
theorem process_value_sound (lg : Nat → Nat) (mask : Nat → Nat → Nat) (c0 : Nat) (ops : List Op)
    (g i : Nat) (v : Val) (h : Out.value g i v ∈ (run lg mask (Proc.init c0) ops).2) :
    ∃ gen, (run lg mask (Proc.init c0) ops).1.gens[g]? = some gen ∧
      genValue lg mask { gen with counter := i } = .ok v :=
  Proofs.C13.run_value_sound lg mask ops _ g i v h

/-- **Composition, numeric ids.** In the outputs of *any* operation sequence, two numeric ids —
    drawn from the same generator or from two different ones — differ whenever the generators
    share a template that contains `index` and `context` (as both default templates do), the
    randomisation flag and the number of pid components. (`Proofs.C13.NumOK` spells this out.) -/
theorem process_numeric_no_collision (lg : Nat → Nat) (mask : Nat → Nat → Nat) (c0 : Nat) (ops : List Op) :
    (run lg mask (Proc.init c0) ops).2.Pairwise
      (Proofs.C13.NumOK lg mask (run lg mask (Proc.init c0) ops).1) :=
  Proofs.C13.run_numOK lg mask ops _ (Proofs.C13.goodCtx_init c0)

/-- **Composition, alphabetic codes** over one alphabet of ≥ 2 distinct characters (any two
    minimum lengths), same conditions on the template. (`Proofs.C13.AlphaOK`.) -/
theorem process_alpha_no_collision (lg : Nat → Nat) (mask : Nat → Nat → Nat) (c0 : Nat) (ops : List Op) :
    (run lg mask (Proc.init c0) ops).2.Pairwise
      (Proofs.C13.AlphaOK lg mask (run lg mask (Proc.init c0) ops).1) :=
  Proofs.C13.run_alphaOK lg mask ops _ (Proofs.C13.goodCtx_init c0)

/-! #### continuation: generators restored from a continuation file

`Op.restore` is `PluginResult._from_continuation` = `cls(**state)`: the op sequences of the
theorems above include it, so they speak about processes that contain restored generators too.
What makes them safe is stated separately below: a restored generator takes its context number
from the *resuming* process's counter (it does not bring one along). -/

/-- `__reduce__` keeps the template, `randomize` and the original `start` — nothing else. -/
theorem reduce_spec (g : Gen) (sv : SavedGen) (h : reduceGen g = some sv) :
    g.kind = .numeric sv.randomize ∧ sv.parts = g.cfg.parts ∧ sv.start = g.start := by
  unfold reduceGen at h
  split at h
  · rename_i r hk
    simp only [Option.some.injEq] at h
    subst h
    exact ⟨hk, rfl, rfl⟩
  · cases h

/-- **Restore draws a fresh context number**: the restored generator is appended with the
    process's next context number (which is consumed), the persisted template and flag, the
    resuming process's pid, and its counter back at the persisted `start`. -/
theorem restore_spec (lg : Nat → Nat) (mask : Nat → Nat → Nat) (p : Proc) (sv : SavedGen) (pid : List Nat) :
    step lg mask p (.restore sv pid) =
      ({ nextCtx := p.nextCtx + 1,
         gens := p.gens ++ [{ kind := .numeric sv.randomize, cfg := { parts := sv.parts, pidParts := pid, ctx := p.nextCtx },
                              counter := sv.start, start := sv.start }] },
       .created p.gens.length) := rfl

/-- The composition theorems hold from *every* state whose context numbers are pairwise distinct
    and below the counter (`Proofs.C13.GoodCtx`), e.g. a fresh process after any number of restores. -/
theorem process_numeric_no_collision_from (lg : Nat → Nat) (mask : Nat → Nat → Nat) (p : Proc)
    (hp : Proofs.C13.GoodCtx p) (ops : List Op) :
    (run lg mask p ops).2.Pairwise (Proofs.C13.NumOK lg mask (run lg mask p ops).1) :=
  Proofs.C13.run_numOK lg mask ops p hp

/-- non-vacuity with a restored generator: resume (restore of a default small-id generator), then
    the builtin default generator is created; interleaved draws are distinct -/
example :
    ((run Nat.log2 (fun k nb => (k + 1) * 37 % 2 ^ nb) (Proc.init 1)
      [.restore ⟨[.context, .index], true, 1⟩ [5], .newNumeric [.context, .index] [5] true,
       .draw 0, .draw 1, .draw 0, .draw 1]).2.filterMap
        (fun o => match o with | .value _ _ (.num v) => some v | _ => none))
      = [891010, 871010, 1242010, 1142010] := by decide

/-- FULL STATEMENT (false): "the composition holds from every process state".
    **Refutation / why the hypothesis matters**: a state in which a generator already holds a
    context number that the counter has not passed — which is what a generator restored *with its
    saved context number* into a fresh process amounts to — collides with the next generator
    created from the same template: here the restored one (context 1, counter at 3) and the new
    one (context 1 again) both produce the id of the tuple (1, 3). -/
theorem restored_context_must_be_fresh_refuted :
    ¬ Proofs.C13.GoodCtx ⟨1, [⟨.numeric true, ⟨[.context, .index], [5], 1⟩, 3, 1⟩]⟩ ∧
    ((run Nat.log2 (fun k nb => (k + 1) * 37 % 2 ^ nb)
        ⟨1, [⟨.numeric true, ⟨[.context, .index], [5], 1⟩, 3, 1⟩]⟩
        [.newNumeric [.context, .index] [5] true, .draw 0, .draw 1, .draw 1, .draw 1]).2.filterMap
        (fun o => match o with | .value _ _ (.num v) => some v | _ => none)).Nodup = False := by
  constructor
  · intro h
    have := h.2 _ (List.mem_singleton.mpr rfl)
    simp at this
  · simp only [eq_iff_iff, iff_false]
    decide

/-- non-vacuity: two default small-id numeric generators, interleaved draws, four distinct ids -/
example :
    ((run Nat.log2 (fun k nb => (k + 1) * 37 % 2 ^ nb) (Proc.init 1)
      [.newNumeric [.context, .index] [5] true, .newNumeric [.context, .index] [5] true,
       .draw 0, .draw 1, .draw 0, .draw 1]).2.filterMap
        (fun o => match o with | .value _ _ (.num v) => some v | _ => none))
      = [891010, 871010, 1242010, 1142010] := by decide

/-! ### 7. where the property fails in the real code (the model is faithful to it) -/

/-- FULL STATEMENT (false): "two different generators never produce the same value".
    **D11, refutation.** A template without `context` does not see the process-wide counter: two
    generators created from it (any two counter values) produce the *same* value at every draw.
    The small-id default of `unique_alpha_code` / `AlphaCodeGenerator` is such a template. -/
theorem alpha_same_config_collide_refuted (lg : Nat → Nat) (mask : Nat → Nat → Nat) (a : AlphaCfg)
    (hctx : Part.context ∉ a.num.parts) (ctx' : Nat) (i : Nat) :
    alphaValue lg mask { a with num := { a.num with ctx := ctx' } } i = alphaValue lg mask a i := by
  have e : rawId { a.num with ctx := ctx' } i = rawId a.num i := by
    unfold rawId
    rw [Proofs.C13.resolve_eq, Proofs.C13.resolve_eq]
    exact congrArg encodeTuple (Proofs.C13.resolveL_no_context _ _ i a.num.parts hctx rfl)
  simp only [alphaValue, alphaNumber, e, minBits, effMinChars, bitsPerChar]

theorem numeric_same_config_collide_refuted (lg : Nat → Nat) (mask : Nat → Nat → Nat) (r : Bool) (c : NumCfg)
    (hctx : Part.context ∉ c.parts) (ctx' : Nat) (i : Nat) :
    numValue lg mask r { c with ctx := ctx' } i = numValue lg mask r c i := by
  have e : rawId { c with ctx := ctx' } i = rawId c i := by
    unfold rawId
    rw [Proofs.C13.resolve_eq, Proofs.C13.resolve_eq]
    exact congrArg encodeTuple (Proofs.C13.resolveL_no_context _ _ i c.parts hctx rfl)
  simp only [numValue, e]

/-- the witness replayed on the implementation: small-id mode, two default alpha generators -/
example (lg : Nat → Nat) (mask : Nat → Nat → Nat) :
    alphaValue lg mask ⟨⟨[.index], [5], 1⟩, defaultAlphabet, 8, true⟩ 1001
      = alphaValue lg mask ⟨⟨[.index], [5], 2⟩, defaultAlphabet, 8, true⟩ 1001 := rfl

/-- **D11, second half.** A template without `index` is constant: every draw gives the same id. -/
theorem template_without_index_constant_refuted (lg : Nat → Nat) (mask : Nat → Nat → Nat) (r : Bool)
    (c : NumCfg) (hidx : Part.index ∉ c.parts) (i j : Nat) :
    numValue lg mask r c i = numValue lg mask r c j := by
  have e : rawId c i = rawId c j := by
    unfold rawId
    rw [Proofs.C13.resolve_eq, Proofs.C13.resolve_eq]
    exact congrArg encodeTuple (Proofs.C13.resolveL_no_index c i j c.parts hidx)
  simp only [numValue, e]

/-- **D23, refutation** of "two generators whose templates contain `context` never collide":
    with `context` at different positions (`context,index` created first, `index,context` second)
    draw 2 of the first and draw 1 of the second encode the same tuple `(1, 2)`. -/
theorem numeric_generators_disjoint_refuted (lg : Nat → Nat) (mask : Nat → Nat → Nat) (r : Bool) :
    numValue lg mask r ⟨[.context, .index], [5], 1⟩ 2 = numValue lg mask r ⟨[.index, .context], [5], 2⟩ 1 := by
  have e : rawId ⟨[.context, .index], [5], 1⟩ 2 = rawId ⟨[.index, .context], [5], 2⟩ 1 := by decide
  simp only [numValue, e]

/-- **D11, third form**: two alphabetic generators that differ only in `min_chars` agree as soon
    as the numbers are wide enough that neither minimum matters for the scramble (and the codes
    are longer than both minimum lengths). Statement on the scramble: -/
theorem scramble_minbits_irrelevant (lg : Nat → Nat) (mask : Nat → Nat → Nat) (n b b' : Nat)
    (hb : 10 ≤ b) (hb' : 10 ≤ b') (hn : n / 10 ≠ 0)
    (h1 : effMinbits b ≤ lg (n / 10) + 1) (h2 : effMinbits b' ≤ lg (n / 10) + 1) :
    scramble lg mask n b = scramble lg mask n b' :=
  Proofs.C13.scramble_minbits_irrelevant lg mask n b b' hb hb' hn h1 h2

/-- Codes over *different* alphabets can coincide (nothing in a code names its alphabet): the
    distinctness theorems above are per alphabet. -/
theorem different_alphabets_collide_refuted :
    alphaCode "01".toList 0 2 = alphaCode "0123456789".toList 0 10 := by decide

/-- **D25, refutation** of "generators with different configurations never collide": a randomised
    and a non-randomised generator over the same alphabet do. With the real oracle values
    (`Random(3).getrandbits(10) = 243`, `int(log(200, 2)) = 7`): `scramble 2003 = 593010`, which is
    also the plain id of the tuple `(5, 1544)`. Draw 27 of `index` (randomised) and draw 544 of
    `5,index` (plain) give the same code. -/
theorem randomized_vs_plain_collide_refuted :
    ∃ (lg : Nat → Nat) (mask : Nat → Nat → Nat),
      alphaValue lg mask ⟨⟨[.index], [5], 1⟩, defaultAlphabet, 4, true⟩ 1027
        = alphaValue lg mask ⟨⟨[.lit 5, .index], [5], 2⟩, defaultAlphabet, 4, false⟩ 1544 ∧
      resolve ⟨[.index], [5], 1⟩ 1027 ≠ resolve ⟨[.lit 5, .index], [5], 2⟩ 1544 :=
  ⟨Nat.log2, fun _ _ => 243, by decide, by decide⟩

end SnowModel.Props.C13
