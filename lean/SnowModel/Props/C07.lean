/-
C07 — generation stops at the first iteration boundary that meets the target.
Property theorems only (helper lemmas live in `SnowModel/Proofs/C07.lean`).

Reading guide.  `run tables c cont r` is one run of the model of `SnowModel/Core/Stop.lean`:
`tables` = visible tables the recipe has templates for, `c` = stopping criteria, `cont` = the target
table's last id in the continuation (`none`: fresh run), `r i` = rows of the target table created by
the `i`-th iteration of this run (0-based), `cum r i` = rows created by the first `i` iterations.
`Outcome.finished n last app`: normal end after `n` whole iterations; `noProgress n last`: the
`RuntimeError` of `ensure_progress_was_made` at the boundary after iteration `n`; `rejected`: the
`DataGenNameError` of `Interpreter.__init__`, before anything ran; `outOfFuel`: still looping.
`RowsMode c`: the target names a table (not `COUNT_REPS`, not the empty string).
All statements quantify over every `r`, every `N`, every starting point.
-/
import SnowModel.Core.Stop
import SnowModel.Proofs.C07
import SnowModel.Core.StopTables
import SnowModel.Proofs.C07Tables

namespace SnowModel.Props.C07
open SnowModel.Stop
open SnowModel.Proofs.C07 (RowsMode)

/-! ### row target: minimality, wholeness, relative counting -/

/-- **stop_minimal (what a normal end means).** For *every* row-count function `r`: if a run with a
    target of `N ≥ 1` rows of a table ends normally after `n` iterations then `n ≥ 1`, at least `N`
    rows were created since this run started, at no earlier boundary were there `N` rows (not one
    iteration too many), the last id is exactly `last0 + cum r n` (counted from the continuation's
    starting point), and the application counted `n` reps. -/
theorem stop_minimal (tables : List String) (c : Crit) (cont : Cont) (r : Nat → Nat)
    (hc : RowsMode c) (hN : 1 ≤ c.count) (n last : Nat) (app : App)
    (h : run tables c cont r = .finished n last app) :
    1 ≤ n ∧ c.count ≤ cum r n ∧ (∀ j, j < n → cum r j < c.count) ∧
      last = last0 cont + cum r n ∧ app.repCount = n := by
  unfold run runFuel at h
  split at h
  · simp at h
  · obtain ⟨g1, g2, g3, g4, g5, _⟩ :=
      Proofs.C07.loop_finished_sound c (startId cont) r hc (last0 cont) (fuelFor c) 0 (last0 cont)
        App.init n last app (by simp [cum]) h
    rw [Proofs.C07.startId_eq, Proofs.C07.finishedRows_rel] at g3
    refine ⟨by omega, by simpa using g3, ?_, g2, by simp [App.init] at g5; omega⟩
    intro j hj
    by_cases hj0 : j = 0
    · subst hj0; simp [cum]; omega
    · have := g4 j (by omega) hj
      rw [Proofs.C07.startId_eq, Proofs.C07.finishedRows_rel] at this
      simpa using this

example : run ["M", "T"] ⟨"T", 4⟩ (some 7) (seqOf [2, 1, 3, 5] 1) = .finished 3 13 ⟨some 13, 3⟩ := by decide

/-- **stop_minimal (the run does end there).** If `n` is the first boundary with at least `N ≥ 1`
    rows since the start and every iteration before it creates at least one row, the run ends
    normally after exactly `n` iterations — fresh (`cont = none`) or continued (`cont = some L`,
    any `L`) — and `n ≤ N`. -/
theorem stop_minimal_complete (tables : List String) (c : Crit) (cont : Cont) (r : Nat → Nat)
    (hc : RowsMode c) (ht : tables.contains c.tablename = true) (hN : 1 ≤ c.count) (n : Nat)
    (hn : c.count ≤ cum r n) (hmin : ∀ j, j < n → cum r j < c.count) (hr : ∀ j, j < n → 1 ≤ r j) :
    run tables c cont r = .finished n (last0 cont + cum r n) ⟨some (last0 cont + cum r n), n⟩ ∧ n ≤ c.count := by
  have hrej : rejects tables c = false := Proofs.C07.rejects_of_contains tables c ht
  obtain ⟨m, rfl⟩ : ∃ m, n = m + 1 := by
    refine ⟨n - 1, ?_⟩
    have : n ≠ 0 := by
      intro h0; subst h0; simp [cum] at hn; omega
    omega
  have hm : m < c.count := by
    have h1 := Proofs.C07.cum_ge r 0 m (by omega) (fun j _ hj => hr j (by omega))
    have h2 := hmin m (by omega)
    simp [cum] at h1; omega
  refine ⟨?_, by omega⟩
  have hfuel : fuelFor c = m + ((c.count - m) + 1 + 1) := by simp [fuelFor]; omega
  have key := Proofs.C07.loop_complete c (startId cont) r hc (last0 cont) 0 App.init
    (by rw [Proofs.C07.startId_eq]; simp [cum]) m ((c.count - m) + 1)
    (fun j _ hj => ⟨hr j (by omega), by
      rw [Proofs.C07.startId_eq, Proofs.C07.finishedRows_rel]
      have := hmin (j + 1) (by omega)
      simp; omega⟩)
    (by simpa using hr m (by omega))
    (by rw [Proofs.C07.startId_eq, Proofs.C07.finishedRows_rel]; simpa using hn)
  simp only [Nat.zero_add] at key
  have e0 : last0 cont + cum r 0 = last0 cont := rfl
  rw [e0] at key
  simp only [run, runFuel, hrej, hfuel]
  rw [key]
  simp [App.init]

example : ∃ r : Nat → Nat, ∃ n, (∀ j, j < n → 1 ≤ r j) ∧ (3 ≤ cum r n) ∧ (∀ j, j < n → cum r j < 3) ∧ n = 2 :=
  ⟨fun _ => 2, 2, by intro j _; simp, by decide, by
    intro j hj
    have : j = 0 ∨ j = 1 := by omega
    rcases this with rfl | rfl <;> decide, rfl⟩

/-- **stop_whole.** The finish test is evaluated between iterations only: a run that ends normally
    after `n` iterations has created *all* rows of those `n` iterations (possibly more than `N`: the
    iteration that crosses the target is completed) and nothing of iteration `n + 1`. -/
theorem stop_whole (tables : List String) (c : Crit) (cont : Cont) (r : Nat → Nat)
    (hc : RowsMode c) (n last : Nat) (app : App)
    (h : run tables c cont r = .finished n last app) :
    last = last0 cont + cum r n ∧ app.startingId = some last := by
  unfold run runFuel at h
  split at h
  · simp at h
  · obtain ⟨_, g2, _, _, _, g6⟩ :=
      Proofs.C07.loop_finished_sound c (startId cont) r hc (last0 cont) (fuelFor c) 0 (last0 cont)
        App.init n last app (by simp [cum]) h
    exact ⟨g2, g6⟩

/-- non-vacuity, with overshoot: target 2, the only iteration creates 5 rows: all 5 are created -/
example : run ["T"] ⟨"T", 2⟩ none (seqOf [5] 1) = .finished 1 5 ⟨some 5, 1⟩ := by decide

/-- **Relative counting.** A continued run behaves exactly like a fresh run whose ids are shifted by
    the continuation's last id (`L`): same number of iterations, same final state up to the shift. -/
theorem relative_counting (tables : List String) (c : Crit) (L : Nat) (r : Nat → Nat)
    (hc : RowsMode c) (n last : Nat) (app : App)
    (h : run tables c none r = .finished n last app) (hN : 1 ≤ c.count) (hr : ∀ j, j < n → 1 ≤ r j)
    (ht : tables.contains c.tablename = true) :
    run tables c (some L) r = .finished n (L + last) ⟨some (L + last), n⟩ := by
  obtain ⟨_, g2, g3, g4, _⟩ := stop_minimal tables c none r hc hN n last app h
  have := (stop_minimal_complete tables c (some L) r hc ht hN n g2 g3 hr).1
  simp only [last0] at this g4
  rw [this, g4]; simp

/-! ### repetition target -/

/-- **reps_exact.** With a repetition target `k` the run executes exactly `k` iterations (`k ≥ 1`;
    the code also runs once for `k = 0`), whatever the iterations create; it never raises the
    progress error and leaves `starting_id` untouched. -/
theorem reps_exact (tables : List String) (k : Nat) (cont : Cont) (r : Nat → Nat) :
    run tables ⟨COUNT_REPS, k⟩ cont r =
      .finished (max k 1) (last0 cont + cum r (max k 1)) ⟨none, max k 1⟩ := by
  have hrej : rejects tables ⟨COUNT_REPS, k⟩ = false := Proofs.C07.rejects_reps tables _ rfl
  simp only [run, runFuel, hrej]
  have key := Proofs.C07.loop_reps ⟨COUNT_REPS, k⟩ (startId cont) r rfl (last0 cont) (max k 1 - 1)
    (fuelFor ⟨COUNT_REPS, k⟩) 0 App.init (by simp [App.init]; omega) (by simp [fuelFor]; omega)
  have e0 : last0 cont + cum r 0 = last0 cont := rfl
  rw [e0] at key
  have e1 : 0 + (max k 1 - 1) + 1 = max k 1 := by omega
  rw [e1] at key
  simpa [App.init] using key

example : run [] ⟨COUNT_REPS, 3⟩ none (fun _ => 0) = .finished 3 0 ⟨none, 3⟩ := by decide

/-- **No target: exactly one iteration** (`SnowfakeryApplication(None)` uses `(COUNT_REPS, 1)`). -/
theorem no_target_one_iteration (tables : List String) (cont : Cont) (r : Nat → Nat) :
    run tables defaultCrit cont r = .finished 1 (last0 cont + r 0) ⟨none, 1⟩ := by
  have := reps_exact tables 1 cont r
  simpa [defaultCrit, cum] using this

/-! ### an iteration that creates no row of the target table -/

/-- **no_progress_errors (full strength; fresh or continued, any offset).** If iteration `j` creates
    no row of `T`, the target was not met before and every earlier iteration made progress, the run
    ends with the progress error at that very boundary — also when `j` is the first iteration of a
    continued run (repair 96e00ac: `starting_id` is initialised from `start_ids - 1`). -/
theorem no_progress_errors (tables : List String) (c : Crit) (cont : Cont) (r : Nat → Nat)
    (hc : RowsMode c) (ht : tables.contains c.tablename = true) (j : Nat)
    (hz : r j = 0) (hN : cum r j < c.count) (hbefore : ∀ j', j' < j → 1 ≤ r j') :
    run tables c cont r = .noProgress (j + 1) (last0 cont + cum r j) := by
  have hrej : rejects tables c = false := Proofs.C07.rejects_of_contains tables c ht
  simp only [run, runFuel, hrej]
  have hcount : j < c.count := by
    have h1 := Proofs.C07.cum_ge r 0 j (by omega) (fun j' _ h2 => hbefore j' h2)
    simp [cum] at h1; omega
  have hfuel : fuelFor c = j + ((c.count - j) + 1 + 1) := by simp [fuelFor]; omega
  have key := Proofs.C07.loop_stalls c (startId cont) r hc (last0 cont) 0 App.init
    (by rw [Proofs.C07.startId_eq]; simp [cum]) j ((c.count - j) + 1)
    (fun j' _ h2 => ⟨hbefore j' (by omega), by
      rw [Proofs.C07.startId_eq, Proofs.C07.finishedRows_rel]
      have := Proofs.C07.cum_mono r (show j' + 1 ≤ j by omega)
      simp; omega⟩)
    (by simpa using hz) (Or.inr (by rw [Proofs.C07.startId_eq]; simp [cum]))
  simp only [Nat.zero_add] at key
  have e0 : last0 cont + cum r 0 = last0 cont := rfl
  rw [e0] at key
  rw [hfuel, key]
  simp

/-- fresh run, iteration 3 creates nothing: error at boundary 3 -/
example : run ["T"] ⟨"T", 9⟩ none (seqOf [2, 1, 0, 4] 1) = .noProgress 3 3 := by decide
/-- continued run (T already has 1 row), the first iteration creates nothing: error at boundary 1
    (the former D20 witness, which used to end normally after 2 iterations) -/
example : run ["T"] ⟨"T", 1⟩ (some 1) (seqOf [0, 1] 1) = .noProgress 1 1 := by decide

/-- **D20 regression form.** In a continued run with any offset `L`, an empty first iteration ends
    the run with the error at its own boundary. -/
theorem no_progress_errors_continued_first (tables : List String) (c : Crit) (L : Nat) (r : Nat → Nat)
    (hc : RowsMode c) (ht : tables.contains c.tablename = true) (hN : 1 ≤ c.count) (h0 : r 0 = 0) :
    run tables c (some L) r = .noProgress 1 L := by
  have := no_progress_errors tables c (some L) r hc ht 0 h0 (by simp [cum]; omega) (fun j' h => by omega)
  simpa [last0, cum] using this

/-- **No spurious error.** The progress error is only ever raised at the end of an iteration that
    created no row of the target table. -/
theorem error_only_without_progress (tables : List String) (c : Crit) (cont : Cont) (r : Nat → Nat)
    (hc : RowsMode c) (n last : Nat) (h : run tables c cont r = .noProgress n last) :
    1 ≤ n ∧ r (n - 1) = 0 := by
  unfold run runFuel at h
  split at h
  · simp at h
  · have := Proofs.C07.loop_noProgress_sound c (startId cont) r hc (fuelFor c) 0 (last0 cont) App.init
      n last (by rw [Proofs.C07.startId_eq]; simp) h
    exact ⟨by omega, this.2⟩

/-! ### termination ("instead of looping forever") -/

/-- **run_terminates.** For a target that names a table, and for *every* row-count function (zeros
    anywhere), the loop ends — normally or with the progress error — within `N + 2` iterations;
    the model's fuel never runs out, and more fuel changes nothing. -/
theorem run_terminates (tables : List String) (c : Crit) (cont : Cont) (r : Nat → Nat)
    (hc : RowsMode c) (extra : Nat) :
    (∀ n, run tables c cont r ≠ .outOfFuel n) ∧
      runFuel tables c cont r (fuelFor c + extra) = run tables c cont r := by
  have hterm : ∀ n, loop c (startId cont) r (fuelFor c) 0 (last0 cont) App.init ≠ .outOfFuel n :=
    Proofs.C07.loop_terminates c (startId cont) r hc (fuelFor c) (last0 cont) App.init (by
      rw [Proofs.C07.startId_eq]; simp only [fuelFor, targetId]; omega)
  unfold run runFuel
  split
  · exact ⟨fun n => by simp, rfl⟩
  · exact ⟨hterm, Proofs.C07.loop_fuel_mono c _ r (fuelFor c) extra 0 _ _ hterm⟩

/-- the same for a repetition target (direct from `reps_exact`) -/
theorem run_terminates_reps (tables : List String) (k : Nat) (cont : Cont) (r : Nat → Nat) (n : Nat) :
    run tables ⟨COUNT_REPS, k⟩ cont r ≠ .outOfFuel n := by
  rw [reps_exact]; simp

/-! ### a target the recipe cannot create -/

/-- **unknown_target_rejected (full strength).** A target naming a table that no template of the
    recipe creates — the empty name included (repair 6604eb0) — is rejected by
    `Interpreter.__init__`, i.e. before the loop is entered and before any row is written, for every
    fuel, continuation and `r`. -/
theorem unknown_target_rejected (tables : List String) (c : Crit) (cont : Cont)
    (r : Nat → Nat) (fuel : Nat) (hT : c.tablename ≠ COUNT_REPS)
    (hu : tables.contains c.tablename = false) :
    runFuel tables c cont r fuel = .rejected := by
  simp [runFuel, Proofs.C07.rejects_unknown tables c hT hu]

example : run ["M", "T"] ⟨"Q", 3⟩ none (fun _ => 1) = .rejected := by decide
/-- the former D28 witness -/
example : run ["M", "T"] ⟨"", 2⟩ none (fun _ => 0) = .rejected := by decide

/-- conversely a known table (or a repetition target) is never rejected -/
theorem known_target_not_rejected (tables : List String) (c : Crit) (cont : Cont) (r : Nat → Nat)
    (fuel : Nat) (h : tables.contains c.tablename = true ∨ c.tablename = COUNT_REPS) :
    runFuel tables c cont r fuel ≠ .rejected := by
  have hrej : rejects tables c = false := by
    rcases h with h | h
    · exact Proofs.C07.rejects_of_contains tables c h
    · exact Proofs.C07.rejects_reps tables c h
  simp only [runFuel, hrej]
  exact Proofs.C07.loop_ne_rejected c _ r _ _ _ _

/-- **Every run ends** (D28 regression form). If no table of the recipe has the empty name (none
    can), then for *every* stopping criteria, continuation and `r` the run is rejected, ends
    normally or ends with the progress error: the loop never outlives `count + 2` iterations. -/
theorem run_terminates_any (tables : List String) (c : Crit) (cont : Cont) (r : Nat → Nat)
    (hE : tables.contains "" = false) (n : Nat) :
    run tables c cont r ≠ .outOfFuel n := by
  by_cases hR : c.tablename = COUNT_REPS
  · obtain ⟨t, k⟩ := c
    simp only at hR
    subst hR
    exact run_terminates_reps tables k cont r n
  · by_cases hEm : c.tablename = ""
    · have : runFuel tables c cont r (fuelFor c) = .rejected :=
        unknown_target_rejected tables c cont r _ hR (by rw [hEm]; exact hE)
      unfold run; rw [this]; simp
    · exact (run_terminates tables c cont r ⟨hR, hEm⟩ 0).1 n

/-! ### … where "the recipe cannot create" is read off the recipe itself

`parse_result.tables`, against which `Interpreter.__init__` validates the target, is what the parser
registered while parsing the recipe's own statement list (`StopTables.parseTables`).  The theorems
below tie it to the declarative notion `StopTables.Reach`: some template reachable from the
top-level statements — through nested fields, friends and *included* macros — has that table.
A macro that is declared but never included contributes nothing. -/

open SnowModel.StopTables in
/-- **tables_iff_reach.** For every recipe (any macro table, any nesting, any fuel that lets the
    parse finish): a name is among `parse_result.tables` iff the recipe can create that table and
    the name is not hidden. -/
theorem tables_iff_reach (fuel : Nat) (rc : Recipe) (tabs : List String)
    (h : parseTables fuel rc = .ok tabs) (x : String) :
    x ∈ tabs ↔ Reach rc x ∧ visible x = true := by
  unfold parseTables at h
  cases h1 : parseL fuel rc.macros [] [] rc.statements with
  | error e => simp [h1] at h
  | ok acc =>
    simp only [h1] at h
    injection h with h
    subst h
    have := (Proofs.C07Tables.parse_spec rc.macros fuel).2.1 [] [] rc.statements acc h1 x
    rw [List.mem_filter, this]
    simp [Reach, Proofs.C07Tables.ReachL]

open SnowModel.StopTables in
/-- **unknown_target_rejected (over recipes).** If no template reachable from the recipe's
    statements has the target table, the run is rejected by `Interpreter.__init__` — before the
    loop, before any row — whatever macros are declared, for every continuation, `r` and fuel. -/
theorem unknown_target_rejected_recipe (pfuel : Nat) (rc : Recipe) (tabs : List String)
    (h : parseTables pfuel rc = .ok tabs) (c : Crit) (cont : Cont) (r : Nat → Nat) (fuel : Nat)
    (hT : c.tablename ≠ COUNT_REPS) (hu : ¬ Reach rc c.tablename) :
    runFuel tabs c cont r fuel = .rejected := by
  apply unknown_target_rejected tabs c cont r fuel hT
  have : ¬ c.tablename ∈ tabs := fun hm => hu ((tables_iff_reach pfuel rc tabs h _).mp hm).1
  simpa using this

open SnowModel.StopTables in
/-- … and conversely a visible table the recipe can create is never rejected. -/
theorem creatable_target_not_rejected (pfuel : Nat) (rc : Recipe) (tabs : List String)
    (h : parseTables pfuel rc = .ok tabs) (c : Crit) (cont : Cont) (r : Nat → Nat) (fuel : Nat)
    (hr : Reach rc c.tablename) (hv : visible c.tablename = true) :
    runFuel tabs c cont r fuel ≠ .rejected := by
  apply known_target_not_rejected tabs c cont r fuel
  left
  have := (tables_iff_reach pfuel rc tabs h c.tablename).mpr ⟨hr, hv⟩
  simpa using this

open SnowModel.StopTables in
/-- A hidden (`__`) name is rejected even when the recipe creates it (`parse_result.tables` drops
    hidden names; the property does not ask for more). -/
theorem hidden_target_rejected (pfuel : Nat) (rc : Recipe) (tabs : List String)
    (h : parseTables pfuel rc = .ok tabs) (c : Crit) (cont : Cont) (r : Nat → Nat) (fuel : Nat)
    (hT : c.tablename ≠ COUNT_REPS) (hv : visible c.tablename = false) :
    runFuel tabs c cont r fuel = .rejected := by
  apply unknown_target_rejected tabs c cont r fuel hT
  have : ¬ c.tablename ∈ tabs := fun hm => by
    have := ((tables_iff_reach pfuel rc tabs h _).mp hm).2
    rw [hv] at this; cases this
  simpa using this

/-! ### raising the target, and chaining runs -/

/-- rows of iterations `n₁ … n₁+n₂-1`, seen as the row function of a continued run -/
def shiftRows (r : Nat → Nat) (n₁ : Nat) : Nat → Nat := fun i => r (n₁ + i)

theorem cum_shift (r : Nat → Nat) (n₁ n₂ : Nat) :
    cum r (n₁ + n₂) = cum r n₁ + cum (shiftRows r n₁) n₂ := by
  induction n₂ with
  | zero => simp [cum]
  | succ k ih =>
    have : n₁ + (k + 1) = (n₁ + k) + 1 := by omega
    rw [this]
    simp only [cum, ih, shiftRows]
    omega

/-- **stop_monotone.** Raising the row target never shortens the run: over the same iterations, a run
    that ends normally with target `N` executes no more iterations than one that ends normally with
    target `N' ≥ N`, and creates no more rows. -/
theorem stop_monotone (tables : List String) (t : String) (N N' : Nat) (cont : Cont) (r : Nat → Nat)
    (hc : RowsMode ⟨t, N⟩) (hc' : RowsMode ⟨t, N'⟩) (hN : 1 ≤ N) (hNN : N ≤ N')
    (n last : Nat) (app : App) (n' last' : Nat) (app' : App)
    (h : run tables ⟨t, N⟩ cont r = .finished n last app)
    (h' : run tables ⟨t, N'⟩ cont r = .finished n' last' app') :
    n ≤ n' ∧ last ≤ last' := by
  obtain ⟨_, _, g3, g4, _⟩ := stop_minimal tables ⟨t, N⟩ cont r hc hN n last app h
  obtain ⟨_, k2, _, k4, _⟩ := stop_minimal tables ⟨t, N'⟩ cont r hc' (by simp; omega) n' last' app' h'
  have hn : n ≤ n' := by
    apply Nat.le_of_not_lt
    intro hlt
    have := g3 n' hlt
    simp at this k2; omega
  refine ⟨hn, ?_⟩
  obtain ⟨d, rfl⟩ : ∃ d, n' = n + d := ⟨n' - n, by omega⟩
  rw [g4, k4, cum_shift]; omega

example : run ["T"] ⟨"T", 2⟩ none (seqOf [1, 1, 1, 1] 1) = .finished 2 2 ⟨some 2, 2⟩ ∧
    run ["T"] ⟨"T", 4⟩ none (seqOf [1, 1, 1, 1] 1) = .finished 4 4 ⟨some 4, 4⟩ := by decide

/-- **chain_counts.** Two runs chained by a continuation — the first with target `N₁` over the
    iterations `0 …`, the second with target `N₂`, started from the last id the first one recorded,
    over the iterations that follow — together execute `n₁ + n₂` whole iterations, end at id
    `last0 + cum r (n₁ + n₂)` (no id lost or repeated at the seam), and the second run counted its
    `N₂` rows from the seam: at least `N₁ + N₂` rows exist in all, and one boundary earlier the
    second run's share was still below `N₂`. -/
theorem chain_counts (tables : List String) (t : String) (N₁ N₂ : Nat) (cont : Cont) (r : Nat → Nat)
    (hc₁ : RowsMode ⟨t, N₁⟩) (hc₂ : RowsMode ⟨t, N₂⟩) (hN₁ : 1 ≤ N₁) (hN₂ : 1 ≤ N₂)
    (n₁ last₁ : Nat) (app₁ : App) (n₂ last₂ : Nat) (app₂ : App)
    (h₁ : run tables ⟨t, N₁⟩ cont r = .finished n₁ last₁ app₁)
    (h₂ : run tables ⟨t, N₂⟩ (some last₁) (shiftRows r n₁) = .finished n₂ last₂ app₂) :
    last₂ = last0 cont + cum r (n₁ + n₂) ∧ N₁ + N₂ ≤ cum r (n₁ + n₂) ∧
      (∀ j, j < n₂ → cum r (n₁ + j) < cum r n₁ + N₂) := by
  obtain ⟨_, g2, _, g4, _⟩ := stop_minimal tables ⟨t, N₁⟩ cont r hc₁ hN₁ n₁ last₁ app₁ h₁
  obtain ⟨_, k2, k3, k4, _⟩ :=
    stop_minimal tables ⟨t, N₂⟩ (some last₁) (shiftRows r n₁) hc₂ hN₂ n₂ last₂ app₂ h₂
  simp only [last0] at k4
  simp at g2 k2
  refine ⟨by rw [k4, g4, cum_shift]; omega, by rw [cum_shift]; omega, ?_⟩
  intro j hj
  have := k3 j hj
  simp at this
  rw [cum_shift]; omega

example : run ["T"] ⟨"T", 3⟩ none (seqOf [2, 2, 2, 2] 2) = .finished 2 4 ⟨some 4, 2⟩ ∧
    run ["T"] ⟨"T", 3⟩ (some 4) (shiftRows (seqOf [2, 2, 2, 2] 2) 2) = .finished 2 8 ⟨some 8, 2⟩ := by decide


section
open SnowModel.StopTables
/-- non-vacuity: macro `used` (friend `F`) is included by `T`; macro `ghostm` (friend `Ghost`, nested
    `Deep`) is declared but never included: `Ghost` and `Deep` are not tables of the recipe. -/
def exampleRecipe : Recipe :=
  { macros := [⟨"used", [], [.mk "F" [] []]⟩, ⟨"ghostm", ["used"], [.mk "Ghost" [] [.mk "Deep" [] []]]⟩],
    statements := [.mk "M" [] [], .mk "T" ["used"] [.mk "__H" [] [.mk "V" [] []]]] }

example : (parseTables 20 exampleRecipe).toOption = some ["M", "F", "V", "T"] := by decide
example : runFuel ["M", "F", "V", "T"] ⟨"Ghost", 3⟩ none (fun _ => 0) 5 = .rejected := by decide
end

end SnowModel.Props.C07
