/-
C07 — generation stops at the first iteration boundary that meets the target.
Property theorems only (helper lemmas live in `SnowModel/Proofs/C07.lean`).

Reading guide.  `run tables c cont r` is one run of the model of `SnowModel/Core/Stop.lean`:
`tables` = visible tables the recipe has templates for, `c` = stopping criteria, `cont` = the target
table's last id in the continuation (`none`: fresh run), `r i` = rows of the target table created by
the `i`-th iteration of this run (0-based), `cum r i` = rows created by the first `i` iterations.
`Outcome.finished n last app`: normal end after `n` whole iterations; `noProgress n last`: the
`RuntimeError` of `ensure_progress_was_made` at the boundary after iteration `n`; `rejected`: the
`DataGenNameError` of `Interpreter.__init__`, before anything ran; `outOfFuel`: still looping.
`RowsMode c`: the target names a table (not `COUNT_REPS`, not the empty string).
All statements quantify over every `r`, every `N`, every starting point.
-/
import SnowModel.Core.Stop
import SnowModel.Proofs.C07

namespace SnowModel.Props.C07
open SnowModel.Stop
open SnowModel.Proofs.C07 (RowsMode)

/-! ### row target: minimality, wholeness, relative counting -/

/-- **stop_minimal (what a normal end means).** For *every* row-count function `r`: if a run with a
    target of `N ≥ 1` rows of a table ends normally after `n` iterations then `n ≥ 1`, at least `N`
    rows were created since this run started, at no earlier boundary were there `N` rows (not one
    iteration too many), the last id is exactly `last0 + cum r n` (counted from the continuation's
    starting point), and the application counted `n` reps. -/
theorem stop_minimal (tables : List String) (c : Crit) (cont : Cont) (r : Nat → Nat)
    (hc : RowsMode c) (hN : 1 ≤ c.count) (n last : Nat) (app : App)
    (h : run tables c cont r = .finished n last app) :
    1 ≤ n ∧ c.count ≤ cum r n ∧ (∀ j, j < n → cum r j < c.count) ∧
      last = last0 cont + cum r n ∧ app.repCount = n := by
  unfold run runFuel at h
  split at h
  · simp at h
  · obtain ⟨g1, g2, g3, g4, g5, _⟩ :=
      Proofs.C07.loop_finished_sound c (startId cont) r hc (last0 cont) (fuelFor c) 0 (last0 cont)
        App.init n last app (by simp [cum]) h
    rw [Proofs.C07.startId_eq, Proofs.C07.finishedRows_rel] at g3
    refine ⟨by omega, by simpa using g3, ?_, g2, by simp [App.init] at g5; omega⟩
    intro j hj
    by_cases hj0 : j = 0
    · subst hj0; simp [cum]; omega
    · have := g4 j (by omega) hj
      rw [Proofs.C07.startId_eq, Proofs.C07.finishedRows_rel] at this
      simpa using this

example : run ["M", "T"] ⟨"T", 4⟩ (some 7) (seqOf [2, 1, 3, 5] 1) = .finished 3 13 ⟨13, 3⟩ := by decide

/-- **stop_minimal (the run does end there).** If `n` is the first boundary with at least `N ≥ 1`
    rows since the start and every iteration before it creates at least one row, the run ends
    normally after exactly `n` iterations — fresh (`cont = none`) or continued (`cont = some L`,
    any `L`) — and `n ≤ N`. -/
theorem stop_minimal_complete (tables : List String) (c : Crit) (cont : Cont) (r : Nat → Nat)
    (hc : RowsMode c) (ht : tables.contains c.tablename = true) (hN : 1 ≤ c.count) (n : Nat)
    (hn : c.count ≤ cum r n) (hmin : ∀ j, j < n → cum r j < c.count) (hr : ∀ j, j < n → 1 ≤ r j) :
    run tables c cont r = .finished n (last0 cont + cum r n) ⟨last0 cont + cum r n, n⟩ ∧ n ≤ c.count := by
  have hrej : rejects tables c = false := Proofs.C07.rejects_of_contains tables c ht
  obtain ⟨m, rfl⟩ : ∃ m, n = m + 1 := by
    refine ⟨n - 1, ?_⟩
    have : n ≠ 0 := by
      intro h0; subst h0; simp [cum] at hn; omega
    omega
  have hm : m < c.count := by
    have h1 := Proofs.C07.cum_ge r 0 m (by omega) (fun j _ hj => hr j (by omega))
    have h2 := hmin m (by omega)
    simp [cum] at h1; omega
  refine ⟨?_, by omega⟩
  have hfuel : fuelFor c = m + ((c.count - m) + 1 + 1) := by simp [fuelFor]; omega
  have key := Proofs.C07.loop_complete c (startId cont) r hc (last0 cont) 0 App.init
    (by simp [App.init]) m ((c.count - m) + 1)
    (fun j _ hj => ⟨hr j (by omega), by
      rw [Proofs.C07.startId_eq, Proofs.C07.finishedRows_rel]
      have := hmin (j + 1) (by omega)
      simp; omega⟩)
    (by simpa using hr m (by omega))
    (by rw [Proofs.C07.startId_eq, Proofs.C07.finishedRows_rel]; simpa using hn)
  simp only [Nat.zero_add] at key
  have e0 : last0 cont + cum r 0 = last0 cont := rfl
  rw [e0] at key
  simp only [run, runFuel, hrej, hfuel]
  rw [key]
  simp [App.init]

example : ∃ r : Nat → Nat, ∃ n, (∀ j, j < n → 1 ≤ r j) ∧ (3 ≤ cum r n) ∧ (∀ j, j < n → cum r j < 3) ∧ n = 2 :=
  ⟨fun _ => 2, 2, by intro j _; simp, by decide, by
    intro j hj
    have : j = 0 ∨ j = 1 := by omega
    rcases this with rfl | rfl <;> decide, rfl⟩

/-- **stop_whole.** The finish test is evaluated between iterations only: a run that ends normally
    after `n` iterations has created *all* rows of those `n` iterations (possibly more than `N`: the
    iteration that crosses the target is completed) and nothing of iteration `n + 1`. -/
theorem stop_whole (tables : List String) (c : Crit) (cont : Cont) (r : Nat → Nat)
    (hc : RowsMode c) (n last : Nat) (app : App)
    (h : run tables c cont r = .finished n last app) :
    last = last0 cont + cum r n ∧ app.startingId = last := by
  unfold run runFuel at h
  split at h
  · simp at h
  · obtain ⟨_, g2, _, _, _, g6⟩ :=
      Proofs.C07.loop_finished_sound c (startId cont) r hc (last0 cont) (fuelFor c) 0 (last0 cont)
        App.init n last app (by simp [cum]) h
    exact ⟨g2, g6⟩

/-- non-vacuity, with overshoot: target 2, the only iteration creates 5 rows: all 5 are created -/
example : run ["T"] ⟨"T", 2⟩ none (seqOf [5] 1) = .finished 1 5 ⟨5, 1⟩ := by decide

/-- **Relative counting.** A continued run behaves exactly like a fresh run whose ids are shifted by
    the continuation's last id (`L`): same number of iterations, same verdicts — except for the
    progress check of the *first* iteration (D20, see `no_progress_errors_refuted`). Stated for the
    case that makes them equal: the first iteration creates a row. -/
theorem relative_counting (tables : List String) (c : Crit) (L : Nat) (r : Nat → Nat)
    (hc : RowsMode c) (n last : Nat) (app : App)
    (h : run tables c none r = .finished n last app) (hN : 1 ≤ c.count) (hr : ∀ j, j < n → 1 ≤ r j)
    (ht : tables.contains c.tablename = true) :
    run tables c (some L) r = .finished n (L + last) ⟨L + last, n⟩ := by
  obtain ⟨_, g2, g3, g4, _⟩ := stop_minimal tables c none r hc hN n last app h
  have := (stop_minimal_complete tables c (some L) r hc ht hN n g2 g3 hr).1
  simp only [last0] at this g4
  rw [this, g4]; simp

/-! ### repetition target -/

/-- **reps_exact.** With a repetition target `k` the run executes exactly `k` iterations (`k ≥ 1`;
    the code also runs once for `k = 0`), whatever the iterations create; it never raises the
    progress error and leaves `starting_id` untouched. -/
theorem reps_exact (tables : List String) (k : Nat) (cont : Cont) (r : Nat → Nat) :
    run tables ⟨COUNT_REPS, k⟩ cont r =
      .finished (max k 1) (last0 cont + cum r (max k 1)) ⟨0, max k 1⟩ := by
  have hrej : rejects tables ⟨COUNT_REPS, k⟩ = false := Proofs.C07.rejects_reps tables _ rfl
  simp only [run, runFuel, hrej]
  have key := Proofs.C07.loop_reps ⟨COUNT_REPS, k⟩ (startId cont) r rfl (last0 cont) (max k 1 - 1)
    (fuelFor ⟨COUNT_REPS, k⟩) 0 App.init (by simp [App.init]; omega) (by simp [fuelFor]; omega)
  have e0 : last0 cont + cum r 0 = last0 cont := rfl
  rw [e0] at key
  have e1 : 0 + (max k 1 - 1) + 1 = max k 1 := by omega
  rw [e1] at key
  simpa [App.init] using key

example : run [] ⟨COUNT_REPS, 3⟩ none (fun _ => 0) = .finished 3 0 ⟨0, 3⟩ := by decide

/-- **No target: exactly one iteration** (`SnowfakeryApplication(None)` uses `(COUNT_REPS, 1)`). -/
theorem no_target_one_iteration (tables : List String) (cont : Cont) (r : Nat → Nat) :
    run tables defaultCrit cont r = .finished 1 (last0 cont + r 0) ⟨0, 1⟩ := by
  have := reps_exact tables 1 cont r
  simpa [defaultCrit, cum] using this

/-! ### an iteration that creates no row of the target table -/

/-- **no_progress_errors (fresh run, and every later iteration of any run).** If iteration `j`
    creates no row of `T`, the target was not met before, every earlier iteration made progress
    — and either `j` is not the first iteration or the target table's id counter starts at `0` —
    the run ends with the progress error at that very boundary. -/
theorem no_progress_errors (tables : List String) (c : Crit) (cont : Cont) (r : Nat → Nat)
    (hc : RowsMode c) (ht : tables.contains c.tablename = true) (j : Nat)
    (hz : r j = 0) (hN : cum r j < c.count)
    (hbefore : ∀ j', j' < j → 1 ≤ r j' ∨ (j' = 0 ∧ 0 < last0 cont))
    (hdet : 1 ≤ j ∨ last0 cont = 0) :
    run tables c cont r = .noProgress (j + 1) (last0 cont + cum r j) := by
  have hrej : rejects tables c = false := Proofs.C07.rejects_of_contains tables c ht
  simp only [run, runFuel, hrej]
  have e0 : last0 cont + cum r 0 = last0 cont := rfl
  cases j with
  | zero =>
    have key := Proofs.C07.loop_stalls c (startId cont) r hc (last0 cont) 0 App.init
      (by simp [App.init]) 0 (c.count + 1) (fun j h1 h2 => by omega) (by simpa using hz)
      (Or.inr (by simp [App.init, cum]; omega))
    simp only [Nat.zero_add] at key
    exact key
  | succ j =>
    -- first iteration by hand (its progress check compares with `starting_id = 0`), then `j` more
    have hcount : j < c.count := by
      have h1 := Proofs.C07.cum_ge r 1 (j + 1) (by omega) (fun j' h1 h2 => by
        rcases hbefore j' h2 with h | h
        · exact h
        · omega)
      simp at h1; omega
    have hne : last0 cont + r 0 ≠ App.init.startingId := by
      show last0 cont + r 0 ≠ 0
      rcases hbefore 0 (by omega) with h | h
      · omega
      · omega
    have hle : cum r 1 ≤ cum r (j + 1) := Proofs.C07.cum_mono r (by omega)
    have hnf : finishedRows (startId cont) c.count (last0 cont + r 0) = false := by
      rw [Proofs.C07.startId_eq, Proofs.C07.finishedRows_rel]
      have h1 : cum r 1 = r 0 := by simp [cum]
      simp; omega
    have hfuel : fuelFor c = (j + ((c.count - j) + 1)) + 1 := by simp [fuelFor]; omega
    rw [hfuel, Proofs.C07.loop_step_continue c (startId cont) r hc _ 0 (last0 cont) App.init hne hnf]
    have e1 : last0 cont + r 0 = last0 cont + cum r 1 := by simp [cum]
    have key := Proofs.C07.loop_stalls c (startId cont) r hc (last0 cont) 1
      ⟨last0 cont + cum r 1, App.init.repCount + 1⟩ (Nat.le_refl _) j (c.count - j)
      (fun j' h1 h2 => by
        refine ⟨?_, ?_⟩
        · rcases hbefore j' (by omega) with h | h
          · exact h
          · omega
        · rw [Proofs.C07.startId_eq, Proofs.C07.finishedRows_rel]
          have := Proofs.C07.cum_mono r (show j' + 1 ≤ j + 1 by omega)
          simp; omega)
      (by rw [Nat.add_comm 1 j]; exact hz) (Or.inr rfl)
    rw [e1]
    have e2 : 0 + 1 = 1 := rfl
    rw [e2, key]
    have e3 : 1 + j = j + 1 := by omega
    simp [e3]

/-- fresh run, iteration 3 creates nothing: error at boundary 3 -/
example : run ["T"] ⟨"T", 9⟩ none (seqOf [2, 1, 0, 4] 1) = .noProgress 3 3 := by decide

/-- Fresh-run corollary in the form the property is phrased. -/
theorem no_progress_errors_fresh (tables : List String) (c : Crit) (r : Nat → Nat)
    (hc : RowsMode c) (ht : tables.contains c.tablename = true) (j : Nat)
    (hz : r j = 0) (hN : cum r j < c.count) (hbefore : ∀ j', j' < j → 1 ≤ r j') :
    run tables c none r = .noProgress (j + 1) (cum r j) := by
  have := no_progress_errors tables c none r hc ht j hz hN (fun j' h => Or.inl (hbefore j' h))
    (Or.inr rfl)
  simpa [last0] using this

/-
FULL STATEMENT (refuted on the unchanged code, D20):
  theorem no_progress_errors_full … (cont : Cont) … (hz : r j = 0) (hN : cum r j < c.count)
      (hbefore : ∀ j', j' < j → 1 ≤ r j') :
      run tables c cont r = .noProgress (j + 1) (last0 cont + cum r j)
i.e. the same without `hdet`.  It fails for `j = 0` in a continued run whose target table already
has rows, because `starting_id` is the class attribute `0`, not the continuation's last id.
-/

/-- **D20 witness.** Continued run (`T` has 1 row), target 1 more row; the first iteration creates
    no `T`, the second creates one: the run ends *normally* — the empty iteration went unnoticed. -/
theorem no_progress_errors_refuted :
    ∃ (tables : List String) (c : Crit) (cont : Cont) (r : Nat → Nat),
      RowsMode c ∧ tables.contains c.tablename = true ∧ r 0 = 0 ∧ cum r 0 < c.count ∧
      run tables c cont r ≠ .noProgress 1 (last0 cont + cum r 0) ∧
      run tables c cont r = .finished 2 2 ⟨2, 2⟩ :=
  ⟨["T"], ⟨"T", 1⟩, some 1, seqOf [0, 1] 1, by decide, by decide, by decide, by decide, by decide, by decide⟩

/-- **D20, general.** In a continued run whose target table already has rows (`L ≥ 1`), an empty
    *first* iteration is never reported at its own boundary … -/
theorem no_progress_first_iteration_continued_undetected (tables : List String) (c : Crit) (L : Nat)
    (r : Nat → Nat) (hc : RowsMode c) (hL : 1 ≤ L) (last : Nat) :
    run tables c (some L) r ≠ .noProgress 1 last := by
  intro h
  unfold run runFuel at h
  split at h
  · simp at h
  · have hfuel : fuelFor c = (c.count + 1) + 1 := rfl
    rw [hfuel] at h
    have hne : last0 (some L) + r 0 ≠ App.init.startingId := by simp [last0, App.init]; omega
    cases hf : finishedRows (startId (some L)) c.count (last0 (some L) + r 0) with
    | true =>
      rw [Proofs.C07.loop_step_finish c _ r hc _ 0 _ App.init hne hf] at h; simp at h
    | false =>
      rw [Proofs.C07.loop_step_continue c _ r hc _ 0 _ App.init hne hf] at h
      have := Proofs.C07.loop_noProgress_sound c (startId (some L)) r hc (c.count + 1) (0 + 1)
        (last0 (some L) + r 0) ⟨last0 (some L) + r 0, App.init.repCount + 1⟩ 1 last (Nat.le_refl _) h
      omega

/-- … but **at the latest one iteration later**: two empty iterations in a row always end the run
    with the error (this is `no_progress_errors` with `j = 1`). -/
theorem no_progress_errors_continued_late (tables : List String) (c : Crit) (L : Nat) (r : Nat → Nat)
    (hc : RowsMode c) (ht : tables.contains c.tablename = true) (hL : 1 ≤ L) (hN : 1 ≤ c.count)
    (h0 : r 0 = 0) (h1 : r 1 = 0) :
    run tables c (some L) r = .noProgress 2 L := by
  have := no_progress_errors tables c (some L) r hc ht 1 h1 (by simp [cum, h0]; omega)
    (fun j' hj => Or.inr ⟨by omega, by simp [last0]; omega⟩) (Or.inl (Nat.le_refl _))
  simpa [last0, cum, h0] using this

/-- **No spurious error.** The progress error is only ever raised at the end of an iteration that
    created no row of the target table. -/
theorem error_only_without_progress (tables : List String) (c : Crit) (cont : Cont) (r : Nat → Nat)
    (hc : RowsMode c) (n last : Nat) (h : run tables c cont r = .noProgress n last) :
    1 ≤ n ∧ r (n - 1) = 0 := by
  unfold run runFuel at h
  split at h
  · simp at h
  · have := Proofs.C07.loop_noProgress_sound c (startId cont) r hc (fuelFor c) 0 (last0 cont) App.init
      n last (by simp [App.init]) h
    exact ⟨by omega, this.2⟩

/-! ### termination ("instead of looping forever") -/

/-- **run_terminates.** For a target that names a table, and for *every* row-count function (zeros
    anywhere), the loop ends — normally or with the progress error — within `N + 2` iterations;
    the model's fuel never runs out, and more fuel changes nothing. -/
theorem run_terminates (tables : List String) (c : Crit) (cont : Cont) (r : Nat → Nat)
    (hc : RowsMode c) (extra : Nat) :
    (∀ n, run tables c cont r ≠ .outOfFuel n) ∧
      runFuel tables c cont r (fuelFor c + extra) = run tables c cont r := by
  have hterm : ∀ n, loop c (startId cont) r (fuelFor c) 0 (last0 cont) App.init ≠ .outOfFuel n :=
    Proofs.C07.loop_terminates c (startId cont) r hc (fuelFor c) (last0 cont) App.init (by
      rw [Proofs.C07.startId_eq]; simp only [fuelFor, targetId]; omega)
  unfold run runFuel
  split
  · exact ⟨fun n => by simp, rfl⟩
  · exact ⟨hterm, Proofs.C07.loop_fuel_mono c _ r (fuelFor c) extra 0 _ _ hterm⟩

/-- the same for a repetition target (direct from `reps_exact`) -/
theorem run_terminates_reps (tables : List String) (k : Nat) (cont : Cont) (r : Nat → Nat) (n : Nat) :
    run tables ⟨COUNT_REPS, k⟩ cont r ≠ .outOfFuel n := by
  rw [reps_exact]; simp

/-! ### a target the recipe cannot create -/

/-
FULL STATEMENT (refuted on the unchanged code, D28):
  theorem unknown_target_rejected (tables) (c) (cont) (r) (fuel)
      (hT : c.tablename ≠ COUNT_REPS) (hu : tables.contains c.tablename = false) :
      runFuel tables c cont r fuel = .rejected
`Interpreter.__init__` tests `stop_table_name and stop_table_name not in parse_result.tables`:
the empty name is falsy, so it is not rejected (`unknown_target_rejected_refuted`), and because
`ensure_progress_was_made` has the same guard the run then never ends (`empty_target_diverges`).
-/

/-- **unknown_target_rejected (partial: non-empty name).** A target naming a table that no template
    of the recipe creates is rejected by `Interpreter.__init__`, i.e. before the loop is entered
    and before any row is written — for every fuel, continuation and `r`. -/
theorem unknown_target_rejected_partial (tables : List String) (c : Crit) (cont : Cont)
    (r : Nat → Nat) (fuel : Nat) (hT : c.tablename ≠ COUNT_REPS) (hE : c.tablename ≠ "")
    (hu : tables.contains c.tablename = false) :
    runFuel tables c cont r fuel = .rejected := by
  simp [runFuel, Proofs.C07.rejects_unknown tables c ⟨hT, hE⟩ hu]

example : run ["M", "T"] ⟨"Q", 3⟩ none (fun _ => 1) = .rejected := by decide

/-- conversely a known table (or a repetition target) is never rejected -/
theorem known_target_not_rejected (tables : List String) (c : Crit) (cont : Cont) (r : Nat → Nat)
    (fuel : Nat) (h : tables.contains c.tablename = true ∨ c.tablename = COUNT_REPS) :
    runFuel tables c cont r fuel ≠ .rejected := by
  have hrej : rejects tables c = false := by
    rcases h with h | h
    · exact Proofs.C07.rejects_of_contains tables c h
    · exact Proofs.C07.rejects_reps tables c h
  simp only [runFuel, hrej]
  exact Proofs.C07.loop_ne_rejected c _ r _ _ _ _

/-- **D28 witness.** The empty target name is not rejected although no recipe creates such a table. -/
theorem unknown_target_rejected_refuted :
    ∃ (tables : List String) (c : Crit), c.tablename ≠ COUNT_REPS ∧
      tables.contains c.tablename = false ∧
      ∀ cont r fuel, runFuel tables c cont r fuel ≠ .rejected :=
  ⟨["M", "T"], ⟨"", 2⟩, by decide, by decide, fun cont r fuel => by
    have hrej : rejects ["M", "T"] ⟨"", 2⟩ = false := by decide
    simp only [runFuel, hrej]
    exact Proofs.C07.loop_ne_rejected _ _ r _ _ _ _⟩

/-- **D28: and then the run never ends.** With the empty target name (no table has that name, so
    `r` is constantly `0`) and `N ≥ 1` the loop is still running after any number of iterations:
    neither the finish test nor the progress check ever fires. -/
theorem empty_target_diverges (tables : List String) (N : Nat) (hN : 1 ≤ N) (r : Nat → Nat)
    (hr : ∀ j, r j = 0) (fuel : Nat) :
    runFuel tables ⟨"", N⟩ none r fuel = .outOfFuel fuel := by
  have hrej : rejects tables ⟨"", N⟩ = false := Proofs.C07.rejects_empty tables _ rfl
  simp only [runFuel, hrej]
  have : ∀ fuel i app, loop ⟨"", N⟩ (startId none) r fuel i 0 app = .outOfFuel (i + fuel) := by
    intro fuel
    induction fuel with
    | zero => intro i app; simp [loop]
    | succ fuel ih =>
      intro i app
      have hf : finishedRows (startId none) N 0 = false := by
        simp [finishedRows, targetId, startId]; omega
      simp only [loop, hr, Nat.add_zero, Proofs.C07.boundary_empty ⟨"", N⟩ _ app 0 rfl, hf]
      rw [ih]; congr 1; omega
  have := this fuel 0 App.init
  simpa [last0] using this

end SnowModel.Props.C07
