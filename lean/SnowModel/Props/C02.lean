/-
C02 — no dangling references: every reference handed out by a name lookup is to an issued id, and
at every successful iteration boundary to a created row.  Over the L1 machine.
-/
import SnowModel.Core.IdMachine
import SnowModel.Proofs.L1
import SnowModel.Props.C01

namespace SnowModel.Props.C02
open SnowModel.IdMachine SnowModel.Props.C01

/-- **Issued at the moment of emission**: whatever a lookup returns names a table and an id that
    has been issued for that table (created row, or id reserved in a slot) — in particular a
    genuine id `1 ≤ i ≤ lastUsed`, never a placeholder. -/
theorem C02_lookup_issued (names : List (Name × Name)) (hw : WfNames names) (ops : List Op) (s s' : St)
    (obs : List Obs) (hr : run (init names) ops = .ok (s, obs)) (name : Name) (r : Row)
    (hl : step s (.lookup name) = .ok (s', .row r) ∨ step s (.lookup name) = .ok (s', .slot r)) :
    r.id ∈ issued s' r.table ∧ 1 ≤ r.id ∧ r.id ≤ s'.lastUsed r.table := by
  obtain ⟨hg, hn⟩ := run_goodP names hw ops s obs hr
  obtain ⟨_, href2, href3⟩ := run_refP names ops s obs hr
  obtain ⟨o, hst⟩ : ∃ o, step s (.lookup name) = .ok (s', o) := by
    rcases hl with h | h <;> exact ⟨_, h⟩
  have hg' := (step_goodP s s' _ o (hn ▸ hw) hg hst).1
  have hlk : lookup s name = (s', .row r) ∨ lookup s name = (s', .slot r) := by
    simpa only [step, Except.ok.injEq] using hl
  have hmem : r.id ∈ issued s' r.table := by
    unfold issued
    rcases lookup_cases s name with ⟨r0, hr0, e⟩ | e | ⟨t, ht, hsl, e⟩ | ⟨t, i, ht, hsl, e⟩
    · rw [e] at hlk
      rcases hlk with h | h
      · cases h
        apply List.mem_append_left
        apply mem_createdL (cr := s.created)
        apply href3
        rcases hr0 with hr0 | hr0 | hr0 | hr0
        · exact ⟨name, Or.inr (Or.inr (Or.inr hr0))⟩
        · exact ⟨name, Or.inr (Or.inr (Or.inl hr0))⟩
        · exact ⟨name, Or.inr (Or.inl hr0)⟩
        · exact ⟨name, Or.inl hr0⟩
      · cases h
    · rw [e] at hlk
      rcases hlk with h | h <;> cases h
    · rw [e] at hlk
      rcases hlk with h | h
      · cases h
      · cases h
        apply List.mem_append_right
        exact mem_allocL (ns := s.names) (tableOf_mem ht) (upd_same _ _ _)
    · rw [e] at hlk
      rcases hlk with h | h
      · cases h
      · cases h
        rcases hsl with hsl | hsl
        · apply List.mem_append_right
          exact mem_allocL (ns := s.names) (slot := s.slot) (tableOf_mem ht) hsl
        · apply List.mem_append_left
          exact mem_createdL (cr := s.created) (href2 name t i ht hsl)
  refine ⟨hmem, ?_⟩
  have := (hg' r.table).mem_iff.1 hmem
  rw [List.mem_range'_1] at this
  omega

/-- **Resolved by the end of the iteration**: if the iteration ends successfully, every reference
    handed out during it names a row that has been created (in this iteration, an earlier one, or
    an earlier continuation run). -/
theorem C02_resolved_at_boundary (names : List (Name × Name)) (hw : WfNames names) (ops : List Op)
    (s s' : St) (obs : List Obs) (o : Obs) (hr : run (init names) ops = .ok (s, obs))
    (he : step s .endIteration = .ok (s', o)) :
    ∀ r ∈ s.handedOut, r ∈ s'.created := by
  have _ := hw
  obtain ⟨href1, _, _⟩ := run_refP names ops s obs hr
  simp only [step] at he
  split at he
  · rename_i hnf
    cases he
    intro r hr'
    rcases href1 r hr' with hc | ⟨n, ht, hsl⟩
    · exact hc
    · have := mem_notFilled (tableOf_mem ht) hsl
      rw [hnf] at this
      cases this
  · cases he

/-- Created rows are never forgotten: `created` only grows (so a reference resolved once stays
    resolved in later iterations and continuation runs). -/
theorem C02_created_monotone (s s' : St) (op : Op) (o : Obs) (hs : step s op = .ok (s', o)) :
    ∀ r ∈ s.created, r ∈ s'.created := by
  exact step_created_mono s s' op o hs

/-- **A forward reference whose target is never created makes the run fail**: a lookup that
    reserved an id through slot `name` leaves the slot ALLOCATED until a row of that table is
    created under that name (as nickname, or as the table's own name); if none is, the end-of-iteration check fails. -/
theorem C02_forward_never_created_fails (s s1 : St) (name : Name) (r : Row)
    (hl : step s (.lookup name) = .ok (s1, .slot r)) (hs : s.slot name = .unused)
    (ops : List Op) (s2 : St) (obs : List Obs) (hr : run s1 ops = .ok (s2, obs))
    (hno : ∀ op ∈ ops, (∀ t nk j, op = .create t nk j → ¬ (t = r.table ∧ (nk = some name ∨ t = name)))
      ∧ op ≠ .endIteration ∧ op ≠ .saveLoad) :
    ∃ l, step s2 .endIteration = .error (.unfulfilled l) ∧ name ∈ l := by
  have hlk : lookup s name = (s1, .slot r) := by
    simpa only [step, Except.ok.injEq] using hl
  have hheld : Held name r.table s1 := by
    rcases lookup_cases s name with ⟨r0, _, e⟩ | e | ⟨t, ht, hsl, e⟩ | ⟨t, i, ht, hsl, e⟩
    · rw [e] at hlk; cases hlk
    · rw [e] at hlk; cases hlk
    · rw [e] at hlk; cases hlk
      exact ⟨ht, _, upd_same _ _ _⟩
    · rw [hs] at hsl
      rcases hsl with h | h <;> cases h
  obtain ⟨ht2, i, hi⟩ := run_held hheld hr hno
  exact C01_unfulfilled_aborts s2 name i r.table (tableOf_mem ht2) hi

/-! ### Non-vacuity -/

example :
    (run (init [("B", "B"), ("A", "A")]) [.lookup "B", .create "A" none false]).toOption.map
      (fun r => (r.1.handedOut, (step r.1 .endIteration).toOption.isSome))
      = some ([⟨"B", 1⟩], false) := by decide

example :
    (run (init [("B", "B"), ("A", "A")]) [.lookup "B", .create "A" none false, .create "B" none false]).toOption.map
      (fun r => (r.1.handedOut, r.1.created, (step r.1 .endIteration).toOption.isSome))
      = some ([⟨"B", 1⟩], [⟨"A", 1⟩, ⟨"B", 1⟩], true) := by decide

end SnowModel.Props.C02
