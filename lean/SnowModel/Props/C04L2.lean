/-
C04 for recipes — stop-and-continue is invisible at the level of the L2 reference interpreter,
for the executions in which the continuation file loses nothing.

`chain fuel r finalSave [k₁,…,k_m]` runs `k₁`, …, `k_m` iterations as separate runs linked by
continuation files: between two runs it applies `saveLoad` (what a file keeps) and restarts with the
empty top-level context; it fails if the file cannot be written (`saveFails`).
`iterations fuel r (k₁+…+k_m)` is the uninterrupted run.  The two agree — same result state, same
error — provided

* `NoTopVars r`: the recipe has no top-level `var` (variables are not in a continuation file), and
* `CleanCuts fuel r finalSave parts cont s`: at every cut (and at the end iff `finalSave`) the state
  of the *uninterrupted* run is `PersistClean`: the rows bound to `just_once` names hold no row, slot
  or dead-slot value (`ObjectRow.__getstate__` drops row-valued fields — finding D03 — and a slot
  value cannot be represented at all).  Decidable on the executed model.

Both hypotheses are needed (`chain_eq_iterations_needs_clean`, `…_needs_pos`).  A purely syntactic
sufficient condition for `CleanCuts` is `LitOnce` (`cleanCuts_of_litOnce`).
Definitions and helper lemmas: `Proofs/L2Split.lean`, `Proofs/L2SplitLit.lean`.
-/
import SnowModel.Core.L2
import SnowModel.Proofs.L2Split
import SnowModel.Proofs.L2SplitLit

namespace SnowModel.Props.C04L2
open SnowModel.L2

/-! ### the continuation file loses nothing -/

/-- Saving a state whose persistent rows hold plain values only cannot fail. -/
theorem save_cannot_fail (s : St) (h : PersistClean s) : saveFails s = false :=
  saveFails_of_clean h

/-- Every state between two iterations is a `Boundary` state: the state a run of at least one
    iteration ends in, the state a continuation file is loaded into, and the initial state. -/
theorem boundary_states (fuel : Nat) (r : Recipe) :
    (∀ s0, Boundary (resetSlots s0)) ∧ (∀ s, Boundary (saveLoad s)) ∧ Boundary (initSt r) ∧
    (∀ k c cont s c' s', 0 < k → iterations fuel r k c cont s = .ok (c', s') → ∃ s0, s' = resetSlots s0) :=
  ⟨resetSlots_boundary, saveLoad_boundary, initSt_boundary r, by
    intro k c cont s c' s' hk h
    obtain ⟨k0, rfl⟩ : ∃ k0, k = k0 + 1 := ⟨k - 1, by omega⟩
    exact iterations_resetSlots fuel r k0 c cont s c' s' h⟩

/-- **Key lemma.**  At an iteration boundary, a state whose persistent rows hold plain values only
    is reproduced *exactly* (equality of whole states) by writing and loading a continuation file. -/
theorem saveLoad_identity (s : St) (hb : Boundary s) (hp : PersistClean s) : saveLoad s = s :=
  saveLoad_eq_self hb hp

/-- The same in literal form: what `iterations` leaves after an iteration is `resetSlots s0`. -/
theorem saveLoad_identity_resetSlots (s0 : St) (hp : PersistClean (resetSlots s0)) :
    saveLoad (resetSlots s0) = resetSlots s0 :=
  saveLoad_resetSlots hp

/-- Without top-level variables, the top-level context a run carries from iteration to iteration
    stays the empty context — the context a continued run starts with. -/
theorem top_context_constant (fuel : Nat) (r : Recipe) (hv : NoTopVars r) (k : Nat) (cont : Bool)
    (s : St) (c' : Ctx) (s' : St)
    (h : iterations fuel r k { obj := none, vars := [] } cont s = .ok (c', s')) :
    c' = { obj := none, vars := [] } :=
  iterations_ctx fuel r hv k _ cont s c' s' rfl h

/-- Reading of `CleanCuts`: if the first part completes, then either it was the last part and no
    final file is written, or the state reached is `PersistClean` and the rest of the cuts, taken
    from that very state (not from its `saveLoad` image), are clean. -/
theorem cleanCuts_cons (fuel : Nat) (r : Recipe) (fs : Bool) (k : Nat) (ks : List Nat) (cont : Bool) (s : St) :
    CleanCuts fuel r fs (k :: ks) cont s ↔
      ∀ c1 s1, iterations fuel r k { obj := none, vars := [] } cont s = .ok (c1, s1) →
        (ks = [] ∧ fs = false) ∨ (PersistClean s1 ∧ CleanCuts fuel r fs ks true s1) :=
  CleanCuts.iff_cons fuel r fs k ks cont s

/-! ### split = unsplit -/

/-- **Main theorem** (`finalSave = false`).  A chain of continued runs of `parts = [k₁,…,k_m]`
    iterations (all positive) equals the uninterrupted run of `k₁+…+k_m` iterations: same error, or
    the same final state up to the last `saveLoad` that `chain` applies to the state it returns
    (which the file-less end of a chain does not constrain; see `chain_eq_iterations_clean_end`
    for when it is the identity too, and `chain_out_eq_iterations` for the output). -/
theorem chain_eq_iterations (fuel : Nat) (r : Recipe) (parts : List Nat) (cont : Bool) (s : St)
    (hv : NoTopVars r) (hne : parts ≠ []) (hpos : ∀ k ∈ parts, 0 < k)
    (hc : CleanCuts fuel r false parts cont s) :
    chain fuel r false parts cont s =
      (iterations fuel r parts.sum { obj := none, vars := [] } cont s).map (fun p => saveLoad p.2) :=
  chain_eq_gen fuel r false hv parts cont s hne hpos hc

/-- The output (and the error) of the chain is that of the uninterrupted run; also for `parts = []`. -/
theorem chain_out_eq_iterations (fuel : Nat) (r : Recipe) (parts : List Nat) (cont : Bool) (s : St)
    (hv : NoTopVars r) (hpos : ∀ k ∈ parts, 0 < k) (hc : CleanCuts fuel r false parts cont s) :
    (chain fuel r false parts cont s).map (·.out) =
      (iterations fuel r parts.sum { obj := none, vars := [] } cont s).map (·.2.out) := by
  by_cases hne : parts = []
  · subst hne; rfl
  · rw [chain_eq_iterations fuel r parts cont s hv hne hpos hc]
    cases iterations fuel r parts.sum { obj := none, vars := [] } cont s with
    | error e => rfl
    | ok p => simp [Except.map, saveLoad]

/-- The chain equals the single run of the same total length. -/
theorem chain_eq_single (fuel : Nat) (r : Recipe) (parts : List Nat) (cont : Bool) (s : St)
    (hv : NoTopVars r) (hne : parts ≠ []) (hpos : ∀ k ∈ parts, 0 < k)
    (hc : CleanCuts fuel r false parts cont s) :
    chain fuel r false parts cont s = chain fuel r false [parts.sum] cont s := by
  rw [chain_eq_iterations fuel r parts cont s hv hne hpos hc, chain_single]

/-- **(a) `runChain` form.**  From the initial state of the recipe, the split run and the unsplit
    run have the same output and the same status. -/
theorem runChain_split (fuel : Nat) (r : Recipe) (parts : List Nat)
    (hv : NoTopVars r) (hne : parts ≠ []) (hpos : ∀ k ∈ parts, 0 < k)
    (hc : CleanCuts fuel r false parts false (initSt r)) :
    (runChain fuel r parts false).out = (runChain fuel r [parts.sum] false).out ∧
    (runChain fuel r parts false).status = (runChain fuel r [parts.sum] false).status := by
  unfold runChain
  rw [chain_eq_single fuel r parts false (initSt r) hv hne hpos hc]
  exact ⟨rfl, rfl⟩

/-- **(b) with a final continuation file** (`finalSave = true`; also `false`): if the final state of
    the uninterrupted run is `PersistClean` as well (`CleanCuts … true`), the chain returns *exactly*
    the final state of the uninterrupted run — every `saveLoad`, the last one included, is the
    identity and no save fails. -/
theorem chain_eq_iterations_clean_end (fuel : Nat) (r : Recipe) (fs : Bool) (parts : List Nat) (cont : Bool)
    (s : St) (hv : NoTopVars r) (hne : parts ≠ []) (hpos : ∀ k ∈ parts, 0 < k)
    (hc : CleanCuts fuel r true parts cont s) :
    chain fuel r fs parts cont s =
      (iterations fuel r parts.sum { obj := none, vars := [] } cont s).map (fun p => p.2) :=
  chain_eq_final fuel r fs hv parts cont s hne hpos hc

/-- (b), `runChain` form with the final file written (the default of `runChain`). -/
theorem runChain_split_finalSave (fuel : Nat) (r : Recipe) (parts : List Nat)
    (hv : NoTopVars r) (hne : parts ≠ []) (hpos : ∀ k ∈ parts, 0 < k)
    (hc : CleanCuts fuel r true parts false (initSt r)) :
    (runChain fuel r parts true).out = (runChain fuel r [parts.sum] true).out ∧
    (runChain fuel r parts true).status = (runChain fuel r [parts.sum] true).status := by
  have hsum : 0 < parts.sum := by
    cases parts with
    | nil => exact absurd rfl hne
    | cons k ks => have := hpos k (List.mem_cons_self ..); simp only [List.sum_cons]; omega
  have hfin := CleanCuts.final fuel r hv parts false (initSt r) hne hpos hc
  have h1 := chain_eq_iterations_clean_end fuel r true parts false (initSt r) hv hne hpos hc
  have h2 := chain_eq_iterations_clean_end fuel r true [parts.sum] false (initSt r) hv (by simp)
    (by intro k hk; simp only [List.mem_singleton] at hk; omega)
    (CleanCuts.single (fun c' s' h => (hfin c' s' h).1))
  simp only [List.sum_cons, List.sum_nil, Nat.add_zero] at h2
  unfold runChain
  rw [h1, h2]
  exact ⟨rfl, rfl⟩

/-- **(c) split anywhere.**  A run of `a + b` iterations may be cut after `a` iterations whenever the
    state reached there is `PersistClean`. -/
theorem split_anywhere (fuel : Nat) (r : Recipe) (a b : Nat) (cont : Bool) (s : St)
    (hv : NoTopVars r) (ha : 0 < a) (hb : 0 < b)
    (hc : ∀ c1 s1, iterations fuel r a { obj := none, vars := [] } cont s = .ok (c1, s1) → PersistClean s1) :
    chain fuel r false [a, b] cont s = chain fuel r false [a + b] cont s := by
  have hcc : CleanCuts fuel r false [a, b] cont s := by
    rw [cleanCuts_cons]
    intro c1 s1 hi
    refine Or.inr ⟨hc c1 s1 hi, ?_⟩
    rw [cleanCuts_cons]
    intro c2 s2 _
    exact Or.inl ⟨rfl, rfl⟩
  have := chain_eq_single fuel r [a, b] cont s hv (by simp)
    (by intro k hk; simp only [List.mem_cons, List.not_mem_nil, or_false] at hk; omega) hcc
  simpa using this

/-! ### a syntactic sufficient condition -/

/-- **Literal `just_once` rows stay clean.**  If every `just_once` template of the recipe — at any
    depth: top level, nested fields, friends, counts, variables — has literal fields only
    (`LitOnce`, decidable on the syntax), then every state a run reaches from the initial state has
    `PersistClean` persistent rows, whatever the number of iterations. -/
theorem persistClean_of_literal_justOnce (fuel : Nat) (r : Recipe) (hl : LitOnce r) (k : Nat) (c : Ctx)
    (cont : Bool) (c' : Ctx) (s' : St) (h : iterations fuel r k c cont (initSt r) = .ok (c', s')) :
    PersistClean s' :=
  (iterations_pinv fuel r hl k c cont (initSt r) c' s' h (initSt_pinv r)).toPersistClean

/-- Hence under `LitOnce` every way of cutting the run has clean cuts (and a clean end). -/
theorem cleanCuts_of_litOnce (fuel : Nat) (r : Recipe) (hl : LitOnce r) (fs : Bool) (parts : List Nat) :
    CleanCuts fuel r fs parts false (initSt r) :=
  cleanCuts_of_pinv fuel r hl fs parts false (initSt r) (initSt_pinv r)

/-- **Split = unsplit from syntactic hypotheses only**: no top-level variable, literal `just_once`
    templates.  With or without final continuation file, every chain of positive parts returns
    exactly the final state (or the error) of the uninterrupted run. -/
theorem chain_eq_iterations_of_litOnce (fuel : Nat) (r : Recipe) (fs : Bool) (parts : List Nat)
    (hv : NoTopVars r) (hl : LitOnce r) (hne : parts ≠ []) (hpos : ∀ k ∈ parts, 0 < k) :
    chain fuel r fs parts false (initSt r) =
      (iterations fuel r parts.sum { obj := none, vars := [] } false (initSt r)).map (fun p => p.2) :=
  chain_eq_iterations_clean_end fuel r fs parts false (initSt r) hv hne hpos
    (cleanCuts_of_litOnce fuel r hl true parts)

/-- … and the observable outcome of the split run is that of the unsplit run. -/
theorem runChain_split_of_litOnce (fuel : Nat) (r : Recipe) (fs : Bool) (parts : List Nat)
    (hv : NoTopVars r) (hl : LitOnce r) (hne : parts ≠ []) (hpos : ∀ k ∈ parts, 0 < k) :
    (runChain fuel r parts fs).out = (runChain fuel r [parts.sum] fs).out ∧
    (runChain fuel r parts fs).status = (runChain fuel r [parts.sum] fs).status := by
  cases fs with
  | false => exact runChain_split fuel r parts hv hne hpos (cleanCuts_of_litOnce fuel r hl false parts)
  | true => exact runChain_split_finalSave fuel r parts hv hne hpos (cleanCuts_of_litOnce fuel r hl true parts)

/-! ### Non-vacuity, and the hypotheses are needed -/

/-- a `just_once` parent with literal fields, referenced (`reference:` and a formula) by every child -/
def demoClean : Recipe :=
  { v3 := false, options := [],
    statements :=
      [.obj (.mk "Parent" (some "p") true none [("name", .lit (.str "x"))] []),
       .obj (.mk "Child" none false none
          [("parent", .ref ["p"]), ("pname", .tmpl [.expr (.attr (.name "p") "name")])] [])] }

/-- the hypotheses of the theorems hold for `demoClean` cut as `[1, 2]` (with or without final file) -/
example : NoTopVars demoClean ∧ (∀ k ∈ [1, 2], 0 < k) ∧
    CleanCuts 100 demoClean false [1, 2] false (initSt demoClean) ∧
    CleanCuts 100 demoClean true [1, 2] false (initSt demoClean) := by decide +kernel

/-- `demoClean` also satisfies the syntactic condition; `demoD03` below does not -/
example : LitOnce demoClean := by decide +kernel

/-- … and the run is not an error run: 1 parent and 3 children are written, split or not -/
example : (runChain 100 demoClean [1, 2] false).status = "ok" ∧
    (runChain 100 demoClean [1, 2] false).out.map (·.table) = ["Parent", "Child", "Child", "Child"] ∧
    (runChain 100 demoClean [1, 2] false).out = (runChain 100 demoClean [3] false).out := by decide +kernel

/-- finding D03: the `just_once` row holds a row value (`kid`), which the continuation file drops -/
def demoD03 : Recipe :=
  { v3 := false, options := [],
    statements :=
      [.obj (.mk "Parent" (some "p") true none [("kid", .nested (.mk "Kid" none false none [] []))] []),
       .obj (.mk "Child" none false none [("k", .ref ["p", "kid"])] [])] }

/-- **`CleanCuts` is needed**: `demoD03` has no top-level variable and is cut into positive parts,
    `CleanCuts` fails, and the two sides of `chain_eq_iterations` really differ — the uninterrupted
    run completes, the continued run raises a recipe error (`p.kid` is gone). -/
theorem chain_eq_iterations_needs_clean :
    NoTopVars demoD03 ∧ (∀ k ∈ [1, 2], 0 < k) ∧ ¬ LitOnce demoD03 ∧
    ¬ CleanCuts 100 demoD03 false [1, 2] false (initSt demoD03) ∧
    chain 100 demoD03 false [1, 2] false (initSt demoD03) ≠
      (iterations 100 demoD03 [1, 2].sum { obj := none, vars := [] } false (initSt demoD03)).map
        (fun p => saveLoad p.2) ∧
    (runChain 100 demoD03 [1, 2] false).status = "recipe_error" ∧
    (runChain 100 demoD03 [3] false).status = "ok" := by
  refine ⟨by decide +kernel, by decide +kernel, by decide +kernel, by decide +kernel, ?_, by decide +kernel,
    by decide +kernel⟩
  intro h
  have h1 : (runChain 100 demoD03 [1, 2] false).status = "recipe_error" := by decide +kernel
  have h2 : (runChain 100 demoD03 [3] false).status = "ok" := by decide +kernel
  have h3 : chain 100 demoD03 false [1, 2] false (initSt demoD03) =
      chain 100 demoD03 false [3] false (initSt demoD03) := by
    rw [h, chain_single, show ([1, 2] : List Nat).sum = 3 from rfl]
  unfold runChain at h1 h2
  rw [h3] at h1
  rw [h1] at h2
  exact absurd h2 (by decide)

/-- **positivity is needed**: an empty first run makes the next run a *continued* one, which skips
    the `just_once` template the uninterrupted run executes. -/
theorem chain_eq_iterations_needs_pos :
    NoTopVars demoClean ∧ CleanCuts 100 demoClean false [0, 1] false (initSt demoClean) ∧
    (runChain 100 demoClean [0, 1] false).status = "recipe_error" ∧
    (runChain 100 demoClean [[0, 1].sum] false).status = "ok" := by decide +kernel

/-- a top-level variable read before it is (re)defined: the uninterrupted run still sees the value
    of the previous iteration, the continued run starts without it -/
def demoVar : Recipe :=
  { v3 := false, options := [],
    statements :=
      [.obj (.mk "A" none false none [("x", .tmpl [.expr (.name "v")])] []),
       .var "v" (.lit (.int 5))] }

/-- **`NoTopVars` is needed**: positive parts, clean cuts (there is no persistent row at all), both
    runs complete, and the outputs differ. -/
theorem chain_eq_iterations_needs_noTopVars :
    ¬ NoTopVars demoVar ∧ (∀ k ∈ [1, 1], 0 < k) ∧
    CleanCuts 100 demoVar true [1, 1] false (initSt demoVar) ∧
    (runChain 100 demoVar [1, 1] false).status = "ok" ∧
    (runChain 100 demoVar [[1, 1].sum] false).status = "ok" ∧
    (runChain 100 demoVar [1, 1] false).out ≠ (runChain 100 demoVar [[1, 1].sum] false).out := by
  decide +kernel

end SnowModel.Props.C04L2
