/-
C16 — bridging lemmas: what `tools/pins/mapping_gen.py` regenerates from the Python AST on every
run (`Gen.MappingGen.*`) coincides with what the hand-written model `SnowModel.Mapping` was written
against. A change of a constant, comparison, wiring or of the body of one of the small control-flow
functions changes the generated file and one of these lemmas stops type-checking.
-/
import SnowModel.Core.Mapping
import SnowModel.Props.C16
import SnowModel.Generated.MappingGen

namespace SnowModel.Props.C16Bridge
open SnowModel.Mapping
open Gen.MappingGen

/-! ### `add_after_statements` -/

/-- the comparison deciding whether a lookup gets `after:` is `first_instance >= idx` -/
theorem afterCond_eq (fi idx : Nat) : afterCond fi idx = decide (fi ≥ idx) := by
  simp [afterCond]

/-- … and the model's `addAfterLookup` branches on exactly that comparison -/
theorem addAfterLookup_uses_afterCond (ms : List (String × Mapping)) (idx : Nat) (l : Lookup)
    (fi : Nat) (ln : String) (h1 : firstInstance ms l.table = some fi)
    (h2 : lastStepName ms l.table = some ln) (hpc : l.table ≠ afterSkipTarget) :
    addAfterLookup ms idx l =
      if afterCond fi idx then (if l.after.isSome then l else { l with after := some ln })
      else l := by
  have hb : (l.table == "PersonContact") = false := by simpa [afterSkipTarget] using hpc
  simp [addAfterLookup, hb, h1, h2, afterCond]

theorem afterSkipTarget_eq : afterSkipTarget = "PersonContact" := rfl

theorem addAfterLookup_skips (ms : List (String × Mapping)) (idx : Nat) (l : Lookup)
    (h : l.table = afterSkipTarget) : addAfterLookup ms idx l = l := by
  simp [addAfterLookup, h, afterSkipTarget]

/-- `indexed_by_sobject.get(target_table)` / `if target_mapping_index is None: continue` (fix 7f47b5f):
    a lookup whose target object no entry loads is left untouched -/
theorem addAfterLookup_unloaded_target (ms : List (String × Mapping)) (idx : Nat) (l : Lookup)
    (h : ∀ p ∈ ms, p.2.sfObject ≠ l.table) : addAfterLookup ms idx l = l := by
  have h1 : firstInstance ms l.table = none := by
    unfold firstInstance
    rw [List.findIdx?_eq_none_iff]
    intro p hp
    simpa using h p hp
  unfold addAfterLookup
  rw [h1]
  split <;> rfl

theorem mappingIndexFields_eq : mappingIndexFields = ["first_instance", "last_step_name"] := rfl

theorem addAfterSource_eq : addAfterSource =
    ["indexed_by_sobject = _index_by_sobject(mappings)",
     "for idx, (mapping_name, mapping) in enumerate(mappings.items()):",
     "    for lookup in mapping.get('lookups', {}).values():",
     "        target_table = lookup['table']",
     "        if target_table == 'PersonContact':",
     "            continue",
     "        target_mapping_index = indexed_by_sobject.get(target_table)",
     "        if target_mapping_index is None:",
     "            continue",
     "        if target_mapping_index.first_instance >= idx:",
     "            if not lookup.get('after'):",
     "                lookup['after'] = target_mapping_index.last_step_name"] := rfl

theorem indexBySobjectSource_eq : indexBySobjectSource =
    ["indexed_by_sobject = {}",
     "for idx, (mapping_name, mapping) in enumerate(mappings.items()):",
     "    sobject = mapping['sf_object']",
     "    existing_index = indexed_by_sobject.get(sobject)",
     "    if existing_index:",
     "        new_mi = MappingIndex(existing_index.first_instance, mapping_name)",
     "    else:",
     "        new_mi = MappingIndex(idx, mapping_name)",
     "    indexed_by_sobject[sobject] = new_mi",
     "return indexed_by_sobject"] := rfl

/-! ### the sorter -/

theorem tableIsFreeSource_eq : tableIsFreeSource =
    ["tables_this_table_depends_upon = dependencies.get(table_name, OrderedSet()).copy()",
     "for dependency in sorted(tables_this_table_depends_upon):",
     "    if dependency.table_name_to in sorted_tables or dependency.table_name_to == table_name:",
     "        tables_this_table_depends_upon.remove(dependency)",
     "return len(tables_this_table_depends_upon) == 0"] := rfl

theorem sortDependenciesSource_eq : sortDependenciesSource =
    ["dependencies = {**inferred_dependencies, **declared_dependencies}",
     "sorted_tables = []",
     "while tables:",
     "    remaining = len(tables)",
     "    leaf_tables = [table for table in tables if _table_is_free(table, dependencies, sorted_tables)]",
     "    sorted_tables.extend(leaf_tables)",
     "    tables = [table for table in tables if table not in sorted_tables]",
     "    if len(tables) == remaining:",
     "        if inferred_dependencies and declared_dependencies:",
     "            subset = sort_dependencies({}, declared_dependencies, tables.copy())",
     "            sorted_tables.extend(subset)",
     "        else:",
     "            sorted_tables.append(sorted(tables)[0])",
     "return sorted_tables"] := rfl

/-- `{**inferred, **declared}`: the declared dependencies of a table replace its inferred ones -/
theorem dependencyMergeOrder_eq :
    dependencyMergeOrder = ["inferred_dependencies", "declared_dependencies"] := rfl

theorem effDeps_declared_wins (inferred declared : List Dep) (t : String)
    (h : declared.any (fun d => d.frm == t) = true) :
    effDeps inferred declared t = declared.filter (fun d => d.frm == t) := by
  simp only [effDeps, h, if_true]

/-! ### dependencies, person contacts, load steps -/

theorem buildDependenciesSource_eq : buildDependenciesSource =
    ["inferred_dependencies = defaultdict(OrderedSet)",
     "declared_dependencies = defaultdict(OrderedSet)",
     "reference_fields = {}",
     "declarations = declarations or ()",
     "for dep in intertable_dependencies:",
     "    table_deps = inferred_dependencies[dep.table_name_from]",
     "    table_deps.add(dep)",
     "    reference_fields[dep.table_name_from, dep.field_name] = dep.table_name_to",
     "for decl in declarations:",
     "    assert isinstance(decl.load_after, list)",
     "    for target in decl.load_after:",
     "        declared_dependencies[decl.sf_object].add(Dependency(decl.sf_object, target, '(none)'))",
     "return (inferred_dependencies, declared_dependencies, reference_fields)"] := rfl

theorem declaredDeps_field (decls : List Decl) : ∀ d ∈ declaredDeps decls, d.field = "(none)" := by
  intro d hd
  simp only [declaredDeps, List.mem_flatMap, List.mem_map] at hd
  obtain ⟨_, _, _, _, e⟩ := hd
  rw [← e]

theorem removePersonContactSource_eq : removePersonContactSource =
    ["if 'Account' in dependencies:",
     "    dep_to_person_contact = [dep for dep in dependencies['Account'] if dep.table_name_to.lower() == 'personcontact']",
     "    for dep in dep_to_person_contact:",
     "        dependencies['Account'].remove(dep)",
     "if tables.get('Account') and tables['Account'].fields.get('PersonContactId'):",
     "    del tables['Account'].fields['PersonContactId']"] := rfl

theorem removePersonContactConstants_eq :
    removePersonContactConstants = ["Account", "PersonContactId", "personcontact"] := rfl

/-- the model removes exactly the dependencies of `Account` on a `personcontact` (any case) … -/
theorem removePersonContactDeps_spec (deps : List Dep) (d : Dep) :
    d ∈ removePersonContactDeps deps ↔
      d ∈ deps ∧ ¬(d.frm = "Account" ∧ lowerChars d.to = "personcontact".toList) := by
  simp only [removePersonContactDeps, isPersonContactLower, List.mem_filter,
    Bool.and_eq_false_iff, beq_eq_false_iff_ne, ne_eq, Bool.not_eq_eq_eq_not, Bool.not_true]
  constructor
  · rintro ⟨h1, h2⟩
    exact ⟨h1, fun ⟨a, b⟩ => h2.elim (fun h => h a) (fun h => h b)⟩
  · rintro ⟨h1, h2⟩
    refine ⟨h1, ?_⟩
    by_cases a : d.frm = "Account"
    · exact Or.inr (fun b => h2 ⟨a, b⟩)
    · exact Or.inl a

/-- … and the field `PersonContactId` of the table `Account` -/
theorem removePersonContactField_spec (t : TableInfo) :
    removePersonContactField [t] =
      [if t.name = "Account" then { t with fields := t.fields.filter (fun f => f != "PersonContactId") } else t] := by
  simp [removePersonContactField]

theorem loadStepsSource_eq : loadStepsSource =
    ["load_steps = OrderedSet()",
     "for table_name, tableinfo in tables.items():",
     "    for template in tableinfo._templates:",
     "        if template.update_key:",
     "            action = 'upsert'",
     "        else:",
     "            action = 'insert'",
     "        load_steps.add(LoadStep(action, table_name, template.update_key, tuple(tableinfo.fields.keys())))",
     "load_steps_as_list = list(load_steps)",
     "load_steps_as_list.sort(key=lambda step: table_order.index(step.table_name))",
     "return load_steps_as_list"] := rfl

theorem loadStepSortKey_eq : loadStepSortKey = "lambda step: table_order.index(step.table_name)" := rfl
theorem loadStepFields_eq : loadStepFields = ["action", "table_name", "update_key", "fields"] := rfl

theorem mappingFromRecipeSource_eq : mappingFromRecipeSource =
    ["declarations = declarations or {}",
     "relevant_declarations = [decl for decl in declarations.values() if decl.load_after]",
     "inferred_dependencies, declared_dependencies, reference_fields = build_dependencies(summary.intertable_dependencies, relevant_declarations)",
     "tables = summary.tables.copy()",
     "remove_person_contact_id(inferred_dependencies, tables)",
     "table_order = sort_dependencies(inferred_dependencies, declared_dependencies, tables)",
     "load_steps = load_steps_from_tableinfos(tables, table_order)",
     "mappings = mappings_from_load_steps(load_steps, reference_fields, declarations)",
     "return mappings"] := rfl

/-! ### `mappings_from_load_steps` -/

theorem mappingsFromLoadStepsSource_eq : mappingsFromLoadStepsSource =
    ["mappings = {}",
     "for load_step in load_steps:",
     "    table_name = load_step.table_name",
     "    record_type_col = find_record_type_column(table_name, load_step.fields)",
     "    fields = {fieldname: fieldname for fieldname in load_step.fields if (table_name, fieldname) not in reference_fields.keys() and fieldname != record_type_col}",
     "    if record_type_col and (table_name, record_type_col) not in reference_fields:",
     "        fields['RecordTypeId'] = record_type_col",
     "    lookups = {fieldname: {'table': reference_fields[table_name, fieldname], 'key_field': fieldname} for fieldname in load_step.fields if (table_name, fieldname) in reference_fields.keys()}",
     "    if table_name == 'PersonContact':",
     "        sf_object = 'Contact'",
     "    else:",
     "        sf_object = table_name",
     "    mapping = {'sf_object': sf_object, 'table': table_name, 'fields': fields}",
     "    if lookups:",
     "        mapping['lookups'] = lookups",
     "    sobject_declarations = declarations.get(table_name)",
     "    if sobject_declarations:",
     "        mapping.update(sobject_declarations.as_mapping())",
     "    if load_step.update_key:",
     "        mapping['action'] = 'upsert'",
     "        mapping['update_key'] = load_step.update_key",
     "        mapping['filters'] = [f\"_sf_update_key = '{load_step.update_key}'\"]",
     "        step_name = f'Upsert {table_name} on {load_step.update_key}'",
     "    else:",
     "        step_name = f'Insert {table_name}'",
     "        any_other_loadstep_for_this_table_has_update_key = any((ls for ls in load_steps if ls.table_name == table_name and ls.update_key))",
     "        if any_other_loadstep_for_this_table_has_update_key:",
     "            mapping['filters'] = ['_sf_update_key = NULL']",
     "    mappings[step_name] = mapping",
     "add_after_statements(mappings)",
     "return mappings"] := rfl

/-- f-string instantiation: literal parts are kept, `{table_name}` / `{load_step.update_key}` are filled in -/
def instantiate (table key : String) (parts : List String) : String :=
  parts.foldr (fun p acc =>
    (if p == "{table_name}" then table else if p == "{load_step.update_key}" then key else p) ++ acc) ""

theorem stepName_upsert (t k : String) (fs : List String) (hk : k ≠ "") :
    stepName ⟨t, some k, fs⟩ = instantiate t k upsertStepName := by
  have hb : (k != "") = true := by simpa using hk
  simp [stepName, truthy, hb, instantiate, upsertStepName, String.append_assoc]

theorem stepName_insert (t : String) (fs : List String) :
    stepName ⟨t, none, fs⟩ = instantiate t "" insertStepName := by
  simp [stepName, instantiate, insertStepName]

theorem upsert_filter (deps : List Dep) (all : List LoadStep) (t k : String) (fs : List String)
    (hk : k ≠ "") (p : String × Mapping) (h : mappingOfStep deps all ⟨t, some k, fs⟩ = .ok p) :
    p.2.filters = [instantiate t k upsertFilter] ∧ p.2.upsertKey = some k := by
  have hb : (k != "") = true := by simpa using hk
  unfold mappingOfStep at h
  split at h
  · exact absurd h (by simp)
  · injection h with h
    subst h
    simp [truthy, hb, instantiate, upsertFilter, String.append_assoc]

theorem insert_filter (deps : List Dep) (all : List LoadStep) (t : String) (fs : List String)
    (p : String × Mapping) (h : mappingOfStep deps all ⟨t, none, fs⟩ = .ok p) :
    p.2.upsertKey = none ∧
      p.2.filters = if all.any (fun ls => ls.table == t && truthy ls.updateKey) then [insertFilter] else [] := by
  unfold mappingOfStep at h
  split at h
  · exact absurd h (by simp)
  · injection h with h
    subst h
    simp [truthy, insertFilter]

theorem recordTypeKey_eq : recordTypeKey = "RecordTypeId" := rfl

/-- the record-type column is keyed `RecordTypeId` exactly when it holds no reference
    (`record_type_col and (table_name, record_type_col) not in reference_fields`, fix 8e9f95d) -/
theorem plainFields_recordType_key (deps : List Dep) (table : String) (fields : List String) (c : String)
    (hc : isRef deps table c = false) :
    (recordTypeKey, c) ∈ plainFields deps table fields (some c) := by
  unfold plainFields
  simp only [recordTypeKey, hc, Bool.false_eq_true, if_false]
  generalize (List.map (fun f => (f, f)) (List.filter (fun f => !isRef deps table f && some f != some c) fields)) = base
  induction base with
  | nil => simp [dictInsert]
  | cons hd tl ih =>
    obtain ⟨k', v'⟩ := hd
    simp only [dictInsert]
    split
    · simp
    · simp [ih]

theorem plainFields_recordType_reference (deps : List Dep) (table : String) (fields : List String)
    (c : String) (hc : isRef deps table c = true) :
    ∀ kv ∈ plainFields deps table fields (some c), kv.2 ≠ c := by
  intro kv hkv
  unfold plainFields at hkv
  simp only [hc, if_true] at hkv
  obtain ⟨f, hf, e⟩ := List.mem_map.mp hkv
  subst e
  have := (List.mem_filter.mp hf).2
  intro hfc
  simp only at hfc
  subst hfc
  simp [hc] at this

theorem personContactRule_eq : personContactRule = ["PersonContact", "Contact"] := rfl
theorem sfObjectOf_personContact : sfObjectOf "PersonContact" = "Contact" := by decide
theorem sfObjectOf_other (t : String) (h : t ≠ "PersonContact") : sfObjectOf t = t := by
  simp [sfObjectOf, h]

/-! ### `find_record_type_column` -/

theorem findRecordTypeSource_eq : findRecordTypeSource =
    ["record_type_columns = [t for t in columnnames if t.lower().replace('_', '') in ('recordtype', 'recordtypeid')]",
     "if len(record_type_columns) > 1:",
     "    raise DataGenError(f'Multiple record type columns for {tablename}: {record_type_columns}')",
     "if len(record_type_columns) == 1:",
     "    return record_type_columns[0]"] := rfl

theorem recordTypeNames_eq : recordTypeNames = ["recordtype", "recordtypeid"] := rfl

theorem isRecordTypeName_eq (f : String) :
    isRecordTypeName f =
      recordTypeNames.any (fun n => (f.toList.filter (fun c => c != '_')).map Char.toLower == n.toList) := by
  simp [isRecordTypeName, recordTypeNames]

/-! ### run time: what is recorded as a dependency, and what survives a continuation -/

/-- `Dependency(table_name_from, table_name_to, field_name)`: the model's `Dep` has this field order -/
theorem dependencyFields_eq : dependencyFields = ["table_name_from", "table_name_to", "field_name"] := rfl

/-- `remember_row` records `(row's table, referenced row's table, field)` for object rows and references -/
theorem rememberRowArgs_eq : rememberRowArgs = ["tablename", "fieldvalue._tablename", "fieldname"] := rfl
theorem rememberRowTest_eq : rememberRowTest = "isinstance(fieldvalue, (ObjectRow, ObjectReference))" := rfl
theorem registerDependencyArgs_eq :
    registerDependencyArgs = ["table_name_from", "table_name_to", "fieldname"] := rfl

/-- `__getstate__` writes the dependencies … -/
theorem deps_are_saved : "intertable_dependencies" ∈ savedKeys := by decide

def accessOfString : String → Option Access
  | "index" => some .index
  | "get" => some .get
  | "getattr" => some .getattr
  | _ => none

/-- … and `__setstate__` reads them by key, `state.get("intertable_dependencies", [])` (the defect
    D05 — `getattr(state, …, [])` on a dict, i.e. never — was repaired by a `fix:` commit; the model
    keeps the access kind as a parameter, so `continuation_drops_saved` and
    `mapping_continuation_invariant_refuted_for_getattr` still document what the old code did). -/
theorem deps_load_access_is_get : accessOfString depsLoadAccess = some Access.get := by decide

theorem loadDeps_pinned (saved : List Dep) :
    (accessOfString depsLoadAccess).map (fun a => loadDeps a saved) = some saved := by
  rw [deps_load_access_is_get]; rfl

/-- **Continuation invariance for the code as it is now**: with the pinned access kind, a continued
    run that observes only dependencies already saved has the same dependency list, hence the same
    mapping for every table list and declaration list. -/
theorem mapping_continuation_invariant_pinned
    (saved observed : List Dep) (hnd : saved.Nodup) (hsub : ∀ d ∈ observed, d ∈ saved)
    (tables : List TableInfo) (decls : List Decl) :
    (accessOfString depsLoadAccess).map (fun a => mappingFromRecipe tables (continuedDeps a saved observed) decls)
      = some (mappingFromRecipe tables saved decls) := by
  rw [deps_load_access_is_get]
  simp only [Option.map_some]
  exact congrArg some
    (SnowModel.Props.C16.mapping_continuation_invariant saved observed hnd hsub tables decls)

/-! ### the frame of `TableInfo.fields` -/

/-- Every use of a `.fields` attribute, anywhere in the package outside the parser, that is not
    syntactically read-only. A new writer (an output stream that builds its header inside
    `table.fields`, a plugin that patches the schema …) adds an entry and breaks this lemma. -/
theorem fieldsUsesOutsideParser_eq : fieldsUsesOutsideParser =
    ["snowfakery/data_generator_runtime_object_model.py:ObjectTemplate.__init__: rebind: self.fields = fields",
     "snowfakery/generate_mapping_from_recipe.py:remove_person_contact_id: item store/delete: del tables['Account'].fields['PersonContactId']",
     "snowfakery/generate_mapping_from_recipe.py:mappings_from_load_steps: escapes (alias / argument / return): record_type_col = find_record_type_column(table_name, load_step.fields)",
     "snowfakery/standard_plugins/Salesforce.py:_create_db: rebind: ti.fields = {fieldname: None for fieldname in fieldnames}"] := rfl

/-- the one writer of a parse-time `TableInfo.fields` after parsing; it is part of the mapping
    generator and modelled (`removePersonContactField`) -/
def modelledFieldWrites : List String :=
  ["snowfakery/generate_mapping_from_recipe.py:remove_person_contact_id: item store/delete: del tables['Account'].fields['PersonContactId']"]

/-- uses that cannot reach a parse-time `TableInfo.fields`: the constructor of `ObjectTemplate` binds the
    template's own field *list*; `find_record_type_column` (source pinned above) only reads the `LoadStep`
    tuple; the Salesforce plugin fills a `TableInfo` it has just created for a dataset database -/
def benignFieldUses : List String :=
  ["snowfakery/data_generator_runtime_object_model.py:ObjectTemplate.__init__: rebind: self.fields = fields",
   "snowfakery/generate_mapping_from_recipe.py:mappings_from_load_steps: escapes (alias / argument / return): record_type_col = find_record_type_column(table_name, load_step.fields)",
   "snowfakery/standard_plugins/Salesforce.py:_create_db: rebind: ti.fields = {fieldname: None for fieldname in fieldnames}"]

/-- what is left: writers between parsing and mapping generation that the model does not account for -/
def unmodelledFieldWrites : List String :=
  fieldsUsesOutsideParser.filter (fun u => !(modelledFieldWrites.contains u || benignFieldUses.contains u))

set_option maxRecDepth 8000 in
theorem unmodelled_field_writes_none : unmodelledFieldWrites = [] := by decide

/-- an unknown writer has an unknown effect: only the empty list is interpreted -/
def writesOfPins : List String → Option (List FieldWrite)
  | [] => some []
  | _ => none

/-- **The mapping is a function of the parse result and the runtime dependency set only**, for the
    source as it is: the writes into the table infos derived from the pins are none, hence
    (`Props.C16.mapping_function_of_parse_and_dependencies`) the run's mapping is
    `mappingFromRecipe tables deps decls`, and any two output configurations give the same mapping. -/
theorem mapping_function_of_parse_and_dependencies_pinned (tables : List TableInfo) (deps : List Dep)
    (decls : List Decl) :
    (writesOfPins unmodelledFieldWrites).map (fun ws => mappingOfRun ws tables deps decls) =
      some (mappingFromRecipe tables deps decls) := by
  rw [unmodelled_field_writes_none]
  rfl

/-! ### hidden names -/

theorem hiddenPrefixes_eq : hiddenPrefixes = ["__", "__", "__", "__"] := rfl

theorem hiddenName_eq (s : String) : ∀ p ∈ hiddenPrefixes, hiddenName s = s.startsWith p := by
  intro p hp
  simp only [hiddenPrefixes, List.mem_cons, List.mem_nil_iff, or_false, or_self] at hp
  subst hp
  rfl

theorem tableInfoRegisterSource_eq : tableInfoRegisterSource =
    ["self.fields.update({field.name: field for field in template.fields if not field.name.startswith('__')})",
     "self.friends.update({friend.tablename: friend for friend in template.friends if hasattr(friend, 'tablename')})",
     "if template.update_key:",
     "    self.has_update_keys = True",
     "self._templates.append(template)"] := rfl

end SnowModel.Props.C16Bridge
