/-
C20 — invalid recipes are rejected with a recipe error, not an internal failure.

Model: `SnowModel.ParseCheck.check fuel env doc` (Core/ParseCheck.lean) — everything
`snowfakery.data_generator.generate` decides before the interpreter starts, on an arbitrary YAML
value: `ok parsed refs | recipeError kind | stuck site | fuel`.  The model follows the repository
at 66ecebf, where the escape sites this package had found (D17a…D17s, D17u…D17aa) are repaired.

  * `parse_never_stuck` — FULL STRENGTH (it was refuted at 16 sites and only held under
    `AvoidsKnownHoles` before the repairs): ∀ fuel env doc, `check fuel env doc` is not stuck; hence
    `outcome_trichotomy`: every document is accepted, rejected with a recipe error, or exhausts the
    recursion budget — which on the code is the `RecursionError` that `parse_recipe` now turns into
    a `DataGenSyntaxError` (pinned in `Props/C20Bridge.lean`).  The unguarded operations that remain
    in the code (`Site`) are unreachable because the declaration loop / the callers' tests /
    the mandatory `var` exclude the values they would fail on;
  * `parse_terminates` — FULL STRENGTH (it was refuted by a file that includes itself before fix
    70277f6): beyond the explicit budget `budget env doc` the validation layer never runs out of
    fuel; hence `accepted_or_rejected`: for every document and every set of include files, from some
    recursion budget on, the outcome is "accepted" or "rejected with a recipe error" — nothing else;
  * `rejected_*`: each of the 16 former witness documents is now a recipe error of the class the
    code raises (the `stuck_*` theorems of the first version are gone: they were statements about
    the defective code);
  * `include_cycle_rejected`, `mutual_include_rejected`, `nested_macro_cycle_rejected`: the documents
    on which every amount of fuel ran out (`include_cycle_diverges` of the first version, a macro
    including itself through a nested template) are recipe errors for every amount of fuel ≥ 4 / 6 (the nested-macro witness: sampled fuels ≥ 10)
    (fixes 70277f6, 97f2c27); `parse_terminates_refuted` is gone;
  * `checked_shape`, `accepted_options_declare_default`: what `check` accepts satisfies the shape
    invariant `WF` the interpreter relies on, the version is 2, 3 or absent, every recorded
    `random_reference` names its target, every option has a hashable name and a declared default;
  * `version_across_files`: a version declared in an included file applies; files must agree
    (fix 6931335);
  * `structural_before_rows`: a run whose validation does not succeed has written no row, whatever
    the interpreter is.
-/
import SnowModel.Proofs.C20b
import SnowModel.Proofs.C20c
import SnowModel.Proofs.C20d

namespace SnowModel.ParseCheck

/-- a mapping with string keys -/
def ymap (kvs : List (String × Y)) : Y := .map (kvs.map (fun p => (Y.str p.1, p.2)))

def noEnv : Env := { files := [], plugins := [] }

/-! ### never stuck, for every document -/

/-- For every amount of fuel, every set of include files and plugins, and **every** YAML value, the
    validation layer does not get stuck: none of the operations that would raise a non-recipe
    exception is reached with a value it fails on. -/
theorem parse_never_stuck (fuel : Nat) (env : Env) (doc : Y) : (check fuel env doc).isStuck = false :=
  check_not_stuck fuel env doc

/-- every document is accepted, or rejected with a recipe error, or is nested deeper than the
    recursion budget (on the code: `RecursionError` → `DataGenSyntaxError` in `parse_recipe`) -/
theorem outcome_trichotomy (fuel : Nat) (env : Env) (doc : Y) :
    (check fuel env doc).isOk = true ∨ (∃ e, check fuel env doc = .recipeError e)
      ∨ check fuel env doc = .fuel := by
  have h := parse_never_stuck fuel env doc
  cases hc : check fuel env doc with
  | ok p r => exact Or.inl rfl
  | recipeError e => exact Or.inr (Or.inl ⟨e, rfl⟩)
  | stuck s => rw [hc] at h; cases h
  | fuel => exact Or.inr (Or.inr rfl)

/-- the guarded operations are unreachable, site by site -/
theorem no_site_reachable (fuel : Nat) (env : Env) (doc : Y) (s : Site) :
    check fuel env doc ≠ .stuck s := by
  intro h
  have := parse_never_stuck fuel env doc
  rw [h] at this
  cases this

/-! ### termination, for every document -/

/-- Beyond `budget env doc` — (include files not yet entered + 1) + (declared macro names × (3·S + 8))
    + 3·S + 2, `S` the total size of the documents — the validation layer does not run out of fuel:
    include files and macros are guarded by explicit stacks, everything else recurses on a strictly
    smaller sub-value.  (Refuted before fix 70277f6: `include_cycle_diverges`.) -/
theorem parse_terminates (env : Env) (doc : Y) (fuel : Nat) (h : budget env doc ≤ fuel) :
    check fuel env doc ≠ .fuel :=
  check_terminates env doc fuel h

/-- Every document offered as a recipe is either accepted or rejected with a recipe error. -/
theorem accepted_or_rejected (env : Env) (doc : Y) :
    ∃ F, ∀ fuel, F ≤ fuel →
      (check fuel env doc).isOk = true ∨ ∃ e, check fuel env doc = .recipeError e := by
  refine ⟨budget env doc, fun fuel h => ?_⟩
  rcases outcome_trichotomy fuel env doc with h1 | h2 | h3
  · exact Or.inl h1
  · exact Or.inr h2
  · exact absurd h3 (parse_terminates env doc fuel h)

/-- non-vacuity: both alternatives occur -/
example : (∃ F, ∀ fuel, F ≤ fuel → (check fuel noEnv (.list [ymap [("object", .str "A")]])).isOk = true ∨
    ∃ e, check fuel noEnv (.list [ymap [("object", .str "A")]]) = .recipeError e) :=
  accepted_or_rejected _ _

/-! ### the former escape sites: each witness document is now a recipe error -/

/-- D17a `- object: A\n  friends: [5]` (fix 8788294) -/
theorem rejected_friendNotMap :
    check 20 noEnv (.list [ymap [("object", .str "A"), ("friends", .list [.int 5])]])
      matches .recipeError .syntax := by decide

/-- D17b `- object: A\n  friends: [{5: x}]` (fix 8788294) -/
theorem rejected_stmtKeyNotStr :
    check 20 noEnv (.list [ymap [("object", .str "A"), ("friends", .list [.map [(.int 5, .str "x")]])]])
      matches .recipeError .syntax := by decide

/-- D17c `- object: A\n  fields: {x: [1, 2]}` (fix 6ccffd4) -/
theorem rejected_fieldValueShape :
    check 20 noEnv (.list [ymap [("object", .str "A"), ("fields", ymap [("x", .list [.int 1, .int 2])])]])
      matches .recipeError .syntax := by decide

/-- D17d `- object: A\n  fields: {"": 1}` (fix 6ccffd4) -/
theorem rejected_fieldNameFalsy :
    check 20 noEnv (.list [ymap [("object", .str "A"), ("fields", ymap [("", .int 1)])]])
      matches .recipeError .syntax := by decide

/-- D17e `- object: A\n  fields: {2020-01-01: x}` (fix 6ccffd4) -/
theorem rejected_fieldNameNotStr :
    check 20 noEnv (.list [ymap [("object", .str "A"), ("fields", .map [(.date "2020-01-01", .str "x")])]])
      matches .recipeError .syntax := by decide

/-- D17f `- object: A\n  fields: {x: {5: 1}}` (fix f9d6080) -/
theorem rejected_funcNameNotStr :
    check 20 noEnv (.list [ymap [("object", .str "A"), ("fields", ymap [("x", .map [(.int 5, .int 1)])])]])
      matches .recipeError .syntax := by decide

/-- D17g `- object: A\n  fields: {x: {a.b.c: 1}}` (fix f9d6080) -/
theorem rejected_funcNameDots :
    check 20 noEnv (.list [ymap [("object", .str "A"), ("fields", ymap [("x", ymap [("a.b.c", .int 1)])])]])
      matches .recipeError .syntax := by decide

/-- D17h `- object: A\n  for_each: {value: x}` (fix 6ccffd4: `var` is mandatory) -/
theorem rejected_forEachNoVar :
    check 20 noEnv (.list [ymap [("object", .str "A"), ("for_each", ymap [("value", .str "x")])]])
      matches .recipeError .generic := by decide

/-- D17i `- include_file: /abs` (fix 292eb44) -/
theorem rejected_includeAbs :
    check 20 noEnv (.list [ymap [("include_file", .str "/abs")]]) matches .recipeError .syntax := by
  decide

/-- D17j `- macro: [1]` (fix 00d5484) -/
theorem rejected_macroUnhashable :
    check 20 noEnv (.list [ymap [("macro", .list [.int 1])]]) matches .recipeError .syntax := by decide

/-- D17k `- plugin: 5` (fix 00d5484) -/
theorem rejected_pluginNotStr :
    check 20 noEnv (.list [ymap [("plugin", .int 5)]]) matches .recipeError .syntax := by decide

/-- D17l `- plugin: foo`, D17y `- plugin: .` (fix 00d5484) -/
theorem rejected_pluginNoDot :
    (check 20 noEnv (.list [ymap [("plugin", .str "foo")]]) matches .recipeError .syntax)
    ∧ (check 20 noEnv (.list [ymap [("plugin", .str ".")]]) matches .recipeError .syntax)
    ∧ (check 20 noEnv (.list [ymap [("plugin", .str "a.")]]) matches .recipeError .syntax) := by decide

/-- D17m `- option: [1]` (fix 00d5484) -/
theorem rejected_optionUnhashable :
    check 20 noEnv (.list [ymap [("option", .list [.int 1])]]) matches .recipeError .syntax := by decide

/-- D17n `random_reference: {}` (fix 2d62050) -/
theorem rejected_refNoArgs :
    check 20 noEnv (.list [ymap [("object", .str "A"),
      ("fields", ymap [("x", ymap [("random_reference", .map [])])])]]) matches .recipeError .syntax := by
  decide

/-- D17o `random_reference: {unique: true}` (fix 2d62050) -/
theorem rejected_refNoTo :
    check 20 noEnv (.list [ymap [("object", .str "A"),
      ("fields", ymap [("x", ymap [("random_reference", ymap [("unique", .bool true)])])])]])
      matches .recipeError .syntax := by decide

/-- D17p `random_reference: {to: {a: b}}` (fix 2d62050) -/
theorem rejected_refNotSimple :
    check 20 noEnv (.list [ymap [("object", .str "A"),
      ("fields", ymap [("x", ymap [("random_reference", ymap [("to", ymap [("a", .str "b")])])])])]])
      matches .recipeError .syntax := by decide

/-! ### non-vacuity: a non-trivial recipe is accepted -/

def sampleDoc : Y := .list [
  ymap [("snowfakery_version", .int 3)],
  ymap [("plugin", .str "snowfakery.standard_plugins.Math")],
  ymap [("option", .str "n"), ("default", .int 2)],
  ymap [("macro", .str "m"), ("fields", ymap [("a", .int 1)]),
        ("friends", .list [ymap [("object", .str "F")]])],
  ymap [("var", .str "v"), ("value", .int 7)],
  ymap [("object", .str "P"), ("count", .int 3), ("nickname", .str "p1"), ("just_once", .bool true)],
  ymap [("object", .str "A"), ("include", .str "m"), ("count", .str "${{n}}"),
        ("fields", ymap [("x", ymap [("random_number", ymap [("min", .int 1), ("max", .int 3)])]),
                          ("r", ymap [("random_reference", ymap [("to", .str "P"), ("unique", .bool true)])]),
                          ("c", .list [ymap [("object", .str "B"), ("fields", ymap [("k", .str "v")])]]),
                          ("a", .int 2)]),
        ("friends", .list [ymap [("object", .str "C"), ("fields", ymap [("p", ymap [("reference", .str "A")])])]])]]

def sampleEnv : Env := { files := [], plugins := ["snowfakery.standard_plugins.Math"] }

example : (check 50 sampleEnv sampleDoc).isOk = true := by decide
example : (check 50 sampleEnv sampleDoc).isStuck = false := parse_never_stuck 50 sampleEnv sampleDoc

/-! ### cycles are recipe errors, for every amount of fuel -/

/-- a recipe that includes itself -/
def selfDoc : Y :=
  .list [.map [(.str "include_file", .str "main.recipe.yml")], .map [(.str "object", .str "A")]]

def selfEnv : Env := { files := [("main.recipe.yml", .doc selfDoc)], plugins := [] }

/-- D17q (fix 70277f6; `include_cycle_diverges` of the first version said `= .fuel` for every
    fuel): the included copy is on `files_being_parsed` when it is included again -/
theorem include_cycle_rejected (n : Nat) : check (n + 4) selfEnv selfDoc = .recipeError .generic := by
  simp [check, parseRecipe, loadFile, selfEnv, selfDoc, forR, categorize, collectionRules, getTruthy,
    lookup, kvsOf, Y.truthy, parseElement, checkKeys, expectedTy, hasTy, startsWithSlash, List.lookup,
    Res.bind]

/-- two files that include each other -/
def mutualA : Y := .list [ymap [("include_file", .str "b.yml")], ymap [("object", .str "A")]]
def mutualB : Y := .list [ymap [("include_file", .str "main.recipe.yml")], ymap [("object", .str "B")]]
def mutualEnv : Env := { files := [("main.recipe.yml", .doc mutualA), ("b.yml", .doc mutualB)], plugins := [] }

theorem mutual_include_rejected (n : Nat) : check (n + 6) mutualEnv mutualA = .recipeError .generic := by
  simp [check, parseRecipe, loadFile, mutualEnv, mutualA, mutualB, ymap, forR, categorize, collectionRules,
    getTruthy, lookup, kvsOf, Y.truthy, parseElement, checkKeys, expectedTy, hasTy, startsWithSlash,
    List.lookup, Res.bind]

/-- a macro that includes itself through a nested template (fix 97f2c27): before, every fuel ran out -/
def nestedMacroDoc : Y := .list [
  ymap [("macro", .str "m"), ("fields", ymap [("x", .list [ymap [("object", .str "B"), ("include", .str "m")]])])],
  ymap [("object", .str "A"), ("include", .str "m")]]

def isGenericError {α : Type} : Res α → Bool
  | .recipeError .generic => true
  | _ => false

/-- sampled over fuels (the witness needs 10 levels; below that the budget runs out) -/
theorem nested_macro_cycle_rejected :
    ([10, 11, 12, 20, 50, 200].all fun fuel => isGenericError (check fuel noEnv nestedMacroDoc)) = true
    ∧ ((List.range 10).all fun fuel => check fuel noEnv nestedMacroDoc matches .fuel) = true := by
  decide

/-- the chain check still works, and a macro may be used again in a nested template once its own
    expansion is over -/
example :
    check 30 noEnv (.list [ymap [("macro", .str "a"), ("include", .str "b")],
      ymap [("macro", .str "b"), ("include", .str "a")],
      ymap [("object", .str "A"), ("include", .str "a")]]) matches .recipeError .generic := by decide

example :
    (check 30 noEnv (.list [ymap [("macro", .str "m"), ("fields", ymap [("x", .int 1)])],
      ymap [("macro", .str "n"), ("fields", ymap [("y", .list [ymap [("object", .str "B"), ("include", .str "m")]])])],
      ymap [("object", .str "A"), ("include", .str "m, n")]])).isOk = true := by decide

/-! ### versions across files (fix 6931335) -/

/-- a version declared only in an included file is the recipe's version; two files that declare
    different versions are a recipe error; equal versions are fine -/
theorem version_across_files :
    let inc (v : Int) : Env := { files := [("b.yml", .doc (.list [ymap [("snowfakery_version", .int v)], ymap [("object", .str "B")]]))], plugins := [] }
    let main (decl : List Y) : Y := .list (decl ++ [ymap [("include_file", .str "b.yml")], ymap [("object", .str "A")]])
    (match check 20 (inc 3) (main []) with | .ok p _ => p.version | _ => none) = some 3
    ∧ (check 20 (inc 3) (main [ymap [("snowfakery_version", .int 2)]]) matches .recipeError .syntax)
    ∧ (match check 20 (inc 3) (main [ymap [("snowfakery_version", .int 3)]]) with | .ok p _ => p.version | _ => none) = some 3 := by
  decide

/-! ### what is accepted has the shape the interpreter relies on -/

/-- `check fuel env doc = ok p refs` ⇒ every statement is a template or a variable definition that
    satisfies `WF`: table and variable names are non-empty strings, a nickname is never the empty
    string, field names are non-empty strings, only top-level templates are `just_once`, `count` and
    `for_each` exclude each other, function names have at most one dot, and recursively so for
    nested templates, friends, arguments; the version is absent, 2 or 3; every `random_reference`
    names its target; every option passes `merge_options` (see `accepted_options_declare_default`). -/
theorem checked_shape (fuel : Nat) (env : Env) (doc : Y) (p : Parsed) (refs : List Ref)
    (h : check fuel env doc = .ok p refs) :
    (∀ s ∈ p.statements, WF true s ∧ isStatement s = true)
    ∧ (p.version = none ∨ p.version = some 2 ∨ p.version = some 3)
    ∧ (∀ r ∈ refs, ∃ rr, checkRef r = .ok () rr)
    ∧ (∀ o ∈ p.options, ∃ rr, checkOption o = .ok () rr) := by
  obtain ⟨h1, ⟨r2, h2⟩, ⟨r3, h3⟩⟩ := check_ok_inv h
  have hp := (parseRecipe_post fuel env doc).out p refs h1
  exact ⟨hp.1, hp.2, forR_ok_mem h3, forR_ok_mem h2⟩

/-- what `merge_options` (repaired by d8c74a2) guarantees for an accepted recipe run without user
    options: every option declaration has a hashable name and *declares* a default — the value of
    the default is irrelevant -/
theorem accepted_options_declare_default (fuel : Nat) (env : Env) (doc : Y) (p : Parsed)
    (refs : List Ref) (h : check fuel env doc = .ok p refs) :
    ∀ o ∈ p.options, (∃ v, lookup o "option" = some v ∧ v.hashable = true)
      ∧ (lookup o "default").isSome = true := by
  intro o ho
  obtain ⟨rr, hr⟩ := (checked_shape fuel env doc p refs h).2.2.2 o ho
  unfold checkOption at hr
  split at hr
  · rename_i v hv
    split at hr
    · cases hr
    · rename_i hh
      split at hr
      · rename_i hd
        exact ⟨⟨v, hv, by simpa using hh⟩, hd⟩
      · cases hr
  · cases hr

/-- and conversely the value of the default does not matter: `0`, `false`, `null`, `""` are defaults
    (before d8c74a2 these four recipes were "No definition supplied for option") -/
example : ∀ d ∈ [Y.int 0, Y.bool false, Y.null, Y.str ""],
    (check 20 noEnv (.list [ymap [("option", .str "n"), ("default", d)],
      ymap [("object", .str "A")]])).isOk = true := by decide

/-- an option without any `default` key is still a recipe error (DataGenNameError) -/
example : check 20 noEnv (.list [ymap [("option", .str "n")], ymap [("object", .str "A")]])
    matches .recipeError .name := by decide

/-- non-vacuity: the sample recipe is accepted, with 3 statements, version 3, one recorded
    random_reference and one option -/
example : (match check 50 sampleEnv sampleDoc with
    | .ok p refs => (p.statements.length, p.version, refs.length, p.options.length)
    | _ => (0, none, 0, 0)) = (3, some 3, 1, 1) := by decide

/-- de-duplication of fields: first position, last value; macro fields come first -/
example : (match check 50 sampleEnv sampleDoc with
    | .ok p _ => p.statements.map (fun s => match s with
        | .tmpl t _ _ _ fields friends _ _ => (t, fields.map (·.1), friends.length)
        | .var n _ => (n, [], 0)
        | _ => ("", [], 0))
    | _ => []) = [("v", [], 0), ("P", [], 0), ("A", ["a", "x", "r", "c"], 2)] := by decide

/-! ### structural faults precede every row -/

/-- Whatever the interpreter does, a run whose validation did not succeed has produced no row. -/
theorem structural_before_rows {Row : Type} (interp : Parsed → Bool × List Row) (fuel : Nat)
    (env : Env) (doc : Y) (h : (check fuel env doc).isOk = false) :
    (generate interp fuel env doc).2 = [] ∧ (generate interp fuel env doc).1.isOk = false := by
  unfold generate
  cases hc : check fuel env doc with
  | ok p refs => rw [hc] at h; cases h
  | recipeError e => exact ⟨rfl, rfl⟩
  | stuck s => exact ⟨rfl, rfl⟩
  | fuel => exact ⟨rfl, rfl⟩

/-- and the outcome of such a run is the outcome of the validation alone -/
theorem structural_outcome_is_static {Row : Type} (interp interp' : Parsed → Bool × List Row)
    (fuel : Nat) (env : Env) (doc : Y) (h : (check fuel env doc).isOk = false) :
    generate interp fuel env doc = generate interp' fuel env doc := by
  unfold generate
  cases hc : check fuel env doc with
  | ok p refs => rw [hc] at h; cases h
  | recipeError e => rfl
  | stuck s => rfl
  | fuel => rfl

example : (generate (Row := Nat) (fun _ => (true, [1, 2, 3])) 50 sampleEnv sampleDoc).2 = [1, 2, 3] := by
  decide

end SnowModel.ParseCheck
