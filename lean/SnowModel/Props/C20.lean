/-
C20 — invalid recipes are rejected with a recipe error, not an internal failure.

Model: `SnowModel.ParseCheck.check fuel env doc` (Core/ParseCheck.lean) — everything
`snowfakery.data_generator.generate` decides before the interpreter starts, on an arbitrary YAML
value: `ok parsed refs | recipeError kind | stuck site | fuel`.

  * `parse_never_stuck` (full statement, FALSE on the code and therefore on the faithful model):
        ∀ fuel env doc, (check fuel env doc).isStuck = false
    refuted at each of the 16 reachable escape sites by a concrete document (`stuck_*` below, each
    one replayed on the real code by the harness as a known finding) — `parse_never_stuck_refuted`;
  * `parse_never_stuck_partial`: it holds for every document that satisfies the decidable,
    purely syntactic predicate `AvoidsKnownHoles` (Proofs/C20Defs.lean);
  * `parse_terminates` (full statement, FALSE): ∀ env doc, ∃ fuel, check fuel env doc ≠ .fuel —
    refuted by a file that includes itself (`include_cycle_diverges`: every amount of fuel runs
    out; on the code: RecursionError) — unlike macros there is no cycle check for include_file;
  * `checked_shape`: what `check` accepts satisfies the shape invariant `WF` the interpreter
    relies on, the version is 2, 3 or absent, every recorded `random_reference` names its target and
    every option has a hashable name and a *declared* default, whatever its value (`merge_options`
    after fix d8c74a2: `"default" in option`; a default of 0 / false / null / "" is a default);
  * `structural_before_rows`: a run whose validation does not succeed has written no row, whatever
    the interpreter is.
-/
import SnowModel.Proofs.C20b
import SnowModel.Proofs.C20c

namespace SnowModel.ParseCheck

def stuckAt {α : Type} : Res α → Option Site
  | .stuck s => some s
  | _ => none

/-- a mapping with string keys -/
def ymap (kvs : List (String × Y)) : Y := .map (kvs.map (fun p => (Y.str p.1, p.2)))

def noEnv : Env := { files := [], plugins := [] }

/-! ### the escape sites: one witness document each (all replayed on the real code) -/

/-- `- object: A\n  friends: [5]` -/
theorem stuck_friendNotMap :
    stuckAt (check 20 noEnv (.list [ymap [("object", .str "A"), ("friends", .list [.int 5])]]))
      = some .friendNotMap := by decide

/-- `- object: A\n  friends: [{5: x}]` -/
theorem stuck_stmtKeyNotStr :
    stuckAt (check 20 noEnv (.list [ymap [("object", .str "A"),
      ("friends", .list [.map [(.int 5, .str "x")]])]])) = some .stmtKeyNotStr := by decide

/-- `- object: A\n  fields: {x: [1, 2]}` -/
theorem stuck_fieldValueShape :
    stuckAt (check 20 noEnv (.list [ymap [("object", .str "A"),
      ("fields", ymap [("x", .list [.int 1, .int 2])])]])) = some .fieldValueShape := by decide

/-- `- object: A\n  fields: {"": 1}` -/
theorem stuck_fieldNameFalsy :
    stuckAt (check 20 noEnv (.list [ymap [("object", .str "A"),
      ("fields", ymap [("", .int 1)])]])) = some .fieldNameFalsy := by decide

/-- `- object: A\n  fields: {2020-01-01: x}` (also `5:`, `true:`) -/
theorem stuck_fieldNameNotStr :
    stuckAt (check 20 noEnv (.list [ymap [("object", .str "A"),
      ("fields", .map [(.date "2020-01-01", .str "x")])]])) = some .fieldNameNotStr := by decide

/-- `- object: A\n  fields: {x: {5: 1}}` -/
theorem stuck_funcNameNotStr :
    stuckAt (check 20 noEnv (.list [ymap [("object", .str "A"),
      ("fields", ymap [("x", .map [(.int 5, .int 1)])])]])) = some .funcNameNotStr := by decide

/-- `- object: A\n  fields: {x: {a.b.c: 1}}` -/
theorem stuck_funcNameDots :
    stuckAt (check 20 noEnv (.list [ymap [("object", .str "A"),
      ("fields", ymap [("x", ymap [("a.b.c", .int 1)])])]])) = some .funcNameDots := by decide

/-- `- object: A\n  for_each: {value: x}` -/
theorem stuck_forEachNoVar :
    stuckAt (check 20 noEnv (.list [ymap [("object", .str "A"),
      ("for_each", ymap [("value", .str "x")])]])) = some .forEachNoVar := by decide

/-- `- include_file: /abs` -/
theorem stuck_includeAbs :
    stuckAt (check 20 noEnv (.list [ymap [("include_file", .str "/abs")]])) = some .includeAbs := by
  decide

/-- `- macro: [1]` -/
theorem stuck_macroUnhashable :
    stuckAt (check 20 noEnv (.list [ymap [("macro", .list [.int 1])]])) = some .macroUnhashable := by
  decide

/-- `- plugin: 5` -/
theorem stuck_pluginNotStr :
    stuckAt (check 20 noEnv (.list [ymap [("plugin", .int 5)]])) = some .pluginNotStr := by decide

/-- `- plugin: foo` -/
theorem stuck_pluginNoDot :
    stuckAt (check 20 noEnv (.list [ymap [("plugin", .str "foo")]])) = some .pluginNoDot := by decide

/-- `- option: [1]` -/
theorem stuck_optionUnhashable :
    stuckAt (check 20 noEnv (.list [ymap [("option", .list [.int 1])]])) = some .optionUnhashable := by
  decide

/-- `- object: A\n  fields: {x: {random_reference: {}}}` -/
theorem stuck_refNoArgs :
    stuckAt (check 20 noEnv (.list [ymap [("object", .str "A"),
      ("fields", ymap [("x", ymap [("random_reference", .map [])])])]])) = some .refNoArgs := by decide

/-- `- object: A\n  fields: {x: {random_reference: {unique: true}}}` -/
theorem stuck_refNoTo :
    stuckAt (check 20 noEnv (.list [ymap [("object", .str "A"),
      ("fields", ymap [("x", ymap [("random_reference", ymap [("unique", .bool true)])])])]]))
      = some .refNoTo := by decide

/-- `- object: A\n  fields: {x: {random_reference: {to: {a: b}}}}` -/
theorem stuck_refNotSimple :
    stuckAt (check 20 noEnv (.list [ymap [("object", .str "A"),
      ("fields", ymap [("x", ymap [("random_reference", ymap [("to", ymap [("a", .str "b")])])])])]]))
      = some .refNotSimple := by decide

/-- `parse_never_stuck` is false -/
theorem parse_never_stuck_refuted :
    ¬ (∀ (fuel : Nat) (env : Env) (doc : Y), (check fuel env doc).isStuck = false) := by
  intro h
  have := h 20 noEnv (.list [ymap [("object", .str "A"), ("friends", .list [.int 5])]])
  revert this
  decide

/-! ### the positive statement -/

/-- Documents that avoid the known holes are never stuck: for every amount of fuel, every set of
    include files and every document, `check` ends in `ok`, a recipe error, or (include cycles) out
    of fuel. -/
theorem parse_never_stuck_partial (fuel : Nat) (env : Env) (doc : Y)
    (h : AvoidsKnownHoles env doc = true) : (check fuel env doc).isStuck = false :=
  check_not_stuck_of_avoids fuel env doc h

/-- non-vacuity: a recipe with a macro, nested templates, friends, a variable, a function call with
    keyword arguments, a `random_reference`, an option, a plugin and a version declaration avoids
    the holes, and is accepted -/
def sampleDoc : Y := .list [
  ymap [("snowfakery_version", .int 3)],
  ymap [("plugin", .str "snowfakery.standard_plugins.Math")],
  ymap [("option", .str "n"), ("default", .int 2)],
  ymap [("macro", .str "m"), ("fields", ymap [("a", .int 1)]),
        ("friends", .list [ymap [("object", .str "F")]])],
  ymap [("var", .str "v"), ("value", .int 7)],
  ymap [("object", .str "P"), ("count", .int 3), ("nickname", .str "p1"), ("just_once", .bool true)],
  ymap [("object", .str "A"), ("include", .str "m"), ("count", .str "${{n}}"),
        ("fields", ymap [("x", ymap [("random_number", ymap [("min", .int 1), ("max", .int 3)])]),
                          ("r", ymap [("random_reference", ymap [("to", .str "P"), ("unique", .bool true)])]),
                          ("c", .list [ymap [("object", .str "B"), ("fields", ymap [("k", .str "v")])]]),
                          ("a", .int 2)]),
        ("friends", .list [ymap [("object", .str "C"), ("fields", ymap [("p", ymap [("reference", .str "A")])])]])]]

def sampleEnv : Env := { files := [], plugins := ["snowfakery.standard_plugins.Math"] }

example : AvoidsKnownHoles sampleEnv sampleDoc = true := by decide
example : (check 50 sampleEnv sampleDoc).isOk = true := by decide
example : (check 50 sampleEnv sampleDoc).isStuck = false :=
  parse_never_stuck_partial 50 sampleEnv sampleDoc (by decide)

/-! ### termination -/

/-- a recipe that includes itself -/
def selfDoc : Y :=
  .list [.map [(.str "include_file", .str "main.recipe.yml")], .map [(.str "object", .str "A")]]

def selfEnv : Env := { files := [("main.recipe.yml", .doc selfDoc)], plugins := [] }

theorem selfInclude_loadFile : ∀ (n : Nat) (acc : Top), loadFile n selfEnv acc selfDoc = .fuel := by
  intro n
  induction n with
  | zero => intro acc; rfl
  | succ n ih =>
    intro acc
    have h := ih acc
    simp only [selfEnv, selfDoc] at h ⊢
    simp only [loadFile]
    simp [forR, categorize, collectionRules, getTruthy, lookup, kvsOf, Y.truthy, parseElement, checkKeys,
      expectedTy, hasTy, startsWithSlash, List.lookup, Res.bind, h]

/-- `parse_terminates` is false: with an include_file cycle every amount of fuel runs out (the code
    recurses until Python's recursion limit: RecursionError).  Macros have a cycle check
    (`includeMacro`), include_file has none. -/
theorem include_cycle_diverges (fuel : Nat) : check fuel selfEnv selfDoc = .fuel := by
  simp only [check, parseRecipe, bind_eq, selfInclude_loadFile, Res.bind]

theorem parse_terminates_refuted :
    ¬ (∀ (env : Env) (doc : Y), ∃ fuel, (check fuel env doc).isOk = true ∨
        (∃ e, check fuel env doc = .recipeError e) ∨ (check fuel env doc).isStuck = true) := by
  intro h
  obtain ⟨fuel, h⟩ := h selfEnv selfDoc
  rw [include_cycle_diverges] at h
  rcases h with h | ⟨e, h⟩ | h <;> cases h

/-- two files that include each other: out of fuel as well (sampled) -/
example :
    let a : Y := .list [ymap [("include_file", .str "b.yml")], ymap [("object", .str "A")]]
    let b : Y := .list [ymap [("include_file", .str "main.recipe.yml")], ymap [("object", .str "B")]]
    let env : Env := { files := [("main.recipe.yml", .doc a), ("b.yml", .doc b)], plugins := [] }
    (check 7 env a matches .fuel) ∧ (check 12 env a matches .fuel) := by decide

/-- the macro cycle check works: `a` includes `b` includes `a` is a recipe error, not a loop -/
example :
    check 30 noEnv (.list [ymap [("macro", .str "a"), ("include", .str "b")],
      ymap [("macro", .str "b"), ("include", .str "a")],
      ymap [("object", .str "A"), ("include", .str "a")]]) matches .recipeError .generic := by decide

/-! ### what is accepted has the shape the interpreter relies on -/

/-- `check fuel env doc = ok p refs` ⇒ every statement is a template or a variable definition that
    satisfies `WF`: table and variable names are non-empty strings, a nickname is never the empty
    string, field names are non-empty strings, only top-level templates are `just_once`, `count` and
    `for_each` exclude each other, function names have at most one dot, and recursively so for
    nested templates, friends, arguments; the version is absent, 2 or 3; every `random_reference`
    names its target; every option passes `merge_options` (see `accepted_options_declare_default`). -/
theorem checked_shape (fuel : Nat) (env : Env) (doc : Y) (p : Parsed) (refs : List Ref)
    (h : check fuel env doc = .ok p refs) :
    (∀ s ∈ p.statements, WF true s ∧ isStatement s = true)
    ∧ (p.version = none ∨ p.version = some 2 ∨ p.version = some 3)
    ∧ (∀ r ∈ refs, ∃ rr, checkRef r = .ok () rr)
    ∧ (∀ o ∈ p.options, ∃ rr, checkOption o = .ok () rr) := by
  obtain ⟨h1, ⟨r2, h2⟩, ⟨r3, h3⟩⟩ := check_ok_inv h
  have hp := (parseRecipe_post fuel env doc).out p refs h1
  exact ⟨hp.1, hp.2, forR_ok_mem h3, forR_ok_mem h2⟩

/-- what `merge_options` (repaired by d8c74a2) guarantees for an accepted recipe run without user
    options: every option declaration has a hashable name and *declares* a default — the value of
    the default is irrelevant -/
theorem accepted_options_declare_default (fuel : Nat) (env : Env) (doc : Y) (p : Parsed)
    (refs : List Ref) (h : check fuel env doc = .ok p refs) :
    ∀ o ∈ p.options, (∃ v, lookup o "option" = some v ∧ v.hashable = true)
      ∧ (lookup o "default").isSome = true := by
  intro o ho
  obtain ⟨rr, hr⟩ := (checked_shape fuel env doc p refs h).2.2.2 o ho
  unfold checkOption at hr
  split at hr
  · rename_i v hv
    split at hr
    · cases hr
    · rename_i hh
      split at hr
      · rename_i hd
        exact ⟨⟨v, hv, by simpa using hh⟩, hd⟩
      · cases hr
  · cases hr

/-- and conversely the value of the default does not matter: `0`, `false`, `null`, `""` are defaults
    (before d8c74a2 these four recipes were "No definition supplied for option") -/
example : ∀ d ∈ [Y.int 0, Y.bool false, Y.null, Y.str ""],
    (check 20 noEnv (.list [ymap [("option", .str "n"), ("default", d)],
      ymap [("object", .str "A")]])).isOk = true := by decide

/-- an option without any `default` key is still a recipe error (DataGenNameError) -/
example : check 20 noEnv (.list [ymap [("option", .str "n")], ymap [("object", .str "A")]])
    matches .recipeError .name := by decide

/-- non-vacuity: the sample recipe is accepted, with 3 statements, version 3, one recorded
    random_reference and one option -/
example : (match check 50 sampleEnv sampleDoc with
    | .ok p refs => (p.statements.length, p.version, refs.length, p.options.length)
    | _ => (0, none, 0, 0)) = (3, some 3, 1, 1) := by decide

/-- de-duplication of fields: first position, last value; macro fields come first -/
example : (match check 50 sampleEnv sampleDoc with
    | .ok p _ => p.statements.map (fun s => match s with
        | .tmpl t _ _ _ fields friends _ _ => (t, fields.map (·.1), friends.length)
        | .var n _ => (n, [], 0)
        | _ => ("", [], 0))
    | _ => []) = [("v", [], 0), ("P", [], 0), ("A", ["a", "x", "r", "c"], 2)] := by decide

/-! ### structural faults precede every row -/

/-- Whatever the interpreter does, a run whose validation did not succeed has produced no row. -/
theorem structural_before_rows {Row : Type} (interp : Parsed → Bool × List Row) (fuel : Nat)
    (env : Env) (doc : Y) (h : (check fuel env doc).isOk = false) :
    (generate interp fuel env doc).2 = [] ∧ (generate interp fuel env doc).1.isOk = false := by
  unfold generate
  cases hc : check fuel env doc with
  | ok p refs => rw [hc] at h; cases h
  | recipeError e => exact ⟨rfl, rfl⟩
  | stuck s => exact ⟨rfl, rfl⟩
  | fuel => exact ⟨rfl, rfl⟩

/-- and the outcome of such a run is the outcome of the validation alone -/
theorem structural_outcome_is_static {Row : Type} (interp interp' : Parsed → Bool × List Row)
    (fuel : Nat) (env : Env) (doc : Y) (h : (check fuel env doc).isOk = false) :
    generate interp fuel env doc = generate interp' fuel env doc := by
  unfold generate
  cases hc : check fuel env doc with
  | ok p refs => rw [hc] at h; cases h
  | recipeError e => rfl
  | stuck s => rfl
  | fuel => rfl

example : (generate (Row := Nat) (fun _ => (true, [1, 2, 3])) 50 sampleEnv sampleDoc).2 = [1, 2, 3] := by
  decide

end SnowModel.ParseCheck
