/-
C07 — bridging lemmas: the constants, expressions, comparisons and statement skeletons regenerated
from `snowfakery/api.py` (`Gen.StopApi.*`) and `snowfakery/data_generator_runtime.py`
(`Gen.StopRuntime.*`) on every run coincide with the hand-written model `SnowModel.Stop`.
A change of an expression, comparison, constant, default, call order or loop skeleton in the source
changes the generated file and one of these lemmas stops type-checking.
-/
import SnowModel.Core.Stop
import SnowModel.Generated.StopApi
import SnowModel.Generated.StopRuntime
import SnowModel.Generated.StopTables
import SnowModel.Core.StopTables

namespace SnowModel.Props.C07Bridge
open SnowModel.Stop

/-! #### api.py: constants and defaults -/

theorem countReps_eq : Gen.StopApi.countReps = COUNT_REPS := rfl

/-- class attributes `starting_id = None` (unset until the first boundary, repair 96e00ac),
    `rep_count = 0` -/
theorem app_init_eq :
    Gen.StopApi.startingIdInit = App.init.startingId.map (fun (n : Nat) => (n : Int)) ∧
    Gen.StopApi.repCountInit = (App.init.repCount : Int) := ⟨rfl, rfl⟩

/-- `stopping_criteria or StoppingCriteria(COUNT_REPS, 1)` -/
theorem default_criteria_eq :
    Gen.StopApi.defaultTablename = "COUNT_REPS" ∧ defaultCrit.tablename = Gen.StopApi.countReps ∧
    Gen.StopApi.defaultCount = (defaultCrit.count : Int) := ⟨rfl, rfl, rfl⟩

/-- `stopping_tablename` returns the name iff it differs from `COUNT_REPS`, else falls through (`None`) -/
theorem stoppingTablename_body :
    Gen.StopApi.stoppingTablenameBody =
      ["if self.stopping_criteria.tablename != COUNT_REPS:\n    return self.stopping_criteria.tablename"] := rfl

/-! #### api.py: `ensure_progress_was_made` -/

/-- guard (truthiness of the name), where the id is read, what is raised -/
theorem progress_shape :
    Gen.StopApi.progressGuard = "not self.stopping_tablename" ∧
    Gen.StopApi.progressLastUsed = "last_used_id = id_manager[self.stopping_tablename]" ∧
    Gen.StopApi.progressRaises = "RuntimeError" := ⟨rfl, rfl, rfl⟩

theorem progressStalled_eq (last sid : Nat) :
    Gen.StopApi.progressStalled last sid = decide (last = sid) := by
  simp only [Gen.StopApi.progressStalled, decide_eq_decide]
  omega

theorem newStartingId_eq (last : Nat) : Gen.StopApi.newStartingId last = (last : Int) := rfl

/-- first boundary of a run: `if self.starting_id is None: self.starting_id = start_ids.get(T, 1) - 1`
    with the same default start id as `check_if_finished` -/
theorem progress_first_shape :
    Gen.StopApi.progressFirstGuard = "self.starting_id is None" ∧
    Gen.StopApi.progressStartDefault = Gen.StopApi.startDefault := ⟨rfl, rfl⟩

/-- `sidOf`: the value `starting_id` has when the comparison is made -/
theorem sidOf_eq (start : Nat) (app : App) (h : 1 ≤ start) :
    (sidOf start app : Int) = match app.startingId with
      | none => Gen.StopApi.initialStartingId start
      | some s => (s : Int) := by
  cases app with
  | mk sid rc =>
    cases sid with
    | none => simp only [sidOf, Gen.StopApi.initialStartingId]; omega
    | some s => rfl

/-- the model's `ensureProgress`, for a truthy target name, is the pinned comparison and update -/
theorem ensureProgress_eq (c : Crit) (start : Nat) (app : App) (last : Nat)
    (h : truthy (stoppingTablename c) = true) :
    ensureProgress c start app last =
      if Gen.StopApi.progressStalled last (sidOf start app) then none
      else some ⟨some (Gen.StopApi.newStartingId last).toNat, app.repCount⟩ := by
  simp [ensureProgress, h, progressStalled_eq, newStartingId_eq]

/-! #### api.py: `check_if_finished` -/

theorem finished_shape :
    Gen.StopApi.repIncrement = "self.rep_count += 1" ∧
    Gen.StopApi.criteriaUnpack = "target_table, count = self.stopping_criteria" ∧
    Gen.StopApi.repsGuard = "target_table == COUNT_REPS" ∧
    Gen.StopApi.finishedLastUsed = "last_used_id = id_manager[target_table]" := ⟨rfl, rfl, rfl, rfl⟩

theorem repsDone_eq (rc k : Nat) : Gen.StopApi.repsDone rc k = decide (rc ≥ k) := by
  simp [Gen.StopApi.repsDone]

/-- `start_ids.get(target_table, 1)`: the default is the fresh run's start id -/
theorem startDefault_eq : Gen.StopApi.startDefault = (startId none : Int) := rfl

theorem targetId_eq (start count : Nat) (h : 1 ≤ start) :
    Gen.StopApi.targetId start count = (targetId start count : Nat) := by
  simp only [Gen.StopApi.targetId, targetId]; omega

/-- `last_used_id >= start + count - 1` over Python ints = the model's test over naturals
    (also for `start = 0`, `count = 0`, where the natural subtraction truncates harmlessly) -/
theorem finishedRows_eq (start count last : Nat) :
    Gen.StopApi.finishedRows last (Gen.StopApi.targetId start count) = finishedRows start count last := by
  simp only [Gen.StopApi.finishedRows, Gen.StopApi.targetId, finishedRows, targetId, ge_iff_le,
    decide_eq_decide]
  omega

/-- the model's `checkIfFinished` is the pinned increment followed by the pinned verdict -/
theorem checkIfFinished_eq (c : Crit) (start : Nat) (app : App) (last : Nat) :
    checkIfFinished c start app last =
      (⟨app.startingId, app.repCount + 1⟩,
        if c.tablename = Gen.StopApi.countReps then Gen.StopApi.repsDone (app.repCount + 1 : Nat) c.count
        else Gen.StopApi.finishedRows last (Gen.StopApi.targetId start c.count)) := by
  simp only [checkIfFinished, countReps_eq, finishedRows_eq, repsDone_eq]
  split <;> simp

/-! #### data_generator_runtime.py: `IdManager` -/

theorem idManager_shape :
    Gen.StopRuntime.idManagerInit = ["self.last_used_ids = defaultdict(lambda: 0)", "self.start_ids = {}"] ∧
    Gen.StopRuntime.getitem = "return self.last_used_ids[table_name]" ∧
    Gen.StopRuntime.restoreLastUsed = "self.last_used_ids = defaultdict(lambda: 0, state['last_used_ids'])" :=
  ⟨rfl, rfl, rfl⟩

/-- ids count from 0 in steps of 1: `r i` created rows = `r i` on the counter -/
theorem id_counter_eq :
    Gen.StopRuntime.lastUsedDefault = (last0 none : Int) ∧ Gen.StopRuntime.idIncrement = 1 := ⟨rfl, rfl⟩

/-- `start_ids = {name: val + 1 …}`: a continued run counts from the continuation's last id -/
theorem startIdOf_eq (v : Nat) : Gen.StopRuntime.startIdOf v = (startId (some v) : Nat) := by
  simp [Gen.StopRuntime.startIdOf, startId]

/-- hence, fresh or continued, `start = last0 + 1` (the hypothesis-free form used by the theorems) -/
theorem start_is_last0_succ (cont : Cont) :
    (startId cont : Int) = match cont with
      | none => Gen.StopApi.startDefault
      | some v => Gen.StopRuntime.startIdOf v := by
  cases cont with
  | none => rfl
  | some v => simp [startIdOf_eq]

/-! #### data_generator_runtime.py: the boundary and the loop -/

/-- `RuntimeContext.check_if_finished`: slots, then progress, then the finish test (= `Stop.boundary`) -/
theorem boundary_calls :
    Gen.StopRuntime.boundaryCalls =
      ["globls = self.interpreter.globals", "app = self.interpreter.parent_application",
       "globls.check_slots_filled()", "app.ensure_progress_was_made(globls.id_manager)",
       "return app.check_if_finished(globls.id_manager)"] := rfl

/-- `loop_over_templates_until_finished`: a whole pass over all statements, then the boundary test;
    no `break`, no test inside the pass (= `Stop.loop`) -/
theorem loop_skeleton :
    Gen.StopRuntime.loopPrologue = ["finished = False", "self.current_context = RuntimeContext(interpreter=self)"] ∧
    Gen.StopRuntime.loopTest = "not finished" ∧
    Gen.StopRuntime.loopBody =
      ["self.loop_over_templates_once(self.statements, continuing)",
       "finished = self.current_context.check_if_finished()",
       "self.iteration_count += 1", "continuing = True",
       "self.globals.reset_slots()", "self.row_history.reset_locals()"] ∧
    Gen.StopRuntime.loopOnce =
      ["for statement in statement_list:\n    statement.execute(self, self.current_context, continuing)"] :=
  ⟨rfl, rfl, rfl, rfl⟩

/-- the loop is entered from `execute()`, i.e. after `__init__` (and its validation) has returned -/
theorem execute_body :
    Gen.StopRuntime.executeBody =
      ["RowHistoryCV.set(self.row_history)", "self.current_context = RuntimeContext(interpreter=self)",
       "self.loop_over_templates_until_finished(self.continuing)", "return self.globals"] := rfl

/-- the validation of `Interpreter.__init__` (= `Stop.rejects`: `is not None`, then membership;
    repair 6604eb0) -/
theorem reject_shape :
    Gen.StopRuntime.stopTableName = "stop_table_name = parent_application.stopping_tablename" ∧
    Gen.StopRuntime.rejectTest = "stop_table_name is not None and stop_table_name not in parse_result.tables" ∧
    Gen.StopRuntime.rejectRaises = "DataGenNameError" := ⟨rfl, rfl, rfl⟩

/-! #### parse_recipe_yaml.py: where `parse_result.tables` comes from -/

/-- `parse_recipe` parses the file and then the recipe's own statement list — and nothing else that
    could register a table (= `StopTables.parseTables`: `parseL` over the statements only) -/
theorem parse_recipe_body :
    Gen.StopTables.parseRecipeTry =
      ["objects = parse_file(stream, context)", "statements = parse_statement_list(objects, context)"] ∧
    Gen.StopTables.parseRecipeCalls =
      ["ParseContext", "ParseResult", "build_update_recipe", "context.table_infos.items",
       "exc.DataGenSyntaxError", "getattr", "name.startswith", "parse_file", "parse_statement_list"] :=
  ⟨rfl, rfl⟩

/-- `tables` = the registered names that are not hidden (= `StopTables.visible`), passed on unchanged -/
theorem tables_filter :
    Gen.StopTables.tablesSource = "context.table_infos.items()" ∧
    Gen.StopTables.tablesFilter = "not name.startswith('__')" ∧
    Gen.StopTables.tablesKey = "name: value" ∧
    Gen.StopTables.resultTablesArg = "tables" ∧
    StopTables.visible "__x" = false ∧ StopTables.visible "_x" = true ∧ StopTables.visible "" = true :=
  ⟨rfl, rfl, rfl, rfl, by decide, by decide, by decide⟩

/-- Every path to `register_template` starts at `parse_statement_list` called by `parse_recipe` (or at
    a field value of something parsed on such a path); macros are expanded only by `parse_inclusions`,
    i.e. only when a parsed template or an expanded macro includes them (= the recursion structure of
    `StopTables.parseT / parseL / parseIncs / parseM`). -/
theorem registration_call_graph :
    Gen.StopTables.registrationCallGraph =
      ["register_template <- parse_object_template",
       "parse_object_template <- parse_field_value,parse_statement_list",
       "include_macro <- parse_inclusions",
       "parse_inclusions <- include_macro,parse_object_template",
       "parse_statement_list <- parse_friends,parse_recipe",
       "parse_friends <- include_macro,parse_object_template",
       "parse_fields <- include_macro,parse_object_template",
       "parse_field <- parse_fields",
       "parse_field_value <- parse_count_expression,parse_field,parse_field_value,parse_for_each_variable_definition,parse_structured_value_args,parse_variable_definition",
       "parse_structured_value <- parse_field_value",
       "parse_structured_value_args <- parse_structured_value"] ∧
    Gen.StopTables.tableInfosWriters = ["__init__", "register_template"] ∧
    Gen.StopTables.macrosWriters = ["parse_top_level_elements:context.macros.update"] := ⟨rfl, rfl, rfl⟩

/-- `register_template` keys `table_infos` by the template's table name (= `StopTables.register`);
    a template registers after its inclusions, fields and friends (= `parseT`); a macro expands its
    inclusions, then its fields, then its friends (= `parseM`) -/
theorem registration_order :
    Gen.StopTables.registerTemplateBody =
      ["table_info = self.table_infos.get(template.tablename, None) or TableInfo(template.tablename)",
       "self.table_infos[template.tablename] = table_info", "table_info.register(template)"] ∧
    Gen.StopTables.objectTemplateOrder =
      ["parse_inclusions", "parse_fields", "parse_friends", "context.register_template"] ∧
    Gen.StopTables.includeMacroExpansion =
      ["parse_inclusions(macro, fields, friends, context, parent_macros + (name,))",
       "fields.extend(parse_fields(parsed_macro.fields or {}, context))",
       "friends.extend(parse_friends(parsed_macro.friends or [], context))"] := ⟨rfl, rfl, rfl⟩

end SnowModel.Props.C07Bridge
