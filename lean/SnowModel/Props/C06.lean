/-
C06 — just_once rows: every later use of the nickname or table name denotes the same row.
L1 part (name registry).  That a just_once template *executes* only in the first iteration of the
first run is the skip rule of the L2 interpreter (`Props/C06L2.lean`) and of the differential.
-/
import SnowModel.Core.IdMachine
import SnowModel.Proofs.L1
import SnowModel.Props.C01

namespace SnowModel.Props.C06
open SnowModel.IdMachine SnowModel.Props.C01

/-- `op` creates a just_once row that re-binds the nickname `n`. -/
def RebindsNick (n : Name) : Op → Prop
  | .create _ (some n') true => n' = n
  | _ => False

/-- `op` creates a just_once row of table `t`. -/
def RebindsTable (t : Name) : Op → Prop
  | .create t' _ true => t' = t
  | _ => False

theorem step_nick_persists (s s' : St) (n : Name) (r : Row) (op : Op) (o : Obs)
    (h : s.pNick n = some r) (hop : ¬ RebindsNick n op) (hs : step s op = .ok (s', o)) :
    s'.pNick n = some r := by
  cases op with
  | create t nk j =>
    rw [step_create] at hs
    cases hs
    rw [createSt_pNick]
    cases nk with
    | none => exact h
    | some n' =>
      cases j with
      | false => exact h
      | true =>
        have hne : n ≠ n' := fun e => hop e.symm
        simp only
        rw [upd_ne _ _ hne]; exact h
  | lookup name =>
    rw [(step_persist_other s s' _ o hs (by intro _ _ _ e; cases e)).1]; exact h
  | endIteration =>
    rw [(step_persist_other s s' _ o hs (by intro _ _ _ e; cases e)).1]; exact h
  | saveLoad =>
    rw [(step_persist_other s s' _ o hs (by intro _ _ _ e; cases e)).1]; exact h

theorem step_table_persists (s s' : St) (t : Name) (r : Row) (op : Op) (o : Obs)
    (h : s.pTable t = some r) (hop : ¬ RebindsTable t op) (hs : step s op = .ok (s', o)) :
    s'.pTable t = some r := by
  cases op with
  | create t' nk j =>
    rw [step_create] at hs
    cases hs
    rw [createSt_pTable]
    cases j with
    | false => exact h
    | true =>
      have hne : t ≠ t' := fun e => hop e.symm
      simp only [if_true]
      rw [upd_ne _ _ hne]; exact h
  | lookup name =>
    rw [(step_persist_other s s' _ o hs (by intro _ _ _ e; cases e)).2]; exact h
  | endIteration =>
    rw [(step_persist_other s s' _ o hs (by intro _ _ _ e; cases e)).2]; exact h
  | saveLoad =>
    rw [(step_persist_other s s' _ o hs (by intro _ _ _ e; cases e)).2]; exact h

/-- A just_once row registered under a nickname keeps that binding through any further history
    (iterations and continuation save/load) that does not itself create a just_once row with the
    same nickname. -/
theorem justOnce_nick_persists (s s' : St) (n : Name) (r : Row) (ops : List Op) (obs : List Obs)
    (h : s.pNick n = some r) (hops : ∀ op ∈ ops, ¬ RebindsNick n op)
    (hr : run s ops = .ok (s', obs)) : s'.pNick n = some r := by
  induction ops generalizing s obs with
  | nil => simp only [run, Except.ok.injEq, Prod.mk.injEq] at hr; exact hr.1 ▸ h
  | cons op ops ih =>
    obtain ⟨s1, o, os, hst, hr', _⟩ := run_cons_ok hr
    exact ih s1 os (step_nick_persists s s1 n r op o h (hops op (List.mem_cons_self ..)) hst)
      (fun op' hop' => hops op' (List.mem_cons_of_mem _ hop')) hr'

/-- Same for the table-name binding. -/
theorem justOnce_table_persists (s s' : St) (t : Name) (r : Row) (ops : List Op) (obs : List Obs)
    (h : s.pTable t = some r) (hops : ∀ op ∈ ops, ¬ RebindsTable t op)
    (hr : run s ops = .ok (s', obs)) : s'.pTable t = some r := by
  induction ops generalizing s obs with
  | nil => simp only [run, Except.ok.injEq, Prod.mk.injEq] at hr; exact hr.1 ▸ h
  | cons op ops ih =>
    obtain ⟨s1, o, os, hst, hr', _⟩ := run_cons_ok hr
    exact ih s1 os (step_table_persists s s1 t r op o h (hops op (List.mem_cons_self ..)) hst)
      (fun op' hop' => hops op' (List.mem_cons_of_mem _ hop')) hr'

/-- Creating a just_once row registers it under its nickname and its table name, with the id it was
    given. -/
theorem justOnce_registers (s s' : St) (t : Name) (n : Name) (i : Nat)
    (hs : step s (.create t (some n) true) = .ok (s', .id i)) :
    s'.pNick n = some ⟨t, i⟩ ∧ s'.pTable t = some ⟨t, i⟩ ∧ (⟨t, i⟩ : Row) ∈ s'.created := by
  rw [step_create] at hs
  cases hs
  refine ⟨?_, ?_, ?_⟩
  · rw [createSt_pNick]; exact upd_same _ _ _
  · rw [createSt_pTable]; simp only [if_true]; exact upd_same _ _ _
  · rw [createSt_created]; simp

/-- **At the start of every later iteration or continuation run** (right after a boundary), looking
    the name up yields the persistent row with its original table and id: the table-name binding if
    there is one, else the nickname binding. -/
theorem justOnce_lookup_after_boundary (s s1 s2 : St) (o o2 : Obs) (op : Op)
    (hop : op = .endIteration ∨ op = .saveLoad) (hs : step s op = .ok (s1, o)) (n : Name) (r : Row)
    (h : s.pTable n = some r ∨ (s.pTable n = none ∧ s.pNick n = some r))
    (hl : step s1 (.lookup n) = .ok (s2, o2)) : o2 = .row r := by
  have hlk : (lookup s1 n).2 = o2 := by
    simp only [step, Except.ok.injEq] at hl
    rw [hl]
  rw [← hlk]
  rcases hop with rfl | rfl
  · simp only [step] at hs
    split at hs
    · cases hs
      exact lookup_unshadowed _ n r rfl rfl h
    · cases hs
  · simp only [step] at hs
    split at hs
    · cases hs
    · cases hs
      exact lookup_unshadowed _ n r rfl rfl h

/-- Within an iteration the persistent row is shadowed only by rows of the *current* iteration
    registered under the same name: if no such local row exists the lookup still yields it. -/
theorem justOnce_lookup_unshadowed (s s2 : St) (o2 : Obs) (n : Name) (r : Row)
    (hls : s.lastSeen n = none) (hno : s.nickObjs n = none)
    (h : s.pTable n = some r ∨ (s.pTable n = none ∧ s.pNick n = some r))
    (hl : step s (.lookup n) = .ok (s2, o2)) : o2 = .row r := by
  have hlk : (lookup s n).2 = o2 := by
    simp only [step, Except.ok.injEq] at hl
    rw [hl]
  rw [← hlk]
  exact lookup_unshadowed s n r hls hno h

/-- Persistent rows are real rows: whatever is registered was created (so C02 applies to them). -/
theorem justOnce_registered_created (names : List (Name × Name)) (ops : List Op) (s : St) (obs : List Obs)
    (hr : run (init names) ops = .ok (s, obs)) (n : Name) (r : Row)
    (h : s.pNick n = some r ∨ s.pTable n = some r) : r ∈ s.created := by
  obtain ⟨_, _, h3⟩ := run_refP names ops s obs hr
  apply h3
  rcases h with h | h
  · exact ⟨n, Or.inl h⟩
  · exact ⟨n, Or.inr (Or.inl h)⟩

/-! ### Non-vacuity -/
example :
    (run (init [("q", "Q"), ("Q", "Q"), ("C", "C")])
      [.create "Q" (some "q") true, .create "C" none false, .endIteration, .saveLoad,
       .lookup "q", .lookup "Q", .create "Q" none false, .lookup "Q", .lookup "q", .endIteration,
       .lookup "Q"]).toOption.map (·.2)
      = some [.id 1, .id 1, .ok, .ok, .row ⟨"Q", 1⟩, .row ⟨"Q", 1⟩, .id 2, .row ⟨"Q", 2⟩,
              .row ⟨"Q", 1⟩, .ok, .row ⟨"Q", 1⟩] := by decide

end SnowModel.Props.C06
